import vlib
SPEC = {
    "id": "C20",
    "coq_targets": ["theories/Sync/Props.vo", "theories/Sync/Findings.vo", "theories/Sync/Cases.vo"],
    "props": "theories/Sync/Props.v",
    "harness": [{"bin": "h_sync", "n": {"quick": 320, "thorough": 4000}, "known_bits": {}}],
    "rule": "runs of the real MultiPathManager under real tokio runtimes (current-thread: every observation checked; multi-thread: mutex-ordered and causally ordered observations checked, lock-free reads trusted) with 0-12 concurrent path_wait/cached_path/path_timeout callers, scripted fetcher (paths/empty/not-found/error, yields and delays), idle-timeout removal, refetch cycles, stop_managing_paths, manager drop, seeded schedule perturbation at 8 pause points; families: directed scenarios (among them: a failed lookup and its retry after the failure backoff -- callers before the first lookup, during it, between failure and retry, during the retry, for retry outcomes ok/empty/error, also two failed lookups in a row; a worker that exits before any lookup because the manager is dropped before its first poll, its handle view checked afterwards; callers arriving during a worker's idle exit), a sweep of the moment of stop_managing_paths against scripted slowness of callers/worker, a systematic sweep of the yield vector at the pause points on the current-thread runtime (no sleeps: the schedule is a function of the code), random scenarios; each run = one case (linearised trace of atomic steps, returned values, handle views after the end); non-trivial = more than 3 trace events; distinct by full trace text (distinct_schedules / distinct_outcome_multisets are in input_distribution)",
    "assumptions": [
        "tokio 1.52.3: a Notified future receives notify_waiters() from its creation on (documented guarantee, quoted in Sync/Model.v); std Mutex gives mutual exclusion; scc HashIndex entry_sync/remove_sync are atomic per key, removed values are dropped later",
        "the fetcher's future terminates and neither it nor the worker code between the locked blocks panics (explicit premise of the liveness theorems: the step LFetched; a worker that panics never runs its exit block and its callers wait forever; one such panic site, earliest_expiry().expect(..) in fetch_and_update, is removed by the C06 repair in the working tree)",
        "the scheduler is weakly fair towards the worker task (the liveness theorems count worker steps)",
        "one (src,dst) pair is modelled; keys of the concurrent map do not interact",
        "'dropped' means MultiPathManagerInner dropped (a worker keeps it alive while its lookup is in flight: Findings.overlapping_lookups_keep_manager_alive)",
    ],
    "trusted_extra": [
        "tokio runtime (scheduler, Notify, time), std::sync::Mutex, scc::HashIndex, arc-swap, tokio-util CancellationToken",
        "the harness moves the wall clock of its own process (its definition of clock_gettime adds an offset to CLOCK_REALTIME) to get past the 60-300 s failure backoff, and wakes the worker's select loop with an issue report for a foreign AS (public SendErrorReceiver)",
        "verif-hooks trace callback (crates/scion-stack/src/path/manager/verif_trace.rs and the single cfg lines calling it): events inside a critical section are logged while the lock is held",
    ],
}
def main(argv): vlib.standard_main(SPEC, argv)
