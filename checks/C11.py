import vlib
SPEC = {
    "id": "C11",
    "coq_targets": ["theories/StdPath/Props_C11.vo", "theories/StdPath/Cases_C11.vo", "theories/Common/AesCmac.vo"],
    "props": "theories/StdPath/Props_C11.v",
    "harness": [{"bin": "h_path_routing", "n": {"quick": 200, "thorough": 3000}, "known_bits": {}}],
    "rule": "step sequences (ingress from outside / from inside, egress, try_reverse) with NoValidation, HopMacValidator (three keys) and two custom validators on: every segment shape with <= 3 hops per segment (empty segments anywhere) x pointer values (quick: CurrHF up to the hop count and 63, CurrINF in {0, last valid, first invalid, 3}; thorough: all 64 x 4), directed wrap-around shapes (> 64 hop fields, pointer 63), authentic paths for every shape of 2..3 hops per segment x every combination of construction directions walked forward, reversed (at the end or after an ingress in the middle) and walked back with the key of each AS, every single-bit flip (thorough: also double) of an authentic path walked until rejected, random sequences on random paths; one-hop paths (set_second_hop on view and model, first-hop ExpTime 0/1/63/255 and random, SegID advanced or not, zeroed / pre-dirtied second-hop slot) whose second hop must carry the specification MAC; the model runs the Gallina AES-128-CMAC; distinct by full case text",
    "assumptions": ["a byte is a number below 256 (bytes_ok)",
                    "tamper detection is stated as a change of the MAC input at the owning AS plus the instance premise that the MAC of the changed input differs from the carried one (unforgeability of AES-CMAC is not a hypothesis; it is exercised on the real AES-CMAC by the bit-flip cases)"],
}
def main(argv): vlib.standard_main(SPEC, argv)
