import vlib
SPEC = {
    "id": "C08",
    "coq_targets": ["theories/Ingress/Props.vo", "theories/Ingress/Findings.vo", "theories/Ingress/Cases.vo"],
    "props": "theories/Ingress/Props.v",
    "harness": [{"bin": "h_ingress", "n": {"quick": 240, "thorough": 6000}, "known_bits": {}}],
    "rule": "datagrams run through the gateway's inbound arm (snap-dataplane verif-hooks: real inbound_datagram_check, "
            "try_dispatch, create_scmp_error into a reused pool buffer): valid packets of every source address kind x path "
            "type x peer kind {v4, v6, v4-mapped} matching and not, all 256 address type/length bytes with host bytes equal "
            "to the peer's, path types 0..255, truncation points, perturbed header/payload length and version, segment-length "
            "fields, sizes up to 9216, SDK-encoded packets, random bytes and bit flips; non-trivial = at least 12 bytes; "
            "distinct by (datagram, peer)",
    "assumptions": ["datagram elements are bytes (< 256); peer and local addresses are 4- or 16-octet IP addresses",
                    "the WireGuard layer (decryption, peer address = UDP source of the authenticated tunnel) is outside the model"],
    "trusted_extra": ["snap-dataplane cargo feature verif-hooks (tunnel_gateway/verif_hooks.rs): a 20-line copy of the Forwarded arm's control flow around the real private functions"],
}
def main(argv): vlib.standard_main(SPEC, argv)
