import vlib
SPEC = {
    "id": "C04",
    "coq_targets": ["theories/Combine/Props_C04.vo", "theories/Combine/Findings.vo", "theories/Combine/Cases.vo"],
    "props": "theories/Combine/Props_C04.v",
    "harness": [{"bin": "h_combine", "n": {"quick": 400, "thorough": 3000}, "args": ["--stream", "c04"],
                 "known_bits": {}}],
    "rule": "segment sets beaconed from 36 fixed small topologies (incl. AS numbers reused across ISDs, routes ordered differently by segment and link count; all AS / link / peering-link MTUs pairwise distinct with a random unique bottleneck) (core mesh, parent/child chains, diamonds, parallel links, two ISDs, peering between siblings / across cores / across ISDs) and the repository's 20-AS default graph; all ordered src/dst pairs incl. core and on-segment ASes; each also with shuffled input lists, duplicated segments, all non-core segments passed, a random subset of the segments, 2-4 peer entries per AS entry with dangling / zero / duplicate ones around the usable one, refreshed (same hops, later timestamp) segments and 3-6 instances of a segment with pairwise different timestamps / hop ExpTime (8 calls each); a case is non-trivial when it returns at least one path; distinct by full case text",
    "assumptions": ["slice::sort_by is a stable sort (modelled as insertion sort)",
                    "SegmentID order is taken from the implementation's SHA-256; fingerprints are compared structurally",
                    "hop-field ExpTime values are bytes (Rust type u8) in expiry_is_min"],
}
def main(argv): vlib.standard_main(SPEC, argv)
