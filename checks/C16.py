import vlib
SPEC = {
    "id": "C16",
    "coq_targets": ["theories/Policy/Props.vo", "theories/Policy/Findings.vo", "theories/Policy/Cases.vo"],
    "props": "theories/Policy/Props.v",
    "harness": [{"bin": "h_policy", "n": {"quick": 150, "thorough": 400},
                 "known_bits": {16: "empty_hop_list", 32: "ifaces_without_asn"}}],
    "rule": "exhaustive: every ACL with <= 2 entries over a 6-predicate alphabet x every hop sequence up to length 4 (thorough 6) over 4 hops, the 3-entry ACLs (quick: a sample, thorough: all 3456) x every sequence up to length 4 (thorough 5), and a second alphabet of hops that themselves carry wildcard ISD/AS; every hop-pattern expression to nesting depth 2 over 3 predicates (thorough: x every sequence up to length 6), depth 1 (thorough 2) over 6 predicates, every two-element sequence of depth<=1 expressions, a sample of depth 3, x every hop sequence up to length 4 (thorough 5); random larger patterns/ACLs/hop lists (depth <= 4, <= 5 top-level expressions, <= 12 hops); pattern, ACL and predicate strings from the grammar plus character mutations (incl. Unicode whitespace and non-ASCII), token lists handed to the Pratt parser directly (no EOI, EOI in the middle, empty), redundant-parenthesis/whitespace variants, predicate print/re-parse, Policy::matches, hops_from_path on interface lists; distinct by full case text, a case is non-trivial when its input is non-empty",
    "assumptions": ["hop predicates, hops and ACLs hold values of their Rust field types (u16 ISD/interfaces, AS numbers below 2^48) in the print/parse theorem"],
}
def main(argv): vlib.standard_main(SPEC, argv)
