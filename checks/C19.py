import vlib
SPEC = {
    "id": "C19",
    "coq_targets": ["theories/Combine/Props_C19.vo", "theories/Combine/Findings.vo", "theories/Combine/Cases.vo"],
    "props": "theories/Combine/Props_C19.v",
    "harness": [{"bin": "h_combine", "n": {"quick": 400, "thorough": 3000}, "args": ["--stream", "c19"],
                 "known_bits": {}}],
    "rule": "directed degenerate segment sets (all-zero interface ids, empty / single-entry / oversize segments, out-of-range MTUs, cross-wired peers, same segment as core and non-core), structural mutations of segment sets beaconed from small topologies, AS entries with 2-4 peer entries (zero-interface, duplicate, dangling, self-referring ones before / between / after the usable one; directed enumeration d13 plus random placement on peering topologies), valid sets with appended junk segments (oversize / unencodable, foreign, all-zero, empty; with a reference run on the valid set), and random segment soup up to 25 (thorough: 40) segments; a case is non-trivial when it has at least one segment; distinct by full case text",
    "assumptions": ["usize/u64 arithmetic on list lengths does not wrap (fewer than 2^64 AS entries)",
                    "slice::sort_by is a stable sort (modelled as insertion sort)",
                    "SegmentID order is taken from the implementation's SHA-256; fingerprints are compared structurally"],
}
def main(argv): vlib.standard_main(SPEC, argv)
