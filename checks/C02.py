import vlib
SPEC = {
    "id": "C02",
    "coq_targets": ["theories/Wire/Props_C02.vo", "theories/Wire/Cases_C02.vo", "theories/Wire/Findings_C02.vo"],
    "props": "theories/Wire/Props_C02.v",
    "harness": [
        {"bin": "h_wire_views", "n": {"quick": 256, "thorough": 4000}, "args": ["--mode", "full"]},
        {"bin": "h_wire_views", "n": {"quick": 2400, "thorough": 80000}, "args": ["--mode", "sizes"]},
    ],
    "rule": "mode full: structured SCION packets (path type x address nibbles x segment lengths x header-length +-1 x payload kinds UDP/SCMP/other), standalone path / field / UDP / SCMP buffers, truncated at field boundaries +-1; every view kind constructed, every safe accessor run, 1-4 safe mutators interleaved with accessors, all under catch_unwind; mode sizes: construction results only, sampled from the product of the size-determining fields x truncation points; a case is non-trivial when the constructor accepts; distinct by full case text",
    "assumptions": ["undefined behaviour of a release build is not observable in the model: out-of-range accesses are modelled as Panic and shown unreachable",
                    "the accessor numbering of Wire/Views.v and h_wire_views.rs is kept in sync by the correspondence check itself"],
}
def main(argv): vlib.standard_main(SPEC, argv)
