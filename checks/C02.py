import vlib
SPEC = {
    "id": "C02",
    "coq_targets": ["theories/Wire/Props_C02.vo", "theories/Wire/Cases_C02.vo", "theories/Wire/Findings_C02.vo"],
    "props": "theories/Wire/Props_C02.v",
    "harness": [
        {"bin": "h_wire_views", "n": {"quick": 256, "thorough": 4000}, "args": ["--mode", "full"]},
        {"bin": "h_wire_views", "n": {"quick": 2400, "thorough": 80000}, "args": ["--mode", "sizes"]},
    ],
    "rule": "mode full: structured SCION packets (path type x address nibbles x segment lengths x header-length +-1 x payload kinds UDP/SCMP/other), standalone path / field / UDP / SCMP buffers, truncated at field boundaries +-1; every view kind constructed, every safe accessor run, 1-4 safe mutators interleaved with accessors, all under catch_unwind; every case also runs every constructor family of `View` (try_from_slice, try_from_mut_slice, try_from_boxed, to_boxed, copy_to_slice into required-1 / required / required+5 bytes, Box<Raw>::try_into_udp / try_into_scmp, Box<typed packet>::into_raw) on the case's input bytes as they are (shorter, exact or longer than the view); mode sizes: construction results only: first, for every view kind (all 11, every typed SCMP message view), a buffer of exactly the required size, one byte short, and with 1 / 3 / 17 / 4099 trailing bytes (boxed constructor must accept the exact one only; oracle: an owned view reports and owns exactly the required size = the whole input, a borrowed view is the first required-size bytes), then samples from the product of the size-determining fields x truncation points; a case is non-trivial when the constructor accepts; distinct by full case text",
    "assumptions": ["undefined behaviour of a release build is not observable in the model: out-of-range accesses are modelled as Panic and shown unreachable",
                    "the accessor numbering of Wire/Views.v and h_wire_views.rs is kept in sync by the correspondence check itself",
                    "try_from_boxed with a length other than the required size is not executed on the fixed-size views when a probe on a slice-backed view shows the exact-size check is gone (it would be undefined behaviour inside the harness); the case is then reported as a violation (class 97)"],
}
def main(argv): vlib.standard_main(SPEC, argv)
