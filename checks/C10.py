import vlib
SPEC = {
    "id": "C10",
    "coq_targets": ["theories/Snap/Props_C10.vo", "theories/Snap/Cases_C10.vo", "theories/Snap/Findings.vo"],
    "props": "theories/Snap/Props_C10.v",
    "harness": [{"bin": "h_snap_token", "n": {"quick": 930, "thorough": 6000},
                 "known_bits": {16: "C10-malformed-aud"}}],
    "rule": "v0 and v1 SNAP tokens minted with the crate's constant test key and a second untrusted key; every single-field mutation of header (alg, kid, typ, extra member), of every claim (removed, retyped to each JSON kind, retimed to now-3600..now+3600 incl. the exact leeway edge now-61/-60/-59 and now+59/+60/+61, as integer and float), ver, aud, duplicates, PSSID shapes, signature damage, header/payload/signature splicing between two valid tokens, base64 padding/alphabet variants, wrong segment counts; then random combinations of 1-3 mutations and random strings; each run against SnapTokenVerifier::verify and against the real router (AuthMiddleware + register handler, lifetime recorded); a case is distinct by its construction (label, members, signature treatment)",
    "assumptions": ["clock between 1970-01-01T00:01:00Z and 2^63 s",
                    "string -> (header members, payload members) parsing, Ed25519, Uuid::parse_str and base64url of the v1 PSSID are oracles supplied with each token",
                    "the verifier reads the system clock: every case is run inside one wall-clock second (re-run when the second changes between start and end), so the recorded now is the one the verifier saw and the leeway edge (exp = now-60/-61, nbf = now+60/+61) is part of the correspondence",
                    "JWKS key resolution is modelled as a kid -> key map (the result of JwksKeyStore::await_key); the correspondence runs both the static-key configuration (verify + router) and a configuration with a real JwksKeyStore fed from a loopback HTTP endpoint (verify only; skipped and counted as jwks.unavailable if loopback HTTP is not possible)"],
    "trusted_extra": ["vendored jsonwebtoken source (version pinned by /repo/Cargo.lock) read by tools/gen.d/snap.py for the Validation defaults"],
}
def main(argv): vlib.standard_main(SPEC, argv)
