import vlib
SPEC = {
    "id": "C18",
    "coq_targets": ["theories/Signed/Props.vo", "theories/Signed/Findings.vo", "theories/Signed/Cases.vo"],
    "props": "theories/Signed/Props.v",
    "harness": [{"bin": "h_signed", "n": {"quick": 400, "thorough": 8000}, "known_bits": {16: "C18-unsupported-extensions"}}],
    "rule": "three eighths of the cases: segments of 1..5 entries with peer entries signed with real P-256 keys through the crate, then one mutation out of 16 kinds (bit flip of body/header/framing/signature/info, swap, truncation, dropped entry, appended or inserted copy, honest and forged extension, key substitution, header algorithm / length change), every entry validated by the real code; an eighth: SignedMessage::sign/validate with SHA-256/384/512, arbitrary associated-data chunks and verifier-side variations (other data, other declared length, other key, re-chunking, bit flips); one sixteenth: segment values built through add_entry (half of them with raw extension bytes) converted to RPC and back; three sixteenths: control-plane PathSegment messages and a quarter: daemon Path messages built structurally with boundary values (ids 0/65535/65536/2^32/2^64-1, MTU beyond 16 bits, missing options, MAC lengths 0/5/6/7, metadata vectors of right and wrong lengths, non-decodable parts), plus round trips of really signed segments; non-trivial = at least two entries (signing), at least one entry (segments), a value or at least one interface (paths); distinct by full case text",
    "assumptions": [
        "AsEntry::associated_data finds the position of the entry by reference identity (std::ptr::eq on the element of as_entries): the model takes the index of the stored entry (or the number of entries for an entry that is not part of the segment) as an argument",
        "ECDSA-P256 is unforgeable and SHA-256 collision resistant: a signature verifies under a key over an input only if exactly that input was signed with that key (the correspondence check uses the ledger of honest signing events as the ideal scheme; the theorems take sig_verify/hash as Section variables)",
        "prost decode/encode, the DER signature parser, StandardPathView::try_from_slice and SocketAddr parse/print are oracles: the model receives their results on the bytes of each case",
    ],
    "trusted_extra": [
        "framing of the signed input: the protobuf encoding of HeaderAndBodyInternal (two non-empty length-delimited fields) and DER signatures are prefix-free (premises of reorder_changes_digest_input; instance Framing.LenPrefixed)",
        "p256/ecdsa/sha2 (signature scheme and digests), prost/prost-types (protobuf codec, Duration normalisation is modelled), std SocketAddr text form: not modelled, used as oracles",
    ],
}
def main(argv): vlib.standard_main(SPEC, argv)
