import vlib
SPEC = {
    "id": "C12",
    "coq_targets": ["theories/StdPath/Props_C12.vo", "theories/StdPath/Cases_C12.vo", "theories/StdPath/Findings.vo"],
    "props": "theories/StdPath/Props_C12.v",
    "harness": [{"bin": "h_path_views", "n": {"quick": 300, "thorough": 6000}, "known_bits": {}}],
    "rule": "standard-path byte strings built outside the implementation: directed witnesses (the property's (2,1,0)/CurrHF 5 shape, > 64 hop fields, zero-length first/middle segments), every shape with <= 3 hops per segment (including empty segments anywhere) x pointer values (quick: every CurrHF up to two past the end and 63, CurrINF in {0, last valid, first invalid, 3}; thorough: all 64 x 4), random well-formed paths up to 63 hops per segment, random malformed meta headers with random reserved bits, one-hop paths; a case is non-trivial when its case text is new; every operation offered on both representations is run on the view and on the model made from it",
    "assumptions": ["a byte is a number below 256 (bytes_ok), the typing invariant of [u8]", "model fields are within the ranges of their Rust types (path_typed)"],
}
def main(argv): vlib.standard_main(SPEC, argv)
