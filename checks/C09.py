import vlib
SPEC = {
    "id": "C09",
    "coq_targets": ["theories/Snap/Props_C09.vo", "theories/Snap/Cases_C09.vo", "theories/Snap/Findings.vo"],
    "props": "theories/Snap/Props_C09.v",
    "harness": [{"bin": "h_snap_registry", "n": {"quick": 400, "thorough": 12000}, "known_bits": {}}],
    "rule": "histories over 2 keys x 3 identities x 2 addresses of register(key,identity,lifetime in {0,5,10,..}), clock advance, purge, connect (fresh real gotatun client tunnel + handshake + confirming keepalive), data-in, data-out, timer tick, run against the real IdentityRegistry and the real SnapTunServer (authorisation wrapper answering from the registry at base + virtual time): 18 directed histories (lapse between handshake and first data, shorter re-registration, supersede, identity moved to another key, second client on the same / another address, queued outbound drained after a lapse, ...), all histories of length 1-2 over the 32-event alphabet (thorough; seeded sample in quick) plus all length-3 histories starting with a 5 s registration under key 0 (thorough), sampled histories of length 3-6, random histories of length 6-40; after EVERY event has_authorization(now, id) and has_authorization(base, id) for all identities are compared with the model and with the history-only predicate auth_spec; a case is one history, distinct by its event list",
    "assumptions": ["WireGuard (ana-gotatun) is an abstract endpoint: an endpoint created for peer static key X yields a decrypted payload only for datagrams authenticated by X (hypothesis wg_authenticates, satisfied by the toy endpoint)",
                    "the rate limiter is assumed to let packets through (its rejections only drop more)",
                    "timer-driven behaviour of the tunnel (keepalives, expiry after minutes of real time) is not exercised by the correspondence: update_timers is called but no real time passes",
                    "keys, identities and socket addresses are abstract names; BTreeMap/HashMap are modelled by their lookup functions"],
    "trusted_extra": ["ana-gotatun 0.2.1-ana.0 (real tunnels in the correspondence, oracle in the theorems)"],
}
def main(argv): vlib.standard_main(SPEC, argv)
