import vlib
SPEC = {
    "id": "C03",
    "coq_targets": ["theories/Wire/Props_C03.vo", "theories/Wire/Cases_C03.vo", "theories/Wire/Findings_C03.vo"],
    "props": "theories/Wire/Props_C03.v",
    "harness": [
        {"bin": "h_wire_codec", "n": {"quick": 240, "thorough": 5000},
         "known_bits": {16: "C03-noncanonical-enum-tag", 32: "C03-dirty-buffer", 64: "C03-decoder-accepts-unencodable-path-index"}},
    ],
    "rule": "first a fixed list of boundary-directed models (in addition to n): for EVERY payload kind (raw, UDP, SCMP echo request / reply / unknown, the five SCMP error kinds) total payload sizes 65534 / 65535 / 65536 / 65537 on an empty-path header and 65535 / 65536 on a standard-path header (variable part sized from the implementation's own required_size), error quotes cut at 1232 bytes (whole packet 1231..1234), the two fixed-size traceroute kinds, header sizes 1016 / 1020 / 1024 / 1028 (unsupported path data; standard paths of 77..80 hops with IPv6 hosts) x raw / UDP / echo / error payloads; oracle on the implementation's bytes: HdrLen, PayloadLen and UDP Length read back from the output equal the true sizes as numbers (Spec_C03.length_fields_match); then two thirds packet models (every address kind incl. service and unknown 4/8/12/16-byte types, empty / one-hop / standard paths with 1..63 hops per segment and totals up to 79 / unsupported paths, raw / UDP / all ten SCMP kinds, payload sizes 0,1,..,65000 and 65526..65537, 2^17, flow id / traffic class extremes; every third model 'hostile': unrepresentable ids, aliasing tags, oversize fields) through wire_valid / required_size / try_encode_to_vec / try_encode into a 0xff-filled buffer / decode / ChecksumDigest at an odd address; one third byte strings (encoder outputs as is, reserved-bit flips, trailing byte, truncation, wrong PayloadLen, L4 and header bit flips, random address nibbles, random bytes, wrong packet kind) through the decoder and back through the encoder; a case is non-trivial when the encoder resp. decoder accepts; distinct by full case text",
    "assumptions": ["little-endian target (the byte order of ChecksumDigest::add_slice's 16-bit loads is written out for x86-64/aarch64)",
                    "Rust typing of the model (model_wf): every field within its integer type, ArrayVec capacities"],
}
def main(argv): vlib.standard_main(SPEC, argv)
