import vlib
SPEC = {
    "id": "C15",
    "coq_targets": ["theories/Text/Props.vo", "theories/Text/Cases.vo", "theories/Text/Findings.vo"],
    "props": "theories/Text/Props.v",
    "harness": [{"bin": "h_text", "n": {"quick": 800, "thorough": 8000},
                 "known_bits": {16: "C15-svc-unnamed"}}],
    "rule": "one FromStr call of one of the 15 sciparse identifier/address types, or one call of the scion-stack TXT record parser, per case: values (boundary + random) through the real Display then the real FromStr; grammar-derived strings with the alternative spellings; single/double-edit mutations (ASCII punctuation, whitespace, multi-byte UTF-8); every string of length 0..3 over the alphabet '[ ] : , - 0 1 f x' and space; bracket mismatches; numeric overflow tokens; forms of one type fed to another; directed probe inputs; TXT records: canonical records of random address lists, whitespace/spelling variants (ASCII and Unicode whitespace), mutations, prefix variants, separators/brackets dropped or doubled, all payloads of length 0..3 over '[ ] , 1 - . : x' and space. Non-trivial = non-empty input; distinct by (type, input)",
    "assumptions": ["Ipv4Addr/Ipv6Addr FromStr and Display are std-library code: not modelled; oracle tables in the correspondence check, round-trip + alphabet hypotheses (satisfiable, instance given) in the theorems",
                    "input strings are valid UTF-8 (guaranteed by the Rust type &str)"],
    "trusted_extra": ["cargo feature verif-hooks of scion-stack: resolver::txt::verif_hooks::parse_txt_record exposes the private parse_txt_payload (add-only)", "Rust std: Ipv4Addr/Ipv6Addr FromStr+Display (assumed: display then parse is the identity, IPv4 text is digits and dots, IPv6 text is hex digits, colons and dots)"],
}
def main(argv): vlib.standard_main(SPEC, argv)
