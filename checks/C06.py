import os, sys
sys.path.insert(0, os.path.dirname(os.path.abspath(__file__)))
import pathmgr_common
KNOWN = {16: "C06-backoff-outlasts-threshold"}
SPEC = {
    "id": "C06",
    "coq_targets": ["theories/PathMgr/Props_C06.vo", "theories/PathMgr/Findings.vo", "theories/PathMgr/Cases.vo"],
    "props": "theories/PathMgr/Props_C06.v",
    "harness": [{"bin": "h_pathmgr", "n": {"quick": 420, "thorough": 6000}, "args": ["--prop", "C06"], "known_bits": KNOWN},
                # the hand-out defect was visible only without debug assertions: same histories, release profile
                # (thorough tier only: a release rebuild of scion-stack takes minutes whenever /repo changes; in the
                # debug profile the same defect shows as a caught panic, outcome 99)
                {"bin": "h_pathmgr", "n": {"quick": 90, "thorough": 2000}, "args": ["--prop", "C06"], "release": True, "known_bits": KNOWN,
                 "tiers": ["thorough"]}],
    "rule": "event histories on one real PathSet + PathIssueManager (verif-hooks probe), debug and release profile: directed histories (expiry between two ticks under failing lookups / under lookups returning the same path, refresh with an already expired path, one issue re-reported outside the dedup window, distinct issues beyond the cache size, max_cached 0), enumerated and random histories with clock deltas {0,1,d-1,d,d+1} for d in thresholds, expiries and backoff steps, configurations from the validator's boundary (rejected ones included); oracles on the implementation's observations: handed-out path not expired, cache size, issue map and FIFO size, refetch window, no panic, and on timely stretches (send not later than the next due tick) no 'no path' answer while a cached path is valid, and after a successful lookup with room in the cache every allowed unexpired path of the answer is cached (new or refreshing a cached entry) and the slot is not empty when one of them is valid",
    "assumptions": ["hand-out instants before 2^32 s (the code truncates now to u32 seconds)",
                    "backoff parameters non-negative and finite (Duration::from_secs_f32 panics otherwise; not checked by the validator)",
                    "durations small enough that SystemTime + Duration does not overflow",
                    "no 64-bit hash collision between issue ids",
                    "issue memory / no-panic theorems: positive deduplication window (in the correspondence zero-window configurations are run with distinct report timestamps per issue)"],
    "trusted_extra": ["verif-hooks probe (crates/scion-stack/src/path/manager/verif_hooks.rs): thin adapter calling the real maintain / handle_issue_rx / report_path_issue / cached_path / path"],
}
def main(argv): pathmgr_common.main(SPEC, argv)
