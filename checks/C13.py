import vlib
SPEC = {
    "id": "C13",
    "coq_targets": ["theories/Network/Props_C13.vo", "theories/Network/Findings.vo", "theories/Network/Cases.vo"],
    "props": "theories/Network/Props_C13.v",
    "harness": [{"bin": "h_network", "n": {"quick": 1080, "thorough": 7600}, "args": ["--mode", "c13"],
                 "known_bits": {16: "C13-shortcut-rejected", 32: "C13-peering-unsupported", 64: "C13-peer-link-segment-change", 128: "C13-onehop-unchecked"}}],
    "shard_eval": "coqtop",
    "rule": "pocketscion topologies (directed shortcut/peering/on-path/multi-core/two-ISD shapes, multi-ISD shapes with AS numbers repeated across ISDs, sampled small DAG family with permuted interface numbering, random up to 12 [20] ASes); every case = topology + packet + clock + injection point; packets are offered paths, reverses of arrived packets, lifetime cases (an offered path minted anew with a different timestamp per segment and ExpTime from {0,1,2,63,127,254,255,random}; clock at the last second of the lifetime by the specification formula ts + floor((ExpTime+1)*337.5 s), one second before and after, and around the youngest timestamp; oracle: arrives iff inside Spec.spec_time_ok for every hop field), address cases (an offered path without peering whose DESTINATION ISD-AS is rewritten to the right one / another existing AS / the source AS / the same AS number in another ISD / 0-<as> / <isd>-0 / 0-0, and the same forms in the SOURCE field, which the router never reads; oracle: delivered nowhere by implementation and reference router unless the destination EQUALS the AS the path ends in -- Spec.spec_local_dst, wildcards are not addresses), and mutated ones (single-field corruptions, spliced/recombined authentic hop fields, link down, clock around timestamp/expiry, wrong ingress point, mid-path injection, pointers, destination incl. wildcard forms; per topology attacker-spliced segment changes from authentic hop fields for every realizable ordered pair of arrival/departure link types, core->core first; >64 hop fields at CurrHF 63; one-hop paths); non-trivial = at least 2 hop fields; distinct by full case text",
    "assumptions": ["structural packets: well-formed standard paths (1..3 non-empty segments); byte-level malformed encodings are C11/C12's domain",
                    "ignore_macs = false; empty paths are not modelled; one-hop paths: router modelled as written (no checks), see finding C13-onehop-unchecked"],
}
def main(argv): vlib.standard_main(SPEC, argv)
