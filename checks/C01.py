import vlib
SPEC = {
    "id": "C01",
    "coq_targets": ["theories/Network/Props_C01.vo", "theories/Network/Findings.vo", "theories/Network/Cases.vo"],
    "props": "theories/Network/Props_C01.v",
    "harness": [
        {"bin": "h_network", "n": {"quick": 180, "thorough": 2400}, "args": ["--mode", "c01"], "known_bits": {16: "C01-peer-mac-over-beta-i"}},
        {"bin": "h_segments", "n": {"quick": 90, "thorough": 1000}, "known_bits": {16: "C01-peer-mac-over-beta-i"}},
        {"bin": "h_joinable", "n": {"quick": 150, "thorough": 1800}, "known_bits": {}},
    ],
    "shard_eval": "coqtop",
    "rule": "h_network: every case = pocketscion topology (directed shortcut/peering/on-path/multi-core/two-ISD shapes, two- and three-ISD shapes whose AS NUMBERS repeat across ISDs (same number core in every ISD, leaf in one and core in the other, equally numbered leaves joined by a peering link), sampled small DAG family (two-ISD members half of the time with per-ISD numbering) with permuted interface numbering, random up to 12 [20] ASes) + one path offered by SegmentRegistry::paths (real registry, real combinator) or the reverse of the packet that arrived; oracle: the reference router delivers it at the destination crossing exactly the metadata's interfaces, and the reply over the reversed arrived path reaches the sender. h_segments: every segment the real control plane builds for sampled AS pairs (random SegID, expiry), every MAC recomputed by the beacon model; h_joinable: topologies that put (src,dst) pairs into every reachable row of the ListSegmentPlan table (several cores per ISD with single-homed leaves, single-core ISDs, two ISDs, the repeated-AS-number shapes with cross-ISD pairs first; wildcard any-core destinations); per pair ALL segments of the topology (beaconing recomputed by the harness, independent of the registry) and what the real lookup path (registry lister + ListSegmentPlan + combinator) offers; oracle Spec.joinable / joinable_any (specification rules without peering) implies offered > 0; non-trivial = at least 2 hop fields / AS entries / one segment; distinct by full case text",
    "assumptions": ["segments are built by the pocketscion control plane from the topology (one entry per AS along existing links)",
                    "take_while in update_macs never stops early: no stored entry equals the new MAC-less entry"],
}
def main(argv): vlib.standard_main(SPEC, argv)
