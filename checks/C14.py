import vlib
SPEC = {
    "id": "C14",
    "coq_targets": ["theories/Scmp/Props.vo", "theories/Scmp/Findings.vo", "theories/Scmp/Cases.vo"],
    "props": "theories/Scmp/Props.v",
    "harness": [{"bin": "h_scmp", "n": {"quick": 560, "thorough": 8000},
                 "known_bits": {16: "C14-bad-checksum-echo-answered",
                                32: "C14-checksum-omits-message",
                                64: "C14-unknown-error-type-answered",
                                128: "C14-gateway-answers-scmp-error",
                                256: "C14-unknown-error-type-not-reported"}}],
    "rule": "direct layout calls (n, h boundary-directed around 1232 - h - HEADER, h up to 2^40); SCMP errors of all five kinds through ScionScmpPacket::try_encode_to_vec over every address/path combination with offending packets 0..9216 B placed around the truncation point; the SNAP gateway's create_scmp_error on inbound datagrams failing its check; DefaultEchoHandler on hand-built received packets (every SCMP type/code, truncations, wrong checksums, error quoting an error, odd addresses/paths, non-SCMP); pocketscion's local simulator with every error kind (round-robin), every StandardRoutingError::to_scmp_error variant (round-robin), local dispatch, and its router answering echo/traceroute requests (handle_scmp); pocketscion's ROUTING simulator on real paths of a 4-AS topology (ScionNetworkSim::simulate_traversal + handle_local_routing_action as in NetworkSimulator::dispatch): link down, corrupted MAC, expired, future timestamp, non-local delivery, no receiver, wrong ingress interface, unknown interface, mangled path, SCMP-error and echo-request offending packets, offending sizes below and above the truncation point -- quote compared with the packet as it stood at the router that raised the error; the socket receive loop with the real ScmpErrorHandler on mixed UDP/SCMP streams. Distinct by full case text; every case is non-trivial (it runs the implementation).",
    "assumptions": ["the structural path handed to the echo-handler model is the implementation's own path().to_model(), cross-checked per case against Wire.Codec.decode_header (view/model agreement is C12's subject)",
                    "received packets are decodable raw packets (bytes < 256, ScionRawPacketView::try_from_slice accepts the buffer): what the underlay guarantees to the socket",
                    "checksum VALUE of built packets is C03's theorem; here it is judged on the implementation's output by two independent RFC 1071 implementations (Rust harness, Coq Spec)"],
}
def main(argv): vlib.standard_main(SPEC, argv)
