import vlib
SPEC = {
    "id": "C17",
    "coq_targets": ["theories/Defrag/Props.vo", "theories/Defrag/Cases.vo"],
    "props": "theories/Defrag/Props.v",
    "harness": [{"bin": "h_defrag", "n": {"quick": 480, "thorough": 16000},
                 "known_bits": {16: "C17-dup-reemit"}}],
    "rule": "frame schedules from the real Fragmenter (boundary sizes x MTUs; permuted, duplicated, dropped, interleaved), hostile headers, and directed completion-test schedules; a case is non-trivial when it has more than one frame; distinct by full case text",
    "assumptions": ["stream offsets identify packets (no 2^64 wrap within one schedule)"],
}
def main(argv): vlib.standard_main(SPEC, argv)
