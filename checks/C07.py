import os, sys
sys.path.insert(0, os.path.dirname(os.path.abspath(__file__)))
import pathmgr_common
KNOWN = {16: "C07-hysteresis-keeps-failed", 32: "C07-ingress-not-matched"}
SPEC = {
    "id": "C07",
    "coq_targets": ["theories/PathMgr/Props_C07.vo", "theories/PathMgr/Findings.vo", "theories/PathMgr/Cases.vo"],
    "props": "theories/PathMgr/Props_C07.v",
    "harness": [{"bin": "h_pathmgr", "n": {"quick": 390, "thorough": 6000}, "args": ["--prop", "C07"], "known_bits": KNOWN},
                {"bin": "h_pathmgr", "n": {"quick": 450, "thorough": 2000}, "args": ["--mode", "match"], "known_bits": KNOWN}],
    "rule": "(1) event histories on one real PathSet (verif-hooks probe) weighted towards issue reports: interface down on transit egress / transit ingress / source egress / destination ingress, connectivity down with right and wrong ingress, first-hop send failures (own and foreign source AS), issues cached before the first fetch, issues left pending across a refetch, refetches between reports, elapsed times around the 30 s / 90 s half-lives; oracles on the observations: after a handled report that affects the path in use while a valid unaffected path is cached the slot must hold an unaffected path (failures are classified by the theorem's premises evaluated on the observed scores), a report not about the path in use leaves the slot alone, a report about no cached path leaves the cache order alone; every cached path leaving through a reported interface is penalised by at least the literal penalty (observed scores before/after); at a lookup a new path entering the cache visibly penalised is never preferred over a new allowed unexpired path of the same answer that no report is about (it must not be dropped, the slot must not move to the penalised one; directed: fresh issue, then 3 new paths into max_cached_paths_per_pair = 2 with the avoiding path last); batches of 2-3 reports queued before the worker handles the first are judged as one step (affected = by any report of the batch); after every lookup a path ENTERING the cache carries at most the DECAYED penalties (literal 1.0 / 0.4, half-life 30 s) of the issues reported about its interfaces, the cache is ranked by observed score, and with no path in use the best-ranked valid path is taken into use (directed: report, many half-lives, lookup bringing a new path over that interface). (2) direct matching: every issue kind built from every interface of 6 routes (with and without metadata) against every path: real target_type + matches_path vs the model and vs the property's reading 'uses the interface'",
    "assumptions": ["no 64-bit hash collision between issue ids", "the issue broadcast channel does not lag",
                    "interface lists are well formed (src egress; ingress/egress per transit AS; dst ingress; every AS once) for the matching theorem"],
    "trusted_extra": ["verif-hooks probe (crates/scion-stack/src/path/manager/verif_hooks.rs): thin adapter calling the real maintain / handle_issue_rx / report_path_issue / cached_path / path / target_type / matches_path",
                      "Section hypotheses on the decay function (sign preserving, identity at 0, contracting, vanishing) with the instance decay_drop; the correspondence uses a 40-bit fixed-point 2^(-t/h)"],
}
def main(argv): pathmgr_common.main(SPEC, argv)
