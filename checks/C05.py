import os, sys
sys.path.insert(0, os.path.dirname(os.path.abspath(__file__)))
import pathmgr_common
SPEC = {
    "id": "C05",
    "coq_targets": ["theories/PathMgr/Props_C05.vo", "theories/PathMgr/Cases.vo"],
    "props": "theories/PathMgr/Props_C05.v",
    "harness": [{"bin": "h_pathmgr", "n": {"quick": 420, "thorough": 6000}, "args": ["--prop", "C05"]}],
    "rule": "event histories on one real PathSet (verif-hooks probe): directed boundary histories, histories over a 10-letter alphabet on a 4-path universe (sampled; thorough: all of length 5 when they fit), random histories up to length 60 with clock deltas straddling every threshold; policies: none / arbitrary tables / ACLs / ACL+table, evaluated outside the manager for the oracle; a case is non-trivial when it has at least one event; distinct by full case text",
    "assumptions": ["the fetcher answers only with paths of the requested (src,dst) pair (the manager never inspects them)",
                    "no 64-bit hash collision between issue ids / SHA-256 collision between path fingerprints",
                    "the issue broadcast channel does not lag (fewer pending issues than its capacity)"],
    "trusted_extra": ["verif-hooks probe (crates/scion-stack/src/path/manager/verif_hooks.rs): thin adapter calling the real maintain / handle_issue_rx / report_path_issue / cached_path / path"],
}
def main(argv): pathmgr_common.main(SPEC, argv)
