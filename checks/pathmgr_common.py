"""Shared flow of the C05/C06/C07 checks (path manager area): the generic flow of
vlib.standard_main plus (a) counting the histories whose comparison stopped at a decision
inside the f32-vs-exact margin (verdict bit 4: skipped and counted, not a disagreement),
(b) an optional release-profile run of the same harness."""
import json, os, sys
import vlib

def main(spec, argv):
    c = vlib.Check(spec)
    replay = None
    if "--tier" in argv: c.tier = argv[argv.index("--tier") + 1]
    if "--replay" in argv: replay = argv[argv.index("--replay") + 1]
    if replay:
        r = json.load(open(replay)); c.seed = r.get("seed", c.seed); c.tier = r.get("tier", c.tier)
    if c.gen(): c.proofs()
    total = distinct = skipped = 0; samples = []; dist = {}
    for h in spec.get("harness", []):
        if c.tier not in h.get("tiers", ["quick", "thorough"]): continue
        n = h["n"][c.tier]
        if getattr(c, "soft", None) and c.tier == "quick":
            n *= 3   # a mirrored statement changed shape: re-validate the model on more cases
        hargs = ["--n", str(n)] + h.get("args", [])
        rel = h.get("release", False)
        if not c.build_harness([h["bin"]], release=rel): continue
        tag = h["bin"] + ("-release" if rel else "") + "".join(a for a in h.get("args", []) if not a.startswith("--"))
        outdir = os.path.join(vlib.CACHE, "cases", c.id + "-" + tag)
        summ = c.run_harness(h["bin"], hargs, outdir, release=rel)
        if summ is None: continue
        verdicts = c.eval_shards(outdir)
        if len(verdicts) != summ["total"]:
            c.proof_break("correspondence-eval", f"{tag}: {len(verdicts)} verdicts for {summ['total']} cases")
        c.classify(verdicts, summ, h["bin"], hargs, h.get("known_bits", {}))
        skipped += sum(1 for v in verdicts if v & 4)
        if replay:
            r = json.load(open(replay)); k = r.get("case_index", -1)
            if r.get("harness") == h["bin"] and r.get("harness_args") == hargs and 0 <= k < len(verdicts):
                print(f"REPLAY case {k}: verdict bits now = {verdicts[k]} (was {r.get('verdict_bits')}); case: {summ['index'][k]}")
        total += summ["total"]; distinct += summ["distinct"]; samples += summ["samples"][:2]
        for k, v in summ["dist"].items(): dist[tag + "." + k] = v
    c.finish({"evaluations": total, "distinct_nontrivial": distinct, "samples": samples or ["(no cases)"],
              "input_distribution": dist, "rule": spec.get("rule", ""),
              "skipped_inside_f32_margin": skipped})
