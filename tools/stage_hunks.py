#!/usr/bin/env python3
"""Stage (git apply --cached) only those hunks of /repo's working-tree diff of FILE whose text
matches (or with --not: does not match) REGEX.  Used to split the working tree into one commit
per defect.  usage: stage_hunks.py [--not] [--list] FILE REGEX"""
import re, subprocess, sys
args = sys.argv[1:]
neg = "--not" in args; lst = "--list" in args
args = [a for a in args if not a.startswith("--")]
f, rx = args[0], re.compile(args[1], re.S)
d = subprocess.run(["git", "-C", "/repo", "diff", "-U3", "--", f], capture_output=True, text=True).stdout
if not d: sys.exit("no diff for " + f)
parts = re.split(r"(?m)^(?=@@ )", d)
head, hunks = parts[0], parts[1:]
sel = []
for i, h in enumerate(hunks):
    m = bool(rx.search(h)) != neg
    if lst: print(f"--- hunk {i} {'SELECTED' if m else ''}\n{h}")
    if m: sel.append(h)
if lst: sys.exit(0)
if not sel: sys.exit("no hunk selected")
p = subprocess.run(["git", "-C", "/repo", "apply", "--cached", "--recount", "-"], input=head + "".join(sel), text=True, capture_output=True)
print(p.stdout, p.stderr, f"staged {len(sel)}/{len(hunks)} hunks of {f}")
sys.exit(p.returncode)
