#!/usr/bin/env python3
"""Prints the markdown table 'which check catches which seeded change' from seeded/*/meta.json."""
import glob, json, os
root = os.path.join(os.path.dirname(os.path.abspath(__file__)), "..")
print("| seeded change | property | needs to manifest | result |")
print("|---|---|---|---|")
for d in sorted(glob.glob(os.path.join(root, "seeded", "*", "meta.json"))):
    m = json.load(open(d)); n = os.path.basename(os.path.dirname(d))
    res = []
    for k in sorted(x for x in m if x.startswith("verif_r")):
        r = m[k]; res.append(f"{k[6:]}: " + (r.get("how") or ("caught" if r.get("caught") else "MISSED")))
    if "verif_result" in m: res.append(m["verif_result"])
    need = (m.get("needs_to_manifest") or "").replace("|", "/").replace("\n", " ")[:160]
    print(f"| {n} | {m.get('property')} | {need} | {'; '.join(res).replace('|','/')} |")
