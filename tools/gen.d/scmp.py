"""SCMP constructs the C14 model depends on -> Gen/ScmpConfig.v
(src, need, expect, emit, missing, re are injected by tools/gen.py)

HARD (`need`): the constants and tables the model IMPORTS -- SCMP_ERROR_MAX_PACKET_SIZE, the
message type numbers, every error kind's HEADER_SIZE_BYTES, the variant list of `is_error`, the
message kinds the echo handler answers, the type bounds of the two "never answer an SCMP error"
guards.  Their regular expressions only look for the number / the variant names.

SOFT (`expect`): every mirrored statement whose behaviour the C14 harness observes on the real
code -- the truncation formula (CLay cases call the layouts directly), the encoders and the header
size they are handed (CEnc), the echo handler (CHnd, CStr), the error handler and the receive
loop (CStr), pocketscion's reply path (CSim, CSimEcho, CNet), the gateway (CEnc src 2).  They pin
operators, constants and callee names, not local names or statement layout.
"""

ERR_KINDS = ["DestinationUnreachable", "PacketTooBig", "ParameterProblem",
             "ExternalInterfaceDown", "InternalConnectivityDown"]

def _fn_body(text, sig_rx):
    """text of the function whose signature matches sig_rx, up to the next item at the same or a
    smaller indentation (rough, good enough to scope a search)"""
    m = re.search(sig_rx, text)
    if not m:
        return None
    start = m.start()
    line_start = text.rfind("\n", 0, start) + 1
    line = text[line_start:text.find("\n", start)]
    indent = len(line) - len(line.lstrip(" "))
    end_rx = re.compile(r"\n" + " " * indent + r"\}\n")
    e = end_rx.search(text, m.end())
    return text[start:(e.end() if e else len(text))]

def generate():
    lay_rel = "crates/libs/sciparse/src/proto/payload/scmp/layout.rs"
    mod_rel = "crates/libs/sciparse/src/proto/payload/scmp/model.rs"
    typ_rel = "crates/libs/sciparse/src/proto/payload/scmp/types.rs"
    view_rel = "crates/libs/sciparse/src/proto/payload/scmp/view.rs"
    pkt_rel = "crates/libs/sciparse/src/proto/packet/model.rs"
    echo_rel = "crates/scion-stack/src/stack/scmp_handler/echo.rs"
    err_rel = "crates/scion-stack/src/stack/scmp_handler/error.rs"
    sock_rel = "crates/scion-stack/src/stack/socket.rs"
    sim_rel = "crates/pocketscion/src/network/local/simulator.rs"
    pol_rel = "crates/snap/snap-dataplane/src/tunnel_gateway/packet_policy.rs"
    gwr_rel = "crates/snap/snap-dataplane/src/tunnel_gateway/gateway.rs"
    lay, mod, typ, view = src(lay_rel), src(mod_rel), src(typ_rel), src(view_rel)
    pkt, echo, errh, sock, sim = src(pkt_rel), src(echo_rel), src(err_rel), src(sock_rel), src(sim_rel)
    pol, gwr = src(pol_rel), src(gwr_rel)

    # ---------------------------------------------------------------- imported constants (HARD)
    m = need(lay, r"\bSCMP_ERROR_MAX_PACKET_SIZE\s*:\s*usize\s*=\s*(\d+)\s*;", "SCMP_ERROR_MAX_PACKET_SIZE", lay_rel)
    maxsz = int(m.group(1)) if m else 0

    types = {}
    for name in ERR_KINDS + ["EchoRequest", "EchoReply", "TracerouteRequest", "TracerouteReply"]:
        m1 = need(typ, rf"\b{name}\s*=\s*(\d+)\s*,", f"ScmpMessageType::{name} discriminant", typ_rel)
        types[name] = int(m1.group(1)) if m1 else 0
        # the two conversion tables agree with the discriminant (observed by every received-packet case)
        for rx, what in [(rf"(\d+)\s*=>\s*(?:ScmpMessageType|Self)::{name}\b", "From<u8>"),
                         (rf"(?:ScmpMessageType|Self)::{name}\s*=>\s*(\d+)\b", "From<ScmpMessageType>")]:
            mm = expect(typ, rx, f"{what} arm for {name}", typ_rel)
            if mm and m1 and mm.group(1) != m1.group(1):
                missing.append(f"{typ_rel}: ScmpMessageType::{name}: discriminant and {what} table disagree")

    kinds = []
    for name in ERR_KINDS:
        blk = re.search(rf"impl Scmp{name}Layout \{{(.*?)\nimpl TryFrom<&\[u8\]> for Scmp{name}Layout", lay, re.S)
        body = blk.group(1) if blk else lay
        m = need(body if blk else "", r"\bHEADER_SIZE_BYTES\s*:\s*usize\s*=\s*(\d+)\s*;", f"Scmp{name}Layout::HEADER_SIZE_BYTES", lay_rel)
        kinds.append((types[name], int(m.group(1)) if m else 0))
        # the truncation formula (CLay cases observe it directly)
        f = _fn_body(body, r"fn from_offending_packet_length\s*\(")
        ok = f is not None and all(re.search(rx, f) for rx in [
            r"SCMP_ERROR_MAX_PACKET_SIZE", r"saturating_sub", r"\.min\(|\bmin\(", r"HEADER_SIZE_BYTES"])
        if not ok:
            expect("", r"x", f"Scmp{name}Layout::from_offending_packet_length: 1232 - header - HEADER_SIZE, saturating, min with the offending length", lay_rel)
        # the encoder derives its layout from (offending length, header size) and copies a prefix
        enc = re.search(rf"impl PayloadEncode for Scmp{name} \{{(.*?)\n\}}\n", mod, re.S)
        e = enc.group(1) if enc else ""
        for what, rx in [
            ("required_size from from_offending_packet_length(len, header size)", r"from_offending_packet_length\(\s*self\.offending_packet\.len\(\)\s*,\s*\w+\s*,?\s*\)"),
            ("quote = prefix of offending_packet", r"copy_from_slice\(\s*&self\.offending_packet\[\s*\.\.\s*\w+\s*\]\s*\)"),
            ("type written", rf"ScmpMessageType::{name}"),
        ]:
            if not re.search(rx, e):
                expect("", r"x", f"Scmp{name} PayloadEncode: {what}", mod_rel)

    # variants named by is_error (imported table)
    f = _fn_body(view, r"fn is_error\s*\(\s*&self\s*\)")
    is_err = []
    if f is None:
        need("", r"x", "ScmpMessageExt::is_error", view_rel)
    else:
        names = re.findall(r"ScmpMessageView::(\w+)\s*\(", f)
        if not names:
            need("", r"x", "ScmpMessageExt::is_error: variant list", view_rel)
        for v in names:
            if v in types:
                if types[v] not in is_err:
                    is_err.append(types[v])
            else:
                missing.append(f"{view_rel}: is_error names a variant without a type number: {v}")

    # message kinds the echo handler answers (imported table): the arms of the match on message()
    # that build a reply
    f = _fn_body(echo, r"fn try_echo_reply\s*\(")
    answered = []
    if f is None:
        need("", r"x", "DefaultEchoHandler::try_echo_reply", echo_rel)
    else:
        for v in re.findall(r"ScmpMessageView::(\w+)\s*\(\s*\w+\s*\)\s*(?:=>|\))", f):
            if v in types and types[v] not in answered:
                answered.append(types[v])
        if not answered:
            need("", r"x", "DefaultEchoHandler::try_echo_reply: answered message kinds", echo_rel)
        for what, rx in [
            ("reply carries identifier / sequence number / data of the request",
             r"ScmpEchoReply::new\(\s*\w+\.identifier\(\)\s*,\s*\w+\.sequence_number\(\)\s*,\s*\w+\.data\(\)"),
            ("SCMP view first (try_as_scmp)", r"try_as_scmp\(\)"),
            ("reversed path", r"try_into_reversed\(\)|try_reverse\(\)"),
            ("source and destination swapped", r"ScionScmpPacket::new\(\s*dst\s*,\s*src\s*,"),
        ]:
            expect(f, rx, f"DefaultEchoHandler: {what}", echo_rel)

    # the two guards: type bounds (imported constants)
    def bound(fbody, what, rel):
        if fbody is None:
            need("", r"x", what, rel)
            return 0
        m = re.search(r"<\s*(\d+)\b", fbody)
        if m:
            return int(m.group(1))
        m = re.search(r"<=\s*(\d+)\b", fbody)
        if m:
            return int(m.group(1)) + 1
        need("", r"x", what + ": type bound", rel)
        return 0
    f = _fn_body(sim, r"fn maybe_create_scmp_reply\s*\(")
    guard = re.search(r"ClassifiedPacketView::Scmp\((\w+)\)\s*if(.*?)=>", f or "", re.S)
    sim_thr = bound(guard.group(2) if guard else None, "pocketscion maybe_create_scmp_reply: no reply to SCMP errors (guard on the SCMP arm)", sim_rel)
    if f is not None:
        expect(f, r"is_error\(\)", "pocketscion maybe_create_scmp_reply: is_error()", sim_rel)
        expect(f, r"return\s+Ok\(None\)", "pocketscion maybe_create_scmp_reply: guard returns no reply", sim_rel)
        expect(f, r"try_reverse\(\)|try_into_reversed\(\)", "pocketscion maybe_create_scmp_reply: reversed path", sim_rel)
    f = _fn_body(pol, r"fn offending_is_scmp_error\s*\(")
    gw_thr = bound(f, "PacketPolicyError::offending_is_scmp_error", pol_rel)
    if f is not None:
        expect(f, r"ProtocolNumber::Scmp", "offending_is_scmp_error: next header SCMP", pol_rel)
        expect(f, r"MalformedPacket\s*\([^)]*\)\s*=>\s*false", "offending_is_scmp_error: malformed datagrams are answered", pol_rel)
    expect(gwr, r"offending_is_scmp_error\(\)", "gateway: SCMP errors are not answered", gwr_rel)
    expect(gwr, r"ScionScmpPacket::new\(\s*ScionAddr::new\(\s*dst_addr\.isd_asn\(\)\s*,\s*local_addr\s*\)\s*,\s*dst_addr\s*,\s*DpPath::Empty\s*,",
           "gateway create_scmp_error: empty path, source = (dst ISD-AS, local address)", gwr_rel)

    # ---------------------------------------------------------------- mirrored statements (SOFT)
    # the payload encoder is handed the packet's own header size
    expect(pkt, r"self\.payload\.required_size\(\s*(?:self\.header\.required_size\(\)|\w+)\s*\)",
           "ScionPacket: payload.required_size(header size)", pkt_rel)
    expect(pkt, r"\.encode_unchecked\(\s*\w+\s*,\s*&self\.header\.address\s*,\s*\w+\s*\)",
           "ScionPacket::encode_unchecked passes the header size to the payload encoder", pkt_rel)
    expect(pkt, r"fn into_raw\(self\)", "ScionPacket::into_raw", pkt_rel)
    # error handler: only errors, reports, never replies
    expect(errh, r"is_error\(\)", "ScmpErrorHandler: non-errors ignored", err_rel)
    expect(errh, r"report_scmp_error\(", "ScmpErrorHandler: reports to the receivers", err_rel)
    # receive loop: SCMP goes to the handlers, replies are best effort, the loop continues
    expect(sock, r"ProtocolNumber::Scmp\s*=>", "socket receive loop: SCMP branch", sock_rel)
    expect(sock, r"handler\.handle\(", "socket receive loop: handlers are asked", sock_rel)
    expect(sock, r"try_send\(", "socket receive loop: replies through try_send", sock_rel)

    body = f"""From Coq Require Import NArith List.
Import ListNotations.
Local Open Scope N_scope.
(* crates/libs/sciparse/src/proto/payload/scmp/layout.rs *)
Definition SCMP_MAX : N := {maxsz}.
(* (type number, HEADER_SIZE_BYTES) of every SCMP error kind whose layout has
   from_offending_packet_length *)
Definition scmp_error_kinds : list (N * N) := [{"; ".join(f"({t}, {h})" for t, h in kinds)}].
(* variants named by ScmpMessageExt::is_error *)
Definition scmp_is_error_types : list N := [{"; ".join(str(x) for x in is_err)}].
(* message kinds DefaultEchoHandler::try_echo_reply answers (every other arm: Ok(None)) *)
Definition echo_answered_types : list N := [{"; ".join(str(x) for x in answered)}].
(* SNAP gateway offending_is_scmp_error: no reply to a parseable datagram whose SCMP type is below this *)
Definition GW_ERROR_TYPE_BOUND : N := {gw_thr}.
(* pocketscion maybe_create_scmp_reply: no reply to a packet whose SCMP type is below this *)
Definition SIM_ERROR_TYPE_BOUND : N := {sim_thr}.
Definition T_ECHO_REQUEST : N := {types['EchoRequest']}.
Definition T_ECHO_REPLY : N := {types['EchoReply']}.
Definition T_TRACEROUTE_REQUEST : N := {types['TracerouteRequest']}.
Definition T_TRACEROUTE_REPLY : N := {types['TracerouteReply']}.
"""
    emit("ScmpConfig.v", body)
