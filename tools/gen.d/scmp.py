"""SCMP constructs the C14 model depends on -> Gen/ScmpConfig.v
(src, need, emit, missing, re are injected by tools/gen.py)

Extracted from /repo on every run, each with a loud failure when the construct disappears:
  * SCMP_ERROR_MAX_PACKET_SIZE,
  * for every SCMP error kind: its type number, HEADER_SIZE_BYTES, and the fact that its
    `from_offending_packet_length` still is the saturating formula the model writes down,
  * that every error message's `required_size`/`encode_unchecked` derive the layout from
    (offending_packet.len(), header_and_extensions_size), and that `ScionPacket::into_raw` /
    `encode_unchecked` pass the REPLY's own `header.required_size()`,
  * the variant list of `ScmpMessageExt::is_error`,
  * the single message kind `DefaultEchoHandler` answers, and the fields it copies.
"""

ERR_KINDS = ["DestinationUnreachable", "PacketTooBig", "ParameterProblem",
             "ExternalInterfaceDown", "InternalConnectivityDown"]

def generate():
    lay_rel = "crates/libs/sciparse/src/proto/payload/scmp/layout.rs"
    mod_rel = "crates/libs/sciparse/src/proto/payload/scmp/model.rs"
    typ_rel = "crates/libs/sciparse/src/proto/payload/scmp/types.rs"
    view_rel = "crates/libs/sciparse/src/proto/payload/scmp/view.rs"
    pkt_rel = "crates/libs/sciparse/src/proto/packet/model.rs"
    echo_rel = "crates/scion-stack/src/stack/scmp_handler/echo.rs"
    err_rel = "crates/scion-stack/src/stack/scmp_handler/error.rs"
    sim_rel = "crates/pocketscion/src/network/local/simulator.rs"
    lay, mod, typ, view = src(lay_rel), src(mod_rel), src(typ_rel), src(view_rel)
    pkt, echo, errh, sim = src(pkt_rel), src(echo_rel), src(err_rel), src(sim_rel)

    m = need(lay, r"pub const SCMP_ERROR_MAX_PACKET_SIZE: usize = (\d+);", "SCMP_ERROR_MAX_PACKET_SIZE", lay_rel)
    maxsz = int(m.group(1)) if m else 0

    # message type numbers (enum discriminants and both conversion tables must agree)
    types = {}
    for name in ERR_KINDS + ["EchoRequest", "EchoReply", "TracerouteRequest", "TracerouteReply"]:
        m1 = need(typ, rf"\b{name} = (\d+),", f"ScmpMessageType::{name} discriminant", typ_rel)
        m2 = need(typ, rf"(\d+) => ScmpMessageType::{name},", f"From<u8> arm for {name}", typ_rel)
        m3 = need(typ, rf"ScmpMessageType::{name} => (\d+),", f"From<ScmpMessageType> arm for {name}", typ_rel)
        if m1 and m2 and m3:
            if not (m1.group(1) == m2.group(1) == m3.group(1)):
                missing.append(f"{typ_rel}: ScmpMessageType::{name}: discriminant and conversion tables disagree")
            types[name] = int(m1.group(1))
        else:
            types[name] = 0

    # per error kind: header size + the truncation formula, statement by statement
    formula = (r"pub fn from_offending_packet_length\(\s*offending_packet_length: usize,\s*header_and_extensions_size: usize,\s*\) -> Self \{\s*"
               r"let max_payload = SCMP_ERROR_MAX_PACKET_SIZE\.saturating_sub\(header_and_extensions_size\);\s*"
               r"let max_offending_len = max_payload\.saturating_sub\(Self::HEADER_SIZE_BYTES\);\s*"
               r"let included_offending = offending_packet_length\.min\(max_offending_len\);\s*"
               r"Self \{\s*payload_length: Self::HEADER_SIZE_BYTES \+ included_offending,\s*\}\s*\}")
    rng = (r"pub const fn offending_packet_rng\(&self\) -> BitRange \{\s*BitRange::new\(\s*Self::HEADER_SIZE_BYTES \* 8,\s*"
           r"self\.payload_length\.saturating_sub\(Self::HEADER_SIZE_BYTES\) \* 8,\s*\)\s*\}")
    kinds = []
    for name in ERR_KINDS:
        blk = need(lay, rf"impl Scmp{name}Layout \{{\s*/// The size of the header in bytes\.\s*pub const HEADER_SIZE_BYTES: usize = (\d+);(.*?)\nimpl TryFrom<&\[u8\]> for Scmp{name}Layout",
                   f"Scmp{name}Layout block", lay_rel, re.S)
        hs = 0
        if blk:
            hs = int(blk.group(1))
            body = blk.group(2)
            if not re.search(formula, body):
                missing.append(f"{lay_rel}: Scmp{name}Layout::from_offending_packet_length is no longer the saturating formula of the model")
            if not re.search(rng, body):
                missing.append(f"{lay_rel}: Scmp{name}Layout::offending_packet_rng changed")
            if not re.search(r"fn size_bytes\(&self\) -> usize \{\s*self\.payload_length\s*\}", body):
                missing.append(f"{lay_rel}: Scmp{name}Layout::size_bytes changed")
        kinds.append((types[name], hs))
        # model.rs: required_size and encode_unchecked derive the layout from (len, header size)
        need(mod, rf"impl PayloadEncode for Scmp{name} \{{\s*#\[inline\]\s*fn required_size\(&self, header_and_extensions_size: usize\) -> usize \{{\s*"
                  rf"Scmp{name}Layout::from_offending_packet_length\(\s*self\.offending_packet\.len\(\),\s*header_and_extensions_size,\s*\)\s*\.size_bytes\(\)",
             f"Scmp{name}::required_size", mod_rel)
        enc = need(mod, rf"impl PayloadEncode for Scmp{name} \{{(.*?)\n\}}\n", f"Scmp{name} PayloadEncode impl", mod_rel, re.S)
        if enc:
            e = enc.group(1)
            for what, rx in [
                ("layout from (len, header size)", r"let l = L::from_offending_packet_length\(\s*self\.offending_packet\.len\(\),\s*header_and_extensions_size,\s*\);"),
                ("quote = prefix copy", r"let range = l\.offending_packet_rng\(\)\.aligned_byte_range\(\);\s*let offending_packet_len = range\.end - range\.start;\s*buf\.get_unchecked_mut\(range\)\s*\.copy_from_slice\(&self\.offending_packet\[\.\.offending_packet_len\]\);"),
                ("type written", rf"L::TYPE_RNG,\s*ScmpMessageType::{name}\.into\(\),"),
                ("returns message_length", r"let message_length = l\.size_bytes\(\);"),
            ]:
                if not re.search(rx, e):
                    missing.append(f"{mod_rel}: Scmp{name}::encode_unchecked: {what}")

    # the caller passes the reply's own header size
    need(pkt, r"fn required_size\(&self\) -> usize \{\s*self\.header\.required_size\(\) \+ self\.payload\.required_size\(self\.header\.required_size\(\)\)\s*\}",
         "ScionPacket::required_size passes header.required_size()", pkt_rel)
    need(pkt, r"unsafe fn encode_unchecked\(&self, buf: &mut \[u8\]\) -> usize \{\s*let header_size = self\.header\.required_size\(\);\s*let payload_size = self\.payload\.required_size\(header_size\);",
         "ScionPacket::encode_unchecked header_size", pkt_rel)
    need(pkt, r"\.encode_unchecked\(payload_buf, &self\.header\.address, header_size\);",
         "ScionPacket::encode_unchecked passes header_size to the payload", pkt_rel)
    need(pkt, r"pub fn into_raw\(self\) -> ScionRawPacket \{\s*let header_size = self\.header\.required_size\(\);\s*let payload_size = self\.payload\.required_size\(header_size\);",
         "ScionPacket::into_raw header_size", pkt_rel)

    # is_error variant list
    m = need(view, r"fn is_error\(&self\) -> bool \{\s*matches!\(\s*self\.to_ref\(\),\s*(.*?)\s*\)\s*\}", "ScmpMessageExt::is_error", view_rel, re.S)
    is_err = []
    if m:
        for v in re.findall(r"ScmpMessageView::(\w+)\(_\)", m.group(1)):
            if v not in types:
                missing.append(f"{view_rel}: is_error names unknown variant {v}")
            else:
                is_err.append(types[v])

    # echo handler: answers exactly one view variant, copies identifier / sequence number / data
    m = need(echo, r"let reply_msg = match p\.scmp\(\)\.message\(\) \{\s*ScmpMessageView::(\w+)\(r\) => \{(.*?)\}\s*_ => return Ok\(None\),\s*\};",
             "DefaultEchoHandler: single answered variant + default None", echo_rel, re.S)
    answered = []
    if m:
        answered.append(types.get(m.group(1), 0))
        if not re.search(r"ScmpMessage::EchoReply\(ScmpEchoReply::new\(\s*r\.identifier\(\),\s*r\.sequence_number\(\),\s*r\.data\(\)\.to_vec\(\),\s*\)\)", m.group(2)):
            missing.append(f"{echo_rel}: echo reply no longer built from identifier/sequence_number/data of the request")
    need(echo, r"\.try_as_scmp\(\)\s*\.context\(", "DefaultEchoHandler: try_as_scmp first", echo_rel)
    need(echo, r"\.path\(\)\s*\.to_model\(\)\s*\.try_into_reversed\(\)", "DefaultEchoHandler: reversed path", echo_rel)
    need(echo, r"let reply = ScionScmpPacket::new\(dst, src, reply_path, reply_msg\);", "DefaultEchoHandler: src/dst swapped", echo_rel)
    need(echo, r"Ok\(None\) => None,\s*Err\(e\) => \{[^}]*\s*None\s*\}", "DefaultEchoHandler::handle: errors give None", echo_rel, re.S)

    # error handler: never replies
    need(errh, r"if !scmp_pkg\.scmp\(\)\.message\(\)\.is_error\(\) \{[^}]*return None;\s*\}", "ScmpErrorHandler: non-errors ignored", err_rel)
    need(errh, r"receiver\.report_scmp_error\(scmp_error\.clone\(\), path\);\s*\}\);\s*None\s*\}", "ScmpErrorHandler: reports and returns None", err_rel)

    # pocketscion: no reply to SCMP errors (known kinds through is_error, every other type below the
    # threshold through the raw type number)
    m = need(sim, r"ClassifiedPacketView::Scmp\(scmp_view\)\s*if scmp_view\.scmp\(\)\.message\(\)\.is_error\(\)\s*"
                  r"\|\| u8::from\(scmp_view\.scmp\(\)\.message_type\(\)\) < (\d+) =>\s*\{\s*// Don't reply to SCMP Error Messages\s*return Ok\(None\);",
             "pocketscion maybe_create_scmp_reply: no reply to SCMP errors (is_error || type < N)", sim_rel)
    sim_thr = int(m.group(1)) if m else 0

    # SNAP gateway: no reply to an inbound datagram that is an SCMP error (parseable header)
    pol_rel = "crates/snap/snap-dataplane/src/tunnel_gateway/packet_policy.rs"
    gwr_rel = "crates/snap/snap-dataplane/src/tunnel_gateway/gateway.rs"
    pol, gwr = src(pol_rel), src(gwr_rel)
    m = need(pol, r"pub\(crate\) fn offending_is_scmp_error\(&self\) -> bool \{\s*match self \{\s*PacketPolicyError::MalformedPacket\(\.\.\) => false,\s*"
                  r"PacketPolicyError::InvalidPathType\(view, _\)\s*\| PacketPolicyError::InvalidSourceAddress\(view\) => \{\s*"
                  r"view\.header\(\)\.next_header\(\) == ProtocolNumber::Scmp\s*&& view\.payload\(\)\.first\(\)\.is_some_and\(\|scmp_type\| \*scmp_type < (\d+)\)",
             "PacketPolicyError::offending_is_scmp_error", pol_rel)
    gw_thr = int(m.group(1)) if m else 0
    need(gwr, r"Err\(e\) if e\.offending_is_scmp_error\(\) => \{[^}]*\}\s*Err\(e\) => \{\s*tracing::debug!\(err=%e, \"Inbound datagram check failed\"\);",
         "gateway: SCMP errors are not answered (guard arm before the reply arm)", gwr_rel, re.S)
    need(gwr, r"fn create_scmp_error\(\s*err: PacketPolicyError,\s*local_addr: ScionHostAddr,\s*dst_addr: ScionAddr,\s*target_buf: &mut Packet,\s*\) -> Result<usize, EncodeError> \{\s*"
              r"let scmp_message = create_inbound_scmp_error\(err\);\s*let scmp_packet_model = ScionScmpPacket::new\(\s*ScionAddr::new\(dst_addr\.isd_asn\(\), local_addr\),\s*dst_addr,\s*DpPath::Empty,\s*scmp_message,\s*\);\s*scmp_packet_model\.try_encode\(target_buf\)",
         "gateway create_scmp_error: empty path, source = (dst ISD-AS, local address)", gwr_rel)

    body = f"""From Coq Require Import NArith List.
Import ListNotations.
Local Open Scope N_scope.
(* crates/libs/sciparse/src/proto/payload/scmp/layout.rs *)
Definition SCMP_MAX : N := {maxsz}.
(* (type number, HEADER_SIZE_BYTES) of every SCMP error kind whose layout has
   from_offending_packet_length (checked to be the saturating formula) *)
Definition scmp_error_kinds : list (N * N) := [{"; ".join(f"({t}, {h})" for t, h in kinds)}].
(* variants named by ScmpMessageExt::is_error *)
Definition scmp_is_error_types : list N := [{"; ".join(str(x) for x in is_err)}].
(* message kinds DefaultEchoHandler::try_echo_reply answers (every other arm: Ok(None)) *)
Definition echo_answered_types : list N := [{"; ".join(str(x) for x in answered)}].
(* SNAP gateway offending_is_scmp_error: no reply to a parseable datagram whose SCMP type is below this *)
Definition GW_ERROR_TYPE_BOUND : N := {gw_thr}.
(* pocketscion maybe_create_scmp_reply: no reply to a packet whose SCMP type is below this *)
Definition SIM_ERROR_TYPE_BOUND : N := {sim_thr}.
Definition T_ECHO_REQUEST : N := {types['EchoRequest']}.
Definition T_ECHO_REPLY : N := {types['EchoReply']}.
Definition T_TRACEROUTE_REQUEST : N := {types['TracerouteRequest']}.
Definition T_TRACEROUTE_REPLY : N := {types['TracerouteReply']}.
"""
    emit("ScmpConfig.v", body)
