"""constants the path-combinator model needs -> Gen/CombineConfig.v
(src, need, expect, emit, missing, re are injected by tools/gen.py)

`need`: constants and layout tables the model imports (Gen/CombineConfig.v).
`expect`: mirrored statements of graph.rs / types.rs whose behaviour the h_combine harness observes
(order of results, MTU, odd interface lists, expiry): a miss only enlarges the case count and lets
the correspondence decide.  The patterns pin operators / callees, not local names or layout."""

def _int(m, g=1, d=0):
    return int(m.group(g).replace("_", ""), 0) if m else d

def generate():
    base = "crates/libs/sciparse/src/"
    ty = base + "proto/dataplane_path/standard/types.rs"
    t = src(ty)
    cons = _int(need(t, r"const CONS_DIR\s*=\s*(0b[01_]+|\d+);", "InfoFieldFlags::CONS_DIR", ty))
    peer = _int(need(t, r"const PEERING\s*=\s*(0b[01_]+|\d+);", "InfoFieldFlags::PEERING", ty))
    m = need(t, r"pub const EXP_TIME_UNIT: Duration = Duration::new\((\d+), ([\d_]+)\);", "EXP_TIME_UNIT", ty)
    unit_s, unit_ns = (_int(m, 1), _int(m, 2)) if m else (0, 0)
    expect(t, r"EXP_TIME_UNIT\s*\.saturating_mul\(\w+ as u32 \+ 1\)", "exp_time_to_duration formula", ty)

    ly = base + "proto/dataplane_path/standard/layout.rs"
    l = src(ly)
    max_seg_hops = _int(need(l, r"pub const MAX_SEGMENT_HOPS: usize = (\d+);", "MAX_SEGMENT_HOPS", ly))
    max_segs = _int(need(l, r"pub const MAX_SEGMENTS: usize = (\d+);", "MAX_SEGMENTS", ly))
    rng = {}
    for nm in ("CURR_INFO_FIELD", "CURR_HOP_FIELD", "SEG0_LEN", "SEG1_LEN", "SEG2_LEN",
               "SEGMENT_ID", "TIMESTAMP", "EXP_TIME", "CONS_INGRESS", "CONS_EGRESS", "MAC"):
        m = need(l, rf"gen_bitrange_const!\({nm}_RNG, (\d+), (\d+)\);", nm + "_RNG", ly)
        rng[nm] = (_int(m, 1), _int(m, 2)) if m else (0, 0)
    tot = re.findall(r"gen_bitrange_const!\(TOTAL_RNG, 0, (\d+)\);", l)
    if len(tot) < 3:
        missing.append(ly + ": TOTAL_RNG of meta/info/hop layouts")
        tot = ["0", "0", "0"]
    meta_b, info_b, hop_b = (int(x) // 8 for x in tot[:3])

    hl = base + "proto/header/layout.rs"
    h = src(hl)
    hdr_max = _int(need(h, r"pub const MAX_SIZE_BYTES: usize = (\d+);", "ScionHeaderLayout::MAX_SIZE_BYTES", hl))
    m = need(h, r"gen_bitrange_const!\(RSV_RNG, 80, 16\);\s*gen_bitrange_const!\(TOTAL_RNG, 0, (\d+)\);", "CommonHeaderLayout::TOTAL_RNG", hl)
    common_b = _int(m) // 8
    m = need(h, r"const FIXED_SIZE_BITS: usize = (\d+);", "AddressHeaderLayout::FIXED_SIZE_BITS", hl)
    fixed = _int(m)
    m = need(h, r"pub const MIN_SIZE_BITS: usize = Self::FIXED_SIZE_BITS \+ \((\d+) \* 8\) \* 2;", "AddressHeaderLayout::MIN_SIZE_BITS", hl)
    addr_min = (fixed + _int(m) * 16) // 8
    pl = base + "proto/dataplane_path/layout.rs"
    need(src(pl), r"pub const MAX_SIZE_BYTES: usize = ScionHeaderLayout::MAX_SIZE_BYTES\s*- CommonHeaderLayout::SIZE_BYTES\s*- AddressHeaderLayout::MIN_SIZE_BYTES;",
         "ScionHeaderPathLayout::MAX_SIZE_BYTES formula", pl)

    g = base + "scion/path/combinator/graph.rs"
    gt = src(g)
    # mirrored statements (observable through combine's result): soft
    expect(gt, r"is_non_core\(\)\s*\|\|\s*\w+(\.\w+)*\.is_non_core\(\)", "valid_next_seg two-edge rule (not core,core)", g)
    expect(gt, r"is_non_core\(\)\s*&&\s*\w+(\.\w+)*\.is_core\(\)\s*&&\s*\w+(\.\w+)*\.is_non_core\(\)", "valid_next_seg three-edge rule", g)
    expect(gt, r"\.len\(\) as u64\s*-\s*1\s*-\s*\w+", "number_of_hops formula (len - 1 - shortcut_idx)", g)
    expect(gt, r"\.cost\s*\.cmp\(&\w+\.cost\)\s*\.then\(\s*\w+\.edges\.len\(\)\.cmp\(&\w+\.edges\.len\(\)\)\s*\)", "sort key head (cost, then number of edges)", g)
    expect(gt, r"u16::try_from\(\w+(\.\w+)*\.mtu\)\s*\.unwrap_or\(u16::MAX\)", "AS MTU saturation", g)
    expect(gt, r"\.len\(\)\s*%\s*2\s*!=\s*0", "odd interface list is skipped", g)

    body = f"""From Coq Require Import NArith.
Local Open Scope N_scope.
Definition INFO_CONS_DIR : N := {cons}.
Definition INFO_PEERING : N := {peer}.
Definition EXP_UNIT_SECS : N := {unit_s}.
Definition EXP_UNIT_NANOS : N := {unit_ns}.
Definition MAX_SEGMENT_HOPS : N := {max_seg_hops}.
Definition MAX_SEGMENTS : N := {max_segs}.
Definition META_BYTES : N := {meta_b}.
Definition INFO_BYTES : N := {info_b}.
Definition HOP_BYTES : N := {hop_b}.
Definition MAX_PATH_BYTES : N := {hdr_max - common_b - addr_min}.
Definition CURR_INFO_FIELD_RNG : N * N := ({rng['CURR_INFO_FIELD'][0]}, {rng['CURR_INFO_FIELD'][1]}).
Definition CURR_HOP_FIELD_RNG : N * N := ({rng['CURR_HOP_FIELD'][0]}, {rng['CURR_HOP_FIELD'][1]}).
Definition SEG0_LEN_RNG : N * N := ({rng['SEG0_LEN'][0]}, {rng['SEG0_LEN'][1]}).
Definition SEG1_LEN_RNG : N * N := ({rng['SEG1_LEN'][0]}, {rng['SEG1_LEN'][1]}).
Definition SEG2_LEN_RNG : N * N := ({rng['SEG2_LEN'][0]}, {rng['SEG2_LEN'][1]}).
Definition SEGMENT_ID_RNG : N * N := ({rng['SEGMENT_ID'][0]}, {rng['SEGMENT_ID'][1]}).
Definition TIMESTAMP_RNG : N * N := ({rng['TIMESTAMP'][0]}, {rng['TIMESTAMP'][1]}).
Definition EXP_TIME_RNG : N * N := ({rng['EXP_TIME'][0]}, {rng['EXP_TIME'][1]}).
Definition CONS_INGRESS_RNG : N * N := ({rng['CONS_INGRESS'][0]}, {rng['CONS_INGRESS'][1]}).
Definition CONS_EGRESS_RNG : N * N := ({rng['CONS_EGRESS'][0]}, {rng['CONS_EGRESS'][1]}).
Definition MAC_RNG : N * N := ({rng['MAC'][0]}, {rng['MAC'][1]}).
"""
    emit("CombineConfig.v", body)
