"""constants of the SNAP tunnel gateway ingress path -> Gen/Ingress.v
(src, need, emit, missing, re are injected by tools/gen.py)

  * PACKET_BUF_SIZE (gateway.rs), the SCMP parameter-problem codes the three policy errors map
    to (create_inbound_scmp_error), their numbers (scmp/types.rs), IsdAsn::WILDCARD,
    the path types accepted by inbound_datagram_check (packet_policy.rs)."""

def generate():
    gw = "crates/snap/snap-dataplane/src/tunnel_gateway/gateway.rs"
    pp = "crates/snap/snap-dataplane/src/tunnel_gateway/packet_policy.rs"
    ty = "crates/libs/sciparse/src/proto/payload/scmp/types.rs"
    ia = "crates/libs/sciparse/src/scion/identifier/isd_asn.rs"
    dp = "crates/libs/sciparse/src/proto/dataplane_path/types.rs"
    t = src(gw)
    m = need(t, r"pub\(crate\) const PACKET_BUF_SIZE: usize = (\d+);", "PACKET_BUF_SIZE", gw)
    buf = int(m.group(1)) if m else 0
    need(t, r"PacketBufPool<PACKET_BUF_SIZE>", "PacketPool = PacketBufPool<PACKET_BUF_SIZE>", gw)
    need(t, r"match inbound_datagram_check\(&packet\[\.\.\], from\.ip\(\)\)", "inbound_datagram_check(&packet[..], from.ip())", gw)
    need(t, r"ScionAddr::new\(IsdAsn::WILDCARD, from\.ip\(\)\.into\(\)\)", "reply destination = (WILDCARD, from.ip())", gw)
    need(t, r"ScionAddr::new\(dst_addr\.isd_asn\(\), local_addr\),\s*dst_addr,\s*DpPath::Empty,", "reply source/path", gw)
    # error -> (code, pointer kind)
    codes = {}
    body = need(t, r"fn create_inbound_scmp_error\(err: PacketPolicyError\).*?\n}\n", "create_inbound_scmp_error", gw, re.S)
    body = body.group(0) if body else ""
    for err, ptr in (("MalformedPacket", r"\s*0,"), ("InvalidSourceAddress", r"[^;]*?src_host_addr_range\(\)\s*\.containing_byte_range\(\)\s*\.start as u16,"),
                     ("InvalidPathType", r"[^;]*?path_type_range\(\)\s*\.containing_byte_range\(\)\s*\.start as u16,")):
        m = need(body, rf"PacketPolicyError::{err}\([^)]*\) => \{{\s*scmp::model::ScmpParameterProblem::new\(\s*ScmpParameterProblemCode::(\w+),{ptr}",
                 f"create_inbound_scmp_error arm {err}", gw, re.S)
        codes[err] = m.group(1) if m else None
    tt = src(ty)
    nums = {}
    for err, name in codes.items():
        if not name:
            nums[err] = 0
            continue
        m = need(tt, rf"\b{name} = (\d+),", f"ScmpParameterProblemCode::{name}", ty)
        nums[err] = int(m.group(1)) if m else 0
    m = need(src(ia), r"pub const WILDCARD: Self = Self\((\d+)\);", "IsdAsn::WILDCARD", ia)
    wc = int(m.group(1)) if m else 0
    # accepted path types
    p = src(pp)
    m = need(p, r"match view\.header\(\)\.path_type\(\) \{\s*((?:PathType::\w+\s*\|?\s*)+)=> \{\}\s*pt => return Err\(PacketPolicyError::InvalidPathType\(view, pt\)\),",
             "accepted path types", pp, re.S)
    acc = re.findall(r"PathType::(\w+)", m.group(1)) if m else []
    need(p, r"if src_ip != expected_ip \{\s*return Err\(PacketPolicyError::InvalidSourceAddress\(view\)\);", "src_ip != expected_ip", pp, re.S)
    need(p, r"\.src_host_addr\(\)\s*\.ok\(\)\s*\.and_then\(\|w\| w\.ip\(\)\)\s*\.ok_or\(PacketPolicyError::InvalidSourceAddress\(view\)\)\?;", "src ip extraction", pp, re.S)
    need(p, r"ScionPacketView::try_from_slice\(datagram\)\s*\.map_err\(\|e\| PacketPolicyError::MalformedPacket\(datagram, e\)\)\?;", "raw view construction", pp, re.S)
    d = src(dp)
    accn = []
    for a in acc:
        m = need(d, rf"(\d+) => (?:PathType|Self)::{a}\b", f"PathType::{a} number", dp)
        accn.append(int(m.group(1)) if m else 0)
    # does the encoded SCMP checksum cover the message bytes?  (with_pseudoheader itself adds only
    # pseudo-header, length and protocol; either it or the caller has to add the message)
    ck = "crates/libs/sciparse/src/scion/checksum.rs"
    sm = "crates/libs/sciparse/src/proto/payload/scmp/model.rs"
    c = src(ck)
    m = need(c, r"pub fn with_pseudoheader\((.*?)\n    }\n", "ChecksumDigest::with_pseudoheader", ck, re.S)
    inside = bool(m and re.search(r"add_slice\(\s*buf\s*\)", m.group(1)))
    s_ = src(sm)
    m = need(s_, r"impl PayloadEncode for ScmpParameterProblem \{.*?let checksum = ChecksumDigest::with_pseudoheader\((.*?)\.checksum\(\);",
             "ScmpParameterProblem checksum computation", sm, re.S)
    atcall = bool(m and re.search(r"\.add_slice\(", m.group(1)))
    covers = inside or atcall
    # SCMP error messages are not answered (guard arm in the gateway + predicate in packet_policy.rs);
    # absent construct = the tree before that repair: limit 0 = nothing is suppressed
    g = re.search(r"Err\(e\) if e\.offending_is_scmp_error\(\) => \{", t)
    limit = 0
    if g:
        m = need(p, r"fn offending_is_scmp_error\(&self\) -> bool \{\s*match self \{\s*PacketPolicyError::MalformedPacket\(\.\.\) => false,\s*"
                    r"PacketPolicyError::InvalidPathType\(view, _\)\s*\| PacketPolicyError::InvalidSourceAddress\(view\) => \{\s*"
                    r"view\.header\(\)\.next_header\(\) == ProtocolNumber::Scmp\s*&& view\.payload\(\)\.first\(\)\.is_some_and\(\|scmp_type\| \*scmp_type < (\d+)\)",
                 "offending_is_scmp_error", pp, re.S)
        limit = int(m.group(1)) if m else 0
        # the guard arm must come before the replying arm
        need(t, r"Err\(e\) if e\.offending_is_scmp_error\(\) => \{.*?\}\s*Err\(e\) => \{\s*tracing::debug!\(err=%e, \"Inbound datagram check failed\"\);",
             "suppression arm before the reply arm", gw, re.S)
    body = f"""From Coq Require Import NArith List.
Import ListNotations.
Local Open Scope N_scope.
Definition PACKET_BUF_SIZE : N := {buf}.
Definition PP_CODE_MALFORMED : N := {nums['MalformedPacket']}.       (* {codes['MalformedPacket']} *)
Definition PP_CODE_INVALID_SOURCE : N := {nums['InvalidSourceAddress']}.  (* {codes['InvalidSourceAddress']} *)
Definition PP_CODE_INVALID_PATH_TYPE : N := {nums['InvalidPathType']}.    (* {codes['InvalidPathType']} *)
Definition CSUM_COVERS_MESSAGE : bool := {'true' if covers else 'false'}.
Definition SCMP_ERROR_SUPPRESS_BELOW : N := {limit}.   (* offending SCMP type < this: no reply; 0 = no suppression in the source *)
Definition IA_WILDCARD : N := {wc}.
Definition accepted_path_types : list N := [{'; '.join(str(x) for x in accn)}].  (* {', '.join(acc)} *)
"""
    emit("Ingress.v", body)
