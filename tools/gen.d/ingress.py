"""constants of the SNAP tunnel gateway ingress path -> Gen/Ingress.v
(src, need, expect, emit, missing, re are injected by tools/gen.py)

HARD (need): what the model IMPORTS -- PACKET_BUF_SIZE, the parameter-problem code of each policy
error and its number, IsdAsn::WILDCARD, the numbers of the accepted path types, the switches
CSUM_COVERS_MESSAGE and SCMP_ERROR_SUPPRESS_BELOW.
SOFT (expect): statements the model MIRRORS; the harness observes the whole inbound arm (verdict
class, error class, every dispatched / reply byte, also end to end), so a miss only raises the
case count and the correspondence decides.  The regular expressions pin operators, callees and
constants, not local names or statement shape."""

def fn_body(text, name):
    """text of `fn name(...) ... {` up to the closing brace at the indentation of the `fn`"""
    m = re.search(rf"^([ \t]*)(?:pub(?:\([a-z]+\))? )?fn {name}\b.*?^\1\}}\n", text, re.S | re.M)
    return m.group(0) if m else ""

def generate():
    gw = "crates/snap/snap-dataplane/src/tunnel_gateway/gateway.rs"
    pp = "crates/snap/snap-dataplane/src/tunnel_gateway/packet_policy.rs"
    ty = "crates/libs/sciparse/src/proto/payload/scmp/types.rs"
    ia = "crates/libs/sciparse/src/scion/identifier/isd_asn.rs"
    dp = "crates/libs/sciparse/src/proto/dataplane_path/types.rs"
    t = src(gw)
    m = need(t, r"const PACKET_BUF_SIZE: usize = ([\d_]+);", "PACKET_BUF_SIZE", gw)
    buf = int(m.group(1).replace("_", "")) if m else 0
    need(t, r"PacketBufPool<\s*PACKET_BUF_SIZE\s*>", "the packet pool's buffer size is PACKET_BUF_SIZE", gw)
    # mirrored statements of the Forwarded arm / create_scmp_error (observed: soft)
    expect(t, r"inbound_datagram_check\(\s*&packet\[\.\.\],\s*from\.ip\(\)\s*\)", "inbound_datagram_check(&packet[..], from.ip())", gw)
    expect(t, r"IsdAsn::WILDCARD,\s*from\.ip\(\)", "reply destination = (WILDCARD, from.ip())", gw)
    expect(t, r"DpPath::Empty", "reply over the empty path", gw)
    expect(t, r"local_addr", "reply source = local address", gw)
    # error -> parameter-problem code (imported: hard); pointer expressions (observed: soft)
    body = fn_body(t, "create_inbound_scmp_error")
    if not body:
        need(t, r"fn create_inbound_scmp_error\b", "create_inbound_scmp_error", gw)
    codes = {}
    for err in ("MalformedPacket", "InvalidSourceAddress", "InvalidPathType"):
        # the first code named after the error's pattern and before the next error's pattern
        m = need(body, rf"PacketPolicyError::{err}\b(?:(?!PacketPolicyError::).)*?ScmpParameterProblemCode::(\w+)",
                 f"parameter-problem code for {err}", gw, re.S)
        codes[err] = m.group(1) if m else None
    expect(body, r"src_host_addr_range\(\)(?:(?!PacketPolicyError::).)*?\.start\b", "pointer = start of the source host field", gw, re.S)
    expect(body, r"path_type_range\(\)(?:(?!PacketPolicyError::).)*?\.start\b", "pointer = start of the path type field", gw, re.S)
    tt = src(ty)
    nums = {}
    for err, name in codes.items():
        if not name:
            nums[err] = 0
            continue
        m = need(tt, rf"\b{name}\s*=\s*(\d+)\s*,", f"ScmpParameterProblemCode::{name}", ty)
        nums[err] = int(m.group(1)) if m else 0
    m = need(src(ia), r"pub const WILDCARD: Self = Self\((\d+)\);", "IsdAsn::WILDCARD", ia)
    wc = int(m.group(1)) if m else 0
    # inbound_datagram_check: mirrored statements (observed: soft)
    p = src(pp)
    chk = fn_body(p, "inbound_datagram_check")
    if not chk:
        expect(p, r"fn inbound_datagram_check\b", "inbound_datagram_check", pp)
        chk = p
    expect(chk, r"ScionPacketView::try_from_slice\(\s*datagram\s*\)", "raw view construction from the datagram", pp)
    expect(chk, r"MalformedPacket\(\s*datagram\b", "MalformedPacket carries the datagram", pp)
    expect(chk, r"\.src_host_addr\(\)", "source host address read", pp)
    expect(chk, r"\.ip\(\)", "source address as IP", pp)
    expect(chk, r"(?:!=|==)\s*(?:Some\(\s*)?expected_ip\b|expected_ip\s*\)?\s*(?:!=|==)", "source IP compared with expected_ip by (in)equality", pp)
    expect(chk, r"InvalidSourceAddress\(\s*view\s*\)", "InvalidSourceAddress carries the view", pp)
    expect(chk, r"\.path_type\(\)", "path type read", pp)
    # accepted path types (imported as DATA): the PathType variants in an accepting position --
    # an arm leading to `{}` / `()` / `Ok(..)` / `true`, or a `matches!` -- of the check function;
    # when the function is written some other way fall back to the property's set (soft) and
    # let the correspondence decide
    acc = []
    for m in re.finditer(r"((?:\|?\s*PathType::\w+\s*)+)(?:if\b[^=]*?)?=>\s*(?:\{\s*\}|\(\)|Ok\(|\{\s*Ok\(|true\b)", chk):
        acc += re.findall(r"PathType::(\w+)", m.group(1))
    for m in re.finditer(r"matches!\(\s*[^,]+,\s*((?:\|?\s*PathType::\w+\s*)+)\)", chk):
        acc += re.findall(r"PathType::(\w+)", m.group(1))
    acc = list(dict.fromkeys(acc))
    if not acc:
        expect(chk, r"(?!)", "accepted path types not recognisable: assuming Scion, Empty", pp)
        acc = ["Scion", "Empty"]
    d = src(dp)
    accn = []
    for a in acc:
        m = need(d, rf"(\d+)\s*=>\s*(?:PathType|Self)::{a}\b", f"PathType::{a} number", dp)
        accn.append(int(m.group(1)) if m else 0)
    # does the encoded SCMP checksum cover the message bytes?  (with_pseudoheader itself adds only
    # pseudo-header, length and protocol; either it or the caller has to add the message)
    ck = "crates/libs/sciparse/src/scion/checksum.rs"
    sm = "crates/libs/sciparse/src/proto/payload/scmp/model.rs"
    c = src(ck)
    m = need(c, r"pub fn with_pseudoheader\((.*?)\n    }\n", "ChecksumDigest::with_pseudoheader", ck, re.S)
    inside = bool(m and re.search(r"add_slice\(\s*buf\s*\)", m.group(1)))
    s_ = src(sm)
    m = need(s_, r"impl PayloadEncode for ScmpParameterProblem \{.*?ChecksumDigest::with_pseudoheader\((.*?)\.checksum\(\)",
             "ScmpParameterProblem checksum computation", sm, re.S)
    atcall = bool(m and re.search(r"\.add_slice\(", m.group(1)))
    covers = inside or atcall
    # SCMP error messages are not answered (guard in the gateway + predicate in packet_policy.rs);
    # absent construct = the tree before that repair: limit 0 = nothing is suppressed
    limit = 0
    if re.search(r"\.offending_is_scmp_error\(\)", t):
        ob = fn_body(p, "offending_is_scmp_error")
        m = need(ob, r"<\s*(\d+)", "offending_is_scmp_error: SCMP type limit", pp)
        limit = int(m.group(1)) if m else 0
        expect(ob, r"MalformedPacket\([^)]*\)\s*=>\s*false", "malformed datagrams are never suppressed", pp)
        expect(ob, r"next_header\(\)\s*==\s*ProtocolNumber::Scmp", "next header compared with SCMP", pp)
        expect(ob, r"\.payload\(\)\s*\.first\(\)", "first payload byte = SCMP type", pp)
        # the suppression test precedes the reply construction
        expect(t, r"offending_is_scmp_error\(\).*?create_scmp_error\(", "suppression test before the reply is built", gw, re.S)
    body = f"""From Coq Require Import NArith List.
Import ListNotations.
Local Open Scope N_scope.
Definition PACKET_BUF_SIZE : N := {buf}.
Definition PP_CODE_MALFORMED : N := {nums['MalformedPacket']}.       (* {codes['MalformedPacket']} *)
Definition PP_CODE_INVALID_SOURCE : N := {nums['InvalidSourceAddress']}.  (* {codes['InvalidSourceAddress']} *)
Definition PP_CODE_INVALID_PATH_TYPE : N := {nums['InvalidPathType']}.    (* {codes['InvalidPathType']} *)
Definition CSUM_COVERS_MESSAGE : bool := {'true' if covers else 'false'}.
Definition SCMP_ERROR_SUPPRESS_BELOW : N := {limit}.   (* offending SCMP type < this: no reply; 0 = no suppression in the source *)
Definition IA_WILDCARD : N := {wc}.
Definition accepted_path_types : list N := [{'; '.join(str(x) for x in accn)}].  (* {', '.join(acc)} *)
"""
    emit("Ingress.v", body)
