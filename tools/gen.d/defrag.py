"""constants of crates/libs/anapaya-edge-tun/src/fragmenting.rs -> Gen/DefragConfig.v
(src, need, emit, missing, re are injected by tools/gen.py)"""

def generate():
    rel = "crates/libs/anapaya-edge-tun/src/fragmenting.rs"
    t = src(rel)
    vals = {}
    m = need(t, r"type BitmaskType = u(\d+);", "BitmaskType", rel)
    bits = int(m.group(1)) if m else 0
    need(t, r"const BITMASK_ENTRY_BITS: usize = BitmaskType::BITS as usize;", "BITMASK_ENTRY_BITS", rel)
    m = need(t, r"const BITMASK_ENTRY_COUNT: usize = (\d+);", "BITMASK_ENTRY_COUNT", rel)
    cnt = int(m.group(1)) if m else 0
    m = need(t, r"pub const MAX_PACKET_SIZE: usize = (u16::MAX as usize|\d+);", "MAX_PACKET_SIZE", rel)
    mps = 0
    if m:
        mps = 65535 if m.group(1).startswith("u16") else int(m.group(1))
    need(t, r"pub const MAX_FRAMES: usize = BITMASK_ENTRY_BITS \* BITMASK_ENTRY_COUNT;", "MAX_FRAMES formula", rel)
    m = need(t, r"pub const MAX_MTU: usize = (\d+);", "MAX_MTU", rel)
    max_mtu = int(m.group(1)) if m else 0
    need(t, r"pub const MIN_MTU: usize =\s*\(MAX_PACKET_SIZE \+ proto::FragmentFrameHeader::SIZE \* MAX_FRAMES\)\.div_ceil\(MAX_FRAMES\);",
         "MIN_MTU formula", rel)
    need(t, r"pub const MIN_PAYLOAD_SIZE: usize = MIN_MTU - proto::FragmentFrameHeader::SIZE;", "MIN_PAYLOAD_SIZE formula", rel)
    m = need(t, r"pub const SIZE: usize = (\d+);", "FragmentFrameHeader::SIZE", rel)
    hs = int(m.group(1)) if m else 0
    m = need(t, r"LAST = 0x1 << (\d+),", "FragmentFlags::LAST", rel)
    lastbit = int(m.group(1)) if m else 0
    rngs = {}
    for nm in ("STREAM_OFFSET", "FRAME_OFFSET", "FLAGS"):
        m = need(t, rf"const {nm}_RANGE: std::ops::Range<usize> = (\d+)\.\.(\d+);", nm + "_RANGE", rel)
        rngs[nm] = (int(m.group(1)), int(m.group(2))) if m else (0, 0)
    maxf = bits * cnt
    min_mtu = -(-(mps + hs * maxf) // maxf) if maxf else 0
    body = f"""From Coq Require Import NArith.
Local Open Scope N_scope.
Definition BITMASK_ENTRY_BITS : N := {bits}.
Definition BITMASK_ENTRY_COUNT : N := {cnt}.
Definition MAX_FRAMES : N := {maxf}.
Definition MAX_PACKET_SIZE : N := {mps}.
Definition MAX_MTU : N := {max_mtu}.
Definition HEADER_SIZE : N := {hs}.
Definition MIN_MTU : N := {min_mtu}.
Definition MIN_PAYLOAD_SIZE : N := {min_mtu - hs}.
Definition LAST_FLAG_BIT : N := {lastbit}.
Definition STREAM_OFFSET_RANGE : N * N := ({rngs['STREAM_OFFSET'][0]}, {rngs['STREAM_OFFSET'][1]}).
Definition FRAME_OFFSET_RANGE : N * N := ({rngs['FRAME_OFFSET'][0]}, {rngs['FRAME_OFFSET'][1]}).
Definition FLAGS_RANGE : N * N := ({rngs['FLAGS'][0]}, {rngs['FLAGS'][1]}).
Definition U64_MAX : N := 18446744073709551615.
"""
    emit("DefragConfig.v", body)

