"""ListSegmentPlan table of crates/libs/sciparse/src/scion/segment/list_segment_plan.rs
-> Gen/NetworkPlan.v   (src, need, expect, emit, missing, re are injected by tools/gen.py)

Rows: (context, src kind, dst kind, up, core, down) with context 0 = same ISD / single core,
1 = same ISD / multiple cores, 2 = cross ISD; src kind 0 Core, 1 NonCore; dst kind 0 Core,
1 NonCore, 2 AnyCore."""

SRC = {"Core": 0, "NonCore": 1}
DST = {"Core": 0, "NonCore": 1, "AnyCore": 2}


def generate():
    rel = "crates/libs/sciparse/src/scion/segment/list_segment_plan.rs"
    t = src(rel)
    # constructors: which of up / core / down they set
    ctor = {}
    for m in re.finditer(r"pub fn (\w+)\((?:[^)]*)\) -> Result<ListSegmentPlan, ListSegmentPlanError> \{\s*"
                         r"ListSegmentPlan \{\s*up: (None|Some\([^\n]*\)),\s*core: (None|Some\([^\n]*\)),\s*down: (None|Some\([^\n]*\)),\s*\}\s*\.validate\(\)", t):
        ctor[m.group(1)] = tuple(x != "None" for x in m.group(2, 3, 4))
    for nm in ("none", "core", "up", "down", "up_core", "core_down", "up_down", "up_core_down"):
        if nm not in ctor:
            missing.append(f"{rel}: plan constructor {nm}")
    # mirrored statements (the harness runs the real ListSegmentPlan::new): soft
    expect(t, r"self\.up\.is_none\(\)\s*&&\s*self\.core\.is_none\(\)\s*&&\s*self\.down\.is_none\(\)", "validate: empty plan is an error", rel)
    expect(t, r"ListSegmentPlanError::NoSegmentLookup", "validate: NoSegmentLookup", rel)
    # the meaning of the table's context column: hard, but tolerant of the control-flow form
    need(t, r"src\.isd\(\)\s*==\s*dst\.isd\(\)", "new: dispatch on same ISD", rel)
    need(t, r"Self::plan_same_isd\(\s*src\s*,\s*src_cores\s*,\s*dst\s*\)", "new: same ISD -> plan_same_isd", rel)
    need(t, r"Self::plan_cross_isd\(\s*src\s*,\s*dst\s*\)", "new: cross ISD -> plan_cross_isd", rel)

    def arms(block, what, expect):
        rows = []
        for m in re.finditer(r"((?:\(Src::\w+\(\w+\), Dst::\w+\(\w+\)\)(?:\s*\|\s*)?)+)\s*=>\s*(?:\{\s*)?Self::(\w+)\(", block):
            pats = re.findall(r"\(Src::(\w+)\(\w+\), Dst::(\w+)\(\w+\)\)", m.group(1))
            fn = m.group(2)
            if fn not in ctor:
                missing.append(f"{rel}: {what}: unknown constructor {fn}")
                continue
            for s, d in pats:
                rows.append((SRC.get(s, 9), DST.get(d, 9), ctor[fn]))
        if len(rows) != expect or len({(a, b) for a, b, _ in rows}) != expect:
            missing.append(f"{rel}: {what}: expected {expect} (src,dst) arms, parsed {len(rows)}")
        return rows

    m1 = need(t, r"CoreHint::Single\(single_core\) => \{(.*?)\n            \}\n            // There are multiple", "plan_same_isd: single-core arm", rel, re.S)
    m2 = need(t, r"CoreHint::Multiple => \{(.*?)\n            \}\n        \}\n    \}", "plan_same_isd: multiple-cores arm", rel, re.S)
    m3 = need(t, r"fn plan_cross_isd\(src: Src, dst: Dst\)(.*?)\n    \}\n\}", "plan_cross_isd", rel, re.S)
    rows = []
    for ctx, m, what in ((0, m1, "single core"), (1, m2, "multiple cores"), (2, m3, "cross ISD")):
        if m:
            for s, d, (u, c, dn) in arms(m.group(1), what, 6):
                rows.append(f"({ctx}, {s}, {d}, {str(u).lower()}, {str(c).lower()}, {str(dn).lower()})")
    body = f"""From Coq Require Import List NArith Bool.
Import ListNotations.
Local Open Scope N_scope.
(* (context, src kind, dst kind, up, core, down): context 0 same ISD / single core, 1 same ISD /
   multiple cores, 2 cross ISD; src 0 Core 1 NonCore; dst 0 Core 1 NonCore 2 AnyCore *)
Definition list_segment_plan_rows : list (N * N * N * bool * bool * bool) :=
  [{'; '.join(rows)}].
"""
    emit("NetworkPlan.v", body)
