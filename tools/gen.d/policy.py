"""constants of sciparse path policy (hop_pattern.rs lexer/parser, identifier/asn.rs) -> Gen/PolicyConfig.v
(src, need, expect, emit, missing, re are injected by tools/gen.py).
need = constants/tables the model imports; expect = mirrored statements whose behaviour the
correspondence harness observes (soft: a miss adds cases, the correspondence decides)."""

def generate():
    rel = "crates/libs/sciparse/src/scion/path/policy/hop_pattern.rs"
    t = src(rel)
    m = need(t, r'const RESERVED_CHARS: &\'static str = "([^"\\]*)";', "RESERVED_CHARS", rel)
    reserved = [ord(c) for c in m.group(1)] if m else []
    m = need(t, r"const NO_BIND_POWER: u8 = (\d+);", "NO_BIND_POWER", rel)
    nobp = int(m.group(1)) if m else 0
    m = need(t, r"const OR_BIND_POWER: u8 = (\d+);", "OR_BIND_POWER", rel)
    orbp = int(m.group(1)) if m else 0
    # single-character tokens of next_token: '<c>' => Token::single_char(TokenKind::<K>, idx)
    singles = re.findall(r"'(.)' => Token::single_char\(TokenKind::(\w+), idx\)", t)
    kinds = {"QMark", "Plus", "Star", "Bang", "And", "Or", "LParen", "RParen"}
    if {k for _, k in singles} != kinds or len(singles) != 8:
        missing.append(f"{rel}: next_token single-character token table (found {singles})")
    # mirrored statements (behaviour observed by the harness: lexing/parsing/matching) -- SOFT
    expect(t, r"is_whitespace\(\)\s*=>\s*continue", "next_token skips char::is_whitespace", rel)
    expect(t, r"is_whitespace\(\)\s*\|\|\s*(Self::)?RESERVED_CHARS\.contains", "read_hop_predicate break condition", rel)
    expect(t, r"LeftToRight\s*=>\s*\w+\s*\+\s*1", "left-to-right rhs binding power + 1", rel)
    expect(t, r"binding_power\s*>\s*\w*binding_power", "binding power comparison", rel)
    expect(t, r"OR_BIND_POWER,\s*Grouping::LeftToRight", "OR is LeftToRight with OR_BIND_POWER", rel)
    rel2 = "crates/libs/sciparse/src/scion/identifier/asn.rs"
    a = src(rel2)
    m = need(a, r"pub const BITS: u32 = (\d+);", "Asn::BITS", rel2)
    bits = int(m.group(1)) if m else 0
    m = need(a, r"const BITS_PER_PART: u32 = (\d+);", "Asn::BITS_PER_PART", rel2)
    bpp = int(m.group(1)) if m else 0
    m = need(a, r"const NUMBER_PARTS: u32 = (\d+);", "Asn::NUMBER_PARTS", rel2)
    parts = int(m.group(1)) if m else 0
    # ASN_DECIMAL_MAX below is u32::MAX: the constant is imported, the comparison is observed
    need(a, r"BGP_ASN_FORMAT_BOUNDARY: u64 = u32::MAX as u64", "BGP_ASN_FORMAT_BOUNDARY = u32::MAX", rel2)
    expect(a, r"<=\s*u32::MAX", "decimal ASN bound in from_str", rel2)
    if parts != 3:
        missing.append(f"{rel2}: NUMBER_PARTS = 3 expected by the model of Asn::from_str (found {parts})")
    rel3 = "crates/libs/sciparse/src/scion/path/policy/acl.rs"
    c = src(rel3)
    expect(c, r"is_empty\(\)\s*\|\|\s*self\.entries\.is_empty\(\)", "AclPolicy::matches empty shortcut", rel3)
    # wildcard semantics the model's predicate matching follows (observed: hop alphabets with 0)
    for rel4 in ("crates/libs/sciparse/src/scion/identifier/isd.rs", "crates/libs/sciparse/src/scion/identifier/asn.rs"):
        expect(src(rel4), r"is_wildcard\(\)\s*\|\|\s*other\.is_wildcard\(\)\s*\|\|\s*self\.0\s*==\s*other\.0", "matches: wildcard on either side", rel4)
    rel5 = "crates/libs/sciparse/src/scion/path/policy/types.rs"
    ty = src(rel5)
    expect(ty, r"is_wildcard\(\)\s*\|\|\s*self\.0\s*==\s*\w+", "InterfacePredicate::matches", rel5)
    expect(ty, r"\.matches\(hop_ingress\)\s*\|\|\s*\w+\.matches\(hop_egress\)", "InterfacesPredicate::matches Either", rel5)
    expect(ty, r"\.matches\(hop_ingress\)\s*&&\s*\w+\.matches\(hop_egress\)", "InterfacesPredicate::matches Both", rel5)
    expect(t, r"self\.pos\s*<\s*self\.tokens\.len\(\)\s*-\s*1", "parse trailing-token check", rel)
    tok = {k: ord(ch) for ch, k in singles}
    body = f"""From Coq Require Import NArith List.
Import ListNotations.
Local Open Scope N_scope.
Definition RESERVED_CHARS : list N := [{'; '.join(str(x) for x in reserved)}].
Definition NO_BIND_POWER : N := {nobp}.
Definition OR_BIND_POWER : N := {orbp}.
Definition CH_QMARK : N := {tok.get('QMark', 0)}.
Definition CH_PLUS : N := {tok.get('Plus', 0)}.
Definition CH_STAR : N := {tok.get('Star', 0)}.
Definition CH_BANG : N := {tok.get('Bang', 0)}.
Definition CH_AND : N := {tok.get('And', 0)}.
Definition CH_OR : N := {tok.get('Or', 0)}.
Definition CH_LPAREN : N := {tok.get('LParen', 0)}.
Definition CH_RPAREN : N := {tok.get('RParen', 0)}.
Definition ASN_BITS : N := {bits}.
Definition ASN_BITS_PER_PART : N := {bpp}.
Definition ASN_DECIMAL_MAX : N := 4294967295.
"""
    emit("PolicyConfig.v", body)
