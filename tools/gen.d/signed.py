"""constants of the signed-message / RPC-conversion code (C18) -> Gen/SignedConfig.v
(src, need, emit, missing, re are injected by tools/gen.py)"""

def generate():
    pb = "crates/libs/scion-protobuf/src/proto/proto.crypto.v1.rs"
    t = src(pb)
    alg = {}
    for nm in ("Unspecified", "EcdsaWithSha256", "EcdsaWithSha384", "EcdsaWithSha512"):
        m = need(t, r"pub enum SignatureAlgorithm \{.*?\b" + nm + r" = (\d+),", "SignatureAlgorithm::" + nm, pb, re.S)
        alg[nm] = int(m.group(1)) if m else 0
    sm = "crates/libs/sciparse/src/scion/signed_message.rs"
    t = src(sm)
    # order of the checks in SignedMessage::validate (the model follows it)
    need(t, r"HeaderAndBodyInternal::decode\(.*?Header::decode\(.*?key_provider\(&header\.verification_key_id\[\.\.\]\)\?;"
            r".*?header\.associated_data_length as usize != associated_data\.0.*?InvalidDigestAlgorithm"
            r".*?Signature::from_der\(&self\.signature\).*?verify_prehash\(&hash, &sig\)",
         "validate: decode, header, key, length, algorithm, DER, verify (in this order)", sm, re.S)
    need(t, r"associated_data_length: associated_data\.0 as i32,", "sign: associated_data_length = len as i32", sm)
    need(t, r"hasher\.update\(msg\);\s*for chunk in data \{\s*hasher\.update\(chunk\.as_ref\(\)\);", "hash(msg, chunks)", sm)
    sg = "crates/libs/sciparse/src/scion/segment.rs"
    t = src(sg)
    need(t, r"\.position\(\|e\| std::ptr::eq\(&e\.entry, self\)\)\s*\.unwrap_or\(path_segment\.as_entries\.len\(\)\);",
         "associated_data: position by identity, else len", sg)
    need(t, r"pub fn associated_data_at<'seg>\(.*?\.take\(position\)\s*\.flat_map\(\|entry\| \{\s*\[\s*entry\.signed\.header_and_body\.as_slice\(\),\s*entry\.signed\.signature\.as_slice\(\),",
         "associated_data_at: take(position), [header_and_body, signature]", sg, re.S)
    need(t, r"std::iter::once\(path_segment\.info\.encoded\.as_slice\(\)\)\.chain\(entry_iter\)", "info first, then entries", sg)
    rp = "crates/libs/sciparse/src/scion/segment/rpc.rs"
    t = src(rp)
    m = need(t, r"if hop_field\.mac\.len\(\) != (\d+) \{", "HopField MAC length check", rp)
    maclen = int(m.group(1)) if m else 0
    need(t, r"hop_field\.mac\[\.\.(\d+)\]\s*\.try_into\(\)\s*\.expect\(", "mac[..6].try_into().expect", rp)
    md = "crates/libs/sciparse/src/scion/path/metadata.rs"
    t = src(md)
    lt = {}
    for k, nm in ((0, "Unset"), (1, "Direct"), (2, "MultiHop"), (3, "OpenNet")):
        m = need(t, r"pub const fn from_i32\(value: i32\) -> Self \{.*?\b(\d+) => Self::" + nm + ",", "LinkType::from_i32 " + nm, md, re.S)
        lt[nm] = int(m.group(1)) if m else k
    need(t, r"_ => Self::Unknown\(value as u8\),", "LinkType::from_i32 Unknown(value as u8)", md)
    need(t, r"if value\.latitude == 0\.0 && value\.longitude == 0\.0 && value\.address\.is_empty\(\) \{\s*return None;", "GeoCoordinates::try_from_rpc zero test", md)
    pa = "crates/libs/sciparse/src/scion/path.rs"
    t = src(pa)
    need(t, r"if interface_count == 0 \|\| !interface_count\.is_multiple_of\(2\)", "interface count check", pa)
    need(t, r"let expected_count_ases = interface_count / 2 \+ 1;\s*let expected_count_links = interface_count - 1;\s*"
            r"let expected_count_links_intra = interface_count / 2 - 1;\s*let expected_count_links_inter = interface_count / 2;",
         "expected metadata vector lengths", pa)
    need(t, r"meta\.latency = if latency\.seconds < 0 \{\s*None\s*\} else \{\s*latency\.try_into\(\)\.ok\(\)", "latency guard", pa)
    need(t, r"meta\.bandwidth = \(bandwidth > 0\)\.then_some\(bandwidth\);", "bandwidth 0 = none", pa)
    need(t, r"let link_count = if_meta\.len\(\)\.saturating_sub\(1\);", "to_rpc link_count", pa)
    need(t, r"\.skip\(1\)\s*\.step_by\(2\)\s*\.take\(\(if_meta\.len\(\) / 2\)\.saturating_sub\(1\)\)", "to_rpc internal_hops", pa)
    need(t, r"epic_auth: rpc_path\.epic_auths\.map\(", "try_from_rpc keeps epic_auths", pa)
    need(t, r"rpc_path\.link_type = if_meta\s*\.iter\(\)\s*\.step_by\(2\)", "to_rpc link_type per inter-AS link", pa)
    need(t, r"seconds: meta\.expiration\.try_into\(\)\.unwrap_or\(i64::MAX\)", "to_rpc expiration saturates", pa)
    body = f"""From Coq Require Import NArith ZArith.
Definition SIGALG_UNSPECIFIED : Z := {alg['Unspecified']}.
Definition SIGALG_SHA256 : Z := {alg['EcdsaWithSha256']}.
Definition SIGALG_SHA384 : Z := {alg['EcdsaWithSha384']}.
Definition SIGALG_SHA512 : Z := {alg['EcdsaWithSha512']}.
Definition HOPFIELD_MAC_LEN : N := {maclen}.
Definition LT_UNSET : Z := {lt['Unset']}.
Definition LT_DIRECT : Z := {lt['Direct']}.
Definition LT_MULTIHOP : Z := {lt['MultiHop']}.
Definition LT_OPENNET : Z := {lt['OpenNet']}.
"""
    emit("SignedConfig.v", body)
