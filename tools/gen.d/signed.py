"""constants of the signed-message / RPC-conversion code (C18) -> Gen/SignedConfig.v
(src, need, expect, emit, missing, re are injected by tools/gen.py)"""

def generate():
    # ---- HARD (need): constants the model imports through Gen/SignedConfig.v
    pb = "crates/libs/scion-protobuf/src/proto/proto.crypto.v1.rs"
    t = src(pb)
    alg = {}
    for nm in ("Unspecified", "EcdsaWithSha256", "EcdsaWithSha384", "EcdsaWithSha512"):
        m = need(t, r"pub enum SignatureAlgorithm \{.*?\b" + nm + r"\s*=\s*(\d+)\s*,", "SignatureAlgorithm::" + nm, pb, re.S)
        alg[nm] = int(m.group(1)) if m else 0
    rp = "crates/libs/sciparse/src/scion/segment/rpc.rs"
    t = src(rp)
    m = need(t, r"mac\s*\.len\(\)\s*!=\s*(\d+)", "HopField MAC length", rp)
    maclen = int(m.group(1)) if m else 0
    md = "crates/libs/sciparse/src/scion/path/metadata.rs"
    t = src(md)
    lt = {}
    for k, nm in ((0, "Unset"), (1, "Direct"), (2, "MultiHop"), (3, "OpenNet")):
        m = need(t, r"fn from_i32\(.*?\b(\d+)\s*=>\s*(?:Self|LinkType)::" + nm + r"\b", "LinkType::from_i32 " + nm, md, re.S)
        lt[nm] = int(m.group(1)) if m else k
    # ---- SOFT (expect): mirrored statements; the harness observes their behaviour (result codes
    # of validate per entry, values and re-encoded messages of the converters), so a miss only
    # raises the case count.  Patterns pin operators / callees / constants, not locals or layout.
    expect(t, r"Unknown\(\s*\w+\s+as\s+u8\s*\)", "LinkType::from_i32: Unknown(value as u8)", md)
    expect(t, r"latitude\s*==\s*0\.0.*?longitude\s*==\s*0\.0.*?address\.is_empty\(\)", "GeoCoordinates::try_from_rpc zero test", md, re.S)
    t = src(rp)
    expect(t, r"mac\[\s*\.\.\s*(\d+)\s*\]", "mac[..6] slice (modelled panic site)", rp)
    sm = "crates/libs/sciparse/src/scion/signed_message.rs"
    t = src(sm)
    expect(t, r"HeaderAndBodyInternal::decode\(.*?Header::decode\(.*?key_provider\(.*?"
              r"associated_data_length\s+as\s+usize.*?InvalidDigestAlgorithm"
              r".*?Signature::from_der\(.*?verify_prehash\(",
           "validate: decode, header, key, length, algorithm, DER, verify (in this order)", sm, re.S)
    expect(t, r"associated_data_length:\s*[\w\.]+\s+as\s+i32", "sign: associated_data_length = len as i32", sm)
    expect(t, r"\.update\(msg\).*?for\s+\w+\s+in\s+data.*?\.update\(", "hash(msg, chunks in order)", sm, re.S)
    sg = "crates/libs/sciparse/src/scion/segment.rs"
    t = src(sg)
    expect(t, r"\.position\(.*?ptr::eq\(.*?\)\s*\.unwrap_or\(\s*path_segment\.as_entries\.len\(\)\s*\)",
           "associated_data: position by identity, else len", sg, re.S)
    expect(t, r"fn associated_data_at.*?\.take\(\s*position\s*\).*?header_and_body.*?signature", "associated_data_at: take(position), header_and_body then signature", sg, re.S)
    expect(t, r"once\(\s*path_segment\.info\.encoded.*?\)\s*\.chain\(", "info first, then entries", sg, re.S)
    pa = "crates/libs/sciparse/src/scion/path.rs"
    t = src(pa)
    expect(t, r"interface_count\s*==\s*0\s*\|\|\s*!\s*interface_count\.is_multiple_of\(2\)|interface_count\s*%\s*2\s*!=\s*0", "interface count check", pa)
    expect(t, r"interface_count\s*/\s*2\s*\+\s*1.*?interface_count\s*-\s*1.*?interface_count\s*/\s*2\s*-\s*1", "expected metadata vector lengths", pa, re.S)
    expect(t, r"latency\.seconds\s*<\s*0", "latency guard", pa)
    expect(t, r"bandwidth\s*>\s*0", "bandwidth 0 = none", pa)
    expect(t, r"if_meta\.len\(\)\.saturating_sub\(1\)", "to_rpc link count", pa)
    expect(t, r"\.skip\(1\)\s*\.step_by\(2\)\s*\.take\(", "to_rpc internal_hops", pa)
    expect(t, r"epic_auth:\s*rpc_path\.epic_auths", "try_from_rpc keeps epic_auths", pa)
    expect(t, r"link_type\s*=\s*if_meta\s*\.iter\(\)\s*\.step_by\(2\)", "to_rpc link_type per inter-AS link", pa)
    expect(t, r"expiration\.try_into\(\)\.unwrap_or\(i64::MAX\)", "to_rpc expiration saturates", pa)
    body = f"""From Coq Require Import NArith ZArith.
Definition SIGALG_UNSPECIFIED : Z := {alg['Unspecified']}.
Definition SIGALG_SHA256 : Z := {alg['EcdsaWithSha256']}.
Definition SIGALG_SHA384 : Z := {alg['EcdsaWithSha384']}.
Definition SIGALG_SHA512 : Z := {alg['EcdsaWithSha512']}.
Definition HOPFIELD_MAC_LEN : N := {maclen}.
Definition LT_UNSET : Z := {lt['Unset']}.
Definition LT_DIRECT : Z := {lt['Direct']}.
Definition LT_MULTIHOP : Z := {lt['MultiHop']}.
Definition LT_OPENNET : Z := {lt['OpenNet']}.
"""
    emit("SignedConfig.v", body)
