"""shape of the waiter/worker handshake in crates/scion-stack/src/path/manager{.rs,/pathset.rs}
-> Gen/SyncShape.v   (src, need, emit, missing, re are injected by tools/gen.py)

The C20 model (Sync/Model.v) is hand-written; what can be extracted mechanically is the ORDER of
the operations its atomic steps rely on.  Each construct below is one regular expression over the
source with the verif-hooks lines removed; if one disappears the check fails loudly instead of
silently verifying a protocol the code no longer follows."""

def _strip_hooks(t):
    return re.sub(r'^[ \t]*#\[cfg\(feature = "verif-hooks"\)\]\n[^\n]*\n', '', t, flags=re.M)

def generate():
    rel = "crates/scion-stack/src/path/manager/pathset.rs"
    t = _strip_hooks(src(rel))
    S = re.S
    facts = []
    def want(text, rx, what, r):
        m = need(text, rx, what, r, S)
        facts.append((what, m is not None))
    want(t, r"pub async fn await_ongoing_update\(&self\) \{\s*let finish_notification = \{\s*"
            r"let notify_guard = self\.shared\.sync\.lock\(\)\.unwrap\(\);\s*(?://[^\n]*\n\s*)*"
            r"if notify_guard\.ongoing_start\.is_none\(\) && notify_guard\.initialized \{\s*return;\s*\}\s*"
            r"notify_guard\.completed_notify\.clone\(\)\.notified_owned\(\)\s*\};\s*"
            r"finish_notification\.await;",
         "await_ongoing_update: flags tested and Notified created inside one locked block, awaited outside", rel)
    want(t, r"let mut notify_guard = self\.shared\.sync\.lock\(\)\.unwrap\(\);\s*"
            r"if notify_guard\.ongoing_start\.is_some\(\) \{.*?return;\s*\}\s*"
            r"notify_guard\.ongoing_start = Some\(now\);\s*\}",
         "fetch_and_update: first locked block sets ongoing_start", rel)
    want(t, r"let mut notify_guard = self\.shared\.sync\.lock\(\)\.unwrap\(\);\s*"
            r"notify_guard\.ongoing_start = None;\s*notify_guard\.initialized = true;\s*"
            r"notify_guard\.completed_notify\.notify_waiters\(\);\s*\}",
         "fetch_and_update: last locked block clears ongoing_start, sets initialized, notify_waiters", rel)
    want(t, r"let exit_reason = maintain\.await;\s*(?://[^\n]*\n\s*)*"
            r"if let Some\(mgr\) = self\.manager\.upgrade\(\) \{\s*mgr\.stop_managing_paths\(self\.src, self\.dst\);\s*\}\s*"
            r"(?://[^\n]*\n\s*)*let mut sync_guard = self\.shared\.sync\.lock\(\)\.unwrap\(\);\s*"
            r"sync_guard\.ongoing_start = None;\s*sync_guard\.initialized = true;\s*"
            r"sync_guard\.completed_notify\.notify_waiters\(\);\s*(?://[^\n]*\n\s*)*"
            r"sync_guard\.current_error = Some\(.*?\)\)\);\s*(?://[^\n]*\n\s*)*"
            r"self\.shared\.active_path\.store\(None\);",
         "manage(): exit = remove entry, locked block (clear, initialized, notify_waiters, error), clear slot", rel)
    want(t, r"select! \{\s*biased;\s*(?://[^\n]*\n\s*)*\(\) = cancel_token\.cancelled\(\) => \{\s*return \"cancelled\";",
         "manage(): biased select with cancellation first", rel)
    want(t, r"impl Drop for PathSetTask \{\s*fn drop\(&mut self\) \{\s*self\.cancel_token\.cancel\(\);",
         "PathSetTask::drop cancels the token", rel)
    want(t, r"pub async fn active_path\(.*?\{\s*let active_guard = self\.shared\.active_path\.load\(\);\s*"
            r"if active_guard\.is_some\(\) \{\s*return active_guard;\s*\}\s*\}\s*"
            r"self\.await_ongoing_update\(\)\.await;\s*self\.shared\.active_path\.load\(\)\s*\}",
         "active_path(): load, await_ongoing_update, load", rel)
    rel2 = "crates/scion-stack/src/path/manager.rs"
    u = _strip_hooks(src(rel2))
    want(u, r"let entry = match self\.0\.managed_paths\.entry_sync\(\(src, dst\)\) \{\s*"
            r"scc::hash_index::Entry::Occupied\(occupied\) => \{.*?occupied\s*\}\s*"
            r"scc::hash_index::Entry::Vacant\(vacant\) => \{.*?vacant\.insert_entry\(managed\.manage\(\)\)\s*\}\s*\};\s*"
            r"entry\.get\(\)\.0\.clone\(\)",
         "ensure_managed_paths: entry_sync, spawn only in the vacant arm", rel2)
    want(u, r"pub fn stop_managing_paths\(&self, src: IsdAsn, dst: IsdAsn\) \{\s*"
            r"if self\.0\.managed_paths\.remove_sync\(&\(src, dst\)\) \{",
         "stop_managing_paths: remove_sync", rel2)
    want(u, r"let active = path_set\.active_path\(\)\.await\.as_ref\(\)\.map\(\|p\| p\.0\.clone\(\)\);.*?"
            r"None => \{.*?let last_error = path_set\.current_error\(\);\s*match last_error \{\s*"
            r"Some\(e\) => Err\(e\),\s*None => \{.*?Err\(Arc::new\(PathFetchError::NoPathsFound\)\)",
         "path(): no path after the wait -> current_error or NoPathsFound", rel2)
    body = "From Coq Require Import List Bool String.\nImport ListNotations.\nOpen Scope string_scope.\n"
    body += "(* construct found in the source (verif-hooks lines removed) *)\n"
    body += "Definition shape_facts : list (string * bool) := [\n"
    body += ";\n".join('  ("%s", %s)' % (w.replace('"', "'"), "true" if ok else "false") for w, ok in facts)
    body += "].\nDefinition shape_ok : bool := forallb snd shape_facts.\n"
    emit("SyncShape.v", body)
