"""shape of the waiter/worker handshake in crates/scion-stack/src/path/manager{.rs,/pathset.rs}
-> Gen/SyncShape.v   (src, need, expect, emit, missing, re are injected by tools/gen.py)

The C20 model (Sync/Model.v) is hand-written; what can be extracted mechanically is the ORDER of
the operations its atomic steps rely on.  Source is matched with the verif-hooks lines and the
comments removed.

HARD (need): only what the correspondence harness can NOT observe reliably -- the two atomicity
assumptions whose violation is a race with a window of a few instructions:
  * the Notified future is created while the sync mutex is held (same guard as the flag test);
  * the pair's worker is created through the entry API (get-or-insert under the bucket lock).
SOFT (expect): every other mirrored statement.  The harness observes its behaviour: flags and
notification through trace inclusion, hangs (c_hung), handle views after the end (directed
families failed_lookup_and_retry, exit_before_first_lookup, arrive-during-idle-exit, ...)."""

def _strip(t):
    t = re.sub(r'^[ \t]*#\[cfg\(feature = "verif-hooks"\)\]\n[^\n]*\n', '', t, flags=re.M)
    return re.sub(r'//[^\n]*', '', t)

def _body(text, header_rx):
    """text of the function whose header matches header_rx (brace matching), or ''"""
    m = re.search(header_rx, text)
    if not m:
        return ""
    i = text.find("{", m.end() - 1)
    depth, k = 0, i
    while k < len(text):
        if text[k] == "{": depth += 1
        elif text[k] == "}":
            depth -= 1
            if depth == 0:
                return text[i:k + 1]
        k += 1
    return ""

def generate():
    rel = "crates/scion-stack/src/path/manager/pathset.rs"
    t = _strip(src(rel))
    S = re.S
    facts, softs = [], []
    def hard(text, rx, what, r):
        facts.append((what, need(text, rx, what, r, S) is not None))
    def soft(text, rx, what, r):
        softs.append((what, expect(text, rx, what, r, S) is not None))

    # ---- HARD: atomicity the harness cannot observe
    wait_fn = _body(t, r"async fn await_ongoing_update\s*\(")
    # a guard of the sync mutex is bound, the flags are tested and the Notified future is created
    # before the block that owns the guard ends; the await comes after that block
    hard(wait_fn,
         r"\{\s*let (?:mut )?(\w+) = self\.shared\.sync\.lock\(\)[^;]*;"      # guard
         r"(?:(?!\n\s*\};).)*?\1\.ongoing_start(?:(?!\n\s*\};).)*?\1\.initialized"   # flags via the guard
         r"(?:(?!\n\s*\};).)*?\1\.completed_notify[^;]*?\.notified(?:_owned)?\(\)"   # future via the guard
         r"\s*\}\s*;.*?\.await",
         "await_ongoing_update: flags tested and Notified created under one guard of the sync mutex, awaited outside", rel)
    rel2 = "crates/scion-stack/src/path/manager.rs"
    u = _strip(src(rel2))
    ens = _body(u, r"fn ensure_managed_paths\s*\(")
    hard(ens, r"managed_paths\s*\.entry_sync\(\(src, dst\)\).*?Vacant\((\w+)\).*?\1\.insert_entry\(",
         "ensure_managed_paths: get-or-insert through entry_sync, insertion in the vacant arm", rel2)

    # ---- SOFT: mirrored statements whose behaviour the harness observes
    fau = _body(t, r"async fn fetch_and_update\s*\(")
    soft(fau, r"\.sync\.lock\(\).*?\.ongoing_start = Some\(now\)",
         "fetch_and_update: first locked block sets ongoing_start", rel)
    soft(fau, r"\.ongoing_start = None;.*?\.completed_notify\.notify_waiters\(\)",
         "fetch_and_update: last locked block clears ongoing_start and calls notify_waiters", rel)
    soft(fau, r"\.initialized = true", "fetch_and_update: last locked block sets initialized", rel)
    soft(fau, r"current_error = None.*?current_error = Some\(", "fetch_and_update: current_error cleared on success, set on failure", rel)
    mg = _body(t, r"pub fn manage\s*\(")
    soft(mg, r"maintain\.await;.*?stop_managing_paths\(self\.src, self\.dst\).*?\.sync\.lock\(\).*?"
             r"\.completed_notify\.notify_waiters\(\).*?\.current_error = Some\(.*?active_path\.store\(None\)",
         "manage(): exit = remove entry, locked block (notify_waiters, error), clear slot", rel)
    soft(mg, r"maintain\.await;.*?\.ongoing_start = None;", "manage(): exit block clears ongoing_start", rel)
    soft(mg, r"maintain\.await;.*?\.initialized = true;", "manage(): exit block sets initialized", rel)
    soft(mg, r"cancel_token\.cancelled\(\) =>\s*\{\s*return \"cancelled\"", "manage(): cancellation branch", rel)
    soft(t, r"impl Drop for PathSetTask \{\s*fn drop\(&mut self\) \{\s*self\.cancel_token\.cancel\(\);",
         "PathSetTask::drop cancels the token", rel)
    ap = _body(t, r"pub async fn active_path\s*\(")
    soft(ap, r"active_path\.load\(\).*?await_ongoing_update\(\)\.await.*?active_path\.load\(\)",
         "active_path(): load, await_ongoing_update, load", rel)
    soft(ens, r"Vacant\(\w+\).*?\.manage\(\)", "ensure_managed_paths: worker spawned in the vacant arm", rel2)
    soft(u, r"fn stop_managing_paths\(&self, src: IsdAsn, dst: IsdAsn\) \{\s*if self\.0\.managed_paths\.remove_sync\(&\(src, dst\)\)",
         "stop_managing_paths: remove_sync", rel2)
    pf = _body(u, r"pub async fn path\s*\(")
    soft(pf, r"\.active_path\(\)\.await.*?\.current_error\(\).*?NoPathsFound",
         "path(): no path after the wait -> current_error or NoPathsFound", rel2)

    body = "From Coq Require Import List Bool String.\nImport ListNotations.\nOpen Scope string_scope.\n"
    body += "(* construct found in the source (verif-hooks lines and comments removed); a missing HARD\n   construct fails the check in the translator, a missing SOFT one is decided by the harness *)\n"
    body += "Definition shape_facts : list (string * bool) := [\n"
    body += ";\n".join('  ("%s", %s)' % (w.replace('"', "'"), "true" if ok else "false") for w, ok in facts)
    body += "].\nDefinition shape_ok : bool := forallb snd shape_facts.\n"
    body += "(* SOFT constructs (informative; the correspondence decides) *)\nDefinition shape_soft : list (string * bool) := [\n"
    body += ";\n".join('  ("%s", %s)' % (w.replace('"', "'"), "true" if ok else "false") for w, ok in softs)
    body += "].\n"
    emit("SyncShape.v", body)
