"""constants and literals of the sciparse text forms -> Gen/TextConfig.v
(src, need, emit, missing, re are injected by tools/gen.py)"""

def generate():
    asn = "crates/libs/sciparse/src/scion/identifier/asn.rs"
    t = src(asn)
    m = need(t, r"pub const BITS: u32 = (\d+);", "Asn::BITS", asn); bits = int(m.group(1)) if m else 0
    m = need(t, r"const BITS_PER_PART: u32 = (\d+);", "Asn::BITS_PER_PART", asn); bpp = int(m.group(1)) if m else 0
    m = need(t, r"const NUMBER_PARTS: u32 = (\d+);", "Asn::NUMBER_PARTS", asn); nparts = int(m.group(1)) if m else 0
    need(t, r"pub const MAX: Self = Self\(\(1 << Self::BITS\) - 1\);", "Asn::MAX formula", asn)
    need(t, r"const BGP_ASN_FORMAT_BOUNDARY: u64 = u32::MAX as u64;", "BGP_ASN_FORMAT_BOUNDARY", asn)
    need(t, r"if bgp_asn <= u32::MAX\.into\(\)", "decimal AS range test", asn)
    need(t, r"u16::from_str_radix\(asn_part, 16\)", "hex group parser", asn)
    need(t, r'write!\(f, "\{asn_part:x\}\{separator\}"\)', "hex group format", asn)
    need(t, r'let separator = if i != 0 \{ ":" \} else \{ "" \};', "group separator", asn)
    need(t, r"asn_string\.splitn\(Asn::NUMBER_PARTS as usize, ':'\)", "splitn on ':'", asn)

    isd = "crates/libs/sciparse/src/scion/identifier/isd.rs"
    t = src(isd)
    need(t, r"pub struct Isd\(pub u16\);", "Isd(u16)", isd)
    need(t, r"u16::from_str\(string\)", "Isd decimal parser", isd)

    ia = "crates/libs/sciparse/src/scion/identifier/isd_asn.rs"
    t = src(ia)
    need(t, r'write!\(f, "\{\}-\{\}", self\.isd\(\), self\.asn\(\)\)', "IsdAsn format", ia)
    need(t, r"\.split_once\('-'\)", "IsdAsn split", ia)
    need(t, r"filter\(\|c\| \*c == '-'\)\.take\(2\)\.count\(\)", "IsdAsn separator count", ia)

    ha = "crates/libs/sciparse/src/scion/address/host_addr.rs"
    t = src(ha)
    svc = {}
    for nm in ("DAEMON", "CONTROL", "WILDCARD"):
        m = need(t, rf"pub const {nm}: Self = Self\(0x([0-9a-fA-F]+)\);", "ServiceAddr::" + nm, ha)
        svc[nm] = int(m.group(1), 16) if m else 0
    m = need(t, r"const MULTICAST_FLAG: u16 = 0x([0-9a-fA-F]+);", "MULTICAST_FLAG", ha)
    mc = int(m.group(1), 16) if m else 0
    names = {}
    for nm in ("DAEMON", "CONTROL", "WILDCARD"):
        m = need(t, rf'ServiceAddr::{nm} => write!\(f, "(\w+)"\)', "display name of " + nm, ha)
        names[nm] = m.group(1) if m else ""
        if m:
            need(t, rf'"{m.group(1)}" => ServiceAddr::{nm},', "parse name of " + nm, ha)
    m = need(t, r'ServiceAddr\(value\) => write!\(f, "<SVC:\{value:#06x\}>"\)', "unnamed service format", ha)
    need(t, r'write!\(f, "_M"\)', "multicast suffix", ha)
    need(t, r"s\.split_once\('_'\)\.unwrap_or\(\(s, \"A\"\)\)", "service suffix split", ha)

    ad = "crates/libs/sciparse/src/scion/address/addr.rs"
    t = src(ad)
    need(t, r'write!\(f, "\{\},\{\}", isd_asn, host\)', "ScionAddr format", ad)
    need(t, r"s\.splitn\(2, ','\)", "ScionAddr split", ad)

    so = "crates/libs/sciparse/src/scion/address/socket_addr.rs"
    t = src(so)
    need(t, r'write!\(f, "\[\{\},\{\}\]:\{\}", isd_asn, host, port\)', "socket address format", so)
    need(t, r"s\.rsplit_once\(':'\)", "socket address split", so)
    need(t, r"bracketed_addr\[1\.\.bracketed_addr\.len\(\) - 1\]", "bracket slice", so)

    tx = "crates/scion-stack/src/resolver/txt.rs"
    t = src(tx)
    m = need(t, r'const SCION_TXT_PREFIX: &str = "([^"]+)";', "SCION_TXT_PREFIX", tx)
    txt_prefix = m.group(1) if m else ""
    need(t, r"let mut remaining = payload\.trim\(\);", "payload trim", tx)
    need(t, r"\.find\('\]'\)", "find ']'", tx)
    need(t, r"let entry = remaining\[1\.\.close_idx\]\.trim\(\);", "entry slice", tx)
    need(t, r"let rest = remaining\[close_idx \+ 1\.\.\]\.trim\(\);", "rest slice", tx)
    need(t, r"\.split_once\(','\)", "entry split", tx)
    need(t, r"IsdAsn::from_str\(isd_asn_str\.trim\(\)\)\?", "TXT ISD-AS parse", tx)
    need(t, r"IpAddr::from_str\(host_str\.trim\(\)\)\?", "TXT host parse", tx)
    need(t, r"remaining = rest\[1\.\.\]\.trim\(\);", "advance", tx)

    def lit(s): return "[" + "; ".join(str(b) for b in s.encode()) + "]"
    body = f"""From Coq Require Import NArith List.
Import ListNotations.
Local Open Scope N_scope.
Definition U16_MAX : N := 65535.
Definition U32_MAX : N := 4294967295.
Definition U64_MAX : N := 18446744073709551615.
Definition ASN_BITS : N := {bits}.
Definition ASN_BITS_PER_PART : N := {bpp}.
Definition ASN_NUMBER_PARTS : N := {nparts}.
Definition ASN_MAX : N := {(1 << bits) - 1}.
Definition SVC_DS : N := {svc['DAEMON']}.
Definition SVC_CS : N := {svc['CONTROL']}.
Definition SVC_WILDCARD : N := {svc['WILDCARD']}.
Definition SVC_MCAST : N := {mc}.
Definition s_DS : list N := {lit(names['DAEMON'])}.
Definition s_CS : list N := {lit(names['CONTROL'])}.
Definition s_Wildcard : list N := {lit(names['WILDCARD'])}.
Definition SCION_TXT_PREFIX : list N := {lit(txt_prefix)}.
"""
    emit("TextConfig.v", body)
