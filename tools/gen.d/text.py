"""constants and literals of the sciparse text forms -> Gen/TextConfig.v
(src, need, expect, emit, missing, re are injected by tools/gen.py)"""

def generate():
    # need  = constants / literals the model imports through Gen/TextConfig.v
    # expect = mirrored statements; all of parsing and formatting is observed by the harness
    #          (h_text compares outcome class, error variant, value and display string)
    asn = "crates/libs/sciparse/src/scion/identifier/asn.rs"
    t = src(asn)
    m = need(t, r"const BITS: u32 = (\d+);", "Asn::BITS", asn); bits = int(m.group(1)) if m else 0
    m = need(t, r"const BITS_PER_PART: u32 = (\d+);", "Asn::BITS_PER_PART", asn); bpp = int(m.group(1)) if m else 0
    m = need(t, r"const NUMBER_PARTS: u32 = (\d+);", "Asn::NUMBER_PARTS", asn); nparts = int(m.group(1)) if m else 0
    need(t, r"const MAX: Self = (?:Self|Asn)\(\s*\(1(?:u64|_u64)? << (?:Self|Asn)::BITS\)\s*-\s*1\s*\)", "Asn::MAX = 2^BITS - 1", asn)
    expect(t, r"u32::MAX", "decimal (BGP) AS range bound u32::MAX", asn)
    expect(t, r"from_str_radix\([^()]*,\s*16\s*\)", "hex group parser", asn)
    expect(t, r"\{[^{}]*:x\}", "hex group format", asn)
    expect(t, r"splitn\([^()]*,\s*':'\s*\)", "splitn on ':'", asn)

    isd = "crates/libs/sciparse/src/scion/identifier/isd.rs"
    t = src(isd)
    expect(t, r"pub struct Isd\(pub u16\)", "Isd(u16)", isd)
    expect(t, r"u16::from_str|parse::<u16>", "Isd decimal parser", isd)

    ia = "crates/libs/sciparse/src/scion/identifier/isd_asn.rs"
    t = src(ia)
    expect(t, r'"\{\}-\{\}"', "IsdAsn format", ia)
    expect(t, r"split_once\('-'\)", "IsdAsn split", ia)

    ha = "crates/libs/sciparse/src/scion/address/host_addr.rs"
    t = src(ha)
    svc = {}
    for nm in ("DAEMON", "CONTROL", "WILDCARD"):
        m = need(t, rf"const {nm}: Self = (?:Self|ServiceAddr)\(0x([0-9a-fA-F_]+)\);", "ServiceAddr::" + nm, ha)
        svc[nm] = int(m.group(1).replace("_", ""), 16) if m else 0
    m = need(t, r"const MULTICAST_FLAG: u16 = 0x([0-9a-fA-F_]+);", "MULTICAST_FLAG", ha)
    mc = int(m.group(1).replace("_", ""), 16) if m else 0
    names = {}
    for nm in ("DAEMON", "CONTROL", "WILDCARD"):
        m = need(t, rf'(?:ServiceAddr|Self)::{nm}\s*=>\s*(?:write!\(\s*f\s*,\s*|f\.write_str\(\s*)?"(\w+)"', "display name of " + nm, ha)
        names[nm] = m.group(1) if m else ""
        if m:
            expect(t, rf'"{m.group(1)}"\s*=>\s*(?:ServiceAddr|Self)::{nm}', "parse name of " + nm, ha)
    expect(t, r'<SVC:\{[^{}]*:#06x\}>', "unnamed service format", ha)
    expect(t, r'"_M"', "multicast suffix", ha)
    expect(t, r"split_once\('_'\)", "service suffix split", ha)

    ad = "crates/libs/sciparse/src/scion/address/addr.rs"
    t = src(ad)
    expect(t, r'"\{\},\{\}"', "ScionAddr format", ad)
    expect(t, r"splitn\(2,\s*','\s*\)|split_once\(','\)", "ScionAddr split", ad)

    so = "crates/libs/sciparse/src/scion/address/socket_addr.rs"
    t = src(so)
    expect(t, r'"\[\{\},\{\}\]:\{\}"', "socket address format", so)
    expect(t, r"rsplit_once\(':'\)", "socket address split", so)
    expect(t, r"(?:starts_with|strip_prefix)\('\['\)", "opening bracket test", so)
    expect(t, r"(?:ends_with|strip_suffix)\('\]'\)", "closing bracket test", so)

    tx = "crates/scion-stack/src/resolver/txt.rs"
    t = src(tx)
    m = need(t, r'const SCION_TXT_PREFIX: &str = "([^"]+)";', "SCION_TXT_PREFIX", tx)
    txt_prefix = m.group(1) if m else ""
    expect(t, r"\.trim\(\)", "whitespace trimming", tx)
    expect(t, r"find\('\]'\)", "find ']'", tx)
    expect(t, r"split_once\(','\)", "entry split", tx)
    expect(t, r"IsdAsn::from_str|parse::<IsdAsn>", "TXT ISD-AS parse", tx)
    expect(t, r"IpAddr::from_str|parse::<IpAddr>", "TXT host parse", tx)

    def lit(s): return "[" + "; ".join(str(b) for b in s.encode()) + "]"
    body = f"""From Coq Require Import NArith List.
Import ListNotations.
Local Open Scope N_scope.
Definition U16_MAX : N := 65535.
Definition U32_MAX : N := 4294967295.
Definition U64_MAX : N := 18446744073709551615.
Definition ASN_BITS : N := {bits}.
Definition ASN_BITS_PER_PART : N := {bpp}.
Definition ASN_NUMBER_PARTS : N := {nparts}.
Definition ASN_MAX : N := {(1 << bits) - 1}.
Definition SVC_DS : N := {svc['DAEMON']}.
Definition SVC_CS : N := {svc['CONTROL']}.
Definition SVC_WILDCARD : N := {svc['WILDCARD']}.
Definition SVC_MCAST : N := {mc}.
Definition s_DS : list N := {lit(names['DAEMON'])}.
Definition s_CS : list N := {lit(names['CONTROL'])}.
Definition s_Wildcard : list N := {lit(names['WILDCARD'])}.
Definition SCION_TXT_PREFIX : list N := {lit(txt_prefix)}.
"""
    emit("TextConfig.v", body)
