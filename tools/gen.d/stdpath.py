"""bit ranges / constants of the standard and one-hop path -> Gen/StdPathLayout.v
(src, need, expect, emit, missing, re are injected by tools/gen.py)

need   = constants/tables the model imports (bit ranges, sizes, flag bits, MAC block offsets) and
         checks the harness cannot observe; expect = mirrored statements whose behaviour the
         correspondence observes (a miss only enlarges the run)."""

def generate():
    rel = "crates/libs/sciparse/src/proto/dataplane_path/standard/layout.rs"
    t = src(rel)
    out = []
    def struct_body(name):
        m = need(t, r"impl " + name + r" \{(.*?)\nimpl ", name + " impl block", rel, re.S)
        return m.group(1) if m else ""
    def ranges(struct, prefix, names):
        body = struct_body(struct)
        for nm in names:
            m = need(body, r"gen_bitrange_const!\(" + nm + r", (\d+), (\d+)\);", struct + "::" + nm, rel)
            a, w = (int(m.group(1)), int(m.group(2))) if m else (0, 0)
            out.append(f"Definition {prefix}_{nm} : N * N := ({a}, {w}).")
    ranges("StdPathMetaLayout", "META", ["CURR_INFO_FIELD_RNG", "CURR_HOP_FIELD_RNG", "RSV_RNG",
                                        "SEG0_LEN_RNG", "SEG1_LEN_RNG", "SEG2_LEN_RNG", "TOTAL_RNG"])
    ranges("InfoFieldLayout", "INFO", ["FLAGS_RNG", "RSV_RNG", "SEGMENT_ID_RNG", "TIMESTAMP_RNG", "TOTAL_RNG"])
    ranges("HopFieldLayout", "HOP", ["FLAGS_RNG", "EXP_TIME_RNG", "CONS_INGRESS_RNG", "CONS_EGRESS_RNG",
                                    "MAC_RNG", "TOTAL_RNG"])
    m = need(t, r"pub const MAX_SEGMENT_HOPS: usize = (\d+);", "MAX_SEGMENT_HOPS", rel)
    out.append(f"Definition MAX_SEGMENT_HOPS : N := {int(m.group(1)) if m else 0}.")
    m = need(t, r"pub const MAX_SEGMENTS: usize = (\d+);", "MAX_SEGMENTS", rel)
    out.append(f"Definition MAX_SEGMENTS : N := {int(m.group(1)) if m else 0}.")

    # maximum encodable path size = header max - common header - minimal address header
    rel2 = "crates/libs/sciparse/src/proto/dataplane_path/layout.rs"
    t2 = src(rel2)
    need(t2, r"pub const MAX_SIZE_BYTES: usize = ScionHeaderLayout::MAX_SIZE_BYTES\s*- CommonHeaderLayout::SIZE_BYTES\s*- AddressHeaderLayout::MIN_SIZE_BYTES;",
         "ScionHeaderPathLayout::MAX_SIZE_BYTES formula", rel2)
    rel3 = "crates/libs/sciparse/src/proto/dataplane_path/model.rs"
    m = need(src(rel3), r"Path size exceeds maximum encodable size \((\d+) bytes\)", "maximum path size message", rel3)
    out.append(f"Definition MAX_PATH_SIZE_BYTES : N := {int(m.group(1)) if m else 0}.")

    # flags and expiry unit
    rel4 = "crates/libs/sciparse/src/proto/dataplane_path/standard/types.rs"
    t4 = src(rel4)
    for nm in ("CONS_DIR", "PEERING", "CONS_EGRESS_ROUTER_ALERT", "CONS_INGRESS_ROUTER_ALERT"):
        m = need(t4, r"const " + nm + r"\s*=\s*0b([01_]+);", "flag " + nm, rel4)
        out.append(f"Definition FLAG_{nm} : N := {int(m.group(1).replace('_', ''), 2) if m else 0}.")
    m = need(t4, r"pub const EXP_TIME_UNIT: Duration = Duration::new\((\d+), ([\d_]+)\);", "EXP_TIME_UNIT", rel4)
    secs, nanos = (int(m.group(1)), int(m.group(2).replace("_", ""))) if m else (0, 0)
    out.append(f"Definition EXP_TIME_UNIT_MILLIS : N := {secs * 1000 + nanos // 1000000}.")
    expect(t4, r"EXP_TIME_UNIT\s*\.\s*saturating_mul\(\s*\w+ as u32 \+ 1\s*\)", "exp_time_to_duration formula", rel4)

    # one-hop layout: info field followed by two hop fields
    rel5 = "crates/libs/sciparse/src/proto/dataplane_path/onehop/layout.rs"
    t5 = src(rel5)
    need(t5, r"pub const SIZE_BYTES: usize = InfoFieldLayout::SIZE_BYTES \+ 2 \* HopFieldLayout::SIZE_BYTES;", "OneHop SIZE_BYTES", rel5)
    need(t5, r"gen_bitrange_const!\(INFO_FIELD, 0, InfoFieldLayout::SIZE_BYTES \* 8\);", "OneHop INFO_FIELD", rel5)
    need(t5, r"gen_bitrange_const!\(\s*HOP_FIELD_1,\s*Self::INFO_FIELD\.end,\s*HopFieldLayout::SIZE_BYTES \* 8\s*\);", "OneHop HOP_FIELD_1", rel5)
    need(t5, r"gen_bitrange_const!\(\s*HOP_FIELD_2,\s*Self::HOP_FIELD_1\.end,\s*HopFieldLayout::SIZE_BYTES \* 8\s*\);", "OneHop HOP_FIELD_2", rel5)

    # MAC input block of calculate_hop_mac: byte offsets of the five fields and the truncation
    rel6 = "crates/libs/sciparse/src/proto/dataplane_path/standard/mac.rs"
    t6 = src(rel6)
    offs = {}
    body6 = need(t6, r"pub fn calculate_hop_mac\((.*?)\n    \}", "calculate_hop_mac body", rel6, re.S)
    body6 = body6.group(1) if body6 else ""
    # the four multi-byte writes, whatever the buffer / parameter names: <buf>[a..b].copy_from_slice(&<x>.to_be_bytes())
    writes = re.findall(r"\w+\[(\d+)\.\.(\d+)\]\s*\.\s*copy_from_slice\(&\s*(\w+)\.to_be_bytes\(\)\)", body6)
    params = re.findall(r"(\w+):\s*u(?:16|32|8)", body6.split(")")[0])     # beta, timestamp, exp, ingress, egress in order
    byname = {x: (int(a), int(b)) for a, b, x in writes}
    order = [q for q in params if q in byname]
    if len(order) != 4:
        missing.append(f"{rel6}: mac input: four to_be_bytes writes of the u16/u32 parameters")
        order = (order + [None] * 4)[:4]
    for nm, q in zip(("BETA", "TS", "CI", "CE"), order):
        offs[nm] = byname.get(q, (0, 0))
    exp_param = next((q for q in params if q not in byname), None)
    m = need(body6, r"\w+\[(\d+)\]\s*=\s*" + (exp_param or "exp_time") + r"\s*;", "mac input EXP", rel6)
    offs["EXP"] = (int(m.group(1)), int(m.group(1)) + 1) if m else (0, 0)
    m = need(t6, r"let mut \w+ = \[0u8; (\d+)\];", "mac input size", rel6)
    out.append(f"Definition MAC_INPUT_LEN : N := {int(m.group(1)) if m else 0}.")
    for k in ("BETA", "TS", "EXP", "CI", "CE"):
        out.append(f"Definition MAC_IN_{k} : N * N := ({offs[k][0]}, {offs[k][1]}).")
    m = need(t6, r"copy_from_slice\(&\s*\w+\[\.\.(\d+)\]\)", "mac truncation", rel6)
    out.append(f"Definition MAC_LEN : N := {int(m.group(1)) if m else 0}.")
    expect(t6, r"Cmac::<\s*(aes::)?Aes128\s*>", "AES-128-CMAC", rel6)
    expect(t6, r"u16::from_be_bytes\(\[\s*\w+\[0\],\s*\w+\[1\]\s*\]\)", "mac_beta_step partial mac", rel6)
    expect(t6, r"\w+\s*\^\s*\w+", "mac_beta_step xor", rel6)

    # StandardPath::wire_valid: is the range check "current_hop_field fits the 6-bit CurrHF
    # field" present (added by the C03 repair)?  Optional construct: emitted as a boolean.
    rel7 = "crates/libs/sciparse/src/proto/dataplane_path/standard/model.rs"
    t7 = src(rel7)
    m = need(t7, r"fn wire_valid\(&self\) -> Result<\(\), InvalidStructureError> \{(.*?)\n    \}\n", "StandardPath::wire_valid", rel7, re.S)
    wv = m.group(1) if m else ""
    fits = re.search(r"self\.current_hop_field as usize\s*>\s*(StdPathMetaLayout::CURR_HOP_FIELD_RNG\s*\.max_uint\(\)|63)", wv) is not None
    out.append(f"Definition WIRE_VALID_CHECKS_CURR_HF_FITS : bool := {'true' if fits else 'false'}.")
    expect(wv, r"current_hop_field as usize\s*>=\s*self\s*\.\s*hop_field_count\(\)", "wire_valid curr_hop_field check", rel7)
    expect(wv, r"current_info_field as usize\s*>=\s*self\s*\.\s*info_field_count\(\)", "wire_valid current_info_field check", rel7)
    need(wv, r"hop_fields\s*\.\s*len\(\)\s*>\s*StdPathMetaLayout::MAX_SEGMENT_HOPS", "wire_valid MAX_SEGMENT_HOPS check (not observable: views carry 6-bit lengths)", rel7)
    expect(wv, r"hop_fields\s*\.\s*is_empty\(\)", "wire_valid empty segment check", rel7)

    body = "From Coq Require Import NArith.\nLocal Open Scope N_scope.\n" + "\n".join(out) + "\n"
    emit("StdPathLayout.v", body)
