"""SNAP control plane constants -> Gen/SnapToken.v (C10) and Gen/SnapRegistry.v (C09)
(src, need, emit, missing, re are injected by tools/gen.py)

C10: the jsonwebtoken `Validation` profile that `build_validation` produces = the library's
DEFAULTS (read from the vendored jsonwebtoken source whose version /repo/Cargo.lock pins)
overridden by the statements of `build_validation` (every statement of the body must be one
this translator understands, otherwise it fails loudly), plus the field tables of the two
claims structs and the `required_claims` of `AnyClaims`.
C09: the comparison operator of identity_registry.rs that the model imports, and the clock
argument of the tunnel server's authorisation calls.

Construct checks come in two kinds (AGENT_GUIDE "need vs expect"):
  need   (HARD)  constants / tables / the Validation profile the model imports, and constructs
                 the correspondence harness cannot observe: which clock value SnapTunServer hands
                 to `is_authorized` (the harness virtualises time inside its authorisation
                 wrapper), tunnel expiry by timers, what the dataplane gateway forwards.
  expect (SOFT)  mirrored statements whose behaviour the harness observes on the real code
                 (key selection by kid, AnyClaims version dispatch, granted lifetime,
                 add_identity / clean_expired, the presence of the authorisation checks).
The regular expressions pin operators, constants and callee names, not local names or layout."""
import glob as _glob, os as _os

def _fn_body(text, name):
    """body (between the outer braces) of `fn <name>`, None if absent"""
    m = re.search(r"fn " + re.escape(name) + r"\b", text)
    if not m:
        return None
    i = text.find("{", m.end())
    # skip a `where` clause / return type: first '{' after the signature's closing ')'
    depth = 0; k = m.end(); 
    while k < len(text) and text[k] != "(":
        k += 1
    while k < len(text):
        if text[k] == "(": depth += 1
        elif text[k] == ")":
            depth -= 1
            if depth == 0: break
        k += 1
    i = text.find("{", k)
    if i < 0:
        return None
    depth = 0
    for j in range(i, len(text)):
        if text[j] == "{": depth += 1
        elif text[j] == "}":
            depth -= 1
            if depth == 0:
                return text[i + 1:j]
    return None

def _strip_comments(t):
    return re.sub(r"//[^\n]*", "", t)

def _coq_str(s):
    return '"' + s.replace('"', '""') + '"'

def _fields(t, rel, what):
    """fields of `pub struct SnapTokenClaims { ... }` as (name, rust type); a
    #[serde(flatten)] catch-all map is reported separately"""
    m = need(t, r"pub struct SnapTokenClaims \{(.*?)\n\}", what, rel, re.S)
    if not m:
        return [], False
    body = re.sub(r"///[^\n]*", "", m.group(1))
    flatten = False
    out = []
    pending_attr = ""
    for line in body.splitlines():
        line = line.strip()
        if not line:
            continue
        if line.startswith("#["):
            pending_attr += line
            continue
        fm = re.match(r"(?:pub )?(\w+): ([\w:<>, ]+),$", line)
        if not fm:
            missing.append(f"{rel}: unparsable field line in {what}: {line!r}")
            continue
        if "flatten" in pending_attr:
            flatten = True
        elif pending_attr:
            missing.append(f"{rel}: unsupported serde attribute {pending_attr!r} on field {fm.group(1)}")
        else:
            out.append((fm.group(1), fm.group(2)))
        pending_attr = ""
    return out, flatten

_TY = {"u64": "FU64", "usize": "FU64", "String": "FStr"}

def _ftable(fields, pssid_ty, rel):
    items = []
    for n, ty in fields:
        if ty == "Pssid":
            c = pssid_ty
        elif ty in _TY:
            c = _TY[ty]
        else:
            missing.append(f"{rel}: field {n} has type {ty} unknown to the translator")
            c = "FStr"
        items.append(f"({_coq_str(n)}, {c})")
    return "[" + "; ".join(items) + "]"

def _token():
    rel = "crates/snap/snap-control/src/server/token_verifier.rs"
    t = src(rel)
    # ---- jsonwebtoken version and defaults
    lock = src("Cargo.lock")
    m = need(lock, r'name = "jsonwebtoken"\nversion = "([\d.]+)"', "jsonwebtoken version", "Cargo.lock")
    ver = m.group(1) if m else "?"
    cands = sorted(_glob.glob(_os.path.expanduser(f"~/.cargo/registry/src/*/jsonwebtoken-{ver}/src/validation.rs")))
    if not cands:
        missing.append(f"~/.cargo/registry/src/*/jsonwebtoken-{ver}/src/validation.rs: vendored source of the pinned version")
        return
    jrel = cands[0]
    j = src(jrel)
    dm = need(j, r"fn new_impl\(algorithms: Vec<Algorithm>\) -> Validation \{(.*?)\n    \}", "Validation::new_impl", jrel, re.S)
    if not dm:
        return
    d = dm.group(1)
    cfg = {}
    for k, rx in (("leeway", r"leeway: (\d+),"), ("reject_lt", r"reject_tokens_expiring_in_less_than: (\d+),"),
                  ("validate_exp", r"validate_exp: (true|false),"), ("validate_nbf", r"validate_nbf: (true|false),"),
                  ("validate_aud", r"validate_aud: (true|false),"), ("iss", r"iss: (None),"), ("sub", r"sub: (None),"),
                  ("aud", r"aud: (None),"), ("validate_signature", r"validate_signature: (true),")):
        mm = need(d, rx, "default " + k, jrel)
        cfg[k] = mm.group(1) if mm else "0"
    need(d, r'required_claims\.insert\("exp"\.to_owned\(\)\);', "default required claims = {exp}", jrel)
    required = ["exp"]
    # the comparisons the model's `validate` transcribes
    need(j, r"exp - options\.reject_tokens_expiring_in_less_than < now - options\.leeway", "expiry comparison", jrel)
    need(j, r"options\.validate_nbf && nbf > now \+ options\.leeway", "nbf comparison", jrel)
    need(j, r'_ => continue,', "unknown required claims are skipped", jrel)
    need(j, r"\(TryParse::Parsed\(Audience::Single\(aud\)\), Some\(correct_aud\)\)\s*if !correct_aud\.contains\(&\*aud\)", "single audience arm", jrel)
    need(j, r"\(TryParse::Parsed\(Audience::Multiple\(aud\)\), Some\(correct_aud\)\)\s*if !is_subset\(correct_aud, &aud\)", "multiple audience arm", jrel)
    # ---- build_validation: every statement must be understood
    bm = need(t, r"fn build_validation\(\) -> Validation \{(.*?)\n\}", "build_validation", rel, re.S)
    if not bm:
        return
    algs = []
    aud = None
    stmts = [s.strip() for s in re.sub(r"//[^\n]*", "", bm.group(1)).split(";")]
    for s in stmts:
        s = " ".join(s.split())
        if not s or s == "v":
            continue
        mm = re.fullmatch(r"let mut v = Validation::new\(Algorithm::(\w+)\)", s)
        if mm:
            algs = [mm.group(1)]; continue
        mm = re.fullmatch(r"v\.set_required_spec_claims\(&AnyClaims::required_claims\(\)\)", s)
        if mm:
            lrel = "crates/snap/snap-tokens/src/lib.rs"
            lt = src(lrel)
            im = need(lt, r"impl Token for AnyClaims \{.*?fn required_claims\(\) -> Vec<&'static str> \{(.*?)\n    \}", "AnyClaims::required_claims", lrel, re.S)
            if im:
                vm = need(re.sub(r"//[^\n]*", "", im.group(1)), r"vec!\[([^\]]*)\]", "required_claims vec!", lrel)
                required = re.findall(r'"([^"]+)"', vm.group(1)) if vm else []
            continue
        mm = re.fullmatch(r"v\.set_audience\(&\[([^\]]*)\]\)", s)
        if mm:
            aud = re.findall(r'"([^"]+)"', mm.group(1)); continue
        mm = re.fullmatch(r"v\.(validate_exp|validate_nbf|validate_aud) = (true|false)", s)
        if mm:
            cfg[mm.group(1)] = mm.group(2); continue
        mm = re.fullmatch(r"v\.(leeway|reject_tokens_expiring_in_less_than) = (\d+)", s)
        if mm:
            cfg["leeway" if mm.group(1) == "leeway" else "reject_lt"] = mm.group(2); continue
        missing.append(f"{rel}: build_validation statement not understood by the translator: {s!r}")
    if not algs:
        missing.append(f"{rel}: build_validation: Validation::new(Algorithm::..)")
    # ---- verify(): key selection by kid (observed by the harness: static and JWKS configurations)
    tc = _strip_comments(t)
    expect(tc, r"match \(\s*(?:\w+\.)?kid\s*,\s*&self\.jwks_store\s*\)", "verify: key selection matches on (kid, jwks_store)", rel)
    expect(tc, r"\(Some\((\w+)\), Some\((\w+)\)\) =>.*?\2\s*\.await_key\(&\1\)\s*\.await", "verify: kid + store -> store.await_key(kid)", rel, re.S)
    expect(tc, r"None => (?:return )?Err\(SnapTokenVerifyError::UnknownKid\(\w+\)\)", "verify: unresolved kid -> UnknownKid", rel)
    expect(tc, r"_ => (?:Ok\()?self\.static_key\.clone\(\)", "verify: otherwise the static key", rel)
    expect(tc, r"decode::<AnyClaims>\(\s*\w+,\s*&\w+,\s*&self\.validation\s*\)", "verify: decode::<AnyClaims>(token, key, self.validation)", rel)
    need(tc, r"validation: build_validation\(\)", "SnapTokenVerifier::new uses build_validation()", rel)
    # ---- claims structs
    r0 = "crates/snap/snap-tokens/src/v0.rs"; r1 = "crates/snap/snap-tokens/src/v1.rs"
    f0, fl0 = _fields(src(r0), r0, "v0 SnapTokenClaims")
    f1, fl1 = _fields(src(r1), r1, "v1 SnapTokenClaims")
    expect(src(r0), r"pub struct Pssid\(pub Uuid\);", "v0 Pssid = Uuid", r0)
    t1 = src(r1)
    m17 = need(t1, r"if \w+\.len\(\) != (\d+) \{", "v1 Pssid length", r1)
    expect(t1, r"if \w+\[0\] != (?:0x00|0) \{", "v1 Pssid version byte", r1)
    expect(t1, r"URL_SAFE_NO_PAD\s*\.decode\(", "v1 Pssid base64url", r1)
    lrel = "crates/snap/snap-tokens/src/lib.rs"
    lt = _strip_comments(src(lrel))
    # AnyClaims version dispatch (observed: ver absent / 0 / 1 / 2 / "1" / 1.0 / -1 / null on both bases)
    expect(lt, r'if let Some\((\w+)\) = \w+\.get\("ver"\) \{\s*match \1\.as_u64\(\) \{\s*Some\(1\) =>', "AnyClaims: a present ver is dispatched on as_u64 (1 -> V1)", lrel)
    expect(lt, r"Some\(\w+\) => \{?\s*Err\(serde::de::Error::custom\(format!\(\s*\"unsupported SNAP token version", "AnyClaims: unknown ver rejected", lrel)
    expect(lt, r"None => \{?\s*Err\(serde::de::Error::custom\(", "AnyClaims: non-numeric ver rejected", lrel)
    expect(lt, r"\} else \{\s*let \w+: v0::SnapTokenClaims =", "AnyClaims: no ver -> V0", lrel)
    # ---- handler: granted lifetime (observed through the router)
    crel = "crates/snap/snap-control/src/api/crpc.rs"
    ct = _strip_comments(src(crel))
    expect(ct, r"let lifetime = \w+(?:\.0)?\.exp_time\(\)\.duration_since\((\w+)\)\.map_err", "lifetime = exp_time - now, refused when negative", crel)
    def b(x): return "true" if x == "true" else "false"
    body = f"""From Coq Require Import NArith List String.
Import ListNotations.
Local Open Scope N_scope. Local Open Scope string_scope.
(* jsonwebtoken {ver} defaults ({jrel.split('/registry/src/')[-1]}) overridden by build_validation *)
Inductive ftype := FU64 | FStr | FPssidV0 | FPssidV1.
Definition JWT_VERSION : string := {_coq_str(ver)}.
Definition ALGORITHMS : list string := [{"; ".join(_coq_str(a) for a in algs)}].
Definition REQUIRED_SPEC_CLAIMS : list string := [{"; ".join(_coq_str(a) for a in required)}].
Definition AUDIENCE : option (list string) := {"None" if aud is None else "Some [" + "; ".join(_coq_str(a) for a in aud) + "]"}.
Definition LEEWAY : N := {cfg['leeway']}.
Definition REJECT_EXPIRING_IN_LESS_THAN : N := {cfg['reject_lt']}.
Definition VALIDATE_EXP : bool := {b(cfg['validate_exp'])}.
Definition VALIDATE_NBF : bool := {b(cfg['validate_nbf'])}.
Definition VALIDATE_AUD : bool := {b(cfg['validate_aud'])}.
Definition V0_FIELDS : list (string * ftype) := {_ftable(f0, "FPssidV0", r0)}.
Definition V0_FLATTEN : bool := {b("true" if fl0 else "false")}.
Definition V1_FIELDS : list (string * ftype) := {_ftable(f1, "FPssidV1", r1)}.
Definition V1_FLATTEN : bool := {b("true" if fl1 else "false")}.
Definition V1_PSSID_LEN : N := {m17.group(1) if m17 else 0}.
"""
    emit("SnapToken.v", body)

def _clock_args(body, what, rel):
    """HARD: every `.is_authorized(<t>, ..)` call in `body` passes a clock value read in the same
    function: `Instant::now()` itself or a local bound exactly once by `let <t> = Instant::now();`.
    The correspondence cannot see this (its authorisation wrapper ignores the instant)."""
    if body is None:
        missing.append(f"{rel}: {what}: function not found")
        return
    body = _strip_comments(body)
    calls = re.findall(r"\.is_authorized\(\s*([^,]+?)\s*,", body)
    if not calls:
        missing.append(f"{rel}: {what}: no authorisation call (.is_authorized) left")
        return
    for arg in calls:
        if re.fullmatch(r"(?:std::time::)?Instant::now\(\)", arg):
            continue
        ok = re.fullmatch(r"\w+", arg) is not None \
            and len(re.findall(r"let (?:mut )?" + re.escape(arg) + r"(?:\s*:\s*[\w:]+)?\s*=\s*(?:std::time::)?Instant::now\(\)\s*;", body)) == 1 \
            and len(re.findall(r"(?<![\w.])" + re.escape(arg) + r"\s*=[^=]", body)) == 1
        if not ok:
            missing.append(f"{rel}: {what}: is_authorized is called with `{arg}`, which is not a fresh Instant::now() of this function")

def _registry():
    rel = "crates/snap/snap-control/src/server/identity_registry.rs"
    t = _strip_comments(src(rel))
    # ---- imported constant: the comparison of IdentityRegistration::is_authorized
    m = need(t, r"fn is_authorized\(&self, (\w+): Instant\) -> bool \{\s*(?:self\.expires_at\s*(>=|>)\s*\1|\1\s*(<=|<)\s*self\.expires_at)\s*\}",
             "IdentityRegistration::is_authorized: comparison of expires_at with now", rel)
    strict = bool(m) and (m.group(2) or m.group(3)) in (">", "<")
    # ---- mirrored statements, all observed (has_authorization after every event, register's result)
    expect(t, r"self\s*\.sessions\s*\.get\(\w+\)\s*\.filter\(\|(\w+)\| \1\.is_authorized\(\w+\)\)", "state.is_authorized: sessions.get(ident).filter(is_authorized)", rel)
    expect(t, r"!self\.sessions\.contains_key\(&\w+\)", "add_identity: was_new = no session before", rel)
    expect(t, r"if let Some\((\w+)\) = self\.associations\.insert\(\w+(?:\.clone\(\))?, (\w+)\)\s*&& \1 != \2\s*\{\s*self\.sessions\.remove\(&\1\);", "add_identity: superseded identity loses its session", rel)
    expect(t, r"self\.associations\.retain\(\|(\w+), (\w+)\| \{?\s*\*\2 != \w+ \|\| \1 == &\w+\s*\}?\)", "add_identity: one key per identity (retain by identity != .. || key == ..)", rel)
    expect(t, r"self\.sessions\s*\.insert\(\w+, IdentityRegistration::new\(\w+\)\)", "add_identity: sessions.insert", rel)
    ce = _fn_body(t, "clean_expired")
    expect(ce or "", r"!\s*\w+\.is_authorized\(\w+\)", "clean_expired: expired = !is_authorized(now)", rel)
    expect(ce or "", r"self\.sessions\.remove\(&\w+\);", "clean_expired: removes the session", rel)
    expect(ce or "", r"self\.associations\s*\.retain\(\|_, (\w+)\| \*\1 != \w+\)", "clean_expired: removes the identity's associations", rel)
    expect(t, r"\.add_identity\(\w+, \w+, (\w+) \+ (\w+)\)", "register: expiry = now + lifetime", rel)
    # ---- the tunnel server
    srel = "crates/snap/snap-tun/src/server.rs"
    st = src(srel)
    inc = _fn_body(st, "handle_incoming_packet_with_session")
    outg = _fn_body(st, "handle_outgoing_packet_with_session")
    # HARD (not observable: the harness's authorisation wrapper ignores the instant it is handed)
    _clock_args(inc, "incoming path: clock value of the authorisation checks", srel)
    _clock_args(outg, "outgoing path: clock value of the authorisation check", srel)
    inc_c = _strip_comments(inc or ""); out_c = _strip_comments(outg or "")
    # SOFT (observed: forwarded / not forwarded / encrypted / none for every event)
    expect(inc_c, r"Entry::Occupied\(.*?\.is_authorized\(\s*\w+,\s*\w+\.peer_static\.as_bytes\(\)\s*\)\s*else \{.*?WireGuardError::UnexpectedPacket", "incoming, existing tunnel: its peer_static is authorised before the packet reaches the tunnel", srel, re.S)
    expect(inc_c, r"WgKind::HandshakeInit\(.*?\.is_authorized\(\s*\w+,\s*&\w+\.peer_static_public\s*\)\s*else \{.*?Tunn::new\(", "incoming, new tunnel: the handshake's static key is authorised before the tunnel is created", srel, re.S)
    expect(inc_c, r"WireGuardError::InvalidPacket", "incoming, no tunnel and not a handshake init: InvalidPacket", srel)
    expect(out_c, r"self\.active_tunnels\.get_mut\(&\w+\) else \{.*?return None;.*?\.is_authorized\(\s*[^,]+,\s*\w+\.peer_static\.as_bytes\(\)\s*\)\s*else \{.*?return None;", "outgoing: tunnel lookup, then authorisation of its peer_static, else None", srel, re.S)
    expect(st, r"TunnResult::WriteToTunnel\((\w+)\) if \1\.is_empty\(\) => TunnResult::Done", "keepalive is not forwarded", srel)
    expect(st, r"for (\w+) in \w+\.get_queued_packets\(\) \{\s*\w+\.push_back\(\1\);", "queued outbound packets are drained while handling an incoming packet", srel)
    expect(st, r"TunnResult::WriteToTunnel\(\w+\) => \{?\s*HandleIncomingPacketResult::Forwarded \{", "Forwarded = WriteToTunnel", srel)
    # HARD (tunnel expiry is driven by real-time timers the correspondence does not exercise)
    need(_strip_comments(_fn_body(st, "update_timers") or ""), r"self\.active_tunnels\.retain\(.*?!\s*\w+\.tunn\.is_expired\(\)", "update_timers: retain exactly the non-expired tunnels", srel, re.S)
    # HARD (the gateway is not run by the harness)
    grel = "crates/snap/snap-dataplane/src/tunnel_gateway/gateway.rs"
    gt = _strip_comments(src(grel))
    need(gt, r"HandleIncomingPacketResult::Forwarded \{[^}]*\} => \{\s*match inbound_datagram_check\(", "gateway dispatches Forwarded results (after the inbound datagram check)", grel)
    need(gt, r"\.try_dispatch\(", "gateway: dispatch call", grel)
    if len(re.findall(r"\.try_dispatch\(", gt)) != 1:
        missing.append(f"{grel}: gateway: exactly one dispatch site (inside the Forwarded arm)")
    need(gt, r"\.handle_outgoing_packet_with_session\(\s*\w+,\s*\w+\s*\)\?", "gateway sends only what handle_outgoing_packet_with_session admits", grel)
    body = f"""From Coq Require Import NArith.
Local Open Scope N_scope.
(* identity_registry.rs: IdentityRegistration::is_authorized is `expires_at > now` when strict *)
Definition AUTH_STRICT : bool := {"true" if strict else "false"}.
"""
    emit("SnapRegistry.v", body)

def generate():
    _token()
    _registry()
