"""SNAP control plane constants -> Gen/SnapToken.v (C10) and Gen/SnapRegistry.v (C09)
(src, need, emit, missing, re are injected by tools/gen.py)

C10: the jsonwebtoken `Validation` profile that `build_validation` produces = the library's
DEFAULTS (read from the vendored jsonwebtoken source whose version /repo/Cargo.lock pins)
overridden by the statements of `build_validation` (every statement of the body must be one
this translator understands, otherwise it fails loudly), plus the field tables of the two
claims structs and the `required_claims` of `AnyClaims`.
C09: the comparison operators of identity_registry.rs that the model depends on."""
import glob as _glob, os as _os

def _coq_str(s):
    return '"' + s.replace('"', '""') + '"'

def _fields(t, rel, what):
    """fields of `pub struct SnapTokenClaims { ... }` as (name, rust type); a
    #[serde(flatten)] catch-all map is reported separately"""
    m = need(t, r"pub struct SnapTokenClaims \{(.*?)\n\}", what, rel, re.S)
    if not m:
        return [], False
    body = re.sub(r"///[^\n]*", "", m.group(1))
    flatten = False
    out = []
    pending_attr = ""
    for line in body.splitlines():
        line = line.strip()
        if not line:
            continue
        if line.startswith("#["):
            pending_attr += line
            continue
        fm = re.match(r"(?:pub )?(\w+): ([\w:<>, ]+),$", line)
        if not fm:
            missing.append(f"{rel}: unparsable field line in {what}: {line!r}")
            continue
        if "flatten" in pending_attr:
            flatten = True
        elif pending_attr:
            missing.append(f"{rel}: unsupported serde attribute {pending_attr!r} on field {fm.group(1)}")
        else:
            out.append((fm.group(1), fm.group(2)))
        pending_attr = ""
    return out, flatten

_TY = {"u64": "FU64", "usize": "FU64", "String": "FStr"}

def _ftable(fields, pssid_ty, rel):
    items = []
    for n, ty in fields:
        if ty == "Pssid":
            c = pssid_ty
        elif ty in _TY:
            c = _TY[ty]
        else:
            missing.append(f"{rel}: field {n} has type {ty} unknown to the translator")
            c = "FStr"
        items.append(f"({_coq_str(n)}, {c})")
    return "[" + "; ".join(items) + "]"

def _token():
    rel = "crates/snap/snap-control/src/server/token_verifier.rs"
    t = src(rel)
    # ---- jsonwebtoken version and defaults
    lock = src("Cargo.lock")
    m = need(lock, r'name = "jsonwebtoken"\nversion = "([\d.]+)"', "jsonwebtoken version", "Cargo.lock")
    ver = m.group(1) if m else "?"
    cands = sorted(_glob.glob(_os.path.expanduser(f"~/.cargo/registry/src/*/jsonwebtoken-{ver}/src/validation.rs")))
    if not cands:
        missing.append(f"~/.cargo/registry/src/*/jsonwebtoken-{ver}/src/validation.rs: vendored source of the pinned version")
        return
    jrel = cands[0]
    j = src(jrel)
    dm = need(j, r"fn new_impl\(algorithms: Vec<Algorithm>\) -> Validation \{(.*?)\n    \}", "Validation::new_impl", jrel, re.S)
    if not dm:
        return
    d = dm.group(1)
    cfg = {}
    for k, rx in (("leeway", r"leeway: (\d+),"), ("reject_lt", r"reject_tokens_expiring_in_less_than: (\d+),"),
                  ("validate_exp", r"validate_exp: (true|false),"), ("validate_nbf", r"validate_nbf: (true|false),"),
                  ("validate_aud", r"validate_aud: (true|false),"), ("iss", r"iss: (None),"), ("sub", r"sub: (None),"),
                  ("aud", r"aud: (None),"), ("validate_signature", r"validate_signature: (true),")):
        mm = need(d, rx, "default " + k, jrel)
        cfg[k] = mm.group(1) if mm else "0"
    need(d, r'required_claims\.insert\("exp"\.to_owned\(\)\);', "default required claims = {exp}", jrel)
    required = ["exp"]
    # the comparisons the model's `validate` transcribes
    need(j, r"exp - options\.reject_tokens_expiring_in_less_than < now - options\.leeway", "expiry comparison", jrel)
    need(j, r"options\.validate_nbf && nbf > now \+ options\.leeway", "nbf comparison", jrel)
    need(j, r'_ => continue,', "unknown required claims are skipped", jrel)
    need(j, r"\(TryParse::Parsed\(Audience::Single\(aud\)\), Some\(correct_aud\)\)\s*if !correct_aud\.contains\(&\*aud\)", "single audience arm", jrel)
    need(j, r"\(TryParse::Parsed\(Audience::Multiple\(aud\)\), Some\(correct_aud\)\)\s*if !is_subset\(correct_aud, &aud\)", "multiple audience arm", jrel)
    # ---- build_validation: every statement must be understood
    bm = need(t, r"fn build_validation\(\) -> Validation \{(.*?)\n\}", "build_validation", rel, re.S)
    if not bm:
        return
    algs = []
    aud = None
    stmts = [s.strip() for s in re.sub(r"//[^\n]*", "", bm.group(1)).split(";")]
    for s in stmts:
        s = " ".join(s.split())
        if not s or s == "v":
            continue
        mm = re.fullmatch(r"let mut v = Validation::new\(Algorithm::(\w+)\)", s)
        if mm:
            algs = [mm.group(1)]; continue
        mm = re.fullmatch(r"v\.set_required_spec_claims\(&AnyClaims::required_claims\(\)\)", s)
        if mm:
            lrel = "crates/snap/snap-tokens/src/lib.rs"
            lt = src(lrel)
            im = need(lt, r"impl Token for AnyClaims \{.*?fn required_claims\(\) -> Vec<&'static str> \{(.*?)\n    \}", "AnyClaims::required_claims", lrel, re.S)
            if im:
                vm = need(re.sub(r"//[^\n]*", "", im.group(1)), r"vec!\[([^\]]*)\]", "required_claims vec!", lrel)
                required = re.findall(r'"([^"]+)"', vm.group(1)) if vm else []
            continue
        mm = re.fullmatch(r"v\.set_audience\(&\[([^\]]*)\]\)", s)
        if mm:
            aud = re.findall(r'"([^"]+)"', mm.group(1)); continue
        mm = re.fullmatch(r"v\.(validate_exp|validate_nbf|validate_aud) = (true|false)", s)
        if mm:
            cfg[mm.group(1)] = mm.group(2); continue
        mm = re.fullmatch(r"v\.(leeway|reject_tokens_expiring_in_less_than) = (\d+)", s)
        if mm:
            cfg["leeway" if mm.group(1) == "leeway" else "reject_lt"] = mm.group(2); continue
        missing.append(f"{rel}: build_validation statement not understood by the translator: {s!r}")
    if not algs:
        missing.append(f"{rel}: build_validation: Validation::new(Algorithm::..)")
    # ---- verify(): key selection shape
    need(t, r"let key = match \(header\.kid, &self\.jwks_store\) \{\s*\(Some\(kid\), Some\(store\)\) => \{\s*match store\.await_key\(&kid\)\.await \{\s*Some\(k\) => k,\s*None => return Err\(SnapTokenVerifyError::UnknownKid\(kid\)\),\s*\}\s*\}\s*_ => self\.static_key\.clone\(\),",
         "verify: key selection by kid", rel)
    need(t, r"decode::<AnyClaims>\(token, &key, &self\.validation\)", "verify: decode::<AnyClaims>", rel)
    # ---- claims structs
    r0 = "crates/snap/snap-tokens/src/v0.rs"; r1 = "crates/snap/snap-tokens/src/v1.rs"
    f0, fl0 = _fields(src(r0), r0, "v0 SnapTokenClaims")
    f1, fl1 = _fields(src(r1), r1, "v1 SnapTokenClaims")
    need(src(r0), r"pub struct Pssid\(pub Uuid\);", "v0 Pssid = Uuid", r0)
    t1 = src(r1)
    m17 = need(t1, r"if bytes\.len\(\) != (\d+) \{", "v1 Pssid length", r1)
    need(t1, r"if bytes\[0\] != 0x00 \{", "v1 Pssid version byte", r1)
    need(t1, r"URL_SAFE_NO_PAD\s*\.decode\(&s\)", "v1 Pssid base64url", r1)
    lrel = "crates/snap/snap-tokens/src/lib.rs"
    lt = src(lrel)
    need(lt, r'if let Some\(ver\) = value\.get\("ver"\) \{\s*match ver\.as_u64\(\) \{\s*Some\(1\) => \{', "AnyClaims: ver dispatch (1 -> V1)", lrel)
    need(lt, r"Some\(n\) => \{\s*Err\(serde::de::Error::custom\(format!\(\s*\"unsupported SNAP token version", "AnyClaims: unknown ver rejected", lrel)
    need(lt, r"\} else \{\s*// No version claim -> Legacy V0\s*let claims: v0::SnapTokenClaims =", "AnyClaims: no ver -> V0", lrel)
    # ---- handler: granted lifetime
    crel = "crates/snap/snap-control/src/api/crpc.rs"
    ct = src(crel)
    need(ct, r"let now = SystemTime::now\(\);\s*let lifetime = snap_token\.0\.exp_time\(\)\.duration_since\(now\)\.map_err", "lifetime = exp_time - now", crel)
    def b(x): return "true" if x == "true" else "false"
    body = f"""From Coq Require Import NArith List String.
Import ListNotations.
Local Open Scope N_scope. Local Open Scope string_scope.
(* jsonwebtoken {ver} defaults ({jrel.split('/registry/src/')[-1]}) overridden by build_validation *)
Inductive ftype := FU64 | FStr | FPssidV0 | FPssidV1.
Definition JWT_VERSION : string := {_coq_str(ver)}.
Definition ALGORITHMS : list string := [{"; ".join(_coq_str(a) for a in algs)}].
Definition REQUIRED_SPEC_CLAIMS : list string := [{"; ".join(_coq_str(a) for a in required)}].
Definition AUDIENCE : option (list string) := {"None" if aud is None else "Some [" + "; ".join(_coq_str(a) for a in aud) + "]"}.
Definition LEEWAY : N := {cfg['leeway']}.
Definition REJECT_EXPIRING_IN_LESS_THAN : N := {cfg['reject_lt']}.
Definition VALIDATE_EXP : bool := {b(cfg['validate_exp'])}.
Definition VALIDATE_NBF : bool := {b(cfg['validate_nbf'])}.
Definition VALIDATE_AUD : bool := {b(cfg['validate_aud'])}.
Definition V0_FIELDS : list (string * ftype) := {_ftable(f0, "FPssidV0", r0)}.
Definition V0_FLATTEN : bool := {b("true" if fl0 else "false")}.
Definition V1_FIELDS : list (string * ftype) := {_ftable(f1, "FPssidV1", r1)}.
Definition V1_FLATTEN : bool := {b("true" if fl1 else "false")}.
Definition V1_PSSID_LEN : N := {m17.group(1) if m17 else 0}.
"""
    emit("SnapToken.v", body)

def _registry():
    rel = "crates/snap/snap-control/src/server/identity_registry.rs"
    t = src(rel)
    need(t, r"fn is_authorized\(&self, now: Instant\) -> bool \{\s*self\.expires_at > now\s*\}", "is_authorized: expires_at > now (strict)", rel)
    # the statements of add_identity / clean_expired / is_authorized the model transcribes
    need(t, r"self\.sessions\s*\.get\(ident\)\s*\.filter\(\|session\| session\.is_authorized\(now\)\)", "state.is_authorized: sessions.get(ident).filter(is_authorized)", rel)
    need(t, r"let was_new = !self\.sessions\.contains_key\(&identity\);", "add_identity: was_new", rel)
    need(t, r"if let Some\(prev_identity\) = self\.associations\.insert\(key\.clone\(\), identity\)\s*&& prev_identity != identity\s*\{\s*self\.sessions\.remove\(&prev_identity\);\s*\}", "add_identity: superseded identity loses its session", rel)
    need(t, r"self\.associations\.retain\(\|existing_key, existing_identity\| \{\s*\*existing_identity != identity \|\| existing_key == &key\s*\}\);", "add_identity: one key per identity (retain)", rel)
    need(t, r"self\.sessions\s*\.insert\(identity, IdentityRegistration::new\(expiry\)\);", "add_identity: sessions.insert", rel)
    need(t, r"\.filter_map\(\|\(identity, session\)\| \(!session\.is_authorized\(now\)\)\.then_some\(\*identity\)\)", "clean_expired: expired = !is_authorized(now)", rel)
    need(t, r"for identity in expired \{\s*self\.sessions\.remove\(&identity\);\s*self\.associations\s*\.retain\(\|_, registered_identity\| \*registered_identity != identity\);", "clean_expired: removes session and associations", rel)
    need(t, r"res = state\.add_identity\(key, ident, now \+ lifetime\);", "register: expiry = now + lifetime", rel)
    # the authorisation checks of the tunnel server and what the gateway forwards
    srel = "crates/snap/snap-tun/src/server.rs"
    st = src(srel)
    need(st, r"\(Entry::Occupied\(mut occupied_entry\), p\) => \{\s*let active_tunnel = occupied_entry\.get_mut\(\);.*?let Some\(session_data\) = self\s*\.authz\s*\.is_authorized\(packet_now, active_tunnel\.peer_static\.as_bytes\(\)\)\s*else \{.*?return HandleIncomingPacketResult::Result \{\s*result: TunnResult::Err\(WireGuardError::UnexpectedPacket\),", "incoming, existing tunnel: authorisation of the tunnel's peer_static before the packet reaches the tunnel", srel, re.S)
    need(st, r"\(e, WgKind::HandshakeInit\(wg_init\)\) => \{.*?let Some\(session_data\) = self\s*\.authz\s*\.is_authorized\(packet_now, &peer\.peer_static_public\)\s*else \{.*?let peer_static = x25519::PublicKey::from\(peer\.peer_static_public\);\s*let mut tunn = Tunn::new\(\s*self\.static_private\.clone\(\),\s*peer_static,", "incoming, new tunnel: authorisation of the handshake's static key, tunnel created for that key", srel, re.S)
    need(st, r"\(_, _p\) => \{.*?result: TunnResult::Err\(WireGuardError::InvalidPacket\),", "incoming, no tunnel and not a handshake init: InvalidPacket", srel, re.S)
    need(st, r"let Some\(active_tunnel\) = self\.active_tunnels\.get_mut\(&to\) else \{.*?return None;\s*\};\s*let packet_now = Instant::now\(\);\s*let Some\(session_data\) = self\s*\.authz\s*\.is_authorized\(packet_now, active_tunnel\.peer_static\.as_bytes\(\)\)\s*else \{.*?return None;\s*\};", "outgoing: tunnel lookup then authorisation of its peer_static", srel, re.S)
    need(st, r"TunnResult::WriteToTunnel\(p\) if p\.is_empty\(\) => TunnResult::Done,", "keepalive is not forwarded", srel)
    need(st, r"for p in tunn\.get_queued_packets\(\) \{\s*q\.push_back\(p\);", "queued outbound packets are drained while handling an incoming packet", srel)
    need(st, r"TunnResult::WriteToTunnel\(packet\) => \{\s*HandleIncomingPacketResult::Forwarded \{", "Forwarded = WriteToTunnel", srel)
    need(st, r"self\.active_tunnels\.retain\(\|k, active_tunnel\| \{.*?!active_tunnel\.tunn\.is_expired\(\)\s*\}\);", "update_timers: retain non-expired tunnels", srel, re.S)
    grel = "crates/snap/snap-dataplane/src/tunnel_gateway/gateway.rs"
    gt = src(grel)
    need(gt, r"HandleIncomingPacketResult::Forwarded \{\s*packet,\s*processed_at,\s*session_data,\s*\} => \{\s*match inbound_datagram_check\(&packet\[\.\.\], from\.ip\(\)\)", "gateway dispatches only Forwarded results", grel)
    need(gt, r"let handled = snaptun_srv\.handle_outgoing_packet_with_session\(packet, target\)\?;", "gateway sends only what handle_outgoing_packet_with_session admits", grel)
    body = """From Coq Require Import NArith.
Local Open Scope N_scope.
(* identity_registry.rs: IdentityRegistration::is_authorized is `expires_at > now` *)
Definition AUTH_STRICT : bool := true.
"""
    emit("SnapRegistry.v", body)

def generate():
    _token()
    _registry()
