"""constants of the path manager (scion-stack path/manager*.rs, path/strategy/scoring.rs,
scion-sdk-utils backoff.rs) -> Gen/PathMgrConfig.v
(src, need, emit, missing, re are injected by tools/gen.py)"""
from fractions import Fraction

NS = 10**9

def _prod(expr):
    v = 1
    for f in expr.split("*"):
        v *= int(f.strip().replace("_", ""))
    return v

def _q(fr):
    fr = Fraction(fr)
    return f"({fr.numerator} # {fr.denominator})" if fr >= 0 else f"(-({-fr.numerator}) # {fr.denominator})"

def generate():
    relm = "crates/scion-stack/src/path/manager.rs"
    t = src(relm)
    m = need(t, r"impl Default for MultiPathManagerConfig \{.*?\n\}\n", "MultiPathManagerConfig::default", relm, re.S)
    d = m.group(0) if m else ""
    def dur(name):
        mm = need(d, name + r":\s*Duration::from_secs\(([0-9_ *]+)\)", "default " + name, relm)
        return _prod(mm.group(1)) * NS if mm else 0
    def num(name, where=d, rel=relm):
        mm = need(where, name + r":\s*(-?[0-9_]+(?:\.[0-9]+)?)", "default " + name, rel)
        return Fraction(mm.group(1).replace("_", "")) if mm else Fraction(0)
    max_cached = num("max_cached_paths_per_pair")
    refetch = dur("refetch_interval"); min_delay = dur("min_refetch_delay")
    thresh = dur("min_expiry_threshold"); idle = dur("max_idle_period")
    bo_min = num("minimum_delay_secs"); bo_max = num("maximum_delay_secs")
    bo_f = num("factor"); bo_j = num("jitter_secs")
    issue_size = num("issue_cache_size"); bcast = num("issue_broadcast_size")
    dedup = dur("issue_deduplication_window"); swap = num("path_swap_score_threshold")
    # ---- mirrored statements: SOFT (expect).  The hook-driven harness observes their behaviour after
    # every event (cache contents and order, slot, timers, counters, issue-memory sizes, every send
    # result, rejected configurations), so a miss only enlarges the correspondence run.  The regular
    # expressions pin operators / constants / callee names, not layout or local names.
    W = r"[\s\S]{0,400}?"      # a little code in between
    expect(t, r"fn validate\(&self\)" + W + r"min_refetch_delay\s*>\s*self\.refetch_interval" + W + r"Err" + W +
              r"min_refetch_delay\s*>\s*self\.min_expiry_threshold" + W + r"Err",
           "MultiPathManagerConfig::validate (two rejections)", relm)
    expect(t, r"<\s*self\.deduplication_window", "add_issue dedup window test", relm)
    expect(t, r"while\s+self\.cache\.len\(\)\s*>=\s*self\.max_entries\b" + W + r"self\.fifo_issues\.is_empty\(\)" + W + r"self\.pop_front\(\)",
           "add_issue: eviction loop (pop until room or FIFO empty)", relm)
    expect(t, r"self\.fifo_issues\.len\(\)\s*>=\s*2\s*\*\s*self\.max_entries\.max\(1\)" + W + r"\.retain\(" + W + r"\.timestamp\s*==",
           "add_issue: FIFO compaction at 2 * max(max_entries, 1)", relm)
    expect(t, r"self\.fifo_issues\.push_back\(" + W + r"self\.cache\.insert\(", "add_issue: push FIFO entry, insert", relm)
    expect(t, r"fn cached_path\(" + r"[\s\S]{0,1800}?" + r"\.is_expired\(\w+\)\.unwrap_or\(false\)" + W + r"return None",
           "cached_path: expired path is not handed out", relm)
    expect(t, r"pub async fn path\(" + r"[\s\S]{0,3500}?" + r"\.is_expired\(\w+\)\.unwrap_or\(false\)" + W + r"Err\(" + W + r"NoPathsFound",
           "path: expired path is not handed out", relm)
    expect(t, r"\.timestamp\s*==\s*timestamp", "pop_front timestamp test", relm)

    relp = "crates/scion-stack/src/path/manager/pathset.rs"
    p = src(relp)
    expect(p, r"self\.earliest_expiry\(\)" + W + r"now \+ self\.config\.refetch_interval\)?\s*\.min\(\s*\w+ - self\.config\.min_expiry_threshold\s*\)" + W + r"None\s*=>\s*now\b",
           "next_refetch candidate (success; empty cache => now)", relp)
    expect(p, r"self\.internal\.next_refetch\s*=" + r"[\s\S]{0,200}?" + r"\.max\(\s*now \+ self\.config\.min_refetch_delay\s*\)",
           "next_refetch formula (success)", relp)
    expect(p, r"\.duration\(self\.internal\.failed_attempts\)\s*\.max\(\s*self\.config\.min_refetch_delay\s*\)", "next_refetch formula (failure)", relp)
    expect(p, r"fn check_path_expiry\(" + W + r"=>\s*ExpiryState::Expired" + W + r"<=\s*threshold\s*=>\s*ExpiryState::NearExpiry", "check_path_expiry arms", relp)
    expect(p, r">\s*self\.config\.path_swap_score_threshold", "swap threshold test", relp)
    expect(p, r"rank_order\(" + r"[\s\S]{0,200}?" + r"!=\s*Ordering::Greater", "merge tie rule (prefer existing)", relp)

    relr = "crates/scion-stack/src/path/manager/reliability.rs"
    r = src(relr)
    mm = need(r, r"const EXPONENTIAL_DECAY_HALFLIFE: Duration = Duration::from_secs\(([0-9_ *]+)\);", "EXPONENTIAL_DECAY_HALFLIFE", relr)
    half = _prod(mm.group(1)) * NS if mm else 0
    mm = need(r, r"new_score\.clamp\((-?[0-9.]+), (-?[0-9.]+)\)", "reliability sanity clamp", relr)
    clamp_lo, clamp_hi = (Fraction(mm.group(1)), Fraction(mm.group(2))) if mm else (0, 0)

    reli = "crates/scion-stack/src/path/manager/issues.rs"
    i = src(reli)
    mm = need(i, r"const SYSTEM_HALF_LIFE: Duration = Duration::from_secs\(([0-9_ *]+)\);", "IssueMarker::SYSTEM_HALF_LIFE", reli)
    ihalf = _prod(mm.group(1)) * NS if mm else 0
    mm = need(i, r"ScmpErrorMessage::ExternalInterfaceDown\(_\)\s*\|\s*ScmpErrorMessage::InternalConnectivityDown\(_\) => (-?[0-9.]+),",
              "penalty interface/connectivity down", reli)
    pen_if = Fraction(mm.group(1)) if mm else 0
    mm = need(i, r"SendError::FirstHopUnreachable \{ \.\. \} => (-?[0-9.]+),", "penalty first hop", reli)
    pen_fh = Fraction(mm.group(1)) if mm else 0
    expect(i, r"\.nth\(1\)", "matches_path nth(1) walk", reli)

    rels = "crates/scion-stack/src/path/strategy/scoring.rs"
    s = src(rels)
    mm = need(s, r"DEFAULT_RELIABILITY_IMPACT: f32 = ([0-9.]+);", "DEFAULT_RELIABILITY_IMPACT", rels); rel_imp = Fraction(mm.group(1)) if mm else 0
    mm = need(s, r"DEFAULT_LENGTH_IMPACT: f32 = ([0-9.]+);", "DEFAULT_LENGTH_IMPACT", rels); len_imp = Fraction(mm.group(1)) if mm else 0
    mm = need(s, r"const MAX_SCORE: f32 = ([0-9.]+);", "PathLengthScorer MAX_SCORE", rels); mx = Fraction(mm.group(1)) if mm else 0
    mm = need(s, r"const MIN_SCORE: f32 = ([0-9.]+);", "PathLengthScorer MIN_SCORE", rels); mn = Fraction(mm.group(1)) if mm else 0
    mm = need(s, r"const HOP_COUNT_FOR_MIN_SCORE: f32 = ([0-9.]+);", "HOP_COUNT_FOR_MIN_SCORE", rels); hc = Fraction(mm.group(1)) if mm else 1
    need(s, r"const PER_HOP_PENALTY: f32 = \(MAX_SCORE - MIN_SCORE\) / HOP_COUNT_FOR_MIN_SCORE;", "PER_HOP_PENALTY formula", rels)
    relt = "crates/scion-stack/src/path/types.rs"
    ty = src(relt)
    mm = need(ty, r"Score\(value\.clamp\((-?[0-9.]+), (-?[0-9.]+)\)\)", "Score::new_clamped range", relt)
    s_lo, s_hi = (Fraction(mm.group(1)), Fraction(mm.group(2))) if mm else (0, 0)

    relb = "crates/libs/scion-sdk-utils/src/backoff.rs"
    b = src(relb)
    expect(b, r"minimum_delay_secs\s*\*\s*self\.config\.factor\.powi\(" + r"[\s\S]{0,300}?" + r"rand::random::<f32>\(\)\s*\*\s*self\.config\.jitter_secs" +
              r"[\s\S]{0,300}?" + r"\.min\(self\.config\.maximum_delay_secs\)", "ExponentialBackoff::duration formula", relb)

    relpol = "crates/scion-stack/src/path/strategy/policy.rs"
    expect(src(relpol), r"path_allowed\(" + r"[\s\S]{0,80}?" + r"\.unwrap_or\(false\)", "blanket policy impl: error => not allowed", relpol)

    def ns(fr): return int(Fraction(fr) * NS)
    body = f"""From Coq Require Import NArith QArith.
Local Open Scope N_scope.
(* MultiPathManagerConfig::default; durations in nanoseconds *)
Definition DEF_MAX_CACHED : N := {int(max_cached)}.
Definition DEF_REFETCH_INTERVAL : N := {refetch}.
Definition DEF_MIN_REFETCH_DELAY : N := {min_delay}.
Definition DEF_MIN_EXPIRY_THRESHOLD : N := {thresh}.
Definition DEF_MAX_IDLE : N := {idle}.
Definition DEF_BACKOFF_MIN : N := {ns(bo_min)}.
Definition DEF_BACKOFF_MAX : N := {ns(bo_max)}.
Definition DEF_BACKOFF_FACTOR_NUM : N := {Fraction(bo_f).numerator}.
Definition DEF_BACKOFF_FACTOR_DEN : N := {Fraction(bo_f).denominator}.
Definition DEF_BACKOFF_JITTER : N := {ns(bo_j)}.
Definition DEF_ISSUE_CACHE_SIZE : N := {int(issue_size)}.
Definition DEF_ISSUE_BROADCAST_SIZE : N := {int(bcast)}.
Definition DEF_ISSUE_DEDUP_WINDOW : N := {dedup}.
Definition DEF_SWAP_THRESHOLD : Q := {_q(swap)}.
(* reliability.rs / issues.rs *)
Definition RELIABILITY_HALF_LIFE : N := {half}.
Definition ISSUE_HALF_LIFE : N := {ihalf}.
Definition REL_CLAMP_LO : Q := {_q(clamp_lo)}.
Definition REL_CLAMP_HI : Q := {_q(clamp_hi)}.
Definition PENALTY_INTERFACE_DOWN : Q := {_q(pen_if)}.
Definition PENALTY_FIRST_HOP : Q := {_q(pen_fh)}.
(* types.rs Score / scoring.rs *)
Definition SCORE_LO : Q := {_q(s_lo)}.
Definition SCORE_HI : Q := {_q(s_hi)}.
Definition RELIABILITY_IMPACT : Q := {_q(rel_imp)}.
Definition LENGTH_IMPACT : Q := {_q(len_imp)}.
Definition LENGTH_MAX_SCORE : Q := {_q(mx)}.
Definition PER_HOP_PENALTY : Q := {_q((mx - mn) / hc)}.
Definition HOP_COUNT_UNSUPPORTED : N := {int(hc)}.
"""
    emit("PathMgrConfig.v", body)
