"""link-type tables and SCMP codes of the pocketscion router, valid_next_seg of the combinator
-> Gen/NetworkTables.v   (src, need, expect, emit, missing, re are injected by tools/gen.py)

need   = tables / flags the model and the proofs import (extracted tolerantly);
expect = mirrored statements whose behaviour the simulator-driven harness observes."""

RLT = {"LinkToCore": 0, "LinkToParent": 1, "LinkToChild": 2, "LinkToPeer": 3}
SLT = {"Peer": 0, "Parent": 1, "Child": 2, "Core": 3}


def _block_after(text, start_rx):
    """text of the brace block that follows the first match of start_rx (which must end just
    before or at the opening brace); None if not found"""
    m = re.search(start_rx, text)
    if not m:
        return None
    i = text.find("{", m.end() - 1)
    if i < 0:
        return None
    depth, j = 0, i
    while j < len(text):
        if text[j] == "{":
            depth += 1
        elif text[j] == "}":
            depth -= 1
            if depth == 0:
                return text[i + 1:j]
        j += 1
    return None


def generate():
    # ---- simulator.rs: ScionLinkType -> AsRoutingLinkType in the lookup closure
    rel = "crates/pocketscion/src/network/scion/simulator.rs"
    t = src(rel)
    pairs = re.findall(r"ScionLinkType::(\w+)\s*=>\s*AsRoutingLinkType::(\w+)", t)
    if len(pairs) != 4 or {a for a, _ in pairs} != set(SLT):
        missing.append(f"{rel}: ScionLinkType -> AsRoutingLinkType match (4 arms)")
        pairs = []
    expect(t, r"is_up\s*:\s*link\.is_up", "interface state takes is_up from the link", rel)
    expect(t, r"self\.current_as\s*=\s*link_partner\.isd_as", "next_step continues at the link partner (AS)", rel)
    expect(t, r"self\.current_ingress_interface_id\s*=\s*link_partner\.if_id", "next_step continues at the link partner (interface)", rel)
    link_map = "; ".join(f"({SLT[a]}, {RLT[b]})" for a, b in pairs if b in RLT)

    # ---- standard.rs: validate_segment_change link-type table
    rel = "crates/pocketscion/src/network/scion/routing/spec/standard.rs"
    t = src(rel)
    blk = _block_after(t, r"match\s*\(\s*in_link_type\s*,\s*out_link_type\s*\)\s*\{")
    arms, default = [], "false"
    if blk is None:
        missing.append(f"{rel}: validate_segment_change: match (in_link_type, out_link_type) block")
    else:
        arms = re.findall(r"\(\s*(?:\w+::)*(LinkTo\w+)\s*,\s*(?:\w+::)*(LinkTo\w+)\s*\)\s*=>\s*(true|false)\s*,", blk)
        d = re.search(r"(?:^|\n)\s*_\s*=>\s*(true|false)\s*,", blk)
        if not d:
            missing.append(f"{rel}: default arm of the segment change match")
        else:
            default = d.group(1)
        # every arm of the block must have been recognised
        n_arrows = len(re.findall(r"=>", blk))
        if n_arrows != len(arms) + 1:
            missing.append(f"{rel}: unrecognised arm in the segment change match ({n_arrows} arrows, {len(arms)} parsed)")
    # mirrored statements of the validator: observed by the harness (soft)
    expect(t, r"in_link_type\s*=\s*\(?\s*self\.interface_link_type_lookup\s*\)?\s*\(\s*current_hop_ingress\s*\)", "in link = lookup(current hop ingress)", rel)
    expect(t, r"out_link_type\s*=\s*\(?\s*self\.interface_link_type_lookup\s*\)?\s*\(\s*next_hop_egress\s*\)", "out link = lookup(next hop egress)", rel)
    expect(t, r"info_field\.timestamp\(\)\s*>\s*self\.now\.timestamp_secs\(\)", "future timestamp check", rel)
    expect(t, r"hop_field\.expiry_timestamp\(\s*info_field\s*\)\s*<\s*self\.now\.timestamp_secs\(\)", "expiry check", rel)
    expect(t, r"egress_interface\s*!=\s*self\.current_interface_id", "egress interface check", rel)
    expect(t, r"!\s*self\.segment_changed\.get\(\)\s*&&\s*self\.current_interface_id\s*!=\s*0\s*&&\s*ingress_interface\s*!=\s*self\.current_interface_id",
           "ingress interface check (strict; exempt after a validated segment change)", rel)
    expect(t, r"self\.segment_changed\.set\(\s*true\s*\)", "segment change recorded in the validator", rel)
    arms_s = "; ".join(f"({RLT[a]}, {RLT[b]}, {v})" for a, b, v in arms if a in RLT and b in RLT)

    # ---- SCMP code of every routing error (to_scmp_error)
    def code_of(variant, what):
        mm = need(t, r"Self::" + variant + r"\b[^=]*?=>\s*\{(.*?)\n            \}", what, rel, re.S)
        if not mm:
            return None
        return mm.group(1)
    ty = src("crates/libs/sciparse/src/proto/payload/scmp/types.rs")
    mm = need(ty, r"pub enum ScmpParameterProblemCode \{(.*?)\n\}", "ScmpParameterProblemCode", "scmp/types.rs", re.S)
    codes = dict(re.findall(r"(\w+) = (\d+),", mm.group(1))) if mm else {}

    def single(variant):
        b = code_of(variant, f"to_scmp_error arm {variant}")
        if b is None:
            return 0
        c = re.findall(r"ScmpParameterProblemCode::(\w+)", b)
        if len(c) != 1 or c[0] not in codes:
            missing.append(f"{rel}: to_scmp_error arm {variant}: expected exactly one known code")
            return 0
        return int(codes[c[0]])

    def dual(variant):
        b = code_of(variant, f"to_scmp_error arm {variant}")
        if b is None:
            return (0, 0)
        c = re.search(r"true\s*=>\s*ScmpParameterProblemCode::(\w+)\s*,\s*false\s*=>\s*ScmpParameterProblemCode::(\w+)", b) or \
            re.search(r"if\s+\*?cons_dir\s*\{\s*ScmpParameterProblemCode::(\w+)\s*\}\s*else\s*\{\s*ScmpParameterProblemCode::(\w+)\s*\}", b)
        if not c or c.group(1) not in codes or c.group(2) not in codes:
            missing.append(f"{rel}: to_scmp_error arm {variant}: expected a cons_dir match")
            return (0, 0)
        return (int(codes[c.group(1)]), int(codes[c.group(2)]))
    expect(t, r"Self::AdvanceFailed\([^)]*\)\s*=>\s*None", "AdvanceFailed has no SCMP reply", rel)
    expect(t, r"Self::EgressInterfaceDown\s*\{[^}]*\}\s*=>\s*\{?\s*Some\(\s*ScmpExternalInterfaceDown::new\(", "EgressInterfaceDown -> ExternalInterfaceDown", rel)
    c_nonlocal = single("NonLocalDelivery")
    c_future, c_expired = single("FutureTimestamp"), single("SegmentExpired")
    c_mac, c_seg, c_alert = single("InvalidMacError"), single("InvalidSegmentChange"), single("InvalidScmpAlert")
    u_in, i_in = dual("UnknownIngressInterface"), dual("InvalidIngressInterface")
    u_eg, i_eg = dual("UnknownEgressInterface"), dual("InvalidEgressInterface")
    if u_in != i_in or u_eg != i_eg:
        missing.append(f"{rel}: Unknown/Invalid interface errors no longer share their SCMP codes")
    sp = src("crates/pocketscion/src/network/scion/routing/spec.rs")
    expect(sp, r"local_as\s*!=\s*dst_ia", "route: ForwardLocal only in the destination AS", "routing/spec.rs")
    expect(sp, r"ScmpParameterProblemCode::NonLocalDelivery", "route: NonLocalDelivery reply", "routing/spec.rs")

    # ---- combinator: valid_next_seg
    rel = "crates/libs/sciparse/src/scion/path/combinator/graph.rs"
    g = src(rel)
    need(g, r"\[\]\s*=>\s*true", "valid_next_seg: first segment always allowed", rel)
    need(g, r"\[\s*(\w+)\s*\]\s*=>\s*\{?[^}]*?\1\.segment\.is_non_core\(\)\s*\|\|\s*segment\.is_non_core\(\)", "valid_next_seg: two segments", rel, re.S)
    need(g, r"\[\s*(\w+)\s*,\s*(\w+)\s*\]\s*=>\s*\{?[^}]*?\1\.segment\.is_non_core\(\)\s*&&\s*\2\.segment\.is_core\(\)\s*&&\s*segment\.is_non_core\(\)",
         "valid_next_seg: three segments", rel, re.S)
    rows = []
    B = {True: "true", False: "false"}
    for nxt in (False, True):  # is_core of the candidate
        rows.append(f"([], {B[nxt]}, true)")
        for a in (False, True):
            rows.append(f"([{B[a]}], {B[nxt]}, {B[(not a) or (not nxt)]})")
            for b in (False, True):
                rows.append(f"([{B[a]}; {B[b]}], {B[nxt]}, {B[(not a) and b and (not nxt)]})")
    # ---- beacon helper: which beta the peer entries are MACed over
    rel = "crates/libs/sciparse/src/scion/segment.rs"
    s = src(rel)
    m = need(s, r"pub fn update_macs\(.*?\n    \}", "AsEntry::update_macs", rel, re.S)
    peer_next = "false"
    if m:
        body = m.group(0)
        if re.search(r"for\s+(\w+)\s+in\s+&mut\s+self\.peer_entries\s*\{\s*\1\.hop_field\.mac\s*=\s*\1\.hop_field\s*\.calculate_mac\(\s*mac_beta\s*,", body):
            peer_next = "false"     # peer MACs over beta_i (as the hop entry)
        elif re.search(r"let peer_beta = mac_beta_step\(mac_beta, \*?self\.hop_entry\.hop_field\.mac\.as_bytes\(\)\);", body) and \
                re.search(r"\.calculate_mac\(peer_beta, ", body):
            peer_next = "true"      # peer MACs over beta_{i+1}
        else:
            missing.append(f"{rel}: update_macs: peer entry MAC computation not recognised")

    body = f"""From Coq Require Import List NArith Bool.
Import ListNotations.
Local Open Scope N_scope.
(* ScionLinkType code (Peer 0, Parent 1, Child 2, Core 3) -> AsRoutingLinkType code
   (LinkToCore 0, LinkToParent 1, LinkToChild 2, LinkToPeer 3) *)
Definition sim_link_type_map : list (N * N) := [{link_map}].
(* explicit arms of validate_segment_change: (in, out, accepted) *)
Definition seg_change_arms : list (N * N * bool) := [{arms_s}].
Definition seg_change_default : bool := {default}.
Definition PP_ERRONEOUS_HEADER_FIELD : N := {c_alert}.
Definition PP_NON_LOCAL_DELIVERY : N := {c_nonlocal}.
Definition PP_INVALID_PATH : N := {c_future}.
Definition PP_PATH_EXPIRED : N := {c_expired}.
Definition PP_INVALID_HOP_FIELD_MAC : N := {c_mac}.
Definition PP_INVALID_SEGMENT_CHANGE : N := {c_seg}.
(* ingress-side interface errors: code when cons_dir / when not; egress-side likewise *)
Definition PP_UNKNOWN_CONS_INGRESS : N := {u_in[0]}.
Definition PP_UNKNOWN_CONS_EGRESS : N := {u_in[1]}.
Definition PP_EGRESS_SIDE_CONS : N := {u_eg[0]}.
Definition PP_EGRESS_SIDE_NONCONS : N := {u_eg[1]}.
(* valid_next_seg: (is_core of the segments already used, is_core of the candidate, allowed) *)
Definition valid_next_seg_rows : list (list bool * bool * bool) := [{'; '.join(rows)}].
(* AsEntry::update_macs computes peer-entry MACs over beta_(i+1) (true) or beta_i (false) *)
Definition update_macs_peer_next_beta : bool := {peer_next}.
"""
    emit("NetworkTables.v", body)
