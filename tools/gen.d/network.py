"""link-type tables and SCMP codes of the pocketscion router, valid_next_seg of the combinator
-> Gen/NetworkTables.v   (src, need, emit, missing, re are injected by tools/gen.py)"""

RLT = {"LinkToCore": 0, "LinkToParent": 1, "LinkToChild": 2, "LinkToPeer": 3}
SLT = {"Peer": 0, "Parent": 1, "Child": 2, "Core": 3}


def generate():
    # ---- simulator.rs: ScionLinkType -> AsRoutingLinkType in the lookup closure
    rel = "crates/pocketscion/src/network/scion/simulator.rs"
    t = src(rel)
    pairs = re.findall(r"ScionLinkType::(\w+) => AsRoutingLinkType::(\w+),", t)
    if len(pairs) != 4 or {a for a, _ in pairs} != set(SLT):
        missing.append(f"{rel}: ScionLinkType -> AsRoutingLinkType match (4 arms)")
        pairs = []
    need(t, r"is_up: link\.is_up,", "interface state takes is_up from the link", rel)
    need(t, r"self\.current_as = link_partner\.isd_as;\s*self\.current_ingress_interface_id = link_partner\.if_id;",
         "next_step continues at the link partner", rel)
    link_map = "; ".join(f"({SLT[a]}, {RLT[b]})" for a, b in pairs if b in RLT)

    # ---- standard.rs: validate_segment_change link-type table
    rel = "crates/pocketscion/src/network/scion/routing/spec/standard.rs"
    t = src(rel)
    m = need(t, r"let segment_change_valid = match \(in_link_type, out_link_type\) \{(.*?)\n        \};",
             "validate_segment_change match block", rel, re.S)
    arms, default = [], "false"
    if m:
        blk = m.group(1)
        arms = re.findall(r"\(LinkType::(\w+), LinkType::(\w+)\) => (true|false),", blk)
        d = re.search(r"\n\s*_ => (true|false),", blk)
        if not d:
            missing.append(f"{rel}: default arm of the segment change match")
        else:
            default = d.group(1)
        # every arm of the block must have been recognised
        n_arrows = len(re.findall(r"=>", blk))
        if n_arrows != len(arms) + 1:
            missing.append(f"{rel}: unrecognised arm in the segment change match ({n_arrows} arrows, {len(arms)} parsed)")
    need(t, r"let in_link_type = \(self\.interface_link_type_lookup\)\(current_hop_ingress\)", "in link = lookup(current hop ingress)", rel)
    need(t, r"let out_link_type = \(self\.interface_link_type_lookup\)\(next_hop_egress\)", "out link = lookup(next hop egress)", rel)
    need(t, r"if info_field\.timestamp\(\) > self\.now\.timestamp_secs\(\)", "future timestamp check", rel)
    need(t, r"if hop_field\.expiry_timestamp\(info_field\) < self\.now\.timestamp_secs\(\)", "expiry check", rel)
    need(t, r"if egress_interface != self\.current_interface_id", "egress interface check", rel)
    need(t, r"if !self\.segment_changed\.get\(\)\s*&& self\.current_interface_id != 0\s*&& ingress_interface != self\.current_interface_id",
         "ingress interface check (strict; exempt after a validated segment change)", rel)
    need(t, r"true => \{\s*self\.segment_changed\.set\(true\);\s*Ok\(\(\)\)\s*\}", "segment change recorded in the validator", rel)
    arms_s = "; ".join(f"({RLT[a]}, {RLT[b]}, {v})" for a, b, v in arms if a in RLT and b in RLT)

    # ---- SCMP code of every routing error (to_scmp_error)
    def code_of(variant, what):
        mm = need(t, r"Self::" + variant + r"\b[^=]*?=> \{(.*?)\n            \}", what, rel, re.S)
        if not mm:
            return None
        return mm.group(1)
    ty = src("crates/libs/sciparse/src/proto/payload/scmp/types.rs")
    mm = need(ty, r"pub enum ScmpParameterProblemCode \{(.*?)\n\}", "ScmpParameterProblemCode", "scmp/types.rs", re.S)
    codes = dict(re.findall(r"(\w+) = (\d+),", mm.group(1))) if mm else {}

    def single(variant):
        b = code_of(variant, f"to_scmp_error arm {variant}")
        if b is None:
            return 0
        c = re.findall(r"ScmpParameterProblemCode::(\w+)", b)
        if len(c) != 1 or c[0] not in codes:
            missing.append(f"{rel}: to_scmp_error arm {variant}: expected exactly one known code")
            return 0
        return int(codes[c[0]])

    def dual(variant):
        b = code_of(variant, f"to_scmp_error arm {variant}")
        if b is None:
            return (0, 0)
        c = re.search(r"true => ScmpParameterProblemCode::(\w+),\s*false => ScmpParameterProblemCode::(\w+),", b)
        if not c or c.group(1) not in codes or c.group(2) not in codes:
            missing.append(f"{rel}: to_scmp_error arm {variant}: expected a cons_dir match")
            return (0, 0)
        return (int(codes[c.group(1)]), int(codes[c.group(2)]))
    need(t, r"Self::AdvanceFailed\(_advance_error\) => None,", "AdvanceFailed has no SCMP reply", rel)
    need(t, r"Self::EgressInterfaceDown \{[^}]*\} => \{\s*Some\(\s*ScmpExternalInterfaceDown::new\(", "EgressInterfaceDown -> ExternalInterfaceDown", rel)
    c_nonlocal = single("NonLocalDelivery")
    c_future, c_expired = single("FutureTimestamp"), single("SegmentExpired")
    c_mac, c_seg, c_alert = single("InvalidMacError"), single("InvalidSegmentChange"), single("InvalidScmpAlert")
    u_in, i_in = dual("UnknownIngressInterface"), dual("InvalidIngressInterface")
    u_eg, i_eg = dual("UnknownEgressInterface"), dual("InvalidEgressInterface")
    if u_in != i_in or u_eg != i_eg:
        missing.append(f"{rel}: Unknown/Invalid interface errors no longer share their SCMP codes")
    sp = src("crates/pocketscion/src/network/scion/routing/spec.rs")
    need(sp, r"if local_as != dst_ia \{\s*return Err\(ScmpParameterProblem::new\(\s*ScmpParameterProblemCode::NonLocalDelivery,",
         "route: ForwardLocal only in the destination AS", "routing/spec.rs")

    # ---- combinator: valid_next_seg
    rel = "crates/libs/sciparse/src/scion/path/combinator/graph.rs"
    g = src(rel)
    need(g, r"\[\] => true,", "valid_next_seg: first segment always allowed", rel)
    need(g, r"\[last\] => \{[^}]*last\.segment\.is_non_core\(\) \|\| segment\.is_non_core\(\)\s*\}", "valid_next_seg: two segments", rel, re.S)
    need(g, r"\[first, second\] => \{[^}]*first\.segment\.is_non_core\(\) && second\.segment\.is_core\(\) && segment\.is_non_core\(\)\s*\}",
         "valid_next_seg: three segments", rel, re.S)
    rows = []
    B = {True: "true", False: "false"}
    for nxt in (False, True):  # is_core of the candidate
        rows.append(f"([], {B[nxt]}, true)")
        for a in (False, True):
            rows.append(f"([{B[a]}], {B[nxt]}, {B[(not a) or (not nxt)]})")
            for b in (False, True):
                rows.append(f"([{B[a]}; {B[b]}], {B[nxt]}, {B[(not a) and b and (not nxt)]})")
    # ---- beacon helper: which beta the peer entries are MACed over
    rel = "crates/libs/sciparse/src/scion/segment.rs"
    s = src(rel)
    m = need(s, r"pub fn update_macs\(.*?\n    \}", "AsEntry::update_macs", rel, re.S)
    peer_next = "false"
    if m:
        body = m.group(0)
        if re.search(r"for peer in &mut self\.peer_entries \{\s*peer\.hop_field\.mac =\s*peer\.hop_field\s*\.calculate_mac\(mac_beta, ", body):
            peer_next = "false"     # peer MACs over beta_i (as the hop entry)
        elif re.search(r"let peer_beta = mac_beta_step\(mac_beta, \*?self\.hop_entry\.hop_field\.mac\.as_bytes\(\)\);", body) and \
                re.search(r"\.calculate_mac\(peer_beta, ", body):
            peer_next = "true"      # peer MACs over beta_{i+1}
        else:
            missing.append(f"{rel}: update_macs: peer entry MAC computation not recognised")

    body = f"""From Coq Require Import List NArith Bool.
Import ListNotations.
Local Open Scope N_scope.
(* ScionLinkType code (Peer 0, Parent 1, Child 2, Core 3) -> AsRoutingLinkType code
   (LinkToCore 0, LinkToParent 1, LinkToChild 2, LinkToPeer 3) *)
Definition sim_link_type_map : list (N * N) := [{link_map}].
(* explicit arms of validate_segment_change: (in, out, accepted) *)
Definition seg_change_arms : list (N * N * bool) := [{arms_s}].
Definition seg_change_default : bool := {default}.
Definition PP_ERRONEOUS_HEADER_FIELD : N := {c_alert}.
Definition PP_NON_LOCAL_DELIVERY : N := {c_nonlocal}.
Definition PP_INVALID_PATH : N := {c_future}.
Definition PP_PATH_EXPIRED : N := {c_expired}.
Definition PP_INVALID_HOP_FIELD_MAC : N := {c_mac}.
Definition PP_INVALID_SEGMENT_CHANGE : N := {c_seg}.
(* ingress-side interface errors: code when cons_dir / when not; egress-side likewise *)
Definition PP_UNKNOWN_CONS_INGRESS : N := {u_in[0]}.
Definition PP_UNKNOWN_CONS_EGRESS : N := {u_in[1]}.
Definition PP_EGRESS_SIDE_CONS : N := {u_eg[0]}.
Definition PP_EGRESS_SIDE_NONCONS : N := {u_eg[1]}.
(* valid_next_seg: (is_core of the segments already used, is_core of the candidate, allowed) *)
Definition valid_next_seg_rows : list (list bool * bool * bool) := [{'; '.join(rows)}].
(* AsEntry::update_macs computes peer-entry MACs over beta_(i+1) (true) or beta_i (false) *)
Definition update_macs_peer_next_beta : bool := {peer_next}.
"""
    emit("NetworkTables.v", body)
