"""sciparse wire layout -> Gen/Layout.v, Gen/Tables.v
(src, need, expect, emit, missing, re are injected by tools/gen.py; need = hard: generated tables and
constants; expect = soft: mirrored statements whose behaviour the correspondence harness observes)

Layout.v : every `gen_bitrange_const!(NAME, start, width)` of the layout.rs files as
           `<Struct>_<NAME> : N * N := (start, width)` (Struct = impl block name minus a trailing
           "Layout"), every `const X: usize = <expr>` of those impl blocks, `all_ranges`.
Tables.v : `From<u8>` match arms of PathType / WireHostAddrType / ProtocolNumber /
           ScmpMessageType, per-view lists of safe and unsafe generated field writers, and the
           list of hand-written setters with their `unsafe` flag.
A construct that is expected but missing is a loud failure."""

P = "crates/libs/sciparse/src/"
LAYOUT_FILES = [
    "proto/header/layout.rs",
    "proto/dataplane_path/standard/layout.rs",
    "proto/dataplane_path/onehop/layout.rs",
    "proto/dataplane_path/layout.rs",
    "proto/payload/udp/layout.rs",
    "proto/payload/scmp/layout.rs",
]
VIEW_FILES = [
    "proto/header/view.rs",
    "proto/dataplane_path/standard/view.rs",
    "proto/payload/udp/view.rs",
    "proto/payload/scmp/view.rs",
]


def strip_comments(t):
    t = re.sub(r"/\*.*?\*/", "", t, flags=re.S)
    return re.sub(r"//[^\n]*", "", t)


def short(struct):
    return struct[:-6] if struct.endswith("Layout") and len(struct) > 6 else struct


class Env:
    def __init__(self):
        self.vals = {}     # "Struct::NAME" -> int ; "Struct::NAME.start/.end"
        self.order = []    # (coqname, kind, value)

    def ev(self, expr, cur, where):
        e = expr.strip()
        e = re.sub(r"\bSelf::", cur + "::", e)
        def sub(m):
            k = m.group(0)
            if k in self.vals:
                return str(self.vals[k])
            raise KeyError(k)
        try:
            e2 = re.sub(r"[A-Za-z_]\w*::[A-Z_][A-Z0-9_]*(?:\.(?:start|end))?", sub, e)
        except KeyError as k:
            missing.append(f"{where}: cannot evaluate `{expr.strip()}` (unknown {k})")
            return 0
        e2 = e2.replace("usize", "").replace(" as ", " ")
        if not re.fullmatch(r"[0-9+\-*/() \t\n]+", e2):
            missing.append(f"{where}: cannot evaluate `{expr.strip()}`")
            return 0
        return int(eval(" ".join(e2.split()).replace("/", "//")))


def split_args(s):
    out, depth, cur = [], 0, ""
    for ch in s:
        if ch in "([{":
            depth += 1
        if ch in ")]}":
            depth -= 1
        if ch == "," and depth == 0:
            out.append(cur); cur = ""
        else:
            cur += ch
    if cur.strip():
        out.append(cur)
    return [x.strip() for x in out]


def parse_layouts(env):
    nranges = 0
    item = re.compile(
        r"^impl(?:<[^>]*>)?\s+(\w+)\s*\{"                                  # 1: inherent impl
        r"|gen_bitrange_const!\s*\(([^;]*?)\)\s*;"                           # 2: range
        r"|^\s*(?:pub(?:\([a-z]+\))?\s+)?const\s+([A-Z][A-Z0-9_]*)\s*:\s*usize\s*=\s*([^;]+);",  # 3,4
        re.M | re.S)
    # two passes so that constants referring to later files resolve
    for _pass in range(2):
        env.order = []
        nranges = 0
        first_missing = len(missing)
        for rel in LAYOUT_FILES:
            t = strip_comments(src(P + rel))
            t = t.split("#[cfg(test)]")[0]
            cur = None
            for m in item.finditer(t):
                if m.group(1):
                    cur = m.group(1)
                elif m.group(2) is not None:
                    if cur is None:
                        missing.append(f"{rel}: gen_bitrange_const outside an impl block"); continue
                    a = split_args(m.group(2))
                    if len(a) != 3:
                        missing.append(f"{rel}: gen_bitrange_const arity: {m.group(2)}"); continue
                    st = env.ev(a[1], cur, rel); wd = env.ev(a[2], cur, rel)
                    key = f"{cur}::{a[0]}"
                    env.vals[key + ".start"] = st; env.vals[key + ".end"] = st + wd
                    env.order.append((f"{short(cur)}_{a[0]}", "rng", (st, wd)))
                    nranges += 1
                else:
                    owner = cur if m.start() > 0 and cur and t[m.start():m.end()].startswith((" ", "\t", "\n")) else None
                    name = m.group(3)
                    if owner is None:
                        v = env.ev(m.group(4), "", rel)
                        env.vals[name] = v
                        env.order.append((name, "const", v))
                    else:
                        v = env.ev(m.group(4), owner, rel)
                        env.vals[f"{owner}::{name}"] = v
                        env.order.append((f"{short(owner)}_{name}", "const", v))
        if _pass == 0:
            del missing[first_missing:]
    return nranges


EXPECT_RANGES = [
    "CommonHeader_VERSION_RNG", "CommonHeader_TRAFFIC_CLASS_RNG", "CommonHeader_FLOW_ID_RNG",
    "CommonHeader_NEXT_HEADER_RNG", "CommonHeader_HEADER_LEN_RNG", "CommonHeader_PAYLOAD_LEN_RNG",
    "CommonHeader_PATH_TYPE_RNG", "CommonHeader_DST_ADDR_INFO_RNG", "CommonHeader_SRC_ADDR_INFO_RNG",
    "CommonHeader_RSV_RNG", "CommonHeader_TOTAL_RNG",
    "AddressHeader_DST_ISD_RNG", "AddressHeader_DST_AS_RNG", "AddressHeader_DST_IA_RNG",
    "AddressHeader_SRC_ISD_RNG", "AddressHeader_SRC_AS_RNG", "AddressHeader_SRC_IA_RNG",
    "StdPathMeta_CURR_INFO_FIELD_RNG", "StdPathMeta_CURR_HOP_FIELD_RNG", "StdPathMeta_RSV_RNG",
    "StdPathMeta_SEG0_LEN_RNG", "StdPathMeta_SEG1_LEN_RNG", "StdPathMeta_SEG2_LEN_RNG", "StdPathMeta_TOTAL_RNG",
    "InfoField_FLAGS_RNG", "InfoField_RSV_RNG", "InfoField_SEGMENT_ID_RNG", "InfoField_TIMESTAMP_RNG", "InfoField_TOTAL_RNG",
    "HopField_FLAGS_RNG", "HopField_EXP_TIME_RNG", "HopField_CONS_INGRESS_RNG", "HopField_CONS_EGRESS_RNG",
    "HopField_MAC_RNG", "HopField_TOTAL_RNG",
    "OneHopPath_INFO_FIELD", "OneHopPath_HOP_FIELD_1", "OneHopPath_HOP_FIELD_2", "OneHopPath_TOTAL",
    "UdpDatagram_SRC_PORT_RNG", "UdpDatagram_DST_PORT_RNG", "UdpDatagram_LENGTH_RNG", "UdpDatagram_CHECKSUM_RNG", "UdpDatagram_HEADER_RNG",
    "ScmpMessage_TYPE_RNG", "ScmpMessage_CODE_RNG", "ScmpMessage_CHECKSUM_RNG",
    "ScmpDestinationUnreachable_RESERVED_RNG",
    "ScmpPacketTooBig_RESERVED_RNG", "ScmpPacketTooBig_MTU_RNG",
    "ScmpParameterProblem_RESERVED_RNG", "ScmpParameterProblem_POINTER_RNG",
    "ScmpExternalInterfaceDown_ISD_AS_RNG", "ScmpExternalInterfaceDown_INTERFACE_ID_RNG",
    "ScmpInternalConnectivityDown_ISD_AS_RNG", "ScmpInternalConnectivityDown_INGRESS_INTERFACE_ID_RNG",
    "ScmpInternalConnectivityDown_EGRESS_INTERFACE_ID_RNG",
    "ScmpEchoRequest_IDENTIFIER_RNG", "ScmpEchoRequest_SEQUENCE_NUMBER_RNG",
    "ScmpEchoReply_IDENTIFIER_RNG", "ScmpEchoReply_SEQUENCE_NUMBER_RNG",
    "ScmpTracerouteRequest_IDENTIFIER_RNG", "ScmpTracerouteRequest_SEQUENCE_NUMBER_RNG",
    "ScmpTracerouteRequest_ISD_AS_RNG", "ScmpTracerouteRequest_INTERFACE_ID_RNG",
    "ScmpTracerouteReply_IDENTIFIER_RNG", "ScmpTracerouteReply_SEQUENCE_NUMBER_RNG",
    "ScmpTracerouteReply_ISD_AS_RNG", "ScmpTracerouteReply_INTERFACE_ID_RNG",
    "ScmpUnknownMessage_TYPE_RNG", "ScmpUnknownMessage_CODE_RNG", "ScmpUnknownMessage_CHECKSUM_RNG",
]
EXPECT_CONSTS = [
    "CommonHeader_SIZE_BYTES", "ScionHeader_MAX_SIZE_BYTES", "AddressHeader_FIXED_SIZE_BITS",
    "AddressHeader_MIN_SIZE_BYTES", "AddressHeader_MAX_SIZE_BYTES", "ScionHeaderPath_MAX_SIZE_BYTES",
    "StdPathMeta_SIZE_BYTES", "StdPathMeta_MAX_SEGMENTS", "StdPathMeta_MAX_SEGMENT_HOPS", "StdPathMeta_MAX_TOTAL_HOPS",
    "InfoField_SIZE_BYTES", "HopField_SIZE_BYTES", "OneHopPath_SIZE_BYTES", "UdpDatagram_HEADER_SIZE_BYTES",
    "SCMP_ERROR_MAX_PACKET_SIZE",
    "ScmpDestinationUnreachable_HEADER_SIZE_BYTES", "ScmpPacketTooBig_HEADER_SIZE_BYTES",
    "ScmpParameterProblem_HEADER_SIZE_BYTES", "ScmpExternalInterfaceDown_HEADER_SIZE_BYTES",
    "ScmpInternalConnectivityDown_HEADER_SIZE_BYTES", "ScmpEchoRequest_HEADER_SIZE_BYTES",
    "ScmpEchoReply_HEADER_SIZE_BYTES", "ScmpTracerouteRequest_HEADER_SIZE_BYTES",
    "ScmpTracerouteReply_HEADER_SIZE_BYTES", "ScmpUnknownMessage_HEADER_SIZE_BYTES",
]


def arms(text, enum, rel):
    """`N => Enum::Variant,` arms of `impl From<u8> for Enum`"""
    m = need(text, rf"impl From<u8> for {enum} \{{.*?match value \{{(.*?)\n\s*(?:other|value|v) =>", f"From<u8> for {enum}", rel, re.S)
    if not m:
        return []
    out = []
    for a in re.finditer(rf"(0b[01_]+|0x[0-9a-fA-F_]+|\d+)\s*=>\s*{enum}::(\w+)", m.group(1)):
        out.append((int(a.group(1).replace("_", ""), 0), a.group(2)))
    if not out:
        missing.append(f"{rel}: no arms in From<u8> for {enum}")
    return out


def field_writers(rel):
    """per view struct: generated (safe|unsafe) field writers with their range name, and
    hand-written `pub [unsafe] fn set_*`"""
    t = strip_comments(src(P + rel)).split("#[cfg(test)]")[0]
    views = {}
    cur = None
    rx = re.compile(
        r"^impl(?:<[^>]*>)?\s+(\w+)(?:<[^>]*>)?\s*\{"
        r"|gen_(unsafe_field_write|field_write|field_read_and_write)!\s*\(([^;]*?)\)\s*;"
        r"|pub\s+(unsafe\s+)?fn\s+(set_\w+|as_raw_mut|\w+_mut)\s*[<(]", re.M | re.S)
    for m in rx.finditer(t):
        if m.group(1):
            cur = m.group(1); views.setdefault(cur, {"safe": [], "unsafe": [], "fns": []})
        elif m.group(2):
            a = split_args(m.group(3))
            kind = m.group(2)
            if kind == "field_read_and_write":
                name, rng = a[1], a[2]
            else:
                name, rng = a[0], a[1]
            mm = re.fullmatch(r"(\w+)::(\w+)", rng.strip())
            if not mm or cur is None:
                missing.append(f"{rel}: unparsable writer macro {m.group(0)[:60]}"); continue
            views[cur]["unsafe" if kind == "unsafe_field_write" else "safe"].append((name, f"{short(mm.group(1))}_{mm.group(2)}"))
        elif m.group(5) and cur is not None:
            views[cur]["fns"].append((m.group(5), bool(m.group(4))))
    return views


def generate():
    env = Env()
    n = parse_layouts(env)
    names = {c for c, _, _ in env.order}
    for e in EXPECT_RANGES + EXPECT_CONSTS:
        if e not in names:
            missing.append(f"sciparse layout.rs: {e}")
    if n < 90:
        missing.append(f"sciparse layout.rs: only {n} gen_bitrange_const invocations found (expected >= 90)")
    seen = set()
    lines = ["From Coq Require Import NArith List.", "Import ListNotations.", "Local Open Scope N_scope.", ""]
    rng_names = []
    for cname, kind, v in env.order:
        if cname in seen:
            continue
        seen.add(cname)
        if kind == "rng":
            lines.append(f"Definition {cname} : N * N := ({v[0]}, {v[1]}).")
            rng_names.append(cname)
        else:
            lines.append(f"Definition {cname} : N := {v}.")
    lines.append("")
    lines.append("(* every generated bit range (start, width) *)")
    lines.append("Definition all_ranges : list (N * N) := [" + "; ".join(rng_names) + "].")
    lines.append("(* ranges that go through the 128-bit lane (unchecked_bit_range_be_read/write); the TOTAL / HEADER /")
    lines.append("   one-hop sub-field ranges are only used through aligned_byte_range() *)")
    lane = [n for n in rng_names if not (n.endswith("_TOTAL_RNG") or n.endswith("_TOTAL") or n.endswith("_HEADER_RNG") or n.startswith("OneHopPath_"))]
    lines.append("Definition lane_ranges : list (N * N) := [" + "; ".join(lane) + "].")
    emit("Layout.v", "\n".join(lines) + "\n")

    # ---------------- Tables.v ----------------
    out = ["From Coq Require Import NArith List.", "From Sci Require Gen.Layout.", "Import ListNotations.", "Local Open Scope N_scope.", ""]
    rel = P + "proto/dataplane_path/types.rs"
    t = strip_comments(src(rel))
    pa = arms(t, "PathType", rel)
    want = {"Empty": 0, "Scion": 1, "OneHop": 2}
    d = {v: k for k, v in pa}
    for k in want:
        if k not in d:
            missing.append(f"{rel}: PathType::{k} arm")
    for k, v in pa:
        out.append(f"Definition PT_{v.upper()} : N := {k}.")
    out.append("Definition path_type_known : list N := [" + "; ".join(str(k) for k, _ in pa) + "].")
    rel = P + "scion/address/host_addr.rs"
    t = strip_comments(src(rel))
    ha = arms(t, "WireHostAddrType", rel)
    for k, v in ha:
        out.append(f"Definition HAT_{v.upper()} : N := {k}.")
    out.append("Definition host_addr_type_known : list N := [" + "; ".join(str(k) for k, _ in ha) + "].")
    # mirrored statements (observed by the C02 / C03 harness through every address nibble): soft
    expect(t, r">>\s*2\b.*?&\s*(?:0b11|3|0x3)\b[^;]*\+\s*1\s*\)\s*\*\s*4", "WireHostAddrType unknown id/size formula (nibble >> 2, ((nibble & 3) + 1) * 4)", rel, re.S)
    expect(t, r"<<\s*2\s*\)?\s*\|[^;]*/\s*4", "WireHostAddrType -> u8 formula ((id << 2) | size / 4 - 1)", rel)
    sz = need(t, r"WireHostAddrType::IPV4 => 4,\s*WireHostAddrType::IPV6 => 16,\s*WireHostAddrType::Service => 4,\s*WireHostAddrType::Unknown \{ size, \.\. \} => \*size,", "WireHostAddrType::size arms", rel)
    out.append("Definition HAT_IPV4_SIZE : N := 4.\nDefinition HAT_IPV6_SIZE : N := 16.\nDefinition HAT_SERVICE_SIZE : N := 4.")
    rel = P + "proto/payload.rs"
    t = strip_comments(src(rel))
    pn = arms(t, "ProtocolNumber", rel)
    for k, v in pn:
        out.append(f"Definition PROTO_{v.upper()} : N := {k}.")
    out.append("Definition protocol_known : list N := [" + "; ".join(str(k) for k, _ in pn) + "].")
    rel = P + "proto/payload/scmp/types.rs"
    t = strip_comments(src(rel))
    sm = arms(t, "ScmpMessageType", rel)
    for k, v in sm:
        out.append(f"Definition SCMP_T_{v} : N := {k}.")
    out.append("Definition scmp_type_known : list N := [" + "; ".join(str(k) for k, _ in sm) + "].")
    for nm in ("DestinationUnreachable", "PacketTooBig", "ParameterProblem", "ExternalInterfaceDown",
               "InternalConnectivityDown", "EchoRequest", "EchoReply", "TracerouteRequest", "TracerouteReply"):
        if nm not in {v for _, v in sm}:
            missing.append(f"{rel}: ScmpMessageType::{nm}")
    # field writers
    out.append("")
    out.append("(* generated field writers per view: (range) lists; safe = gen_field_write / gen_field_read_and_write, unsafe = gen_unsafe_field_write *)")
    allviews = {}
    for rel in VIEW_FILES:
        for v, d in field_writers(rel).items():
            allviews.setdefault(v, {"safe": [], "unsafe": [], "fns": []})
            for k in d:
                allviews[v][k] += d[k]
    for v in sorted(allviews):
        d = allviews[v]
        if not (d["safe"] or d["unsafe"]):
            continue
        out.append(f"Definition {v}_safe_writes : list (N * N) := [" + "; ".join("Layout." + r for _, r in d["safe"]) + "].")
        out.append(f"Definition {v}_unsafe_writes : list (N * N) := [" + "; ".join("Layout." + r for _, r in d["unsafe"]) + "].")
    # the size-determining setters must be unsafe fns
    def is_unsafe(view, fn):
        d = allviews.get(view, {"unsafe": [], "fns": []})
        return any(n == fn for n, _ in d["unsafe"]) or any(n == fn and u for n, u in d["fns"])
    def is_safe(view, fn):
        d = allviews.get(view, {"safe": [], "fns": []})
        return any(n == fn for n, _ in d["safe"]) or any(n == fn and not u for n, u in d["fns"])
    for view, fn in [("ScionHeaderView", "set_payload_len"), ("ScionHeaderView", "set_header_len"),
                     ("ScionHeaderView", "set_path_type"), ("ScionHeaderView", "set_dst_addr_type"),
                     ("ScionHeaderView", "set_src_addr_type"), ("StandardPathView", "set_seg0_len"),
                     ("StandardPathView", "set_seg1_len"), ("StandardPathView", "set_seg2_len"),
                     ("ScmpPayloadView", "set_message_type")]:
        if not is_unsafe(view, fn):
            missing.append(f"sciparse views: {view}::{fn} is no longer an unsafe fn (size-determining setter)")
    # packet view: as_raw_mut of the typed packet views must be unsafe (C02 repair)
    rel = P + "proto/packet/view.rs"
    t = strip_comments(src(rel))
    raws = re.findall(r"pub\s+(unsafe\s+)?fn\s+as_raw_mut\s*\(", t)
    if len(raws) != 2:
        missing.append(f"{rel}: expected two as_raw_mut definitions, found {len(raws)}")
    out.append(f"Definition udp_as_raw_mut_is_unsafe : bool := {'true' if len(raws) == 2 and raws[0] else 'false'}.")
    out.append(f"Definition scmp_as_raw_mut_is_unsafe : bool := {'true' if len(raws) == 2 and raws[1] else 'false'}.")
    mut_from = re.search(r"From<&'a mut ScionUdpPacketView> for &'a mut ScionRawPacketView", t) is not None
    out.append(f"Definition udp_mut_into_raw_mut_impl : bool := {'true' if mut_from else 'false'}.")
    # --- mirrored statements whose behaviour the harness observes: SOFT (expect), semantics only ---
    def fn_body(text, name):
        m = re.search(r"\bfn\s+" + name + r"\b", text)
        if not m:
            return ""
        n = re.search(r"\bfn\s+\w+", text[m.end():])
        return text[m.start(): m.end() + (n.start() if n else len(text))]
    expect(t, r"header_len\s*\+\s*[\w.]*payload_len", "ScionRawPacketView::has_required_size header_len + payload_len", rel)
    expect(t, r"\bmin\s*\(", "ScionRawPacketView::has_required_size min() with the buffer length", rel)
    # C02: the owned constructor requires the EXACT size (an oversized Box<[u8]> would be
    # reinterpreted as Box<[u8; N]> by the fixed-size views); the borrowed ones split at `size`.
    # Observed by h_wire_views (constructor families on exact / short / long inputs).
    rel = P + "core/view.rs"
    t = strip_comments(src(rel))
    boxed_exact = expect(fn_body(t, "try_from_boxed"), r"\.len\(\)\s*!=\s*\w+|\w+\s*!=\s*\w+\.len\(\)",
         "View::try_from_boxed exact-size check (`len != size`)", rel)
    expect(fn_body(t, "try_from_slice"), r"has_required_size\(.*?split_at(?:_unchecked|_checked)?\(",
         "View::try_from_slice splits at the required size", rel, re.S)
    expect(fn_body(t, "try_from_mut_slice"), r"has_required_size\(.*?split_at_mut(?:_unchecked|_checked)?\(",
         "View::try_from_mut_slice splits at the required size", rel, re.S)
    out.append(f"Definition boxed_ctor_requires_exact_size : bool := {'true' if boxed_exact else 'false'}.")
    # C03: the bounds the encoder's gate compares the length fields against (the model's
    # wire_valid uses the same numbers: Codec.packet_wire_valid).  Observed by h_wire_codec
    # (directed totals 65534..65537 for every payload kind, header sizes 1016..1028).
    rel = P + "proto/packet/model.rs"
    t = strip_comments(src(rel))
    U16MAX = r">\s*(?:u16::MAX\b|65_?535\b|0x[fF]{4}\b)|>=\s*(?:65_?536\b|0x1_?0000\b)"
    expect(fn_body(t, "wire_valid"), U16MAX, "ScionPacket::wire_valid payload bound (`> u16::MAX`)", rel)
    rel = P + "proto/payload/udp/model.rs"
    t = strip_comments(src(rel))
    expect(fn_body(t, "wire_valid"), U16MAX, "UdpDatagram::wire_valid bound (`8 + payload > u16::MAX`)", rel)
    rel = P + "proto/header/model.rs"
    t = strip_comments(src(rel))
    expect(fn_body(t, "wire_valid"), r">\s*(?:\w+::)*MAX_SIZE_BYTES\b", "ScionPacketHeader::wire_valid bound (`> MAX_SIZE_BYTES`)", rel)
    out.append("Definition PAYLOAD_LEN_MAX : N := 65535.   (* u16::MAX, pinned in ScionPacket::wire_valid and UdpDatagram::wire_valid *)")
    # UDP view: set_length is a safe writer over LENGTH_RNG (has_required_size depends on it)
    out.append(f"Definition udp_set_length_is_safe : bool := {'true' if is_safe('UdpDatagramView', 'set_length') else 'false'}.")
    emit("Tables.v", "\n".join(out) + "\n")
