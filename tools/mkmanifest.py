#!/usr/bin/env python3
"""Writes MANIFEST.json from checks/manifest_entries.json (claimed checks) and properties.jsonl."""
import json, os
root = os.path.join(os.path.dirname(os.path.abspath(__file__)), "..")
props = [json.loads(l) for l in open(os.path.join(root, "properties.jsonl"))]
entries = json.load(open(os.path.join(root, "checks", "manifest_entries.json")))
checks, na = [], []
for p in props:
    pid = p["id"]
    e = entries.get(pid)
    if e and e.get("claimed", True):
        checks.append({
            "property_id": pid,
            "quick_cmd": f"./check {pid} --tier quick",
            "thorough_cmd": f"./check {pid} --tier thorough",
            "evidence_file": f"/verif/evidence/{pid}.json",
            "replay_cmd_template": f"./check {pid} --replay {{path}}",
            "engine": "coq-proof+correspondence",
            "level_claimed": {"category": "proof", "text": e["text"], "design_ref": e.get("design_ref", "DESIGN.md section 4, " + pid)},
            "level_note": e["note"],
            "technique": e["technique"],
        })
    else:
        na.append({"property_id": pid, "reason": (e or {}).get("reason", "check not built yet in this development; no claim is made for it")})
m = {
    "version": 1,
    "setup_cmd": "./setup.sh",
    "hooks": {"guard": "cargo feature verif-hooks (crate scion-stack)",
              "enable": "harness/hk/Cargo.toml depends on scion-stack with features=[\"verif-hooks\"]; all other crates are used through their public API",
              "baseline_off_cmd": "cd /repo && cargo nextest run --workspace --no-fail-fast --test-threads 8 --offline || cargo test --workspace --no-fail-fast --offline",
              "source_commits": entries.get("_hook_commits", []),
              "add_only": True},
    "engines": [{"name": "coq-proof+correspondence", "path": "/verif/check",
                 "serves_properties": [c["property_id"] for c in checks],
                 "kind_free_text": "Coq 8.16 theorems over hand-written Gallina models (coq/theories), generated constant tables (tools/gen.py), and a Rust correspondence harness (harness/) whose case files are evaluated by vm_compute inside Coq"}],
    "checks": checks,
    "not_applicable": na,
    "notes": "See DESIGN.md. known_findings.json lists recorded defects; fix: commits in /repo are listed there as fixed.",
}
json.dump(m, open(os.path.join(root, "MANIFEST.json"), "w"), indent=1)
print(f"{len(checks)} checks, {len(na)} not claimed")
