//! C17 correspondence harness: drives the real `Defragmenter`/`Fragmenter` and writes the
//! frame schedules together with the observed results as Coq case files.
use anapaya_edge_tun::fragmenting::{
    DefragmentInsertError as E, Defragmenter, Fragmenter, MAX_MTU, MIN_MTU, MIN_PAYLOAD_SIZE,
};
use std::panic::AssertUnwindSafe;
use vcommon::*;

#[derive(Clone)]
struct Frame { so: u64, fo: u16, flags: u16, resv: [u8; 4], payload: Vec<u8>, raw: Option<Vec<u8>> }
impl Frame {
    fn bytes(&self) -> Vec<u8> {
        if let Some(r) = &self.raw { return r.clone(); }
        let mut v = Vec::with_capacity(16 + self.payload.len());
        v.extend_from_slice(&self.so.to_be_bytes());
        v.extend_from_slice(&self.fo.to_be_bytes());
        v.extend_from_slice(&self.flags.to_be_bytes());
        v.extend_from_slice(&self.resv);
        v.extend_from_slice(&self.payload);
        v
    }
    fn coq(&self) -> String {
        match &self.raw {
            Some(r) => format!("IRaw {}", coq_bytes(r)),
            None => format!("IF {} {} {} {} {}", self.so, self.fo, self.flags,
                            coq_bytes(&self.resv), coq_rle(&self.payload)),
        }
    }
    fn human(&self) -> String {
        match &self.raw {
            Some(r) => format!("raw{}B", r.len()),
            None => format!("so={} fo={} fl={:#x} len={} b0={}", self.so, self.fo, self.flags,
                            self.payload.len(), self.payload.first().copied().unwrap_or(0)),
        }
    }
}

fn err_code(e: &E) -> u64 {
    match e {
        E::QueueNotAccepting => 10,
        E::InvalidHeader => 11,
        E::OutOfBounds(_) => 12,
        E::Duplicate(_) => 13,
        E::TooOld(_) => 14,
        E::InvalidHeaderValue(_, m) => 20 + match *m {
            "last_packet_size_exceeds_max_packet_size" => 1,
            "inconsistent_frame_size" => 2,
            "offset_alignment_invalid" => 3,
            "frame_too_small" => 4,
            "frame_idx_exceeds_max_frames" => 5,
            "last_frame_offset_alignment_invalid" => 6,
            "last_frame_size_invalid" => 7,
            _ => 9,
        },
    }
}

/// (code, so, payload)
fn run_impl(q: usize, frames: &[Frame]) -> Vec<(u64, u64, Vec<u8>)> {
    let mut d = Defragmenter::new_unobserved(q);
    let mut out = vec![];
    let mut dead = false;
    for f in frames {
        if dead { out.push((99, 0, vec![])); continue; }
        let b = f.bytes();
        let r = std::panic::catch_unwind(AssertUnwindSafe(|| match d.recv(&b) {
            Ok(None) => (0u64, 0u64, vec![]),
            Ok(Some(p)) => (1, p.stream_offset, p.payload.to_vec()),
            Err(e) => (err_code(&e), 0, vec![]),
        }));
        match r { Ok(x) => out.push(x), Err(_) => { dead = true; out.push((99, 0, vec![])); } }
    }
    out
}

fn packet_data(rng: &mut Rng, len: usize, tag: u8) -> Vec<u8> {
    // constant runs of 64 bytes with a per-packet tag in the high bits: compact under RLE
    // but different packets / windows carry different bytes
    let mut v = Vec::with_capacity(len);
    let mut cur = 0u8;
    for i in 0..len {
        if i % 64 == 0 { cur = (tag << 4) | (rng.below(16) as u8); }
        v.push(cur);
    }
    v
}

fn honest_frames(mtu: usize, so0: u64, datas: &[Vec<u8>]) -> (Vec<Vec<Frame>>, Vec<(u64, Vec<u8>)>) {
    let mut fr = Fragmenter::new_unobserved(mtu);
    // position the fragmenter at so0 by construction: Fragmenter has no setter, so send
    // nothing; stream offsets start at 0 and we add so0 afterwards only when so0 == 0.
    let _ = so0;
    let mut per_packet = vec![];
    let mut sent = vec![];
    for d in datas {
        let mut fs = vec![];
        let r = fr.send(d, |f| fs.push(Frame { so: f.header.stream_offset, fo: f.header.frame_offset,
            flags: f.header.flags, resv: [0; 4], payload: f.fragment.to_vec(), raw: None }));
        if let Ok(so) = r { sent.push((so, d.clone())); per_packet.push(fs); }
    }
    (per_packet, sent)
}

struct Case { q: usize, frames: Vec<Frame>, sent: Vec<(u64, Vec<u8>)>, kind: &'static str }

fn gen_honest(rng: &mut Rng) -> Case {
    let q = rng.range(1, 3) as usize;
    let mtu = *rng.pick(&[MIN_MTU, MIN_MTU + 1, 300, 1500, MAX_MTU, 100, 20000]);
    let eff = mtu.clamp(MIN_MTU, MAX_MTU) - 16;
    let npk = rng.range(1, (q + 1) as u64) as usize;
    let mut datas = vec![];
    for k in 0..npk {
        let nfr = rng.range(1, 5) as usize;
        let len = match rng.below(6) {
            0 => 1, 1 => eff.saturating_sub(1).max(1), 2 => eff, 3 => eff + 1,
            4 => eff * nfr, _ => eff * (nfr - 1) + rng.range(1, eff as u64) as usize,
        }.min(65535);
        datas.push(packet_data(rng, len, (k + 1) as u8));
    }
    let (pp, sent) = honest_frames(mtu, 0, &datas);
    // schedule: interleave packets, permute, duplicate, drop
    let mut frames: Vec<Frame> = pp.into_iter().flatten().collect();
    match rng.below(4) {
        0 => {}
        1 => frames.reverse(),
        _ => rng.shuffle(&mut frames),
    }
    let n = frames.len();
    let mode = rng.below(4);
    if mode == 1 || mode == 3 {
        for _ in 0..rng.range(1, 3) { let i = rng.below(n as u64) as usize; let f = frames[i].clone();
            let at = rng.below(frames.len() as u64 + 1) as usize; frames.insert(at, f); }
    }
    if mode == 2 || mode == 3 {
        if frames.len() > 1 { let i = rng.below(frames.len() as u64) as usize; frames.remove(i); }
    }
    Case { q, frames, sent, kind: "honest" }
}

fn gen_hostile(rng: &mut Rng) -> Case {
    let q = rng.range(1, 3) as usize;
    let w = *rng.pick(&[MIN_PAYLOAD_SIZE, MIN_PAYLOAD_SIZE + 1, 300, 512]);
    let n = rng.range(1, 8) as usize;
    let sos = [0u64, 0, 0, 1000, 5000, 70000, u64::MAX, 999];
    let mut frames = vec![];
    for k in 0..n {
        if rng.chance(1, 25) {
            let l = rng.below(17) as usize;
            frames.push(Frame { so: 0, fo: 0, flags: 0, resv: [0; 4], payload: vec![],
                raw: Some((0..l).map(|_| rng.below(256) as u8).collect()) });
            continue;
        }
        let so = *rng.pick(&sos);
        let last = rng.chance(1, 3);
        let len = match rng.below(10) {
            0 => 0, 1 => 1, 2 => MIN_PAYLOAD_SIZE - 1, 3 => w + 1, 4 => 2 * w, 5 => 3 * w + 7, _ => w,
        };
        let len = if last { match rng.below(4) { 0 => 0, 1 => 5, 2 => w, _ => len } } else { len };
        let idx = *rng.pick(&[0u64, 1, 1, 2, 2, 3, 4, 5, 254, 255, 200]);
        let mut fo = (idx * w as u64) as i64;
        if rng.chance(1, 12) { fo += *rng.pick(&[-1i64, 1, 7]); }
        if rng.chance(1, 30) { fo = *rng.pick(&[65535i64, 65280, 65000]); }
        let fo = fo.clamp(0, 65535) as u16;
        let mut flags = if last { 0x8000u16 } else { 0 };
        if rng.chance(1, 10) { flags |= rng.below(0x8000) as u16; }
        let resv = if rng.chance(1, 10) { [rng.below(256) as u8; 4] } else { [0; 4] };
        let tag = (k as u8 + 1) * 16 + 1;
        frames.push(Frame { so, fo, flags, resv, payload: vec![tag; len], raw: None });
    }
    Case { q, frames, sent: vec![], kind: "hostile" }
}

/// honest packets needing many frames (up to MAX_FRAMES): one chosen frame is withheld until
/// the end (or lost), the rest delivered in order, reversed or shuffled.  Exercises every
/// word/bit position of the receive mask.
fn gen_many(rng: &mut Rng) -> Case {
    let mtu = *rng.pick(&[MIN_MTU, MIN_MTU, MIN_MTU + 1, 300]);
    let psz = mtu - 16;
    let maxn = (65535 / psz).min(256);
    let n = match rng.below(4) { 0 => maxn, 1 => rng.range(129, maxn as u64) as usize, 2 => 129, _ => rng.range(2, maxn as u64) as usize };
    let tail = rng.range(1, psz as u64) as usize;
    let len = ((n - 1) * psz + tail).min(65535);
    let data: Vec<u8> = (0..len).map(|i| ((i / psz) % 251) as u8 + 1).collect();
    // an earlier packet leaves recognisable bytes (0xEE) in the slot
    let prev = vec![0xEEu8; len.min(40000)];
    let (pp, mut sent) = honest_frames(mtu, 0, &[prev, data]);
    let mut frames: Vec<Frame> = pp[0].clone();
    let mut cur: Vec<Frame> = pp[1].clone();
    let nf = cur.len();
    let special = [0usize, 1, 63, 64, 126, 127, 128, 129, 191, 192, 254, 255];
    let w = if rng.chance(3, 4) { *rng.pick(&special) } else { rng.below(nf as u64) as usize };
    let w = w.min(nf - 1);
    let held = cur.remove(w);
    match rng.below(3) { 0 => {}, 1 => cur.reverse(), _ => rng.shuffle(&mut cur) }
    frames.extend(cur);
    if rng.chance(2, 3) { frames.push(held); }
    sent.truncate(2);
    Case { q: 1, frames, sent, kind: "many" }
}

/// directed schedules around the completion test (the property's own example and relatives)
fn gen_directed(rng: &mut Rng) -> Case {
    let w = *rng.pick(&[MIN_PAYLOAD_SIZE, 300usize]);
    let q = rng.range(1, 2) as usize;
    let a = 0u64;            // earlier packet A, fully delivered: leaves bytes in the slot
    let b = (3 * w) as u64;  // later packet B
    let mut frames = vec![];
    let fa = |i: usize, last: bool, len: usize| Frame { so: a, fo: (i * w) as u16,
        flags: if last { 0x8000 } else { 0 }, resv: [0; 4], payload: vec![0xAA; len], raw: None };
    frames.push(fa(0, false, w)); frames.push(fa(1, false, w)); frames.push(fa(2, true, w));
    let fb = |fo: usize, last: bool, len: usize, tag: u8| Frame { so: b, fo: fo as u16,
        flags: if last { 0x8000 } else { 0 }, resv: [0; 4], payload: vec![tag; len], raw: None };
    match rng.below(6) {
        0 => { frames.push(fb(w, true, 5, 0xB1)); frames.push(fb(5 * w, false, w, 0xB2)); }
        1 => { frames.push(fb(5 * w, false, w, 0xB2)); frames.push(fb(w, true, 5, 0xB1)); }
        2 => { frames.push(fb(w, true, 5, 0xB1)); frames.push(fb(w, true, 200, 0xB3)); frames.push(fb(0, false, w, 0xB2)); }
        3 => { frames.push(fb(0, false, w, 0xB2)); frames.push(fb(2 * w, true, 0, 0xB1)); }
        4 => { frames.push(fb(w, true, 2 * w, 0xB1)); frames.push(fb(0, false, w, 0xB2)); frames.push(fb(3 * w, false, w, 0xB4)); }
        _ => { frames.push(fb(2 * w, true, 7, 0xB1)); frames.push(fb(0, false, w, 0xB2)); frames.push(fb(w, false, w, 0xB3)); }
    }
    if rng.chance(1, 3) { let n = frames.len(); frames[3..n].reverse(); }
    Case { q, frames, sent: vec![], kind: "directed" }
}

fn main() {
    silence_panics();
    let out = arg("--out").expect("--out dir");
    let n: usize = arg("--n").and_then(|s| s.parse().ok()).unwrap_or(300);
    let seed = seed_from_env();
    let mut rng = Rng::new(seed);
    let pre = "From Sci Require Import Defrag.Cases. Open Scope N_scope.";
    let mut sh = Shards::new(&out, pre, "dcase", "verdicts", 30);
    let mut sum = Summary::default();
    let mut seen = std::collections::HashSet::new();
    for i in 0..n {
        let c = match i % 20 { 0..=8 => gen_honest(&mut rng), 9 => gen_many(&mut rng), 10..=15 => gen_hostile(&mut rng), _ => gen_directed(&mut rng) };
        let res = run_impl(c.q, &c.frames);
        sum.count(&format!("kind.{}", c.kind));
        sum.add("frames", c.frames.len() as u64);
        for r in &res { sum.count(&format!("result.{}", r.0)); }
        let inputs = coq_list(c.frames.iter().map(|f| f.coq()));
        let results = coq_list(res.iter().map(|(c, so, p)| format!("({},{},{})", c, so, coq_rle(p))));
        let sent = coq_list(c.sent.iter().map(|(so, d)| format!("({},{})", so, coq_rle(d))));
        let case = format!("mkCase {} {} {} {}", c.q, inputs, results, sent);
        let human = format!("q={} kind={} frames=[{}] results=[{}]", c.q, c.kind,
            c.frames.iter().map(|f| f.human()).collect::<Vec<_>>().join(" | "),
            res.iter().map(|r| format!("{}{}", r.0, if r.0 == 1 { format!("(so={},len={})", r.1, r.2.len()) } else { String::new() })).collect::<Vec<_>>().join(","));
        if seen.insert(case.clone()) && c.frames.len() > 1 { sum.count("distinct_nontrivial"); }
        if sum.samples.len() < 3 { sum.samples.push(human.clone()); }
        sum.index.push(human);
        sh.push(case);
    }
    sh.flush();
    let distinct = *sum.dist.get("distinct_nontrivial").unwrap_or(&0) as usize;
    sum.write(&out, sh.total, distinct);
}
