fn main(){}
