//! C16 correspondence harness: drives sciparse's path policy code (hop predicates, ACLs,
//! hop patterns with lexer and Pratt parser, hops_from_path) and writes inputs together with
//! the observed results as Coq case files for `Sci.Policy.Cases`.
use sciparse::identifier::{asn::Asn, isd::Isd, isd_asn::IsdAsn};
use sciparse::path::policy::{
    Policy,
    acl::{AclEntry, AclEntryOperator, AclPolicy},
    hop_pattern::{
        HopPatternPolicy,
        lexer::{Token, TokenKind},
        parser::HopPatternParser,
    },
    types::{HopPredicate, InterfacesPredicate, PathPolicyHop},
};
use std::panic::AssertUnwindSafe;
use std::str::FromStr;
use vcommon::*;

// ---------------------------------------------------------------- mirror types
#[derive(Clone, Copy, PartialEq, Eq, Debug, Hash)]
struct Hop { isd: u16, asn: u64, ing: u16, eg: u16 }
#[derive(Clone, Copy, PartialEq, Eq, Debug, Hash)]
enum Ifs { Any, Either(u16), Both(u16, u16) }
#[derive(Clone, Copy, PartialEq, Eq, Debug, Hash)]
struct Pred { isd: u16, asn: Option<u64>, ifs: Ifs }
#[derive(Clone, PartialEq, Eq, Debug, Hash)]
enum Expr { P(Pred), Or(Box<Expr>, Box<Expr>), Opt(Box<Expr>), Plus(Box<Expr>), Star(Box<Expr>) }
#[derive(Clone, PartialEq, Eq, Debug)]
struct Acl { entries: Vec<(bool, Pred)>, default_allow: bool }

impl Hop {
    fn real(&self) -> PathPolicyHop {
        PathPolicyHop { isd_asn: IsdAsn::new(Isd(self.isd), Asn(self.asn)), ingress: self.ing, egress: self.eg }
    }
    fn coq(&self) -> String { format!("(mkHop {} {} {} {})", self.isd, self.asn, self.ing, self.eg) }
    fn human(&self) -> String { format!("{}>{}-{:x}>{}", self.ing, self.isd, self.asn, self.eg) }
}
impl Ifs {
    fn real(&self) -> InterfacesPredicate {
        match *self {
            Ifs::Any => InterfacesPredicate::Any,
            Ifs::Either(a) => InterfacesPredicate::either(a),
            Ifs::Both(i, e) => InterfacesPredicate::both(i, e),
        }
    }
    fn of(p: &InterfacesPredicate) -> Ifs {
        match p {
            InterfacesPredicate::Any => Ifs::Any,
            InterfacesPredicate::Either(a) => Ifs::Either(a.into_inner()),
            InterfacesPredicate::Both { ingress, egress } => Ifs::Both(ingress.into_inner(), egress.into_inner()),
        }
    }
    fn coq(&self) -> String {
        match *self {
            Ifs::Any => "IfAny".into(),
            Ifs::Either(a) => format!("(IfEither {a})"),
            Ifs::Both(i, e) => format!("(IfBoth {i} {e})"),
        }
    }
}
impl Pred {
    fn real(&self) -> HopPredicate {
        HopPredicate { isd: Isd(self.isd), asn: self.asn.map(Asn), interfaces: self.ifs.real() }
    }
    fn of(p: &HopPredicate) -> Pred { Pred { isd: p.isd.0, asn: p.asn.map(|a| a.0), ifs: Ifs::of(&p.interfaces) } }
    fn coq_lit(&self) -> String {
        format!("(mkPred {} {} {})", self.isd, coq_opt(self.asn.map(|a| a.to_string())), self.ifs.coq())
    }
    /// the alphabet predicates are named in the shard preamble (keeps the case files small)
    fn coq(&self) -> String {
        if let Some(k) = preds6().iter().position(|p| p == self) { return format!("P{k}"); }
        if let Some(k) = preds3().iter().position(|p| p == self) { return format!("Q{k}"); }
        self.coq_lit()
    }
    /// the harness' own rendering of the documented text form (not the Display under test)
    fn text(&self) -> String {
        let mut s = self.isd.to_string();
        if let Some(a) = self.asn {
            s.push('-');
            if a <= u32::MAX as u64 { s += &a.to_string(); }
            else { s += &format!("{:x}:{:x}:{:x}", (a >> 32) & 0xffff, (a >> 16) & 0xffff, a & 0xffff); }
        }
        match self.ifs {
            Ifs::Any => {}
            Ifs::Either(a) => s += &format!("#{a}"),
            Ifs::Both(i, e) => s += &format!("#{i},{e}"),
        }
        s
    }
}
impl Expr {
    fn coq(&self) -> String {
        match self {
            Expr::P(p) => format!("(EPred {})", p.coq()),
            Expr::Or(a, b) => format!("(EOr {} {})", a.coq(), b.coq()),
            Expr::Opt(a) => format!("(EOpt {})", a.coq()),
            Expr::Plus(a) => format!("(EPlus {})", a.coq()),
            Expr::Star(a) => format!("(EStar {})", a.coq()),
        }
    }
    fn depth(&self) -> usize {
        match self {
            Expr::P(_) => 0,
            Expr::Or(a, b) => 1 + a.depth().max(b.depth()),
            Expr::Opt(a) | Expr::Plus(a) | Expr::Star(a) => 1 + a.depth(),
        }
    }
    /// text with the parentheses the grammar needs; `extra` (0..=100) is the percentage of
    /// places where redundant parentheses / whitespace are added
    fn text(&self, rng: &mut Rng, extra: u64, top: bool) -> String {
        let ws = |rng: &mut Rng| -> String {
            if extra > 0 && rng.chance(extra, 100) { (*rng.pick(&[" ", "  ", "\t", "\n", " \t ", "\r\n", "\u{c}", "\u{a0}", "\u{2003}\u{b}"])).to_string() } else { String::new() }
        };
        let core = match self {
            Expr::P(p) => p.text(),
            Expr::Or(a, b) => {
                let l = a.text(rng, extra, false);
                let r = match **b { Expr::Or(..) => format!("({})", b.text(rng, extra, false)), _ => b.text(rng, extra, false) };
                let sp = if extra > 0 { ws(rng) } else { " ".into() };
                let sp2 = if extra > 0 { ws(rng) } else { " ".into() };
                format!("{l}{sp}|{sp2}{r}")
            }
            Expr::Opt(a) | Expr::Plus(a) | Expr::Star(a) => {
                let op = match self { Expr::Opt(_) => "?", Expr::Plus(_) => "+", _ => "*" };
                let inner = match **a { Expr::Or(..) => format!("({})", a.text(rng, extra, false)), _ => a.text(rng, extra, false) };
                format!("{inner}{}{op}", ws(rng))
            }
        };
        let _ = top;
        if extra > 0 && rng.chance(extra, 100) { format!("({}{}{})", ws(rng), core, ws(rng)) } else { core }
    }
}
fn seq_text(es: &[Expr], rng: &mut Rng, extra: u64) -> String {
    let mut s = String::new();
    for (i, e) in es.iter().enumerate() {
        if i > 0 { s.push(' '); }
        if extra > 0 && rng.chance(extra, 100) { s.push_str(*rng.pick(&[" ", "\t", "\n", "\r", "\u{85}", "\u{3000}"])); }
        s += &e.text(rng, extra, true);
    }
    if extra > 0 && rng.chance(extra, 100) { s.push(' '); }
    s
}
impl Acl {
    fn real(&self) -> AclPolicy {
        let op = |b: bool| if b { AclEntryOperator::Allow } else { AclEntryOperator::Deny };
        AclPolicy::new_from_entries(op(self.default_allow), self.entries.iter().map(|(o, p)| AclEntry::new(op(*o), p.real())))
    }
    fn of(a: &AclPolicy) -> Acl {
        Acl { entries: a.entries.iter().map(|e| (e.operator == AclEntryOperator::Allow, Pred::of(&e.hop_predicate))).collect(),
              default_allow: a.default == AclEntryOperator::Allow }
    }
    fn coq(&self) -> String {
        let op = |b: bool| if b { "Allow" } else { "Deny" };
        format!("(mkAcl {} {})", coq_list(self.entries.iter().map(|(o, p)| format!("({}, {})", op(*o), p.coq()))), op(self.default_allow))
    }
    fn text(&self) -> String {
        let op = |b: bool| if b { "+" } else { "-" };
        let mut s = String::new();
        for (o, p) in &self.entries { s += &format!("{} {} ", op(*o), p.text()); }
        s + op(self.default_allow)
    }
}
fn coq_str(s: &str) -> String { coq_list(s.chars().map(|c| (c as u32).to_string())) }
fn coq_hops(hs: &[Hop]) -> String {
    if hs == &hops_main()[..] { return "HM".into(); }
    if hs == &hops_wild()[..] { return "HW".into(); }
    coq_list(hs.iter().map(|h| h.coq()))
}
fn preamble() -> String {
    let mut s = String::from("From Sci Require Import Policy.Cases. Open Scope N_scope.\n");
    for (k, p) in preds6().iter().enumerate() { s += &format!("Definition P{k} := {}.\n", p.coq_lit()); }
    for (k, p) in preds3().iter().enumerate() { s += &format!("Definition Q{k} := {}.\n", p.coq_lit()); }
    s += &format!("Definition HM := {}.\n", coq_list(hops_main().iter().map(|h| h.coq())));
    s += &format!("Definition HW := {}.", coq_list(hops_wild().iter().map(|h| h.coq())));
    s
}
fn human_hops(hs: &[Hop]) -> String { hs.iter().map(|h| h.human()).collect::<Vec<_>>().join(" ") }

// ---------------------------------------------------------------- Debug-format reader
// `HopPatternExpression` is private; the AST the implementation built is observable through
// the derived `Debug` of `HopPatternPolicy`.
struct Cur<'a> { s: &'a str }
impl<'a> Cur<'a> {
    fn eat(&mut self, t: &str) -> bool { if self.s.starts_with(t) { self.s = &self.s[t.len()..]; true } else { false } }
    fn expect(&mut self, t: &str) -> Result<(), String> { if self.eat(t) { Ok(()) } else { Err(format!("expected '{t}' at '{}'", &self.s[..self.s.len().min(30)])) } }
    fn take_while(&mut self, f: impl Fn(char) -> bool) -> &'a str {
        let n = self.s.find(|c| !f(c)).unwrap_or(self.s.len());
        let (a, b) = self.s.split_at(n); self.s = b; a
    }
    fn num(&mut self) -> Result<u64, String> { self.take_while(|c| c.is_ascii_digit()).parse::<u64>().map_err(|e| e.to_string()) }
    fn asn(&mut self) -> Result<u64, String> {
        let t = self.take_while(|c| c.is_ascii_hexdigit() || c == ':');
        if t.contains(':') {
            let p: Vec<&str> = t.split(':').collect();
            if p.len() != 3 { return Err(format!("asn '{t}'")); }
            let mut v = 0u64;
            for x in p { v = (v << 16) | u64::from_str_radix(x, 16).map_err(|e| e.to_string())?; }
            Ok(v)
        } else { t.parse::<u64>().map_err(|e| e.to_string()) }
    }
    fn pred(&mut self) -> Result<Pred, String> {
        self.expect("HopPredicate { isd: ")?;
        let isd = self.num()? as u16;
        self.expect(", asn: ")?;
        let asn = if self.eat("None") { None } else { self.expect("Some(")?; let a = self.asn()?; self.expect(")")?; Some(a) };
        self.expect(", interfaces: ")?;
        let ifs = if self.eat("Any") { Ifs::Any }
            else if self.eat("Either(InterfacePredicate(") { let a = self.num()? as u16; self.expect("))")?; Ifs::Either(a) }
            else { self.expect("Both { ingress: InterfacePredicate(")?; let i = self.num()? as u16;
                   self.expect("), egress: InterfacePredicate(")?; let e = self.num()? as u16; self.expect(") }")?; Ifs::Both(i, e) };
        self.expect(" }")?;
        Ok(Pred { isd, asn, ifs })
    }
    fn expr(&mut self) -> Result<Expr, String> {
        if self.eat("HopPredicate(") { let p = self.pred()?; self.expect(")")?; Ok(Expr::P(p)) }
        else if self.eat("Or(") { let a = self.expr()?; self.expect(", ")?; let b = self.expr()?; self.expect(")")?; Ok(Expr::Or(Box::new(a), Box::new(b))) }
        else if self.eat("Optional(") { let a = self.expr()?; self.expect(")")?; Ok(Expr::Opt(Box::new(a))) }
        else if self.eat("OneOrMore(") { let a = self.expr()?; self.expect(")")?; Ok(Expr::Plus(Box::new(a))) }
        else if self.eat("ZeroOrMore(") { let a = self.expr()?; self.expect(")")?; Ok(Expr::Star(Box::new(a))) }
        else { Err(format!("expression at '{}'", &self.s[..self.s.len().min(30)])) }
    }
}
fn read_policy_debug(p: &HopPatternPolicy) -> Vec<Expr> {
    let d = format!("{p:?}");
    let mut c = Cur { s: &d };
    let mut out = vec![];
    c.expect("HopPatternPolicy([").unwrap();
    if !c.eat("])") {
        loop {
            out.push(c.expr().unwrap_or_else(|e| panic!("harness: cannot read Debug output {d}: {e}")));
            if c.eat(", ") { continue; }
            c.expect("])").unwrap();
            break;
        }
    }
    assert!(c.s.is_empty(), "harness: trailing Debug output");
    out
}

// ---------------------------------------------------------------- running the implementation
enum PRes { Ok(HopPatternPolicy, Vec<Expr>), Err(u64, usize, usize), Panic }
fn err_class(m: &str) -> u64 {
    if m.starts_with("invalid hop predicate") { 1 }
    else if m.starts_with("Negative lookahead") { 2 }
    else if m.starts_with("expected ')'") { 3 }
    else if m.starts_with("unexpected end of token stream, Expected") { 6 }
    else if m.starts_with("unexpected end of token stream") { 4 }
    else if m.starts_with("unexpected token") { 5 }
    else if m.starts_with("AND operator") { 7 }
    else if m.starts_with("unexpected trailing") { 8 }
    else { 77 }
}
fn conv_pres(r: Option<Result<HopPatternPolicy, sciparse::path::policy::hop_pattern::ParseError>>) -> PRes {
    match r {
        None => PRes::Panic,
        Some(Ok(p)) => { let es = read_policy_debug(&p); PRes::Ok(p, es) }
        Some(Err(e)) => PRes::Err(err_class(&e.message), e.span.0, e.span.1),
    }
}
fn impl_parse(s: &str) -> PRes { conv_pres(catch(AssertUnwindSafe(|| HopPatternPolicy::parse(s)))) }
fn impl_parse_tokens(ts: &[Token]) -> PRes { conv_pres(catch(AssertUnwindSafe(|| HopPatternParser::new(ts).parse()))) }
impl PRes {
    fn coq(&self) -> String {
        match self {
            PRes::Ok(_, es) => format!("(PROk {})", coq_list(es.iter().map(|e| e.coq()))),
            PRes::Err(c, l, h) => format!("(PRErr {c} {l} {h})"),
            PRes::Panic => "PRPanic".into(),
        }
    }
    fn human(&self) -> String {
        match self { PRes::Ok(_, es) => format!("Ok({} exprs)", es.len()), PRes::Err(c, l, h) => format!("Err{c}@{l}..{h}"), PRes::Panic => "PANIC".into() }
    }
}
fn b3(r: Option<bool>) -> u64 { match r { Some(true) => 1, Some(false) => 0, None => 99 } }

fn all_seqs(alpha: &[Hop], maxlen: usize) -> Vec<Vec<Hop>> {
    let k = alpha.len();
    let mut out = vec![];
    for len in 0..=maxlen {
        let total = k.pow(len as u32);
        for idx in 0..total {
            let mut v = Vec::with_capacity(len);
            for j in 0..len { v.push(alpha[(idx / k.pow((len - 1 - j) as u32)) % k]); }
            out.push(v);
        }
    }
    out
}
fn pack(bits: &[bool]) -> String {
    coq_list(bits.chunks(60).map(|c| c.iter().enumerate().fold(0u64, |a, (j, b)| a | ((*b as u64) << j)).to_string()))
}

// ---------------------------------------------------------------- alphabets
const A1: u64 = 0xff00_0000_0110;
const A2: u64 = 0xff00_0000_0210;
fn hops_main() -> Vec<Hop> {
    vec![Hop { isd: 1, asn: A1, ing: 0, eg: 1 }, Hop { isd: 1, asn: 7, ing: 2, eg: 3 },
         Hop { isd: 2, asn: A2, ing: 1, eg: 2 }, Hop { isd: 2, asn: 7, ing: 3, eg: 0 }]
}
/// hops carrying the wildcard ISD/AS themselves (hop-side wildcard of Isd::matches/Asn::matches)
fn hops_wild() -> Vec<Hop> {
    vec![Hop { isd: 0, asn: 0, ing: 0, eg: 0 }, Hop { isd: 1, asn: 0, ing: 1, eg: 1 },
         Hop { isd: 0, asn: 7, ing: 2, eg: 3 }, Hop { isd: 2, asn: A2, ing: 1, eg: 2 }]
}
fn preds6() -> Vec<Pred> {
    vec![Pred { isd: 0, asn: None, ifs: Ifs::Any }, Pred { isd: 1, asn: None, ifs: Ifs::Any },
         Pred { isd: 2, asn: Some(A2), ifs: Ifs::Any }, Pred { isd: 1, asn: Some(0), ifs: Ifs::Either(1) },
         Pred { isd: 0, asn: Some(0), ifs: Ifs::Both(2, 3) }, Pred { isd: 2, asn: Some(7), ifs: Ifs::Both(0, 0) }]
}
fn preds3() -> Vec<Pred> {
    vec![Pred { isd: 1, asn: None, ifs: Ifs::Any }, Pred { isd: 0, asn: Some(7), ifs: Ifs::Any },
         Pred { isd: 2, asn: Some(0), ifs: Ifs::Either(1) }]
}
fn exprs_upto(preds: &[Pred], depth: usize) -> Vec<Expr> {
    let mut cur: Vec<Expr> = preds.iter().map(|p| Expr::P(*p)).collect();
    for _ in 0..depth {
        let mut next = cur.clone();
        for a in &cur { for b in &cur { next.push(Expr::Or(Box::new(a.clone()), Box::new(b.clone()))); } }
        for a in &cur { next.push(Expr::Opt(Box::new(a.clone()))); next.push(Expr::Plus(Box::new(a.clone()))); next.push(Expr::Star(Box::new(a.clone()))); }
        cur = next;
    }
    cur
}
fn rand_pred(rng: &mut Rng) -> Pred {
    if rng.chance(2, 3) { return *rng.pick(&preds6()); }
    let isd = *rng.pick(&[0u16, 1, 2, 3, 65535]);
    let asn = match rng.below(5) { 0 => None, 1 => Some(0), 2 => Some(7), 3 => Some(A1), _ => Some(*rng.pick(&[u32::MAX as u64, u32::MAX as u64 + 1, (1u64 << 48) - 1, A2])) };
    let ifs = if asn.is_none() { Ifs::Any } else { match rng.below(3) { 0 => Ifs::Any, 1 => Ifs::Either(rng.below(4) as u16), _ => Ifs::Both(rng.below(4) as u16, rng.below(4) as u16) } };
    Pred { isd, asn, ifs }
}
fn rand_expr(rng: &mut Rng, depth: usize) -> Expr {
    if depth == 0 || rng.chance(1, 4) { return Expr::P(rand_pred(rng)); }
    match rng.below(5) {
        0 | 1 => Expr::Or(Box::new(rand_expr(rng, depth - 1)), Box::new(rand_expr(rng, depth - 1))),
        2 => Expr::Opt(Box::new(rand_expr(rng, depth - 1))),
        3 => Expr::Plus(Box::new(rand_expr(rng, depth - 1))),
        _ => Expr::Star(Box::new(rand_expr(rng, depth - 1))),
    }
}
fn rand_hop(rng: &mut Rng) -> Hop {
    if rng.chance(3, 4) { let mut v = hops_main(); v.extend(hops_wild()); return *rng.pick(&v); }
    Hop { isd: *rng.pick(&[0u16, 1, 2, 3, 65535]), asn: *rng.pick(&[0u64, 7, A1, A2, u32::MAX as u64 + 1]), ing: rng.below(4) as u16, eg: rng.below(4) as u16 }
}
fn rand_acl(rng: &mut Rng, n: usize) -> Acl {
    Acl { entries: (0..n).map(|_| (rng.chance(1, 2), rand_pred(rng))).collect(), default_allow: rng.chance(1, 2) }
}
fn mutate(rng: &mut Rng, s: &str, pool: &[char]) -> String {
    let mut v: Vec<char> = s.chars().collect();
    let k = 1 + rng.below(3);
    for _ in 0..k {
        match rng.below(4) {
            0 if !v.is_empty() => { let i = rng.below(v.len() as u64) as usize; v.remove(i); }
            1 if !v.is_empty() => { let i = rng.below(v.len() as u64) as usize; v[i] = *rng.pick(pool); }
            2 if v.len() > 1 => { let i = rng.below(v.len() as u64 - 1) as usize; v.swap(i, i + 1); }
            _ => { let i = rng.below(v.len() as u64 + 1) as usize; v.insert(i, *rng.pick(pool)); }
        }
    }
    v.into_iter().collect()
}
const PAT_POOL: &[char] = &['!', '&', '|', '(', ')', '+', '?', '*', ' ', '\t', '\n', '\r', '0', '1', '2', '9', '-', '#', ',', ':', 'f', 'x',
                            '\u{a0}', '\u{2003}', '\u{e9}', '\u{1f600}', '\u{b}', '\u{85}'];
const PRED_POOL: &[char] = &['0', '1', '2', '5', '6', '9', '-', '#', ',', ':', 'f', 'F', 'g', 'x', '+', ' ', '\u{663}', '\u{e9}'];

struct Out { sh: Shards, sum: Summary, seen: std::collections::HashSet<String>, distinct: usize }
impl Out {
    fn push(&mut self, kind: &str, case: String, human: String, nontrivial: bool) {
        self.sum.count(&format!("kind.{kind}"));
        if self.seen.insert(case.clone()) && nontrivial { self.distinct += 1; }
        if self.sum.samples.len() < 6 && self.sum.dist.get(&format!("kind.{kind}")) == Some(&1) { self.sum.samples.push(human.clone()); }
        self.sum.index.push(human);
        self.sh.push(case);
    }
}

fn case_acl_ex(o: &mut Out, a: &Acl, alpha: &[Hop], maxlen: usize) {
    let real = a.real();
    let seqs = all_seqs(alpha, maxlen);
    let mut np = 0u64;
    let bits: Vec<bool> = seqs.iter().map(|hs| {
        let r: Vec<PathPolicyHop> = hs.iter().map(|h| h.real()).collect();
        match catch(AssertUnwindSafe(|| real.matches(&r))) { Some(b) => b, None => { np += 1; false } }
    }).collect();
    let allowed = bits.iter().filter(|b| **b).count();
    o.sum.add("acl_ex.evaluations", seqs.len() as u64);
    o.sum.add("acl_ex.allowed", allowed as u64);
    let case = format!("CAclEx {} {} {} {} {}", a.coq(), coq_hops(alpha), maxlen, pack(&bits), np);
    let human = format!("acl-ex \"{}\" x all hop sequences <= {} over [{}]: {} allowed of {}, panics {}", a.text(), maxlen, human_hops(alpha), allowed, seqs.len(), np);
    o.push("acl_ex", case, human, !a.entries.is_empty());
}
fn case_acl(o: &mut Out, a: &Acl, hs: &[Hop]) {
    let real = a.real();
    let r: Vec<PathPolicyHop> = hs.iter().map(|h| h.real()).collect();
    let res = b3(catch(AssertUnwindSafe(|| real.matches(&r))));
    o.sum.count(&format!("acl.result.{res}"));
    let case = format!("CAcl {} {} {}", a.coq(), coq_hops(hs), res);
    let human = format!("acl \"{}\" on [{}] -> {}", a.text(), human_hops(hs), res);
    o.push("acl", case, human, !hs.is_empty());
}
fn case_pat_ex(o: &mut Out, s: &str, alpha: &[Hop], maxlen: usize) {
    let r = impl_parse(s);
    let (bits, np, nseq) = match &r {
        PRes::Ok(p, _) => {
            let seqs = all_seqs(alpha, maxlen);
            let mut np = 0u64;
            let bits: Vec<bool> = seqs.iter().map(|hs| {
                let rh: Vec<PathPolicyHop> = hs.iter().map(|h| h.real()).collect();
                match catch(AssertUnwindSafe(|| p.matches(&rh))) { Some(b) => b, None => { np += 1; false } }
            }).collect();
            (bits, np, seqs.len())
        }
        _ => (vec![], 0, 0),
    };
    let acc = bits.iter().filter(|b| **b).count();
    o.sum.add("pat_ex.evaluations", nseq as u64);
    o.sum.add("pat_ex.accepted", acc as u64);
    let case = format!("CPatEx {} {} {} {} {} {}", coq_str(s), r.coq(), coq_hops(alpha), maxlen, pack(&bits), np);
    let human = format!("pattern-ex {:?} parse {} x all hop sequences <= {} over [{}]: {} accepted of {}, panics {}", s, r.human(), maxlen, human_hops(alpha), acc, nseq, np);
    o.push("pat_ex", case, human, true);
}
fn case_pat(o: &mut Out, s: &str, hs: &[Hop]) {
    let r = impl_parse(s);
    let res = match &r {
        PRes::Ok(p, _) => { let rh: Vec<PathPolicyHop> = hs.iter().map(|h| h.real()).collect(); b3(catch(AssertUnwindSafe(|| p.matches(&rh)))) }
        _ => 0,
    };
    o.sum.count(&format!("pat.result.{res}"));
    let case = format!("CPat {} {} {} {}", coq_str(s), r.coq(), coq_hops(hs), res);
    let human = format!("pattern {:?} parse {} on [{}] -> {}", s, r.human(), human_hops(hs), res);
    o.push("pat", case, human, hs.len() > 1);
}
fn case_parse(o: &mut Out, s: &str) {
    let r = impl_parse(s);
    o.sum.count(&format!("parse.{}", match &r { PRes::Ok(..) => "ok".to_string(), PRes::Err(c, ..) => format!("err{c}"), PRes::Panic => "panic".into() }));
    let case = format!("CParse {} {}", coq_str(s), r.coq());
    o.push("parse", case, format!("parse {:?} -> {}", s, r.human()), !s.is_empty());
}
fn coq_tok(t: &Token) -> String {
    let k = match &t.kind {
        TokenKind::HopPredicate(s) => format!("(KPred {})", coq_str(s)),
        TokenKind::Bang => "KBang".into(), TokenKind::And => "KAnd".into(), TokenKind::Or => "KOr".into(),
        TokenKind::LParen => "KLParen".into(), TokenKind::RParen => "KRParen".into(), TokenKind::QMark => "KQMark".into(),
        TokenKind::Plus => "KPlus".into(), TokenKind::Star => "KStar".into(), TokenKind::EOI => "KEOI".into(),
    };
    format!("(mkTok {} {} {})", k, t.span.0, t.span.1)
}
fn case_toks(o: &mut Out, ts: &[Token]) {
    let r = impl_parse_tokens(ts);
    o.sum.count(&format!("toks.{}", match &r { PRes::Ok(..) => "ok".to_string(), PRes::Err(c, ..) => format!("err{c}"), PRes::Panic => "panic".into() }));
    let case = format!("CToks {} {}", coq_list(ts.iter().map(coq_tok)), r.coq());
    let human = format!("tokens [{}] -> {}", ts.iter().map(|t| format!("{:?}", t.kind)).collect::<Vec<_>>().join(" "), r.human());
    o.push("toks", case, human, !ts.is_empty());
}
fn case_equiv(o: &mut Out, s: &str, s2: &str) {
    let (r, r2) = (impl_parse(s), impl_parse(s2));
    o.sum.count(if matches!(r, PRes::Ok(..)) { "equiv.ok" } else { "equiv.other" });
    let case = format!("CEquiv {} {} {} {}", coq_str(s), coq_str(s2), r.coq(), r2.coq());
    o.push("equiv", case, format!("equiv {:?} ~ {:?} -> {} / {}", s, s2, r.human(), r2.human()), s != s2);
}
fn case_acl_parse(o: &mut Out, s: &str) {
    let r = catch(AssertUnwindSafe(|| AclPolicy::parse(s)));
    let (res, pk) = match &r { None => (None, true), Some(Ok(a)) => (Some(Acl::of(a)), false), Some(Err(_)) => (None, false) };
    o.sum.count(if res.is_some() { "acl_parse.ok" } else if pk { "acl_parse.panic" } else { "acl_parse.err" });
    let case = format!("CAclParse {} {} {}", coq_str(s), coq_opt(res.as_ref().map(|a| a.coq())), coq_bool(pk));
    o.push("acl_parse", case, format!("acl-parse {:?} -> {}", s, match (&res, pk) { (Some(a), _) => format!("Ok({} entries)", a.entries.len()), (_, true) => "PANIC".into(), _ => "Err".into() }), !s.is_empty());
}
fn case_acl_text(o: &mut Out, a: &Acl) {
    let s = a.text();
    let r = catch(AssertUnwindSafe(|| AclPolicy::parse(&s)));
    let (res, pk) = match &r { None => (None, true), Some(Ok(a)) => (Some(Acl::of(a)), false), Some(Err(_)) => (None, false) };
    o.sum.count(if res.is_some() { "acl_text.ok" } else if pk { "acl_text.panic" } else { "acl_text.err" });
    let case = format!("CAclText {} {} {} {}", a.coq(), coq_str(&s), coq_opt(res.as_ref().map(|a| a.coq())), coq_bool(pk));
    o.push("acl_text", case, format!("acl-text {:?} -> {}", s, match (&res, pk) { (Some(a), _) => format!("Ok({} entries)", a.entries.len()), (_, true) => "PANIC".into(), _ => "Err".into() }), true);
}
fn case_pred_str(o: &mut Out, s: &str) {
    let r = catch(AssertUnwindSafe(|| HopPredicate::from_str(s)));
    let (res, pk) = match &r { None => (None, true), Some(Ok(p)) => (Some(Pred::of(p)), false), Some(Err(_)) => (None, false) };
    o.sum.count(if res.is_some() { "pred_str.ok" } else if pk { "pred_str.panic" } else { "pred_str.err" });
    let case = format!("CPredStr {} {} {}", coq_str(s), coq_opt(res.map(|p| p.coq())), coq_bool(pk));
    o.push("pred_str", case, format!("pred-parse {:?} -> {:?}{}", s, res, if pk { " PANIC" } else { "" }), !s.is_empty());
}
fn case_pred_print(o: &mut Out, p: &Pred) {
    let r = catch(AssertUnwindSafe(|| { let s = p.real().to_string(); let b = HopPredicate::from_str(&s).ok().map(|q| Pred::of(&q)); (s, b) }));
    let (s, back, pk) = match r { Some((s, b)) => (s, b, false), None => (String::new(), None, true) };
    o.sum.count(if back == Some(*p) { "pred_print.roundtrip" } else { "pred_print.lost" });
    let case = format!("CPredPrint {} {} {} {}", p.coq(), coq_str(&s), coq_opt(back.map(|q| q.coq())), coq_bool(pk));
    o.push("pred_print", case, format!("pred-print {:?} -> {:?} -> {:?}", p, s, back), true);
}
fn case_hops(o: &mut Out, meta: Option<Option<Vec<(u16, u64, u16)>>>) {
    use sciparse::path::{ScionPath, metadata::{PathMetadata, path_interface::PathInterface}};
    let m2 = meta.clone();
    let r = catch(AssertUnwindSafe(move || {
        let md = m2.map(|ifs| {
            let mut md = PathMetadata::new_minimal(0, 0, ifs.clone().unwrap_or_default().into_iter()
                .map(|(i, a, id)| PathInterface { isd_asn: IsdAsn::new(Isd(i), Asn(a)), id }).collect());
            if ifs.is_none() { md.interfaces = None; }
            md
        });
        let ia = IsdAsn::new(Isd(1), Asn(1));
        let path = ScionPath::new(ia, ia, sciparse::dataplane_path::view::ScionDpPathView::Empty, md, None);
        PathPolicyHop::hops_from_path(&path).ok().map(|v| v.iter().map(|h| Hop { isd: h.isd_asn.isd().0, asn: h.isd_asn.asn().0, ing: h.ingress, eg: h.egress }).collect::<Vec<_>>())
    }));
    let (res, pk) = match r { Some(x) => (x, false), None => (None, true) };
    o.sum.count(if res.is_some() { "hops.ok" } else if pk { "hops.panic" } else { "hops.err" });
    let cm = coq_opt(meta.as_ref().map(|x| coq_opt(x.as_ref().map(|v| coq_list(v.iter().map(|(i, a, id)| format!("({i},{a},{id})")))))));
    let case = format!("CHops {} {} {}", cm, coq_opt(res.as_ref().map(|v| coq_hops(v))), coq_bool(pk));
    o.push("hops", case, format!("hops_from_path {:?} -> {:?}{}", meta, res.as_ref().map(|v| human_hops(v)), if pk { " PANIC" } else { "" }), true);
}
fn case_policy(o: &mut Out, a: Option<&Acl>, s: Option<&str>, hs: &[Hop]) {
    let pat = match s { Some(s) => match HopPatternPolicy::parse(s) { Ok(p) => Some(p), Err(_) => return }, None => None };
    let pol = Policy::new(a.map(|a| a.real()), pat);
    let rh: Vec<PathPolicyHop> = hs.iter().map(|h| h.real()).collect();
    let res = b3(catch(AssertUnwindSafe(|| pol.matches(&rh))));
    let case = format!("CPolicy {} {} {} {}", coq_opt(a.map(|a| a.coq())), coq_opt(s.map(coq_str)), coq_hops(hs), res);
    o.push("policy", case, format!("policy acl={:?} pattern={:?} on [{}] -> {}", a.map(|a| a.text()), s, human_hops(hs), res), true);
}

fn main() {
    silence_panics();
    let out = arg("--out").expect("--out dir");
    let n: usize = arg("--n").and_then(|s| s.parse().ok()).unwrap_or(300);
    let thorough = std::env::var("VERIF_TIER").map(|t| t == "thorough").unwrap_or(false);
    let mut rng = Rng::new(seed_from_env());
    let pre = preamble();
    let mut o = Out { sh: Shards::new(&out, &pre, "pcase", "verdicts", if thorough { 100 } else { 260 }), sum: Summary::default(), seen: Default::default(), distinct: 0 };
    let (p6, p3) = (preds6(), preds3());
    let (hm, hw) = (hops_main(), hops_wild());
    let r = &mut rng;

    // ---- directed boundary cases
    let deny_all_but = Acl { entries: vec![(true, Pred { isd: 1, asn: Some(A1), ifs: Ifs::Any })], default_allow: false };
    case_acl(&mut o, &deny_all_but, &[]);                                   // the empty-hop-list boundary
    case_acl(&mut o, &Acl { entries: vec![], default_allow: false }, &[]);
    case_acl(&mut o, &Acl { entries: vec![], default_allow: true }, &[]);
    case_acl(&mut o, &Acl { entries: vec![], default_allow: false }, &hm[..2]);
    case_acl(&mut o, &deny_all_but, &hm[..1]);
    case_acl(&mut o, &deny_all_but, &hm[..2]);
    for s in ["", " ", "1", "1 2 3", "1 2? 3", "1+", "1* 2", "(1 | 2) 3", "1 | 2 | 3", "1 (2+ | 3) 4", "0+ (1 | 2)+ 3+", "(1 2)", "()", "(", ")", "1 )", "((1)", "!1", "1 & 2",
              "1 |", "| 1", "1 | | 2", "1?+*", "?", "1 (2 | 3)? 4+", "((1))", "( 1 | ( 2 | 3 ) )", "1-ff00:0:110#1,2", "1-2#", "1 | 2?", "(1 | 2)?", "1|2 3|4", "1\r2", "1\u{a0}2",
              "\u{e9}", "1 \u{1f600}", "x", "1-2-3", "0*", "(0?)*", "(0*)+", "((0?)+)*", "(1? | 2*)+ 0", "1#2"] {
        case_parse(&mut o, s);
        case_pat_ex(&mut o, s, &hm, 3);
    }
    // whitespace other than space/tab/newline between tokens (CRLF line ends, form feed, NBSP, ...)
    for (a, b) in [("1 2", "1 \r2"), ("1 2", "1 2\r\n"), ("1 2", "1\r\n2\r\n"), ("(1|2)+ 3", "(1\u{c}|\u{b}2)\u{a0}+\u{2003}3\u{85}"), ("1", "\u{3000}1\u{1680}"), ("1 2", "1\u{2028}2")] {
        case_equiv(&mut o, a, b);
    }
    // every character of the ranges that contain Unicode White_Space, as a token separator
    for cp in (0u32..0x100).chain(0x1670..0x1690).chain(0x1ff8..0x2068).chain(0x2ff8..0x3008).chain([0xfeff, 0x180e, 0x200b, 0x10000]) {
        if let Some(c) = char::from_u32(cp) { case_parse(&mut o, &format!("1{c}2")); }
    }
    for p in [Pred { isd: 1, asn: None, ifs: Ifs::Either(3) }, Pred { isd: 1, asn: None, ifs: Ifs::Both(0, 0) }, Pred { isd: 1, asn: None, ifs: Ifs::Any },
              Pred { isd: 65535, asn: Some((1 << 48) - 1), ifs: Ifs::Both(65535, 65535) }, Pred { isd: 0, asn: Some(0), ifs: Ifs::Either(0) },
              Pred { isd: 1, asn: Some(u32::MAX as u64), ifs: Ifs::Any }, Pred { isd: 1, asn: Some(u32::MAX as u64 + 1), ifs: Ifs::Any }, Pred { isd: 1, asn: Some(A1), ifs: Ifs::Either(7) }] {
        case_pred_print(&mut o, &p);
    }
    for s in ["", "1", "0", "65535", "65536", "+1", "-1", "+", "1-", "-1-2", "1-2", "1-+2", "1-4294967295", "1-4294967296", "1-ff00:0:110", "1-FF00:0:110", "1-ffff:ffff:ffff",
              "1-10000:0:0", "1-1:2", "1-1:2:3:4", "1-:0:0", "1-+1:+2:+3", "1-0:0:0", "1-2#3", "1-2#3,4", "1-2#", "1-2#,", "1-2#3,", "1-2#,4", "1-2#3,4,5", "1-2#65536", "1-2#+3,+4",
              "1#3", "1-2-3", "1-2#3#4", " 1", "1 ", "01", "000000000000000000001", "1-00000000000000000000000000000001", "1-18446744073709551616", "1-18446744073709551615",
              "1-ffff", "\u{663}", "1-g:0:0", "1-0x1:0:0", "1,2", "1-2,3"] {
        case_pred_str(&mut o, s);
    }
    for s in ["", "+", "-", "- 1 +", "- 1 + 0", "- 1 + 0-0", "- 1 + 0-0#0", "- 1 + 0-0#0,0", "- 2 - 3-1#1,2 +", "- 1", "1", "+ +", "- 1 + -", "- 0-0 + 2 +", "  - 1\t+\n", "-\u{a0}1\u{2003}+",
              "- 1 + 0 -", "+ 0", "* 1 +", "- 1 x", "-1 +", "+ 1-ff00:0:110 -", "- 1 + 2 - 3 + 4 -", "- 0 + 1", "- 1 - 0-0#0,1 +"] {
        case_acl_parse(&mut o, s);
    }
    // ACL texts around the "wildcard predicate must be last" rule: partially wild predicates
    for isd in [0u16, 1] { for asn in [None, Some(0u64), Some(7)] {
        for ifs in [Ifs::Any, Ifs::Either(0), Ifs::Either(1), Ifs::Both(0, 0), Ifs::Both(0, 1), Ifs::Both(1, 0), Ifs::Both(2, 3)] {
            if asn.is_none() && ifs != Ifs::Any { continue; }
            let p = Pred { isd, asn, ifs };
            for op in [true, false] {
                case_acl_text(&mut o, &Acl { entries: vec![(false, Pred { isd: 1, asn: None, ifs: Ifs::Any }), (op, p)], default_allow: !op });
                case_acl_text(&mut o, &Acl { entries: vec![(op, p), (true, Pred { isd: 2, asn: Some(A2), ifs: Ifs::Any })], default_allow: op });
            }
        } } }
    case_hops(&mut o, None);
    case_hops(&mut o, Some(None));
    case_hops(&mut o, Some(Some(vec![])));
    case_hops(&mut o, Some(Some(vec![(1, 1, 10)])));
    case_hops(&mut o, Some(Some(vec![(1, 1, 10), (2, 3, 30)])));
    case_hops(&mut o, Some(Some(vec![(1, 1, 10), (1, 2, 10), (1, 2, 20), (2, 3, 30)])));
    case_hops(&mut o, Some(Some(vec![(1, 1, 10), (1, 2, 10), (2, 2, 20), (2, 3, 30)])));
    case_hops(&mut o, Some(Some(vec![(1, 1, 10), (1, 2, 10), (2, 3, 30)])));
    case_toks(&mut o, &[]);
    let tk = |k: TokenKind| Token { kind: k, span: (3, 5) };
    case_toks(&mut o, &[tk(TokenKind::LParen)]);
    case_toks(&mut o, &[tk(TokenKind::EOI)]);
    case_toks(&mut o, &[tk(TokenKind::HopPredicate("1".into())), tk(TokenKind::HopPredicate("2".into())), tk(TokenKind::EOI), tk(TokenKind::Bang)]);
    case_toks(&mut o, &[tk(TokenKind::HopPredicate("1".into()))]);
    case_toks(&mut o, &[tk(TokenKind::HopPredicate("1".into())), tk(TokenKind::Or)]);
    case_toks(&mut o, &[tk(TokenKind::LParen), tk(TokenKind::HopPredicate("1".into()))]);
    case_toks(&mut o, &[tk(TokenKind::And), tk(TokenKind::EOI)]);

    // ---- exhaustive small spaces
    let (acl_len, pat_len) = if thorough { (6usize, 5usize) } else { (4usize, 4usize) };
    let ops = [true, false];
    let mut acls: Vec<Acl> = vec![];
    for d in ops { acls.push(Acl { entries: vec![], default_allow: d }); }
    for d in ops { for o1 in ops { for p1 in &p6 { acls.push(Acl { entries: vec![(o1, *p1)], default_allow: d }); } } }
    for d in ops { for o1 in ops { for p1 in &p6 { for o2 in ops { for p2 in &p6 {
        acls.push(Acl { entries: vec![(o1, *p1), (o2, *p2)], default_allow: d }); } } } } }
    let mut acls3: Vec<Acl> = vec![];
    for d in ops { for o1 in ops { for p1 in &p6 { for o2 in ops { for p2 in &p6 { for o3 in ops { for p3e in &p6 {
        acls3.push(Acl { entries: vec![(o1, *p1), (o2, *p2), (o3, *p3e)], default_allow: d }); } } } } } } }
    if !thorough { r.shuffle(&mut acls3); acls3.truncate(n); }
    for a in acls.iter() { case_acl_ex(&mut o, a, &hm, acl_len); }
    for a in acls3.iter() { case_acl_ex(&mut o, a, &hm, 4); }
    for a in acls.iter().step_by(if thorough { 1 } else { 5 }) { case_acl_ex(&mut o, a, &hw, 3); }

    // patterns: every expression to nesting depth 2 over 3 predicates, depth 1 over 6, and
    // every two-element sequence of depth <= 1 expressions over 3 predicates
    let mut pats: Vec<Vec<Expr>> = vec![];
    for e in exprs_upto(&p3, 2) { pats.push(vec![e]); }
    for e in exprs_upto(&p6, 1) { pats.push(vec![e]); }
    let d1 = exprs_upto(&p3, 1);
    for a in &d1 { for b in &d1 { pats.push(vec![a.clone(), b.clone()]); } }
    if thorough {
        for e in exprs_upto(&p6, 2) { pats.push(vec![e]); }
        let mut d3 = exprs_upto(&p3[..2], 3);
        r.shuffle(&mut d3); d3.truncate(n);
        for e in d3 { pats.push(vec![e]); }
    } else {
        let mut d3 = exprs_upto(&p3[..2], 3);
        r.shuffle(&mut d3); d3.truncate(n / 2);
        for e in d3 { pats.push(vec![e]); }
    }
    let n_small = exprs_upto(&p3, 2).len();
    for (k, es) in pats.iter().enumerate() {
        let s = seq_text(es, r, 0);
        let alpha = if k % 7 == 6 { &hw } else { &hm };
        // thorough: the depth-2 expressions over 3 predicates against every sequence up to 6
        let big = es.len() == 1 && es[0].depth() == 2 && k >= n_small;   // depth 2 over 6 predicates
        case_pat_ex(&mut o, &s, alpha, if thorough && k < n_small { 6 } else if big { 4 } else { pat_len });
        o.sum.count(&format!("pat_ex.depth.{}", es.iter().map(|e| e.depth()).max().unwrap_or(0)));
    }

    // ---- random larger instances
    for i in 0..n {
        let len = 1 + r.below(5) as usize;
        let es: Vec<Expr> = (0..len).map(|_| { let d = r.below(5) as usize; rand_expr(r, d) }).collect();
        let s = seq_text(&es, r, 0);
        for _ in 0..3 {
            let hl = r.below(13) as usize;
            let hs: Vec<Hop> = (0..hl).map(|_| rand_hop(r)).collect();
            case_pat(&mut o, &s, &hs);
        }
        if i % 4 == 0 { case_pat_ex(&mut o, &s, &hw, 3); }
        // redundant parentheses / whitespace
        let s2 = seq_text(&es, r, 35);
        case_equiv(&mut o, &s, &s2);
        // mutated strings for lexer + parser
        let m = mutate(r, &s2, PAT_POOL);
        case_parse(&mut o, &m);
        let al = r.below(6) as usize;
        let a = rand_acl(r, al);
        let hl = r.below(10) as usize;
        let hs: Vec<Hop> = (0..hl).map(|_| rand_hop(r)).collect();
        case_acl(&mut o, &a, &hs);
        if i % 3 == 0 { case_policy(&mut o, if r.chance(3, 4) { Some(&a) } else { None }, if r.chance(3, 4) { Some(&s) } else { None }, &hs); }
        let at = a.text();
        case_acl_text(&mut o, &a);
        case_acl_parse(&mut o, &mutate(r, &at, &['+', '-', ' ', '\t', '0', '1', '#', ',', ':', 'f', '\u{a0}', 'x']));
        let p = rand_pred(r);
        case_pred_print(&mut o, &p);
        if i % 5 == 0 { case_pred_print(&mut o, &Pred { isd: r.below(3) as u16, asn: None, ifs: if r.chance(1, 2) { Ifs::Either(r.below(3) as u16) } else { Ifs::Both(r.below(3) as u16, r.below(3) as u16) } }); }
        case_pred_str(&mut o, &mutate(r, &p.text(), PRED_POOL));
        // token lists handed to the parser directly (no EOI, EOI in the middle, ...)
        if i % 2 == 0 {
            let tl = r.below(8) as usize;
            let mut ts: Vec<Token> = (0..tl).map(|j| {
                let k = match r.below(12) { 0 | 1 | 2 => TokenKind::HopPredicate((*r.pick(&["1", "2-7", "0", "1-2#3", "x", ""])).to_string()), 3 => TokenKind::Bang, 4 => TokenKind::And, 5 | 6 => TokenKind::Or,
                                            7 => TokenKind::LParen, 8 => TokenKind::RParen, 9 => TokenKind::QMark, 10 => TokenKind::Plus, _ => if r.chance(1, 3) { TokenKind::EOI } else { TokenKind::Star } };
                Token { kind: k, span: (2 * j, 2 * j + 1) }
            }).collect();
            if r.chance(3, 4) { ts.push(Token { kind: TokenKind::EOI, span: (2 * tl, 2 * tl) }); }
            case_toks(&mut o, &ts);
        }
        if i % 3 == 0 {
            let k = r.below(8) as usize;
            let mut ifs: Vec<(u16, u64, u16)> = vec![];
            for j in 0..k { let ia = (1 + (j as u16 + 1) / 2 % 3, 5 + ((j as u64 + 1) / 2)); ifs.push((ia.0, ia.1, r.below(5) as u16)); }
            if r.chance(1, 4) && !ifs.is_empty() { let j = r.below(ifs.len() as u64) as usize; ifs[j].1 += 100; }
            case_hops(&mut o, Some(Some(ifs)));
        }
    }
    o.sh.flush();
    let total = o.sh.total;
    o.sum.write(&out, total, o.distinct);
}
