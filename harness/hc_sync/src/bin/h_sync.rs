//! C20 correspondence harness: runs the REAL `MultiPathManager` under real tokio runtimes
//! (current-thread and multi-thread) with N concurrent `path_wait` / `cached_path` callers, a
//! scripted fetcher (ok / empty / error, controllable delays), idle-timeout removal,
//! `stop_managing_paths` and manager drop, under seeded schedule perturbation (yield points and
//! delays injected through the `verif-hooks` pause points).  The `verif-hooks` trace callback
//! logs the linearised atomic steps; each run becomes one Coq case (trace + returned values +
//! handle views after the end) that `Sync/Cases.v` checks for trace inclusion in the model and
//! against the property oracles.  A caller that does not return before the deadline is a hang
//! (`c_hung`), reported with its trace.
use std::collections::{BTreeMap, HashMap, HashSet};
use std::net::{IpAddr, Ipv4Addr};
use std::sync::atomic::{AtomicI64, AtomicUsize, Ordering};
use std::sync::{Arc, Mutex};
use std::time::{Duration, SystemTime};

use scion_stack::path::PathStrategy;
use scion_stack::path::fetcher::traits::{PathFetchError, PathFetcher};
use scion_stack::path::manager::traits::{PathManager, PathWaitError, PathWaitTimeoutError};
use scion_stack::path::manager::verif_trace as vt;
use scion_stack::path::manager::{MultiPathManager, MultiPathManagerConfig};
use scion_stack::stack::ScionSocketSendError;
use scion_stack::stack::socket::SendErrorReceiver;
use sciparse::address::ip_addr::ScionIpAddr;
use sciparse::identifier::{asn::Asn, isd::Isd, isd_asn::IsdAsn};
use sciparse::path::ScionPath;
use sciparse::util::test_builder::TestPathBuilder;
use vcommon::{Rng, Shards, Summary, arg, coq_bool, coq_list, seed_from_env};

const SRC: ScionIpAddr = ScionIpAddr::new(IsdAsn::new(Isd(1), Asn(1)), IpAddr::V4(Ipv4Addr::LOCALHOST));
const DST: ScionIpAddr = ScionIpAddr::new(IsdAsn::new(Isd(2), Asn(1)), IpAddr::V4(Ipv4Addr::new(127, 0, 0, 2)));
const USER: u64 = 1_000_000;

fn dummy_path(ts: u32, seed: u32) -> ScionPath {
    let mut b = TestPathBuilder::new(SRC.into(), DST.into()).using_info_timestamp(ts).with_hop_expiry(100).up();
    b = b.add_hop(0, 1);
    for cnt in 0..2u32 {
        let h = seed.wrapping_mul(2654435761).wrapping_add(cnt.wrapping_mul(40503)) % 60000;
        b = b.with_asn(h + 10).add_hop((h as u16) + 1, (h as u16) + 2);
    }
    b = b.add_hop(1, 0);
    b.build(ts).path()
}

// ---------------------------------------------------------------- wall clock of this process
// The worker decides about refetch / backoff / idleness with SystemTime::now(); the retry after a
// failed lookup comes after the failure backoff (60 s .. 300 s, no setter in the public config).
// To drive retries the harness moves the wall clock of its own process: this definition of
// clock_gettime is linked in place of libc's (std is linked statically into the binary) and adds
// an offset to CLOCK_REALTIME only; tokio's timers (CLOCK_MONOTONIC) are not affected.
static CLOCK_OFFSET_NS: AtomicI64 = AtomicI64::new(0);
#[repr(C)]
pub struct Timespec { tv_sec: i64, tv_nsec: i64 }
unsafe extern "C" { fn syscall(num: i64, ...) -> i64; }
/// # Safety
/// same contract as libc's clock_gettime
#[unsafe(no_mangle)]
pub unsafe extern "C" fn clock_gettime(clk: i32, ts: *mut Timespec) -> i32 {
    let r = unsafe { syscall(228, clk as i64, ts) } as i32;     // SYS_clock_gettime on x86_64
    if r == 0 && clk == 0 && !ts.is_null() {
        let off = CLOCK_OFFSET_NS.load(Ordering::SeqCst);
        let t = unsafe { &mut *ts };
        let total = t.tv_sec as i128 * 1_000_000_000 + t.tv_nsec as i128 + off as i128;
        t.tv_sec = (total / 1_000_000_000) as i64;
        t.tv_nsec = (total % 1_000_000_000) as i64;
    }
    r
}
fn jump_wall_clock(secs: i64) { CLOCK_OFFSET_NS.fetch_add(secs * 1_000_000_000, Ordering::SeqCst); }

// ---------------------------------------------------------------- scripted fetcher
#[derive(Clone, Copy, Debug)]
struct Ans { res: u8, yields: u32, sleep_ms: u64 } // res: 0 paths, 1 Ok(empty), 2 Err(NoPathsFound), 3 Err(internal)
struct Script { answers: Vec<Ans>, calls: AtomicUsize }
struct Fetcher(Arc<Script>);
impl PathFetcher for Fetcher {
    fn fetch_paths(&self, _src: IsdAsn, _dst: IsdAsn)
        -> impl std::future::Future<Output = Result<Vec<ScionPath>, PathFetchError>> + Send + '_ {
        async move {
            let k = self.0.calls.fetch_add(1, Ordering::SeqCst);
            let a = self.0.answers[k.min(self.0.answers.len() - 1)];
            for _ in 0..a.yields { tokio::task::yield_now().await; }
            if a.sleep_ms > 0 { tokio::time::sleep(Duration::from_millis(a.sleep_ms)).await; }
            let ts = SystemTime::now().duration_since(SystemTime::UNIX_EPOCH).unwrap().as_secs() as u32;
            match a.res {
                0 => Ok(vec![dummy_path(ts, k as u32 * 2), dummy_path(ts, k as u32 * 2 + 1)]),
                1 => Ok(vec![]),
                2 => Err(PathFetchError::NoPathsFound),
                _ => Err(PathFetchError::InternalError("scripted failure".into())),
            }
        }
    }
}

// ---------------------------------------------------------------- scenario
#[derive(Clone, Debug)]
struct WSpec { kind: u8, wave: u8, pre_yields: u32, pre_sleep_us: u64, timeout_us: u64, far_future: bool,
               after_quit: Option<u32>,            // spin until a worker has quit, then that many more yields
               after_begin: Option<(usize, u32)> } // spin until the n-th lookup has begun, then that many more yields
// kind: 0 path_wait, 1 cached_path, 2 path_timeout
#[derive(Clone, Debug)]
struct Scenario {
    name: String,
    threads: usize,            // 0 = current-thread runtime
    waiters: Vec<WSpec>,
    answers: Vec<Ans>,
    idle_ms: u64,
    refetch_ms: u64,
    gap_ms: [u64; 3],          // sleep before wave k (index 0 unused)
    stop_in_wave: [Option<(u32, u64)>; 3],   // (yields, sleep_us) before stop_managing_paths
    final_wait_ms: u64,        // before the drop
    perturb: u32,              // 0 none, 1 light, 2 heavy
    seed: u64,
    jump_before_wave: [bool; 3],   // move the wall clock past the failure backoff and wake the worker
    inline_then_drop: bool,        // cached_path callers run inline, the manager is dropped before the worker's first poll
}

#[derive(Clone, Copy, Debug, PartialEq, Eq, Hash, PartialOrd, Ord)]
enum Res { Path, NoneCached, ENoPaths, EInternal, EExit(u8), Timeout, Panic, Unknown }
impl Res {
    fn coq(self) -> Option<String> {
        Some(match self {
            Res::Path => "RPath".into(), Res::NoneCached => "RNone".into(), Res::Timeout => "RTimeout".into(),
            Res::ENoPaths => "(RErr ENoPaths)".into(), Res::EInternal => "(RErr EInternal)".into(),
            Res::EExit(0) => "(RErr (EExit XMgrDropped))".into(),
            Res::EExit(1) => "(RErr (EExit XCancelled))".into(),
            Res::EExit(2) => "(RErr (EExit XIdle))".into(),
            _ => return None,
        })
    }
    fn from_class(c: u64) -> Res {
        match c { 0 | 1 => Res::ENoPaths, 2 => Res::EInternal, 10 => Res::EExit(0), 11 => Res::EExit(1), 12 => Res::EExit(2), _ => Res::Unknown }
    }
}

struct Outcome {
    events: Vec<vt::Ev>,
    results: Vec<(usize, Res)>,
    hung: bool,
    fin: Vec<(usize, vt::HandleView)>,   // by pset address
    fetches: usize,
    exited_all: bool,
}

async fn pre_delay(y: u32, us: u64) {
    for _ in 0..y { tokio::task::yield_now().await; }
    if us > 0 { tokio::time::sleep(Duration::from_micros(us)).await; }
}

async fn drive(sc: Scenario, sink: Arc<vt::Sink>) -> Outcome {
    let script = Arc::new(Script { answers: sc.answers.clone(), calls: AtomicUsize::new(0) });
    let minr = sc.refetch_ms.min(10);
    let cfg = MultiPathManagerConfig::default()
        .with_max_idle_period(Duration::from_millis(sc.idle_ms))
        .with_refetch_interval(Duration::from_millis(sc.refetch_ms))
        .with_min_refetch_delay(Duration::from_millis(minr))
        .with_min_expiry_threshold(Duration::from_millis(minr));
    let mgr = MultiPathManager::new(cfg, Fetcher(script.clone()), PathStrategy::default()).expect("config");
    let (src, dst) = (SRC.isd_asn(), DST.isd_asn());
    let mut handles = Vec::new();
    let mut results = Vec::new();
    let mut hung = false;
    if sc.inline_then_drop {
        // no await between the request that spawns the worker and the drop: the worker's first
        // poll finds the manager gone and it exits before any lookup
        for (i, _) in sc.waiters.iter().enumerate() {
            let r = vt::ACTOR.sync_scope(i as u64 + 1, || mgr.cached_path(src, dst, SystemTime::now()));
            results.push((i, if r.is_some() { Res::Path } else { Res::NoneCached }));
        }
    }
    for wave in 0..3u8 {
        if sc.inline_then_drop { break; }
        if wave >= 1 {
            if !sc.waiters.iter().any(|w| w.wave >= wave) && sc.stop_in_wave[wave as usize..].iter().all(|s| s.is_none()) { break; }
            tokio::time::sleep(Duration::from_millis(sc.gap_ms[wave as usize])).await;
        }
        if sc.jump_before_wave[wave as usize] {
            // past the failure backoff (at most 300 s + jitter); an issue report for a foreign AS
            // wakes the worker's select loop, which recomputes its next tick from the wall clock
            jump_wall_clock(400);
            mgr.report_send_error(&ScionSocketSendError::UnderlayNextHopUnreachable {
                isd_as: IsdAsn::new(Isd(9), Asn(9)), interface_id: 100 + wave as u16, address: None, msg: "wake".into() });
        }
        for (i, w) in sc.waiters.iter().enumerate() {
            if w.wave != wave { continue; }
            let m = mgr.clone();
            let w = w.clone();
            let sk = sink.clone();
            let fut = vt::ACTOR.scope(i as u64 + 1, async move {
                pre_delay(w.pre_yields, w.pre_sleep_us).await;
                if let Some(extra) = w.after_quit {
                    // arrive while a worker is in its exit sequence: watch the trace for the first Quit
                    let t0 = std::time::Instant::now();
                    loop {
                        if sk.events.lock().unwrap().iter().any(|e| e.kind == vt::Kind::Quit) { break; }
                        if t0.elapsed() > Duration::from_secs(2) { break; }
                        tokio::task::yield_now().await;
                    }
                    for _ in 0..extra { tokio::task::yield_now().await; }
                }
                if let Some((n, extra)) = w.after_begin {
                    let t0 = std::time::Instant::now();
                    loop {
                        if sk.events.lock().unwrap().iter().filter(|e| e.kind == vt::Kind::Begin).count() >= n { break; }
                        if t0.elapsed() > Duration::from_secs(2) { break; }
                        tokio::task::yield_now().await;
                    }
                    for _ in 0..extra { tokio::task::yield_now().await; }
                }
                // `now` is the caller's: one day ahead every path the fetcher returns is expired
                let now = SystemTime::now() + Duration::from_secs(if w.far_future { 86_400 } else { 0 });
                if w.kind == 0 {
                    match m.path_wait(src, dst, now).await {
                        Ok(_) => Res::Path,
                        Err(PathWaitError::NoPathFound) => Res::ENoPaths,
                        Err(PathWaitError::FetchFailed(e)) => Res::from_class(vt::err_class(Some(&e))),
                        Err(_) => Res::Unknown,
                    }
                } else if w.kind == 2 {
                    match m.path_timeout(src, dst, now, Duration::from_micros(w.timeout_us)).await {
                        Ok(_) => Res::Path,
                        Err(PathWaitTimeoutError::NoPathFound) => Res::ENoPaths,
                        Err(PathWaitTimeoutError::FetchFailed(e)) => Res::from_class(vt::err_class(Some(&e))),
                        // the path() future has just been dropped by tokio::time::timeout
                        Err(PathWaitTimeoutError::Timeout) => { vt::push(vt::Kind::Harness, 0, 100 + i as u64); Res::Timeout }
                        Err(_) => Res::Unknown,
                    }
                } else {
                    match m.cached_path(src, dst, now) { Some(_) => Res::Path, None => Res::NoneCached }
                }
            });
            handles.push((i, tokio::spawn(fut)));
        }
        if let Some((y, us)) = sc.stop_in_wave[wave as usize] {
            let m = mgr.clone();
            let h = tokio::spawn(vt::ACTOR.scope(USER, async move {
                pre_delay(y, us).await;
                m.stop_managing_paths(src, dst);
                Res::NoneCached
            }));
            handles.push((usize::MAX, h));
        }
    }
    // join with a deadline: a caller that does not return is a hang
    let deadline = tokio::time::Instant::now() + Duration::from_secs(if sc.jump_before_wave.iter().any(|j| *j) { 6 } else { 15 });
    for (i, h) in handles {
        let ab = h.abort_handle();
        match tokio::time::timeout_at(deadline, h).await {
            Ok(Ok(r)) => { if i != usize::MAX { results.push((i, r)); } }
            Ok(Err(_)) => { if i != usize::MAX { results.push((i, Res::Panic)); } }
            Err(_) => { hung = true; ab.abort(); }
        }
    }
    if sc.final_wait_ms > 0 && !sc.inline_then_drop { tokio::time::sleep(Duration::from_millis(sc.final_wait_ms)).await; }
    // drop the manager (the callers' clones are gone: their tasks have finished or were aborted)
    if !sc.inline_then_drop { tokio::task::yield_now().await; }
    vt::push(vt::Kind::Harness, 0, 1);
    drop(mgr);
    // grace period: every worker must run its exit sequence
    let t_end = tokio::time::Instant::now() + Duration::from_secs(10);
    let mut exited_all = false;
    loop {
        let (spawned, cleared) = {
            let ev = sink.events.lock().unwrap();
            (ev.iter().filter(|e| e.kind == vt::Kind::Ensure && e.arg == 1).count(),
             ev.iter().filter(|e| e.kind == vt::Kind::ExitClear).count())
        };
        if spawned == cleared { exited_all = true; break; }
        if tokio::time::Instant::now() >= t_end { break; }
        tokio::time::sleep(Duration::from_millis(2)).await;
    }
    tokio::task::yield_now().await;
    let fin = sink.probes.lock().unwrap().iter().map(|(p, f)| (*p, f())).collect();
    let events = sink.events.lock().unwrap().clone();
    Outcome { events, results, hung, fin, fetches: script.calls.load(Ordering::SeqCst), exited_all }
}

fn run_scenario(sc: &Scenario) -> Outcome {
    let prng = Mutex::new(Rng::new(sc.seed ^ 0x5151));
    let (perturb, mt) = (sc.perturb, sc.threads > 0);
    let pause: Box<dyn Fn(u32) -> u32 + Send + Sync> = Box::new(move |k| {
        if perturb == 0 { return 0; }
        // systematic mode: perturb = 1000 + code, digit k-1 (base 3) of code = yields at pause point k
        if perturb >= 1000 { return ((perturb - 1000) / 3u32.pow(k.saturating_sub(1).min(7))) % 3; }
        // scripted modes: 3 = callers slow between their steps, 4 = worker slow while exiting, 5 = both
        if perturb == 3 { return if k == 2 || k == 4 { 5 } else { 0 }; }
        if perturb == 4 { return if k == 7 || k == 8 { 5 } else { 0 }; }
        if perturb == 5 { return if k == 2 || k == 4 || k == 7 || k == 8 { 3 } else { 0 }; }
        let mut r = prng.lock().unwrap();
        let p = if perturb == 1 { 4 } else { 2 };
        if r.below(p) != 0 { return 0; }
        if mt && r.below(3) == 0 {
            let us = r.below(300);
            drop(r);
            std::thread::sleep(Duration::from_micros(us));
            return 0;
        }
        1 + r.below(3) as u32
    });
    let sink = Arc::new(vt::Sink { events: Mutex::new(Vec::new()), probes: Mutex::new(Vec::new()), pause });
    let rt = if sc.threads == 0 {
        tokio::runtime::Builder::new_current_thread().enable_all().build().unwrap()
    } else {
        let s2 = sink.clone();
        tokio::runtime::Builder::new_multi_thread().worker_threads(sc.threads).enable_all()
            .on_thread_start(move || vt::install(Some(s2.clone()))).build().unwrap()
    };
    vt::install(Some(sink.clone()));
    let out = rt.block_on(drive(sc.clone(), sink.clone()));
    rt.shutdown_timeout(Duration::from_millis(200));
    vt::install(None);
    out
}

// ---------------------------------------------------------------- translation to Coq
struct Translated { labels: Vec<String>, ok: bool, why: String, nps: usize, addr: HashMap<usize, usize> }

/// the worker behind a removal logged without caller identity: the one whose ExitRemoveDone is
/// the next event of the same thread (no await point lies between the two)
fn remover(events: &[vt::Ev], k: usize) -> Option<usize> {
    events[k + 1..].iter().find(|e| e.thread == events[k].thread).and_then(|e| if e.kind == vt::Kind::ExitRemoveDone { Some(e.pset) } else { None })
}

fn translate(events_in: &[vt::Ev]) -> Translated {
    use vt::Kind::*;
    // The worker is spawned inside the vacant arm, the Ensure event is logged at the end of
    // ensure_managed_paths: on a multi-thread runtime the new worker's first events can be logged
    // before it.  Path-set addresses are not reused within a run (the probes keep them alive), so
    // an event of a path set logged before its creating Ensure is exactly that: move the Ensure up.
    let mut events_v: Vec<vt::Ev> = events_in.to_vec();
    let mut k = 0;
    while k < events_v.len() {
        if events_v[k].kind == Ensure && events_v[k].arg == 1 {
            let a = events_v[k].pset;
            if let Some(j) = events_v[..k].iter().position(|e| e.pset == a) {
                let ev = events_v.remove(k);
                events_v.insert(j, ev);
            }
        }
        k += 1;
    }
    let events: &[vt::Ev] = &events_v;
    let mut addr: HashMap<usize, usize> = HashMap::new();
    let mut nps = 0usize;
    let mut labels = Vec::new();
    let mut load1_hit: HashSet<u64> = HashSet::new();
    let mut removal_pending: HashSet<usize> = HashSet::new();   // workers between Quit and their removal
    let mut bad = String::new();
    for (k, e) in events.iter().enumerate() {
        let b = |x: u64| coq_bool(x != 0);
        let i = e.actor.wrapping_sub(1);
        let caller_ok = e.actor >= 1 && e.actor < USER;
        let ps = addr.get(&e.pset).copied();
        let mut need_caller = false;
        let mut need_ps = false;
        let l = match e.kind {
            PeekPath => { need_caller = true; load1_hit.remove(&e.actor); format!("LPeek {i} KPath {}", b(e.arg)) }
            PeekCached => { need_caller = true; format!("LPeek {i} KCached {}", b(e.arg)) }
            Contains => { need_caller = true; format!("LContains {i} {}", b(e.arg)) }
            Ensure => {
                need_caller = true;
                if e.arg == 1 { addr.insert(e.pset, nps); nps += 1; format!("LEnsure {i} true {}", nps - 1) }
                else { need_ps = true; format!("LEnsure {i} false {}", ps.unwrap_or(999)) }
            }
            Load1 => { need_caller = true; if e.arg == 1 { load1_hit.insert(e.actor); } format!("LLoad1 {i} {}", b(e.arg)) }
            Check => { need_caller = true; format!("LCheck {i} {}", b(e.arg)) }
            Wake => { need_caller = true; format!("LWake {i}") }
            Load2 => { need_caller = true; if load1_hit.remove(&e.actor) { continue; } format!("LLoad2 {i} {}", b(e.arg)) }
            Err => {
                need_caller = true;
                match Res::from_class(e.arg).coq() { Some(r) => format!("LErr {i} {r}"), None => { bad = format!("event {k}: error class {}", e.arg); break; } }
            }
            Begin => { need_ps = true; format!("LBegin {}", ps.unwrap_or(999)) }
            Fetched => { need_ps = true; format!("LFetched {} {}", ps.unwrap_or(999), ["FOk", "FEmpty", "FErr"][e.arg.min(2) as usize]) }
            SetErr => { need_ps = true; format!("LSetErr {}", ps.unwrap_or(999)) }
            Slot => { need_ps = true; format!("LSlot {} {}", ps.unwrap_or(999), b(e.arg)) }
            Complete => { need_ps = true; format!("LComplete {}", ps.unwrap_or(999)) }
            Release => { need_ps = true; format!("LRelease {}", ps.unwrap_or(999)) }
            Quit => {
                need_ps = true;
                if e.arg > 2 { bad = format!("event {k}: quit reason {}", e.arg); break; }
                removal_pending.insert(e.pset);
                format!("LQuit {} {}", ps.unwrap_or(999), ["XMgrDropped", "XCancelled", "XIdle"][e.arg as usize])
            }
            Removed => {
                if e.actor == USER { "LStop".to_string() }
                else if e.actor == 0 {
                    match remover(events, k).and_then(|a| addr.get(&a).copied().map(|x| (a, x))) {
                        Some((a, x)) => { removal_pending.remove(&a); format!("LExitRemove {x}") }
                        None => { bad = format!("event {k}: removal by an unidentified worker"); break; }
                    }
                }
                else { bad = format!("event {k}: removal by caller {}", e.actor); break; }
            }
            ExitRemoveDone => { need_ps = true; if !removal_pending.remove(&e.pset) { continue; } format!("LExitSkip {}", ps.unwrap_or(999)) }
            ExitBlock => { need_ps = true; format!("LExitBlock {}", ps.unwrap_or(999)) }
            ExitClear => { need_ps = true; format!("LExitClear {}", ps.unwrap_or(999)) }
            Harness => if e.arg >= 100 { format!("LAbandon {}", e.arg - 100) } else { "LDrop".to_string() },
        };
        if need_caller && !caller_ok { bad = format!("event {k}: {:?} without caller identity", e.kind); break; }
        if need_ps && ps.is_none() { bad = format!("event {k}: {:?} for unknown path set", e.kind); break; }
        labels.push(l);
    }
    Translated { labels, ok: bad.is_empty(), why: bad, nps, addr }
}

fn short(labels: &[String]) -> String {
    labels.iter().map(|l| {
        let mut it = l.split(' ');
        let h0 = it.next().unwrap_or("");
        let h = h0.strip_prefix('L').unwrap_or(h0);
        let rest: Vec<&str> = it.collect();
        format!("{h}({})", rest.join(",").replace("true", "1").replace("false", "0").replace("KPath", "p").replace("KCached", "c"))
    }).collect::<Vec<_>>().join(" ")
}

// ---------------------------------------------------------------- generators
fn gen_random(r: &mut Rng, idx: usize, mt_share: u64) -> Scenario {
    let threads = if r.below(100) < mt_share { 2 + r.below(3) as usize } else { 0 };
    let big = r.chance(1, 6);
    let n = 1 + r.below(if big { 12 } else { 6 }) as usize;
    let two_waves = r.chance(1, 2);
    let three_waves = two_waves && r.chance(1, 3);
    let idle_ms = *r.pick(&[12u64, 20, 20, 10_000]);
    let refetch_ms = *r.pick(&[15u64, 30, 60_000, 60_000]);
    let mut waiters = Vec::new();
    for _ in 0..n {
        waiters.push(WSpec {
            kind: *r.pick(&[0u8, 0, 0, 0, 1, 1, 2, 2]),
            timeout_us: *r.pick(&[0u64, 100, 500, 2000, 8000, 50_000]),
            far_future: expired_mode() && r.chance(1, 8),
            after_quit: None, after_begin: None,
            wave: if two_waves && r.chance(2, 5) { if three_waves && r.chance(1, 2) { 2 } else { 1 } } else { 0 },
            pre_yields: r.below(6) as u32,
            pre_sleep_us: if r.chance(1, 3) { r.below(4000) } else { 0 },
        });
    }
    let n_ans = 1 + r.below(4) as usize;
    let answers = (0..n_ans).map(|_| Ans {
        res: *r.pick(&[0u8, 0, 0, 1, 2, 3]),
        yields: r.below(8) as u32,
        sleep_ms: if r.chance(1, 2) { r.below(6) } else { 0 },
    }).collect();
    let stop = |r: &mut Rng| if r.chance(1, 3) { Some((r.below(8) as u32, if r.chance(1, 2) { r.below(5000) } else { 0 })) } else { None };
    let s0 = stop(r);
    let s1 = if two_waves { stop(r) } else { None };
    let s2 = if three_waves { stop(r) } else { None };
    let gaps = [0u64, 1, idle_ms.min(30) / 2, (idle_ms.min(30) * 5) / 2, refetch_ms.min(40)];
    let gap_ms = [0, *r.pick(&gaps), *r.pick(&gaps)];
    Scenario {
        name: format!("rand{idx}"), threads, waiters, answers, idle_ms, refetch_ms, gap_ms,
        stop_in_wave: [s0, s1, s2],
        final_wait_ms: *r.pick(&[0u64, 0, 3, (idle_ms.min(30) * 5) / 2]),
        perturb: r.below(3) as u32, seed: r.next(), jump_before_wave: [false; 3], inline_then_drop: false,
    }
}

/// VERIF_C20_EXPIRED=1: some callers pass a `now` one day ahead, so the path they read from the
/// slot is expired for them (exercises the hand-out check of path()/cached_path(); off by default
/// because that check belongs to C06)
fn expired_mode() -> bool { std::env::var("VERIF_C20_EXPIRED").as_deref() == Ok("1") }

fn gen_directed(seed: u64) -> Vec<Scenario> {
    let w = |kind, wave, y| WSpec { kind, wave, pre_yields: y, pre_sleep_us: 0, timeout_us: 1500, far_future: false, after_quit: None, after_begin: None };
    let a = |res, yields, sleep_ms| Ans { res, yields, sleep_ms };
    let base = |name: &str, threads, waiters: Vec<WSpec>, answers: Vec<Ans>| Scenario {
        name: name.into(), threads, waiters, answers, idle_ms: 10_000, refetch_ms: 60_000, gap_ms: [0, 0, 0],
        stop_in_wave: [None, None, None], final_wait_ms: 0, perturb: 0, seed, jump_before_wave: [false; 3], inline_then_drop: false,
    };
    let mut v = Vec::new();
    for threads in [0usize, 3] {
        // many concurrent first requests, one lookup
        v.push(base("first-requests-ok", threads, (0..8).map(|i| w(if i % 4 == 3 { 1 } else { 0 }, 0, i % 3)).collect(), vec![a(0, 5, 2)]));
        v.push(base("first-requests-empty", threads, (0..5).map(|i| w(0, 0, i)).collect(), vec![a(1, 3, 0)]));
        v.push(base("first-requests-notfound", threads, (0..5).map(|i| w(0, 0, i)).collect(), vec![a(2, 3, 1)]));
        v.push(base("first-requests-error", threads, (0..5).map(|i| w(0, 0, i)).collect(), vec![a(3, 0, 3)]));
        // callers arriving while the lookup completes (arrival spread over the completion)
        v.push(base("arrive-at-completion", threads, (0..10).map(|i| w(0, 0, i)).collect(), vec![a(3, 4, 0)]));
        // stop while waiting, successor worker, stale worker's exit
        let mut s = base("stop-while-waiting", threads, vec![w(0, 0, 0), w(0, 0, 1), w(0, 1, 0), w(0, 1, 2)], vec![a(0, 6, 3), a(0, 2, 1), a(3, 2, 0)]);
        s.stop_in_wave = [Some((2, 0)), Some((1, 0)), None]; s.gap_ms = [0, 1, 0];
        v.push(s);
        // idle removal, then new callers
        let mut s = base("idle-removal-then-callers", threads, vec![w(0, 0, 0), w(1, 0, 0), w(0, 1, 0), w(0, 1, 1)], vec![a(3, 1, 0), a(0, 1, 2)]);
        s.idle_ms = 12; s.gap_ms = [0, 40, 0]; s.final_wait_ms = 40;
        v.push(s);
        // callers racing the idle exit
        let mut s = base("race-idle-exit", threads, vec![w(0, 0, 0), w(0, 1, 0), w(0, 1, 1), w(0, 1, 3), w(1, 1, 2)], vec![a(2, 1, 0), a(0, 1, 1)]);
        s.idle_ms = 12; s.gap_ms = [0, 24, 0]; s.perturb = 2;
        v.push(s);
        // refetch cycles with late callers
        let mut s = base("refetch-late-callers", threads, vec![w(0, 0, 0), w(0, 1, 0), w(0, 1, 2), w(1, 1, 1)], vec![a(1, 1, 1), a(1, 2, 4), a(0, 2, 4)]);
        s.refetch_ms = 15; s.gap_ms = [0, 16, 0]; s.final_wait_ms = 20;
        v.push(s);
        // stop_managing_paths leaves the worker running (the removed map entry, and with it the
        // cancel token, is dropped later); the next request starts a second worker; when the first
        // one goes idle its exit removes the SECOND worker's entry; the third request starts a third
        let mut s = base("stale-exit-removes-successor", threads, vec![w(0, 0, 0), w(0, 1, 0), w(0, 2, 0), w(1, 2, 1)], vec![a(0, 1, 0)]);
        s.idle_ms = 12; s.stop_in_wave = [Some((40, 0)), None, None]; s.gap_ms = [0, 2, 32]; s.final_wait_ms = 5;
        v.push(s);
        // callers arriving exactly while the worker runs its idle exit (they watch the trace for
        // the worker's Quit and then enter the manager 0..9 yields later; the worker is slowed
        // down at its two pause points inside the exit sequence)
        for (mode, res) in [(4u32, 2u8), (5, 3), (4, 0)] {
            let mut s = base(&format!("arrive-during-idle-exit-m{mode}-r{res}"), threads, vec![w(0, 0, 0)], vec![a(res, 1, 0), a(0, 1, 1)]);
            for k in 0..10u32 { let mut x = w(if k % 5 == 4 { 1 } else { 0 }, 0, 0); x.after_quit = Some(k); s.waiters.push(x); }
            s.idle_ms = 12; s.perturb = mode;
            v.push(s);
        }
        // failed lookup, then its retry (wall clock moved past the backoff): callers before the
        // first lookup, during it, between the failure and the retry, and during the retry (they
        // watch the trace for the retry's first locked block), for every outcome of the retry
        for first in [3u8, 2, 1] {
            for retry in [0u8, 1, 3] {
                let mut s = base(&format!("retry-after-failure-f{first}-r{retry}"), threads,
                    vec![w(0, 0, 0), w(0, 0, 1), w(1, 0, 2), w(0, 0, 3), w(0, 1, 0), w(1, 1, 0), w(0, 2, 0)],
                    vec![a(first, 6, 0), a(retry, 8, 0), a(0, 1, 0)]);
                for (k, kind) in [(0u32, 0u8), (1, 0), (2, 1), (3, 0), (5, 0)] { let mut x = w(kind, 2, 0); x.after_begin = Some((2, k)); s.waiters.push(x); }
                s.idle_ms = 3_600_000; s.gap_ms = [0, 1, 1]; s.jump_before_wave = [false, false, true];
                if retry == 3 && first == 3 { s.perturb = 2; }
                v.push(s);
            }
        }
        // error, error, then ok / empty / error: callers during the first and the second retry
        for last in [0u8, 1, 3] {
            let mut s = base(&format!("two-retries-then-r{last}"), threads, vec![w(0, 0, 0), w(0, 0, 2)], vec![a(3, 4, 0), a(3, 6, 0), a(last, 6, 0), a(0, 1, 0)]);
            for k in [0u32, 2, 4] { let mut x = w(0, 1, 0); x.after_begin = Some((2, k)); s.waiters.push(x); }
            for k in [0u32, 1, 3] { let mut x = w(0, 2, 0); x.after_begin = Some((3, k)); s.waiters.push(x); }
            s.idle_ms = 3_600_000; s.gap_ms = [0, 1, 1]; s.jump_before_wave = [false, true, true];
            v.push(s);
        }
        // the worker exits before any lookup: the request that spawns it and the drop of the
        // manager happen without an await in between; afterwards its handles must report the
        // exit error, initialised, nothing ongoing
        for n_callers in [1usize, 2] {
            let mut s = base(&format!("drop-before-first-poll-{n_callers}"), threads, (0..n_callers).map(|_| w(1, 0, 0)).collect(), vec![a(0, 0, 0)]);
            s.inline_then_drop = true;
            v.push(s);
        }
        // drop while a lookup started by cached_path is still running
        v.push(base("drop-during-lookup", threads, vec![w(1, 0, 0), w(1, 0, 1)], vec![a(0, 3, 15)]));
        // callers that give up (path_timeout) around the completion of a slow lookup
        v.push(base("timeouts-around-completion", threads, (0..8).map(|i| w(if i % 2 == 0 { 2 } else { 0 }, 0, i)).collect(), vec![a(0, 2, 2), a(0, 1, 0)]));
        let mut s = base("timeouts-all-give-up", threads, (0..4).map(|i| w(2, 0, i)).collect(), vec![a(3, 2, 12)]);
        s.waiters.push(w(0, 1, 0)); s.gap_ms = [0, 3, 0];
        v.push(s);
        // nobody ever asks: drop of an empty manager
        v.push(base("drop-empty", threads, vec![], vec![a(0, 0, 0)]));
    }
    // callers holding a handle of a worker that is cancelled and exits under them: sweep the
    // moment of stop_managing_paths against the callers' and the worker's scripted slowness
    for mode in [3u32, 4, 5] {
        for res in [3u8, 0] {
            for stop_y in 0..12u32 {
                let mut s = base(&format!("stop-sweep-m{mode}-r{res}-y{stop_y}"), 0,
                    vec![w(0, 0, 0), w(0, 0, 2), w(0, 0, 4), w(0, 0, 6), w(0, 0, 8), w(1, 0, 5)],
                    vec![a(res, 3, 0), a(res, 1, 0)]);
                s.stop_in_wave = [Some((stop_y, 0)), None, None];
                s.perturb = mode;
                v.push(s);
            }
        }
    }
    if expired_mode() {
        for threads in [0usize, 3] {
            let mut s = base("expired-for-the-caller", threads, (0..6).map(|i| w(if i % 3 == 2 { 1 } else { 0 }, if i < 3 { 0 } else { 1 }, i % 3)).collect(), vec![a(0, 2, 1)]);
            for x in s.waiters.iter_mut().skip(1) { x.far_future = true; }
            s.gap_ms = [0, 3, 0];
            v.insert(0, s);
        }
    }
    if std::env::var("VERIF_C20_SELFTEST").as_deref() == Ok("hang") {
        // self-test of the hang detector: a lookup that never finishes (premise violated on purpose)
        v.insert(0, base("SELFTEST-lookup-never-finishes", 0, vec![w(0, 0, 0), w(0, 0, 1)], vec![a(0, 0, 3_600_000)]));
    }
    v
}

/// systematic sweep on the current-thread runtime: no sleeps, no timeouts, so the schedule is a
/// function of the yield vector at the 8 pause points, the moment of stop_managing_paths and
/// the callers' own pre-yields -- all taken from `code`
fn gen_sweep(code: u64, seed: u64) -> Scenario {
    let vec = (code % 6561) as u32;
    let stop_y = ((code / 6561) % 7) as u32;          // 6 = no stop
    let variant = (code / (6561 * 7)) % 4;
    let w = |kind, wave, y| WSpec { kind, wave, pre_yields: y, pre_sleep_us: 0, timeout_us: 0, far_future: false, after_quit: None, after_begin: None };
    let answers = match variant {
        0 => vec![Ans { res: 3, yields: 2, sleep_ms: 0 }, Ans { res: 0, yields: 1, sleep_ms: 0 }],
        1 => vec![Ans { res: 0, yields: 3, sleep_ms: 0 }, Ans { res: 1, yields: 0, sleep_ms: 0 }],
        2 => vec![Ans { res: 2, yields: 0, sleep_ms: 0 }, Ans { res: 0, yields: 2, sleep_ms: 0 }],
        _ => vec![Ans { res: 1, yields: 5, sleep_ms: 0 }, Ans { res: 3, yields: 1, sleep_ms: 0 }],
    };
    Scenario {
        name: format!("sweep-{code}"), threads: 0,
        waiters: vec![w(0, 0, 0), w(0, 0, 1), w(1, 0, 2), w(0, 0, 3), w(0, 0, 6), w(1, 0, 9)],
        answers, idle_ms: 10_000, refetch_ms: 60_000, gap_ms: [0, 0, 0],
        stop_in_wave: [if stop_y < 6 { Some((stop_y * 2, 0)) } else { None }, None, None],
        final_wait_ms: 0, perturb: 1000 + vec, seed, jump_before_wave: [false; 3], inline_then_drop: false,
    }
}

fn main() {
    vcommon::silence_panics();
    let out = arg("--out").expect("--out");
    let n: usize = arg("--n").and_then(|s| s.parse().ok()).unwrap_or(200);
    let seed = seed_from_env();
    let mut r = Rng::new(seed ^ 0xC20);
    let mut scenarios = gen_directed(seed);
    let mut idx = 0;
    // a quarter of the remaining budget: systematic sweep (distinct codes), the rest random
    let n_sweep = n.saturating_sub(scenarios.len()) / 4;
    let mut codes: HashSet<u64> = HashSet::new();
    while codes.len() < n_sweep { let c = r.below(6561 * 7 * 4); if codes.insert(c) { scenarios.push(gen_sweep(c, seed)); } }
    while scenarios.len() < n { scenarios.push(gen_random(&mut r, idx, 40)); idx += 1; }
    scenarios.truncate(n.max(1));

    // run in parallel (each scenario owns its runtime and its thread-local sink)
    let next = AtomicUsize::new(0);
    let outs: Vec<Mutex<Option<Outcome>>> = scenarios.iter().map(|_| Mutex::new(None)).collect();
    let moves_clock = |sc: &Scenario| sc.jump_before_wave.iter().any(|j| *j);
    let par = std::thread::available_parallelism().map(|x| x.get()).unwrap_or(4).clamp(2, 8);
    std::thread::scope(|s| {
        for _ in 0..par {
            s.spawn(|| loop {
                let k = next.fetch_add(1, Ordering::SeqCst);
                if k >= scenarios.len() { break; }
                if moves_clock(&scenarios[k]) { continue; }   // the wall clock is process-wide: run those alone, below
                let o = run_scenario(&scenarios[k]);
                *outs[k].lock().unwrap() = Some(o);
            });
        }
    });

    for (k, sc) in scenarios.iter().enumerate() {
        if moves_clock(sc) { *outs[k].lock().unwrap() = Some(run_scenario(sc)); }
    }

    let mut sh = Shards::new(&out, "From Coq Require Import NArith List.\nFrom Sci Require Import Sync.Cases.\nImport ListNotations.\nOpen Scope nat_scope.", "scase", "verdicts", 20);
    let mut sum = Summary::default();
    let mut traces: HashSet<String> = HashSet::new();
    let mut outcomes: HashSet<String> = HashSet::new();
    let mut nontrivial = 0usize;
    for (k, sc) in scenarios.iter().enumerate() {
        let o = outs[k].lock().unwrap().take().unwrap();
        let t = translate(&o.events);
        let strict = sc.threads == 0;
        sum.count(if strict { "runtime.current_thread" } else { "runtime.multi_thread" });
        sum.count(&format!("family.{}", if sc.name.starts_with("rand") { "random" } else if sc.name.starts_with("sweep-") { "systematic_sweep" } else if sc.name.starts_with("stop-sweep") { "stop_sweep" } else if sc.name.contains("retr") { "failed_lookup_and_retry" } else if sc.name.starts_with("drop-before-first-poll") { "exit_before_first_lookup" } else { "directed" }));
        sum.count(&format!("callers.{}", sc.waiters.len().min(9)));
        sum.add("events", o.events.len() as u64);
        sum.add("workers_spawned", t.nps as u64);
        if o.hung { sum.count("hung"); }
        if !o.exited_all { sum.count("worker_not_exited_after_drop"); }
        if !t.ok { sum.count("untranslatable"); }
        for (_, rr) in &o.results { sum.count(&format!("result.{:?}", rr).replace("(", "_").replace(")", "")); }
        for e in &o.events {
            if e.kind == vt::Kind::Quit { sum.count(&format!("quit.{}", ["manager_dropped", "cancelled", "idle", "other"][e.arg.min(3) as usize])); }
            if e.kind == vt::Kind::Check { sum.count(if e.arg == 1 { "check.returned_at_once" } else { "check.registered" }); }
            if e.kind == vt::Kind::Removed { sum.count(if e.actor == USER { "removed.by_user" } else { "removed.by_worker" }); }
            if e.kind == vt::Kind::Fetched { sum.count(&format!("fetched.{}", ["ok", "empty", "error"][e.arg.min(2) as usize])); }
        }
        // observations on the map (replayed from the trace): a worker's exit removing an entry that
        // is not its own; cancellation observed before the drop; a worker still running (no Quit)
        // when its successor is spawned
        {
            let mut map: Option<usize> = None;
            let mut quit: HashSet<usize> = HashSet::new();
            let mut dropped = false;
            let mut ids: HashMap<usize, usize> = HashMap::new();
            let mut n = 0usize;
            for (k, e) in o.events.iter().enumerate() {
                match e.kind {
                    vt::Kind::Ensure if e.arg == 1 => {
                        if (0..n).any(|x| !quit.contains(&x)) { sum.count("obs.spawn_while_predecessor_still_running"); }
                        ids.insert(e.pset, n); map = Some(n); n += 1;
                    }
                    vt::Kind::Quit => {
                        if let Some(x) = ids.get(&e.pset) { quit.insert(*x); }
                        if e.arg == 1 && !dropped { sum.count("obs.cancelled_before_drop"); }
                        if e.arg == 1 && dropped { sum.count("obs.cancelled_after_drop"); }
                    }
                    vt::Kind::Removed => {
                        if e.actor == 0 {
                            let me = remover(&o.events, k).and_then(|a| ids.get(&a).copied());
                            if map.is_some() && map != me { sum.count("obs.exit_removed_successors_entry"); }
                        }
                        map = None;
                    }
                    vt::Kind::Harness => dropped = true,
                    _ => {}
                }
            }
        }
        let mut labels = t.labels.clone();
        // a caller whose last step read a path but who got "no path": the path was expired at the
        // caller's `now` (path(): NoPathsFound, cached_path(): None)
        for (i, rr) in &o.results {
            if !matches!(rr, Res::ENoPaths | Res::NoneCached) { continue; }
            let mine = |l: &String| { let mut it = l.split(' '); let h = it.next().unwrap_or(""); let who = it.next().unwrap_or(""); ["LPeek", "LContains", "LEnsure", "LLoad1", "LCheck", "LWake", "LLoad2", "LErr"].contains(&h) && who == i.to_string() };
            if let Some(k) = labels.iter().rposition(mine) {
                let l = &labels[k];
                if (l.starts_with("LPeek") || l.starts_with("LLoad1") || l.starts_with("LLoad2")) && l.ends_with(" true") {
                    sum.count("expired_for_caller");
                    labels.insert(k + 1, format!("LExpired {i} {}", rr.coq().unwrap()));
                }
            }
        }
        if !t.ok { labels.push("LWake 99999".into()); }   // a label the model refuses: forces bit 1
        let mut res_ok = true;
        let res: Vec<String> = o.results.iter().map(|(i, rr)| match rr.coq() {
            Some(c) => format!("({i}, {c})"),
            None => { res_ok = false; format!("({i}, RNone)") }
        }).collect();
        if !res_ok { labels.push("LWake 99998".into()); }
        // probes are registered in creation order (= path set index)
        let fin: Vec<(usize, vt::HandleView)> = o.fin.iter().enumerate().map(|(e, (_, v))| (e, *v)).collect();
        let fin_s: Vec<String> = fin.iter().map(|(e, v)| format!("({e}, ({}, {}, {}, {}))", coq_bool(v.active), coq_bool(v.initialized), coq_bool(v.ongoing), v.err)).collect();
        let case = format!("mkC {} {} {} {} {} true {} {}",
            coq_bool(strict), sc.waiters.len(), coq_list(labels.iter().cloned()), coq_list(res),
            coq_bool(o.hung || !res_ok), coq_list(fin_s), o.fetches);
        sh.push(case);
        let tr_short = short(&labels);
        let mut oc: Vec<String> = o.results.iter().map(|(_, rr)| format!("{rr:?}")).collect();
        oc.sort();
        let oc_key = format!("{} | quits {:?}", oc.join(","), {
            let mut q: BTreeMap<u64, u32> = BTreeMap::new();
            for e in &o.events { if e.kind == vt::Kind::Quit { *q.entry(e.arg).or_insert(0) += 1; } }
            q
        });
        if traces.insert(tr_short.clone()) && o.events.len() > 3 { nontrivial += 1; }
        outcomes.insert(oc_key);
        let line = format!("{} {} callers={:?} answers={:?} idle={}ms refetch={}ms gaps={:?}ms stop={:?} final_wait={}ms perturb={} seed={} hung={} exited_all={} {} results={:?} trace: {}",
            sc.name, if strict { "ct".to_string() } else { format!("mt{}", sc.threads) },
            sc.waiters.iter().map(|w| format!("{}{}y{}{}{}", ["p", "c", "t"][w.kind as usize], w.wave, w.pre_yields, if w.far_future { "F" } else { "" }, w.after_quit.map(|k| format!("q{k}")).or(w.after_begin.map(|(n, k)| format!("b{n}+{k}"))).unwrap_or_default())).collect::<Vec<_>>(),
            sc.answers.iter().map(|a| format!("{}y{}s{}", ["ok", "empty", "notfound", "err"][a.res as usize], a.yields, a.sleep_ms)).collect::<Vec<_>>(),
            sc.idle_ms, sc.refetch_ms, sc.gap_ms, sc.stop_in_wave, sc.final_wait_ms, sc.perturb, sc.seed, o.hung, o.exited_all,
            if t.ok { String::new() } else { format!("UNTRANSLATABLE({})", t.why) }, o.results, tr_short);
        if sum.samples.len() < 3 && o.events.len() > 20 { sum.samples.push(line.clone()); }
        sum.index.push(line);
    }
    sh.flush();
    sum.add("distinct_schedules", traces.len() as u64);
    sum.add("distinct_outcome_multisets", outcomes.len() as u64);
    sum.write(&out, sh.total, nontrivial);
}
