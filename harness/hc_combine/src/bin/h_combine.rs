//! C04 / C19 correspondence harness: drives the real
//! `sciparse::path::combinator::combine` on generated segment sets (well-formed topologies,
//! mutated topologies, directed boundary cases, random segment soup) and writes the inputs
//! together with the observed result as Coq case files (`Sci.Combine.Cases.ccase`).
use std::collections::{BTreeMap, BTreeSet, HashSet};
use std::panic::AssertUnwindSafe;
use std::time::Instant;

use sciparse::{
    core::view::View,
    dataplane_path::{standard::types::HopFieldMac, view::ScionDpPathView},
    identifier::isd_asn::IsdAsn,
    path::{ScionPath, combinator::combine},
    segment::{AsEntry, HopEntry, PeerEntry, SegmentHopField, UnsignedPathSegment},
};
use vcommon::*;

// ---------------------------------------------------------------------------------------------
// input representation
// ---------------------------------------------------------------------------------------------

const fn ia(isd: u64, asn: u64) -> u64 { (isd << 48) | asn }
fn fmt_ia(x: u64) -> String {
    let (isd, asn) = (x >> 48, x & 0xffff_ffff_ffff);
    if asn < 0x1_0000_0000 { format!("{isd}-{asn}") }
    else { format!("{isd}-{:x}:{:x}:{:x}", asn >> 32, (asn >> 16) & 0xffff, asn & 0xffff) }
}

/// a path segment with public fields (SegmentInfo of PathSegment is private)
#[derive(Clone)]
struct S { ts: u32, sid: u16, e: Vec<AsEntry> }
impl S {
    fn seg(&self) -> UnsignedPathSegment { UnsignedPathSegment::new(self.ts, self.sid, self.e.clone()) }
}

/// one call of combine
#[derive(Clone)]
struct Q {
    stream: String, desc: String, src: u64, dst: u64,
    cores: Vec<S>, ncs: Vec<S>,
    /// AS alphabet for mutators
    ases: Vec<u64>,
    wf: bool,
    /// for "valid set + added segments" cases: the valid subset (cores, non-cores)
    sub: Option<(Vec<S>, Vec<S>)>,
    /// the reference paths must keep their relative order (false: peer indices were shifted)
    sub_ordered: bool,
    /// how often the implementation is called (fresh HashMaps each time)
    runs: usize,
}

fn hopf(exp: u8, ing: u16, eg: u16, mac: [u8; 6]) -> SegmentHopField {
    SegmentHopField { expiration_units: exp, cons_ingress: ing, cons_egress: eg, mac: HopFieldMac(mac) }
}
fn rmac(rng: &mut Rng) -> [u8; 6] { let x = rng.next().to_be_bytes(); [x[0], x[1], x[2], x[3], x[4], x[5]] }
fn entry(local: u64, next: u64, mtu: u32, imtu: u16, hf: SegmentHopField, peers: Vec<PeerEntry>) -> AsEntry {
    AsEntry { local: IsdAsn::from_u64(local), next: IsdAsn::from_u64(next), mtu,
              hop_entry: HopEntry { ingress_mtu: imtu, hop_field: hf }, peer_entries: peers,
              extensions: vec![], unsigned_extensions: vec![] }
}
/// simple entry for directed cases
fn ent(rng: &mut Rng, local: u64, next: u64, ing: u16, eg: u16) -> AsEntry {
    entry(local, next, 1500, if ing == 0 { 0 } else { 1400 }, hopf(63, ing, eg, rmac(rng)), vec![])
}
fn peer(rng: &mut Rng, peer: u64, peer_if: u16, local_if: u16, eg: u16, pmtu: u16) -> PeerEntry {
    PeerEntry { peer: IsdAsn::from_u64(peer), peer_interface: peer_if, peer_mtu: pmtu,
                hop_field: hopf(63, local_if, eg, rmac(rng)) }
}
const TS0: u32 = 1_700_000_000;

// ---------------------------------------------------------------------------------------------
// topologies and beaconing
// ---------------------------------------------------------------------------------------------

#[derive(Clone, Copy)]
struct L { a: u64, aif: u16, b: u64, bif: u16, mtu: u16 }

#[derive(Clone)]
struct Topo { name: String, ases: Vec<(u64, bool)>, pc: Vec<L>, cl: Vec<L>, pl: Vec<L>, next_if: BTreeMap<u64, u16>,
              /// requests to ask first (routes that order differently by segment count and by link count, ...)
              focus: Vec<(u64, u64)> }

impl Topo {
    fn new(name: &str, cores: &[u64]) -> Self {
        Topo { name: name.into(), ases: cores.iter().map(|&c| (c, true)).collect(), pc: vec![], cl: vec![],
               pl: vec![], next_if: BTreeMap::new(), focus: vec![] }
    }
    fn reg(&mut self, x: u64) { if !self.ases.iter().any(|a| a.0 == x) { self.ases.push((x, false)); } }
    fn nif(&mut self, x: u64) -> u16 { let c = self.next_if.entry(x).or_insert(0); *c += 1; *c }
    fn mk(&mut self, a: u64, aif: u16, b: u64, bif: u16) -> L {
        self.reg(a); self.reg(b);
        let mtu = 1200 + ((aif as u32 * 31 + bif as u32 * 17 + ((a ^ b) & 0xff) as u32 * 7) % 300) as u16;
        L { a, aif, b, bif, mtu }
    }
    /// parent -> child, explicit interface ids
    fn pcx(&mut self, a: u64, aif: u16, b: u64, bif: u16) { let l = self.mk(a, aif, b, bif); self.pc.push(l); }
    fn clx(&mut self, a: u64, aif: u16, b: u64, bif: u16) { let l = self.mk(a, aif, b, bif); self.cl.push(l); }
    fn plx(&mut self, a: u64, aif: u16, b: u64, bif: u16) { let l = self.mk(a, aif, b, bif); self.pl.push(l); }
    /// automatic interface ids (unique per AS, non-zero)
    fn pca(&mut self, a: u64, b: u64) { let (x, y) = (self.nif(a), self.nif(b)); self.pcx(a, x, b, y); }
    fn cla(&mut self, a: u64, b: u64) { let (x, y) = (self.nif(a), self.nif(b)); self.clx(a, x, b, y); }
    /// peering interfaces are numbered from 101 (so that a peer hop field never looks like a
    /// regular hop field of some other AS: hypothesis `peer_sig_distinctb` of combine_sorted)
    fn pla(&mut self, a: u64, b: u64) { let (x, y) = (self.nif(a) + 100, self.nif(b) + 100); self.plx(a, x, b, y); }
    fn as_mtu(x: u64) -> u32 { 1400 + (x % 13) as u32 * 50 }
}

#[derive(Clone, Copy)]
struct Step { ia: u64, ing: u16, eg: u16, imtu: u16 }

/// all simple walks (>= 2 ASes, <= maxlen ASes) along directed links (from, from_if, to, to_if, mtu)
fn rec(path: &mut Vec<Step>, links: &[(u64, u16, u64, u16, u16)], maxlen: usize, res: &mut Vec<Vec<Step>>) {
    if path.len() >= maxlen { return; }
    let cur = path.last().unwrap().ia;
    for &(f, fi, t, ti, m) in links {
        if f != cur || path.iter().any(|s| s.ia == t) { continue; }
        let n = path.len();
        path[n - 1].eg = fi;
        path.push(Step { ia: t, ing: ti, eg: 0, imtu: m });
        res.push(path.clone());
        rec(path, links, maxlen, res);
        path.pop();
        path[n - 1].eg = 0;
    }
}

fn mk_seg(t: &Topo, walk: &[Step], non_core: bool, rng: &mut Rng) -> S {
    let mut e = vec![];
    for (i, s) in walk.iter().enumerate() {
        let next = walk.get(i + 1).map(|n| n.ia).unwrap_or(0);
        let mut peers = vec![];
        if non_core && i > 0 {
            for l in &t.pl {
                let side = if l.a == s.ia { Some((l.aif, l.b, l.bif)) } else if l.b == s.ia { Some((l.bif, l.a, l.aif)) } else { None };
                if let Some((lif, r, rif)) = side {
                    peers.push(PeerEntry { peer: IsdAsn::from_u64(r), peer_interface: rif, peer_mtu: l.mtu,
                        hop_field: hopf(rng.range(10, 63) as u8, lif, s.eg, rmac(rng)) });
                }
            }
        }
        e.push(entry(s.ia, next, Topo::as_mtu(s.ia), s.imtu,
                     hopf(rng.range(10, 63) as u8, s.ing, s.eg, rmac(rng)), peers));
    }
    S { ts: TS0 + rng.below(3600) as u32, sid: rng.below(65536) as u16, e }
}

/// (core segments, non-core segments) of the whole topology
fn beacon(t: &Topo, rng: &mut Rng) -> (Vec<S>, Vec<S>) {
    let mut cl: Vec<(u64, u16, u64, u16, u16)> = vec![];
    for l in &t.cl { cl.push((l.a, l.aif, l.b, l.bif, l.mtu)); cl.push((l.b, l.bif, l.a, l.aif, l.mtu)); }
    let pc: Vec<(u64, u16, u64, u16, u16)> = t.pc.iter().map(|l| (l.a, l.aif, l.b, l.bif, l.mtu)).collect();
    let (mut cores, mut ncs) = (vec![], vec![]);
    for &(c, is_core) in &t.ases {
        if !is_core { continue; }
        let mut res = vec![];
        rec(&mut vec![Step { ia: c, ing: 0, eg: 0, imtu: 0 }], &cl, 4, &mut res);
        for w in &res { cores.push(mk_seg(t, w, false, rng)); }
        let mut res = vec![];
        rec(&mut vec![Step { ia: c, ing: 0, eg: 0, imtu: 0 }], &pc, 5, &mut res);
        for w in &res { ncs.push(mk_seg(t, w, true, rng)); }
    }
    (cores, ncs)
}

fn last_ia(s: &S) -> Option<u64> { s.e.last().map(|e| e.local.to_u64()) }
fn first_ia(s: &S) -> Option<u64> { s.e.first().map(|e| e.local.to_u64()) }

/// the segment set a lookup for (src, dst) would return
fn select(t: &Topo, cores: &[S], ncs: &[S], src: u64, dst: u64, all_nc: bool) -> (Vec<S>, Vec<S>) {
    let mine: Vec<S> = ncs.iter().filter(|s| last_ia(s) == Some(src) || last_ia(s) == Some(dst)).cloned().collect();
    let sel_nc = if all_nc { ncs.to_vec() } else { mine.clone() };
    let sel_c = if cores.len() <= 10 { cores.to_vec() } else {
        let is_core = |x: u64| t.ases.iter().any(|a| a.0 == x && a.1);
        let mut a: BTreeSet<u64> = mine.iter().filter(|s| last_ia(s) == Some(src)).filter_map(first_ia).collect();
        let mut b: BTreeSet<u64> = mine.iter().filter(|s| last_ia(s) == Some(dst)).filter_map(first_ia).collect();
        if is_core(src) { a.insert(src); }
        if is_core(dst) { b.insert(dst); }
        cores.iter().filter(|s| {
            let (f, l) = (first_ia(s).unwrap_or(0), last_ia(s).unwrap_or(0));
            (a.contains(&f) && b.contains(&l)) || (b.contains(&f) && a.contains(&l))
        }).cloned().collect()
    };
    (sel_c, sel_nc)
}

fn default_graph() -> Topo {
    let f = |isd: u64, x: u64| ia(isd, 0xff00_0000_0000 | x);
    let (a110, a120, a130, a210, a220) = (f(1, 0x110), f(1, 0x120), f(1, 0x130), f(2, 0x210), f(2, 0x220));
    let (a111, a112, a121, a122, a131, a132, a133) =
        (f(1, 0x111), f(1, 0x112), f(1, 0x121), f(1, 0x122), f(1, 0x131), f(1, 0x132), f(1, 0x133));
    let (a211, a212, a221, a222) = (f(2, 0x211), f(2, 0x212), f(2, 0x221), f(2, 0x222));
    let mut g = Topo::new("default_graph", &[a110, a120, a130, a210, a220]);
    g.clx(a110, 1, a120, 6); g.clx(a110, 2, a130, 104); g.clx(a110, 3, a210, 453); g.clx(a120, 1, a130, 105);
    g.clx(a120, 2, a220, 501); g.clx(a120, 3, a220, 502); g.clx(a210, 450, a220, 503);
    g.pcx(a120, 4, a121, 3); g.pcx(a120, 5, a111, 104); g.pcx(a130, 111, a131, 479); g.pcx(a130, 112, a111, 105);
    g.pcx(a130, 113, a112, 495); g.pcx(a111, 103, a112, 494); g.pcx(a121, 2, a122, 2); g.pcx(a131, 478, a132, 2);
    g.pcx(a132, 1, a133, 2); g.pcx(a210, 451, a211, 7); g.pcx(a210, 452, a211, 8); g.pcx(a220, 500, a221, 2);
    g.pcx(a211, 2, a212, 201); g.pcx(a211, 3, a212, 200); g.pcx(a211, 4, a222, 301); g.pcx(a221, 1, a222, 302);
    g.plx(a111, 100, a121, 4); g.plx(a111, 101, a211, 5); g.plx(a111, 102, a211, 6); g.plx(a121, 1, a131, 480);
    g.plx(a122, 1, a133, 1); g.plx(a211, 1, a221, 3);
    g
}

fn topologies() -> Vec<Topo> {
    let a = |n: u64| ia(1, n);
    let b = |n: u64| ia(2, n);
    let mut v = vec![];
    let mut t = Topo::new("c1_chain1", &[a(1)]); t.pca(a(1), a(2)); v.push(t);
    let mut t = Topo::new("c1_chain2", &[a(1)]); t.pca(a(1), a(2)); t.pca(a(2), a(3)); v.push(t);
    let mut t = Topo::new("c1_chain3", &[a(1)]); t.pca(a(1), a(2)); t.pca(a(2), a(3)); t.pca(a(3), a(4)); v.push(t);
    let mut t = Topo::new("c1_two_children", &[a(1)]); t.pca(a(1), a(2)); t.pca(a(1), a(3)); v.push(t);
    let mut t = Topo::new("c1_tree", &[a(1)]);
    t.pca(a(1), a(2)); t.pca(a(1), a(3)); t.pca(a(2), a(4)); t.pca(a(2), a(5)); t.pca(a(3), a(6)); v.push(t);
    let mut t = Topo::new("c2_mesh_1child", &[a(1), a(2)]); t.cla(a(1), a(2)); t.pca(a(1), a(3)); t.pca(a(2), a(4)); v.push(t);
    let mut t = Topo::new("c2_mesh_2children", &[a(1), a(2)]);
    t.cla(a(1), a(2)); t.pca(a(1), a(3)); t.pca(a(1), a(4)); t.pca(a(2), a(5)); t.pca(a(2), a(6)); v.push(t);
    let mut t = Topo::new("c3_mesh", &[a(1), a(2), a(3)]);
    t.cla(a(1), a(2)); t.cla(a(2), a(3)); t.cla(a(1), a(3)); t.pca(a(1), a(4)); t.pca(a(2), a(5)); t.pca(a(3), a(6)); v.push(t);
    let mut t = Topo::new("c3_line", &[a(1), a(2), a(3)]);
    t.cla(a(1), a(2)); t.cla(a(2), a(3)); t.pca(a(1), a(4)); t.pca(a(3), a(5)); v.push(t);
    let mut t = Topo::new("diamond", &[a(1)]);
    t.pca(a(1), a(2)); t.pca(a(1), a(3)); t.pca(a(2), a(4)); t.pca(a(3), a(4)); v.push(t);
    let mut t = Topo::new("diamond_2cores", &[a(1), a(2)]); t.cla(a(1), a(2)); t.pca(a(1), a(3)); t.pca(a(2), a(3)); v.push(t);
    let mut t = Topo::new("two_isd", &[a(1), b(1)]); t.cla(a(1), b(1)); t.pca(a(1), a(2)); t.pca(b(1), b(2)); v.push(t);
    let mut t = Topo::new("two_isd_2cores", &[a(1), a(2), b(1), b(2)]);
    t.cla(a(1), a(2)); t.cla(a(1), b(1)); t.cla(a(2), b(2)); t.cla(b(1), b(2)); t.pca(a(1), a(3)); t.pca(b(2), b(3)); v.push(t);
    let mut t = Topo::new("parallel_pc", &[a(1)]); t.pca(a(1), a(2)); t.pca(a(1), a(2)); t.pca(a(2), a(3)); v.push(t);
    let mut t = Topo::new("parallel_core", &[a(1), a(2)]);
    t.cla(a(1), a(2)); t.cla(a(1), a(2)); t.pca(a(1), a(3)); t.pca(a(2), a(4)); v.push(t);
    let mut t = Topo::new("peer_siblings", &[a(1)]); t.pca(a(1), a(2)); t.pca(a(1), a(3)); t.pla(a(2), a(3)); v.push(t);
    let mut t = Topo::new("peer_diff_cores", &[a(1), a(2)]);
    t.cla(a(1), a(2)); t.pca(a(1), a(3)); t.pca(a(2), a(4)); t.pla(a(3), a(4)); v.push(t);
    let mut t = Topo::new("peer_inter_isd", &[a(1), b(1)]);
    t.cla(a(1), b(1)); t.pca(a(1), a(2)); t.pca(b(1), b(2)); t.pla(a(2), b(2)); v.push(t);
    let mut t = Topo::new("two_chains", &[a(1)]);
    t.pca(a(1), a(2)); t.pca(a(2), a(4)); t.pca(a(1), a(3)); t.pca(a(3), a(4)); t.pca(a(4), a(5)); v.push(t);
    let mut t = Topo::new("depth3_peer", &[a(1), a(2)]);
    t.cla(a(1), a(2)); t.pca(a(1), a(3)); t.pca(a(3), a(5)); t.pca(a(5), a(7));
    t.pca(a(2), a(4)); t.pca(a(4), a(6)); t.pca(a(6), a(8)); t.pla(a(5), a(6)); v.push(t);
    let mut t = Topo::new("depth3_peer_same_core", &[a(1)]);
    t.pca(a(1), a(2)); t.pca(a(2), a(4)); t.pca(a(4), a(6)); t.pca(a(1), a(3)); t.pca(a(3), a(5)); t.pca(a(5), a(7));
    t.pla(a(4), a(5)); v.push(t);
    let mut t = Topo::new("peer_parallel", &[a(1), a(2)]);
    t.cla(a(1), a(2)); t.pca(a(1), a(3)); t.pca(a(2), a(4)); t.pla(a(3), a(4)); t.pla(a(3), a(4)); v.push(t);
    let mut t = Topo::new("peer_core_noncore", &[a(1), a(2)]);
    t.cla(a(1), a(2)); t.pca(a(1), a(3)); t.pca(a(2), a(4)); t.pla(a(3), a(2)); v.push(t);
    let mut t = Topo::new("mixed", &[a(1), a(2), b(1)]);
    t.cla(a(1), a(2)); t.cla(a(2), b(1)); t.pca(a(1), a(3)); t.pca(a(3), a(5)); t.pca(a(2), a(4));
    t.pca(b(1), b(2)); t.pca(b(1), b(2)); t.pca(b(2), b(3)); t.pla(a(3), a(4)); t.pla(a(5), b(2)); v.push(t);
    let mut t = Topo::new("shortcut_tree", &[a(1)]);
    t.pca(a(1), a(2)); t.pca(a(2), a(3)); t.pca(a(2), a(4)); t.pca(a(3), a(5)); t.pca(a(4), a(6)); v.push(t);
    let mut t = Topo::new("three_parents", &[a(1), a(2), a(3)]);
    t.cla(a(1), a(2)); t.cla(a(2), a(3)); t.cla(a(1), a(3)); t.pca(a(1), a(4)); t.pca(a(2), a(4)); t.pca(a(3), a(4));
    t.pca(a(4), a(5)); v.push(t);
    let mut t = Topo::new("peer_uncle", &[a(1)]);
    t.pca(a(1), a(2)); t.pca(a(1), a(3)); t.pca(a(2), a(4)); t.pca(a(3), a(5)); t.pla(a(4), a(3)); t.pla(a(2), a(5)); v.push(t);
    // --- routes whose segment count and link count order differently / tie in one key only ---
    // S dual-homed: directly under core 1, and at depth 3 under core 2; D directly under core 2:
    // S-1-2-D is 3 links over 3 segments, S-6-5-2-D is 4 links over 2 segments
    let mut t = Topo::new("dual_home_long", &[a(1), a(2)]);
    t.cla(a(1), a(2)); t.pca(a(1), a(3)); t.pca(a(2), a(4)); t.pca(a(2), a(5)); t.pca(a(5), a(6)); t.pca(a(6), a(3));
    t.focus = vec![(a(3), a(4)), (a(4), a(3))]; v.push(t);
    // both ends dual-homed with long second chains
    let mut t = Topo::new("dual_home_both", &[a(1), a(2)]);
    t.cla(a(1), a(2)); t.pca(a(1), a(3)); t.pca(a(2), a(4));
    t.pca(a(2), a(5)); t.pca(a(5), a(6)); t.pca(a(6), a(3));
    t.pca(a(1), a(7)); t.pca(a(7), a(8)); t.pca(a(8), a(4));
    t.focus = vec![(a(3), a(4)), (a(4), a(3))]; v.push(t);
    // equal links, different segment count: S-1-2-D (3 segments) vs S-5-2-D (2 segments)
    let mut t = Topo::new("three_vs_two", &[a(1), a(2)]);
    t.cla(a(1), a(2)); t.pca(a(1), a(3)); t.pca(a(2), a(4)); t.pca(a(2), a(5)); t.pca(a(5), a(3));
    t.focus = vec![(a(3), a(4)), (a(4), a(3))]; v.push(t);
    // peering vs non-peering with equal cost: S-1-D and S~X-D are both 2 links over 2 segments
    let mut t = Topo::new("peer_equal_cost", &[a(1)]);
    t.pca(a(1), a(2)); t.pca(a(1), a(3)); t.pca(a(3), a(4)); t.pca(a(1), a(4)); t.pla(a(2), a(3));
    t.focus = vec![(a(2), a(4)), (a(4), a(2))]; v.push(t);
    // shortcut vs non-shortcut with equal cost: S-A-D (shortcut at A) and S-2-D
    let mut t = Topo::new("shortcut_equal_cost", &[a(1), a(2)]);
    t.cla(a(1), a(2)); t.pca(a(1), a(3)); t.pca(a(3), a(4)); t.pca(a(3), a(5)); t.pca(a(2), a(4)); t.pca(a(2), a(5));
    t.focus = vec![(a(4), a(5)), (a(5), a(4))]; v.push(t);
    // a cheap 3-segment route against expensive shortcut / peering routes
    let mut t = Topo::new("cheap_three_segments", &[a(1), a(2), a(3)]);
    t.cla(a(1), a(2)); t.cla(a(2), a(3)); t.cla(a(1), a(3)); t.pca(a(1), a(4)); t.pca(a(3), a(5));
    t.pca(a(2), a(6)); t.pca(a(6), a(7)); t.pca(a(7), a(8)); t.pca(a(8), a(4)); t.pca(a(8), a(5));
    t.pca(a(1), a(9)); t.pca(a(9), a(10)); t.pca(a(10), a(11)); t.pca(a(3), a(12)); t.pca(a(12), a(13)); t.pca(a(13), a(14));
    t.pca(a(11), a(4)); t.pca(a(14), a(5)); t.pla(a(11), a(14));
    t.focus = vec![(a(4), a(5)), (a(5), a(4))]; v.push(t);
    // --- the same AS number in different ISDs (1-n and 2-n are different ASes) ---
    // cores 1-1 and 2-1, leaves 1-2 and 2-2: 1-2 -> 1-1 -> 2-1 -> 2-2 is loop-free
    let mut t = Topo::new("isd_same_asn_all", &[a(1), b(1)]);
    t.cla(a(1), b(1)); t.pca(a(1), a(2)); t.pca(b(1), b(2));
    t.focus = vec![(a(2), b(2)), (b(2), a(2)), (a(2), b(1)), (a(1), b(2))]; v.push(t);
    // leaf 1-3 under core 1-1; core 2-3 (same number as the leaf) with leaf 2-1 (same number as the other core)
    let mut t = Topo::new("isd_leaf_core_same_asn", &[a(1), b(3)]);
    t.cla(a(1), b(3)); t.pca(a(1), a(3)); t.pca(b(3), b(1));
    t.focus = vec![(a(3), b(1)), (b(1), a(3)), (a(3), b(3)), (b(1), a(1))]; v.push(t);
    // repeated numbers inside the up segment (2-2 -> 2-4 | 1-4 ...) and inside the down segment
    let mut t = Topo::new("isd_same_asn_chains", &[a(1), b(1)]);
    t.cla(a(1), b(1)); t.pca(a(1), a(4)); t.pca(a(4), a(2)); t.pca(b(1), b(4)); t.pca(b(4), b(2));
    t.focus = vec![(a(2), b(2)), (b(2), a(2)), (a(2), b(4)), (a(4), b(2))]; v.push(t);
    // three ISDs, the core of each has AS number 1, transit through the middle ISD; peering across ISDs
    let c3 = |n: u64| ia(3, n);
    let mut t = Topo::new("isd3_same_asn_transit", &[a(1), b(1), c3(1)]);
    t.cla(a(1), b(1)); t.cla(b(1), c3(1)); t.pca(a(1), a(2)); t.pca(c3(1), c3(2)); t.pca(b(1), b(2)); t.pla(a(2), b(2));
    t.focus = vec![(a(2), c3(2)), (c3(2), a(2)), (a(2), b(2)), (b(2), c3(2))]; v.push(t);
    v.push(default_graph());
    v
}

// ---------------------------------------------------------------------------------------------
// Coq literals
// ---------------------------------------------------------------------------------------------

fn mac_num(m: &[u8; 6]) -> u64 { m.iter().fold(0u64, |a, &b| (a << 8) | b as u64) }
fn c_hf(h: &SegmentHopField) -> String {
    format!("(mkHF {} {} {} {})", h.expiration_units, h.cons_ingress, h.cons_egress, mac_num(&h.mac.0))
}
fn c_pe(p: &PeerEntry) -> String {
    format!("(mkPE {} {} {} {})", p.peer.to_u64(), p.peer_interface, p.peer_mtu, c_hf(&p.hop_field))
}
fn c_ae(e: &AsEntry) -> String {
    format!("(mkAE {} {} {} {} {} {})", e.local.to_u64(), e.next.to_u64(), e.mtu, e.hop_entry.ingress_mtu,
            c_hf(&e.hop_entry.hop_field), coq_list(e.peer_entries.iter().map(c_pe)))
}
fn c_seg(s: &S) -> String { format!("(mkSeg {} {} {})", s.ts, s.sid, coq_list(s.e.iter().map(c_ae))) }

/// big-endian byte string -> decimal
fn dec(bytes: &[u8]) -> String {
    let mut v = bytes.to_vec();
    let mut digits = vec![];
    loop {
        let (mut rem, mut zero) = (0u32, true);
        for b in v.iter_mut() {
            let cur = rem * 256 + *b as u32;
            *b = (cur / 10) as u8;
            rem = cur % 10;
            if *b != 0 { zero = false; }
        }
        digits.push(b'0' + rem as u8);
        if zero { break; }
    }
    digits.reverse();
    String::from_utf8(digits).unwrap()
}

/// the 32 bytes of a SegmentID (no accessor: parsed from its derived Debug output)
fn id_bytes(seg: &UnsignedPathSegment) -> Vec<u8> {
    let d = format!("{:?}", seg.id());
    let inner = &d[d.find('[').expect("SegmentID debug") + 1..d.rfind(']').expect("SegmentID debug")];
    let v: Vec<u8> = inner.split(',').map(|x| x.trim().parse().expect("SegmentID byte")).collect();
    assert_eq!(v.len(), 32, "SegmentID has 32 bytes");
    v
}

struct PathObs { text: String, nsegs: usize, peering: bool }

fn obs(p: &ScionPath) -> PathObs {
    let mut segs = vec![];
    let mut peering = false;
    if let ScionDpPathView::Standard(v) = p.dp_path() {
        for (k, (info, hops)) in v.segments().enumerate() {
            if k == 0 && info.flags().bits() & 2 != 0 { peering = true; }
            let hs = coq_list(hops.iter().map(|h| format!("({}, {}, {}, {})", h.exp_time(), h.cons_ingress(),
                                                           h.cons_egress(), mac_num(&h.mac().0))));
            segs.push(format!("(mkOS {} {} {} {})", info.flags().bits(), info.segment_id(), info.timestamp(), hs));
        }
    }
    let (mexp, mtu, ifs) = match p.metadata() {
        Some(m) => (m.expiration, m.mtu as u64,
                    m.interfaces.as_ref().map(|l| l.iter().map(|i| format!("({}, {})", i.interface.isd_asn.to_u64(), i.interface.id)).collect::<Vec<_>>())
                        .unwrap_or_default()),
        None => (0, 0, vec![]),
    };
    let nsegs = segs.len();
    PathObs { text: format!("(mkOP {} {} {} {} {} {} {})", p.src_ia().to_u64(), p.dst_ia().to_u64(), coq_list(segs),
                            p.expiration().unwrap_or(0), mexp, mtu, coq_list(ifs)),
              nsegs, peering }
}

struct Out { panic: bool, stable: bool, paths: Vec<PathObs>, bytes0: Vec<u8>, ms: u128, sub: Option<Vec<PathObs>>,
             /// results of repeated calls that differ from `paths`
             alt: Vec<Vec<PathObs>> }

fn run(q: &Q) -> Out {
    let cores: Vec<UnsignedPathSegment> = q.cores.iter().map(|s| s.seg()).collect();
    let ncs: Vec<UnsignedPathSegment> = q.ncs.iter().map(|s| s.seg()).collect();
    let (src, dst) = (IsdAsn::from_u64(q.src), IsdAsn::from_u64(q.dst));
    let mut first: Option<(Vec<PathObs>, Vec<u8>)> = None;
    let (mut stable, mut panic, mut ms) = (true, false, 0u128);
    let mut alt: Vec<Vec<PathObs>> = vec![];
    for _ in 0..q.runs.max(1) {
        let (c, n) = (cores.clone(), ncs.clone());
        let t0 = Instant::now();
        let r = catch(AssertUnwindSafe(|| combine(src, dst, c, n)));
        ms = ms.max(t0.elapsed().as_millis());
        match r {
            None => { panic = true; }
            Some(ps) => {
                let o: Vec<PathObs> = ps.iter().map(obs).collect();
                let b0 = match ps.first().map(|p| p.dp_path()) {
                    Some(ScionDpPathView::Standard(v)) => v.as_slice().to_vec(),
                    _ => vec![],
                };
                match &first {
                    None => first = Some((o, b0)),
                    Some((f, fb)) => {
                        if f.len() != o.len() || f.iter().zip(o.iter()).any(|(a, b)| a.text != b.text) || *fb != b0 {
                            stable = false;
                            let same = |x: &Vec<PathObs>| x.len() == o.len() && x.iter().zip(o.iter()).all(|(a, b)| a.text == b.text);
                            if !alt.iter().any(same) { alt.push(o.iter().map(|p| PathObs { text: p.text.clone(), nsegs: p.nsegs, peering: p.peering }).collect()); }
                            if std::env::var("HC_DEBUG_UNSTABLE").is_ok() {
                                eprintln!("UNSTABLE src={} dst={}", fmt_ia(q.src), fmt_ia(q.dst));
                                for (k, a) in f.iter().enumerate() { eprintln!("  run1[{k}] {}", a.text); }
                                for (k, a) in o.iter().enumerate() { eprintln!("  runN[{k}] {}", a.text); }
                            }
                        }
                    }
                }
            }
        }
    }
    // metamorphic reference: the valid subset alone
    let sub = q.sub.as_ref().and_then(|(sc, sn)| {
        let c: Vec<UnsignedPathSegment> = sc.iter().map(|s| s.seg()).collect();
        let n: Vec<UnsignedPathSegment> = sn.iter().map(|s| s.seg()).collect();
        catch(AssertUnwindSafe(|| combine(src, dst, c, n))).map(|ps| ps.iter().map(obs).collect::<Vec<_>>())
    });
    if panic { return Out { panic, stable, paths: vec![], bytes0: vec![], ms, sub, alt: vec![] }; }
    let (paths, bytes0) = first.unwrap();
    Out { panic, stable, paths, bytes0, ms, sub, alt }
}

fn case_text(q: &Q, o: &Out) -> String {
    let segs: Vec<UnsignedPathSegment> = q.cores.iter().chain(q.ncs.iter()).map(|s| s.seg()).collect();
    let ids: Vec<Vec<u8>> = segs.iter().map(id_bytes).collect();
    // the extracted bytes order exactly like SegmentID::cmp
    for k in 0..ids.len().saturating_sub(1).min(4) {
        assert_eq!(ids[k].cmp(&ids[k + 1]), segs[k].id().cmp(&segs[k + 1].id()), "SegmentID order");
    }
    format!("(mkCase {} {} {} {} {} {} {} {} {} {} {} {} {})", q.src, q.dst,
            coq_list(q.cores.iter().map(c_seg)), coq_list(q.ncs.iter().map(c_seg)),
            coq_list(ids.iter().map(|b| dec(b))), coq_bool(q.wf), coq_bool(o.panic), coq_bool(o.stable),
            coq_list(o.paths.iter().map(|p| p.text.clone())), coq_bytes(&o.bytes0),
            if o.sub.is_none() { 0 } else if q.sub_ordered { 1 } else { 2 },
            coq_list(o.sub.as_ref().map(|v| v.iter().map(|p| p.text.clone()).collect::<Vec<_>>()).unwrap_or_default()),
            coq_list(o.alt.iter().map(|v| coq_list(v.iter().map(|p| p.text.clone())))))
}

// ---------------------------------------------------------------------------------------------
// generators
// ---------------------------------------------------------------------------------------------

struct Limits { max_segs: usize, max_paths_c04: usize, max_paths_c19: usize, soup_k: u64 }

/// a query of the well-formed stream; `variant`: 0 plain, 1 shuffled, 2 duplicated + shuffled,
/// 3 all non-core segments, 4 refreshed segment (tie case, wf = false), 5 random subset of the
/// segments (still well-formed; fewer or no paths)
fn topo_query(t: &Topo, src: u64, dst: u64, variant: u64, rng: &mut Rng) -> Q {
    let (cs, ns) = beacon(t, rng);
    let (mut cores, mut ncs) = select(t, &cs, &ns, src, dst, variant == 3);
    let bneck = systematic_mtus(&mut cores, &mut ncs, rng);
    let mut wf = true;
    let (stream, vname) = match variant {
        0 => ("c04", "plain"), 1 => ("c04", "shuffled"), 2 => ("c04", "dup+shuffled"), 3 => ("c04", "all_noncores"),
        5 => ("c04", "subset"),
        6 => ("refresh", "multi_refresh"),
        _ => ("refresh", "refreshed_segment"),
    };
    let mut runs = 3;
    if variant == 6 {
        // 3..=6 instances of one or two segments (any position: up, core, down) with pairwise
        // different timestamps / hop expiries; half of the copies differ only in one hop's ExpTime.
        // De-duplication must keep the latest expiry whatever order the HashMap yields: 8 calls.
        for _ in 0..rng.range(1, 2) {
            let (nc, nn) = (cores.len(), ncs.len());
            if nc + nn == 0 { break; }
            let k = rng.below((nc + nn) as u64) as usize;
            let base = if k < nc { cores[k].clone() } else { ncs[k - nc].clone() };
            let copies = rng.range(2, 5);
            for j in 0..copies {
                let mut s = base.clone();
                if rng.chance(1, 2) {
                    s.ts = base.ts.wrapping_add(400 * (j as u32 + 1) + rng.below(300) as u32);
                    s.sid = rng.below(65536) as u16;
                    for e in s.e.iter_mut() {
                        e.hop_entry.hop_field.expiration_units = rng.range(5, 70) as u8;
                        for p in e.peer_entries.iter_mut() { p.hop_field.expiration_units = rng.range(5, 70) as u8; }
                    }
                } else if !s.e.is_empty() {
                    let i = rng.below(s.e.len() as u64) as usize;
                    s.e[i].hop_entry.hop_field.expiration_units = (3 + 9 * j as u8 + rng.below(8) as u8) % 80;
                    for p in s.e[i].peer_entries.iter_mut() { p.hop_field.expiration_units = (1 + 11 * j as u8) % 80; }
                }
                if k < nc { cores.push(s); } else { ncs.push(s); }
            }
        }
        wf = false;
        runs = 8;
    }
    if variant == 5 {
        cores.retain(|_| !rng.chance(1, 3));
        ncs.retain(|_| !rng.chance(1, 3));
    }
    if variant == 2 {
        for _ in 0..rng.range(1, 3) {
            let (nc, nn) = (cores.len(), ncs.len());
            if nc + nn == 0 { break; }
            let k = rng.below((nc + nn) as u64) as usize;
            if k < nc { let s = cores[k].clone(); cores.push(s); } else { let s = ncs[k - nc].clone(); ncs.push(s); }
        }
    }
    if variant == 4 {
        let (nc, nn) = (cores.len(), ncs.len());
        if nc + nn > 0 {
            let k = rng.below((nc + nn) as u64) as usize;
            let mut s = if k < nc { cores[k].clone() } else { ncs[k - nc].clone() };
            s.ts += rng.range(1, 1000) as u32;
            s.sid = rng.below(65536) as u16;
            for e in s.e.iter_mut() {
                e.hop_entry.hop_field.expiration_units = rng.range(5, 70) as u8;
                for p in e.peer_entries.iter_mut() { p.hop_field.expiration_units = rng.range(5, 70) as u8; }
            }
            if k < nc { cores.push(s); } else { ncs.push(s); }
            wf = false;
        }
    }
    if variant == 4 { runs = 8; }
    if variant >= 1 { rng.shuffle(&mut cores); rng.shuffle(&mut ncs); }
    Q { stream: stream.into(), desc: format!("{}/{}{}", t.name, vname, bneck), src, dst, cores, ncs,
        ases: t.ases.iter().map(|a| a.0).collect(), wf, sub: None, sub_ordered: true, runs }
}

/// Every AS MTU, every link (hop ingress) MTU and every peering-link MTU of the query is drawn
/// independently from a pool of pairwise distinct values (consistent per AS / per link across the
/// segments), so that the minimum is unique and falls on every kind of position (first / transit /
/// shortcut / peering / last AS, ingress links, peering links) over the cases; in half of the
/// queries one randomly chosen slot is additionally forced to be the unique bottleneck.
fn systematic_mtus(cores: &mut Vec<S>, ncs: &mut Vec<S>, rng: &mut Rng) -> String {
    let mut pool: Vec<u32> = (0..120).map(|k| 1200 + 7 * k).collect();
    rng.shuffle(&mut pool);
    let mut next = 0usize;
    let mut take = |next: &mut usize| { let v = pool[*next % pool.len()]; *next += 1; v };
    let mut as_mtu: BTreeMap<u64, u32> = BTreeMap::new();
    let mut link_mtu: BTreeMap<(u64, u16, u64, u16), u32> = BTreeMap::new();
    let mut slots = 0usize;
    for s in cores.iter_mut().chain(ncs.iter_mut()) {
        for i in 0..s.e.len() {
            let ia_ = s.e[i].local.to_u64();
            let m = *as_mtu.entry(ia_).or_insert_with(|| take(&mut next));
            s.e[i].mtu = m; slots += 1;
            if i > 0 {
                let (pia, peg) = (s.e[i - 1].local.to_u64(), s.e[i - 1].hop_entry.hop_field.cons_egress);
                let key = (pia, peg, ia_, s.e[i].hop_entry.hop_field.cons_ingress);
                let m = *link_mtu.entry(key).or_insert_with(|| take(&mut next));
                s.e[i].hop_entry.ingress_mtu = m as u16; slots += 1;
            }
            for p in s.e[i].peer_entries.iter_mut() {
                let (a, b) = ((ia_, p.hop_field.cons_ingress), (p.peer.to_u64(), p.peer_interface));
                let key = if a <= b { (a.0, a.1, b.0, b.1) } else { (b.0, b.1, a.0, a.1) };
                let m = *link_mtu.entry(key).or_insert_with(|| take(&mut next));
                p.peer_mtu = m as u16; slots += 1;
            }
        }
    }
    if slots == 0 || rng.chance(1, 2) { return String::new(); }
    // force one slot (and its copies in the other segments) to be the unique bottleneck
    let mut k = rng.below(slots as u64) as usize;
    let mut target: Option<(u8, (u64, u16, u64, u16))> = None;
    'f: for s in cores.iter().chain(ncs.iter()) {
        for i in 0..s.e.len() {
            let ia_ = s.e[i].local.to_u64();
            if k == 0 { target = Some((0, (ia_, 0, 0, 0))); break 'f; } k -= 1;
            if i > 0 {
                if k == 0 { target = Some((1, (s.e[i - 1].local.to_u64(), s.e[i - 1].hop_entry.hop_field.cons_egress, ia_, s.e[i].hop_entry.hop_field.cons_ingress))); break 'f; }
                k -= 1;
            }
            for p in &s.e[i].peer_entries {
                if k == 0 {
                    let (a, b) = ((ia_, p.hop_field.cons_ingress), (p.peer.to_u64(), p.peer_interface));
                    target = Some((2, if a <= b { (a.0, a.1, b.0, b.1) } else { (b.0, b.1, a.0, a.1) })); break 'f;
                }
                k -= 1;
            }
        }
    }
    let Some((kind, key)) = target else { return String::new(); };
    let low = 1000 + rng.below(100) as u32;
    for s in cores.iter_mut().chain(ncs.iter_mut()) {
        for i in 0..s.e.len() {
            let ia_ = s.e[i].local.to_u64();
            if kind == 0 && ia_ == key.0 { s.e[i].mtu = low; }
            if kind == 1 && i > 0 && (s.e[i - 1].local.to_u64(), s.e[i - 1].hop_entry.hop_field.cons_egress, ia_, s.e[i].hop_entry.hop_field.cons_ingress) == key {
                s.e[i].hop_entry.ingress_mtu = low as u16;
            }
            if kind == 2 {
                for p in s.e[i].peer_entries.iter_mut() {
                    let (a, b) = ((ia_, p.hop_field.cons_ingress), (p.peer.to_u64(), p.peer_interface));
                    let kk = if a <= b { (a.0, a.1, b.0, b.1) } else { (b.0, b.1, a.0, a.1) };
                    if kk == key { p.peer_mtu = low as u16; }
                }
            }
        }
    }
    [":bneck_as", ":bneck_link", ":bneck_peerlink"][kind as usize].to_string()
}

fn all_pairs(t: &Topo) -> Vec<(u64, u64)> {
    let mut v = vec![];
    for a in &t.ases { for b in &t.ases { if a.0 != b.0 { v.push((a.0, b.0)); } } }
    v
}

const MUTATORS: [&str; 17] = ["del_entry", "dup_entry", "swap_entries", "reverse", "zero_if", "alias_if",
    "change_local", "crosswire_peer", "bogus_peer", "drop_peers", "set_mtu", "set_link_mtu", "move_seg",
    "truncate1", "empty_seg", "dup_seg_ts", "extend63"];

fn small_if(rng: &mut Rng) -> u16 { if rng.chance(1, 4) { 0 } else { rng.range(1, 6) as u16 } }

fn mutate(q: &mut Q, rng: &mut Rng) -> &'static str {
    let (nc, nn) = (q.cores.len(), q.ncs.len());
    if nc + nn == 0 { return "noop"; }
    let k = rng.below((nc + nn) as u64) as usize;
    let is_core = k < nc;
    let k = if is_core { k } else { k - nc };
    let m = if rng.chance(1, 40) { 16 } else { rng.below(16) as usize };
    let ases = q.ases.clone();
    match m {
        12 => {
            if is_core { let s = q.cores.remove(k); q.ncs.push(s); } else { let s = q.ncs.remove(k); q.cores.push(s); }
            return MUTATORS[m];
        }
        15 => {
            let l = if is_core { &mut q.cores } else { &mut q.ncs };
            let mut s = l[k].clone();
            s.ts = s.ts.wrapping_add(rng.range(1, 5000) as u32);
            if rng.chance(1, 2) { for e in s.e.iter_mut() { e.hop_entry.hop_field.expiration_units = rng.below(256) as u8; } }
            l.push(s);
            return MUTATORS[m];
        }
        _ => {}
    }
    let s = if is_core { &mut q.cores[k] } else { &mut q.ncs[k] };
    let n = s.e.len();
    let pick_e = |rng: &mut Rng| rng.below(n.max(1) as u64) as usize;
    match m {
        0 => { if n > 0 { let i = pick_e(rng); s.e.remove(i); } }
        1 => { if n > 0 { let i = pick_e(rng); let c = s.e[i].clone(); s.e.insert(i, c); } }
        2 => { if n > 1 { let (i, j) = (pick_e(rng), pick_e(rng)); s.e.swap(i, j); } }
        3 => { s.e.reverse(); }
        4 => { if n > 0 {
            let i = pick_e(rng); let e = &mut s.e[i];
            match rng.below(4) {
                0 => e.hop_entry.hop_field.cons_ingress = 0,
                1 => e.hop_entry.hop_field.cons_egress = 0,
                2 => { if let Some(p) = e.peer_entries.first_mut() { p.hop_field.cons_ingress = 0; } else { e.hop_entry.hop_field.cons_ingress = 0; } }
                _ => { if let Some(p) = e.peer_entries.first_mut() { p.peer_interface = 0; } else { e.hop_entry.hop_field.cons_egress = 0; } }
            }
        } }
        5 => { if n > 0 {
            let i = pick_e(rng); let e = &mut s.e[i];
            match rng.below(4) {
                0 => e.hop_entry.hop_field.cons_ingress = e.hop_entry.hop_field.cons_egress,
                1 => e.hop_entry.hop_field.cons_egress = e.hop_entry.hop_field.cons_ingress,
                2 => { let x = e.hop_entry.hop_field.cons_ingress; if let Some(p) = e.peer_entries.first_mut() { p.hop_field.cons_ingress = x; } else { e.hop_entry.hop_field.cons_egress = x; } }
                _ => { let x = e.hop_entry.hop_field.cons_egress; if let Some(p) = e.peer_entries.last_mut() { p.hop_field.cons_ingress = x; } else { e.hop_entry.hop_field.cons_ingress = x; } }
            }
        } }
        6 => { if n > 0 && !ases.is_empty() { let i = pick_e(rng); s.e[i].local = IsdAsn::from_u64(*rng.pick(&ases)); } }
        7 | 8 => { if n > 0 && !ases.is_empty() {
            let with_peers: Vec<usize> = (0..n).filter(|&i| !s.e[i].peer_entries.is_empty()).collect();
            if m == 7 && !with_peers.is_empty() {
                let i = *rng.pick(&with_peers);
                let p = rng.below(s.e[i].peer_entries.len() as u64) as usize;
                let pe = &mut s.e[i].peer_entries[p];
                match rng.below(3) {
                    0 => pe.peer = IsdAsn::from_u64(*rng.pick(&ases)),
                    1 => pe.peer_interface = small_if(rng),
                    _ => { pe.peer = IsdAsn::from_u64(*rng.pick(&ases)); pe.peer_interface = small_if(rng); pe.hop_field.cons_ingress = small_if(rng); }
                }
            } else {
                let i = pick_e(rng);
                let eg = s.e[i].hop_entry.hop_field.cons_egress;
                let pe = PeerEntry { peer: IsdAsn::from_u64(*rng.pick(&ases)), peer_interface: small_if(rng),
                    peer_mtu: *rng.pick(&[0u16, 1280, 1400, 65535]),
                    hop_field: hopf(rng.range(0, 63) as u8, small_if(rng), eg, rmac(rng)) };
                s.e[i].peer_entries.push(pe);
            }
        } }
        9 => { for e in s.e.iter_mut() { e.peer_entries.clear(); } }
        10 => { if n > 0 { let i = pick_e(rng); s.e[i].mtu = *rng.pick(&[0u32, 1, 65535, 65536, 70000, u32::MAX]); } }
        11 => { if n > 0 {
            let i = pick_e(rng); let v = *rng.pick(&[0u16, 65535]);
            if rng.chance(1, 2) || s.e[i].peer_entries.is_empty() { s.e[i].hop_entry.ingress_mtu = v; }
            else { for p in s.e[i].peer_entries.iter_mut() { p.peer_mtu = v; } }
        } }
        13 => { s.e.truncate(1); }
        14 => { s.e.clear(); }
        16 => {
            // extend past 63 hops with fresh ASes
            let target = 64 + rng.below(3) as usize;
            let mut ing = 0u16;
            if let Some(l) = s.e.last_mut() { l.hop_entry.hop_field.cons_egress = 9; ing = 9; }
            let mut i = 0u64;
            while s.e.len() < target {
                i += 1;
                let last = s.e.len() + 1 == target;
                let e = entry(ia(3, 100 + i), if last { 0 } else { ia(3, 101 + i) }, 1500, if ing == 0 { 0 } else { 1400 },
                              hopf(63, ing, if last { 0 } else { 2 }, rmac(rng)), vec![]);
                s.e.push(e);
                ing = 1;
            }
        }
        _ => {}
    }
    MUTATORS[m]
}

fn soup(rng: &mut Rng, k: u64) -> Q {
    let na = rng.range(4, 10);
    let ases: Vec<u64> = (1..=na).map(|i| ia(1, i)).collect();
    let nseg = rng.range(1, k).min(rng.range(1, k));
    let (mut cores, mut ncs) = (vec![], vec![]);
    for _ in 0..nseg {
        let ne = rng.range(0, 6);
        let mut e = vec![];
        for _ in 0..ne {
            let np = if rng.chance(3, 5) { 0 } else { rng.range(1, 2) };
            let eg = small_if(rng);
            let peers = (0..np).map(|_| PeerEntry { peer: IsdAsn::from_u64(*rng.pick(&ases)), peer_interface: small_if(rng),
                peer_mtu: *rng.pick(&[0u16, 1280, 1500, 9000]),
                hop_field: hopf(rng.below(256) as u8, small_if(rng), eg, rmac(rng)) }).collect();
            let next = if rng.chance(1, 3) { 0 } else { *rng.pick(&ases) };
            e.push(entry(*rng.pick(&ases), next, *rng.pick(&[1500u32, 1400, 9000, 0, 65536, 70000]),
                         *rng.pick(&[0u16, 1300, 1500]), hopf(rng.below(256) as u8, small_if(rng), eg, rmac(rng)), peers));
        }
        let s = S { ts: if rng.chance(1, 10) { *rng.pick(&[0u32, u32::MAX, u32::MAX - 1000]) } else { TS0 + rng.below(100) as u32 },
                    sid: rng.below(65536) as u16, e };
        if rng.chance(1, 3) { cores.push(s); } else { ncs.push(s); }
    }
    let src = *rng.pick(&ases);
    let dst = *rng.pick(&ases);
    Q { stream: "soup".into(), desc: format!("soup/{}as", na), src, dst, cores, ncs, ases, wf: false, sub: None, sub_ordered: true, runs: 3 }
}

fn chain(rng: &mut Rng, first: u64, isd: u64, base: u64, n: usize) -> Vec<AsEntry> {
    // `first` followed by n-1 fresh ASes ia(isd, base+i); interfaces: egress 1, ingress 2
    let mut e = vec![];
    for i in 0..n {
        let local = if i == 0 { first } else { ia(isd, base + i as u64) };
        let next = if i + 1 == n { 0 } else { ia(isd, base + i as u64 + 1) };
        e.push(ent(rng, local, next, if i == 0 { 0 } else { 2 }, if i + 1 == n { 0 } else { 1 }));
    }
    e
}

fn directed(rng: &mut Rng) -> Vec<Q> {
    let (a, b, c, d) = (ia(1, 1), ia(1, 2), ia(1, 3), ia(1, 4));
    let mut v: Vec<Q> = vec![];
    let mut push = |name: &str, src: u64, dst: u64, cores: Vec<S>, ncs: Vec<S>| {
        v.push(Q { stream: "directed".into(), desc: name.into(), src, dst, cores, ncs, ases: vec![a, b, c, d], wf: false, sub: None, sub_ordered: true, runs: 3 });
    };
    let sg = |e: Vec<AsEntry>| S { ts: TS0, sid: 0x1234, e };
    // d0 / d1: all interface ids zero
    let z = sg(vec![ent(rng, a, b, 0, 0), ent(rng, b, 0, 0, 0)]);
    push("d0:noncore_all_ifids_zero", b, a, vec![], vec![z.clone()]);
    push("d1:core_all_ifids_zero", b, a, vec![z.clone()], vec![]);
    push("d1:core_all_ifids_zero_fwd", a, b, vec![z.clone()], vec![]);
    // d2 / d3: nothing, empty segments
    push("d2:no_segments", a, b, vec![], vec![]);
    let empty = sg(vec![]);
    push("d3:zero_entry_segments", a, b, vec![empty.clone()], vec![empty.clone()]);
    let ok2 = sg(vec![ent(rng, a, b, 0, 1), ent(rng, b, 0, 2, 0)]);
    push("d3:zero_entry_next_to_valid", b, a, vec![empty.clone()], vec![empty.clone(), ok2.clone(), empty.clone()]);
    // d4: single entry segments
    let one_a = sg(vec![ent(rng, a, 0, 0, 0)]);
    let one_b = sg(vec![ent(rng, b, 0, 0, 0)]);
    push("d4:single_entry_core_and_noncore", a, b, vec![one_a.clone()], vec![one_b.clone()]);
    push("d4:single_entry_core_self", a, b, vec![one_a.clone()], vec![]);
    let mut one_p = one_b.clone();
    one_p.e[0].peer_entries.push(peer(rng, a, 3, 4, 0, 1300));
    let mut one_q = one_a.clone();
    one_q.e[0].peer_entries.push(peer(rng, b, 4, 3, 0, 1300));
    push("d4:single_entry_noncores_with_peering", b, a, vec![], vec![one_p.clone(), one_q.clone()]);
    push("d4:single_entry_noncore_with_ifids", b, a, vec![], vec![sg(vec![ent(rng, b, 0, 5, 6)]), ok2.clone()]);
    // d5: src == dst
    push("d5:src_eq_dst", b, b, vec![], vec![ok2.clone()]);
    push("d5:src_eq_dst_bad_input", a, a, vec![z.clone()], vec![z.clone(), empty.clone()]);
    // d6: leaf AS twice
    let twice = sg(vec![ent(rng, a, b, 0, 1), ent(rng, b, c, 1, 2), ent(rng, c, b, 1, 2), ent(rng, b, 0, 3, 0)]);
    push("d6:leaf_twice", b, a, vec![], vec![twice.clone()]);
    push("d6:leaf_twice_from_middle", c, b, vec![], vec![twice.clone(), sg(vec![ent(rng, a, b, 0, 1), ent(rng, b, c, 1, 2), ent(rng, c, 0, 1, 0)])]);
    // d7: long segments
    let s70 = sg(chain(rng, a, 1, 100, 70));
    push("d7:70_entries", ia(1, 169), a, vec![], vec![s70.clone()]);
    push("d7:70_entries_shortcut_to_middle", ia(1, 169), ia(1, 150), vec![], vec![s70]);
    let up40 = sg(chain(rng, a, 1, 200, 40));
    let dn40 = sg(chain(rng, a, 1, 300, 40));
    push("d7:two_40_entry_segments", ia(1, 239), ia(1, 339), vec![], vec![up40, dn40]);
    let up63 = sg(chain(rng, a, 1, 400, 63));
    let mut core63 = chain(rng, a, 1, 500, 63);
    core63[62].local = IsdAsn::from_u64(b);
    core63[61].next = IsdAsn::from_u64(b);
    let core63 = sg(core63);
    let dn63 = sg(chain(rng, b, 1, 600, 63));
    push("d7:three_63_entry_segments", ia(1, 462), ia(1, 662), vec![core63.clone()], vec![up63.clone(), dn63]);
    push("d7:63_entry_up_segment", ia(1, 462), a, vec![], vec![up63.clone()]);
    push("d7:63_plus_63", ia(1, 462), b, vec![core63], vec![up63]);
    // base peering query: cores A,B; A->C, B->D, peering C~D
    let mut t = Topo::new("base", &[a, b]);
    t.cla(a, b); t.pca(a, c); t.pca(b, d); t.pla(c, d);
    let base = |rng: &mut Rng| { let (cs, ns) = beacon(&t, rng); (cs, ns) };
    // d8: MTU extremes
    for (name, mtu) in [("d8:as_mtu_65536", 65536u32), ("d8:as_mtu_70000", 70000), ("d8:as_mtu_0", 0), ("d8:as_mtu_u32max", u32::MAX)] {
        let (cs, mut ns) = base(rng);
        for s in ns.iter_mut() { if let Some(l) = s.e.last_mut() { l.mtu = mtu; } }
        push(name, c, d, cs, ns);
    }
    let (cs, mut ns) = base(rng);
    for s in ns.iter_mut() { for e in s.e.iter_mut() { e.hop_entry.ingress_mtu = 0; } }
    push("d8:ingress_mtu_0", c, d, cs, ns);
    let (cs, mut ns) = base(rng);
    for s in ns.iter_mut() { for e in s.e.iter_mut() { for p in e.peer_entries.iter_mut() { p.peer_mtu = 0; } } }
    push("d8:peer_mtu_0", c, d, cs, ns);
    // d9: peer entry oddities
    let (cs, mut ns) = base(rng);
    for s in ns.iter_mut() { for e in s.e.iter_mut() { for p in e.peer_entries.iter_mut() { p.peer_interface = 0; p.hop_field.cons_ingress = 0; } } }
    push("d9:peer_ifids_zero", c, d, cs, ns);
    let (cs, mut ns) = base(rng);
    for s in ns.iter_mut() { for e in s.e.iter_mut() { for p in e.peer_entries.iter_mut() {
        if e.local.to_u64() == c { p.peer_interface = 5; } else { p.peer_interface = 7; }
    } } }
    push("d9:peer_cross_wired", c, d, cs, ns);
    let (cs, mut ns) = base(rng);
    for s in ns.iter_mut() { for e in s.e.iter_mut() { let me = e.local; for p in e.peer_entries.iter_mut() { p.peer = me; } } }
    push("d9:peer_points_to_own_as", c, d, cs, ns);
    let (cs, mut ns) = base(rng);
    for s in ns.iter_mut() { for e in s.e.iter_mut() { let me = e.local; for p in e.peer_entries.iter_mut() { p.peer = me; p.peer_interface = p.hop_field.cons_ingress; } } }
    push("d9:peer_loops_to_same_interface", c, d, cs, ns);
    let (cs, ns) = base(rng);
    push("d9:base_unmodified", c, d, cs, ns);
    // d10: same segment as core and non-core
    push("d10:same_segment_core_and_noncore", b, a, vec![ok2.clone()], vec![ok2.clone()]);
    let ok3 = sg(vec![ent(rng, a, b, 0, 1), ent(rng, b, c, 2, 3), ent(rng, c, 0, 4, 0)]);
    push("d10:same_3_entry_segment_core_and_noncore", c, a, vec![ok3.clone()], vec![ok3.clone()]);
    push("d10:same_3_entry_segment_to_middle", c, b, vec![ok3.clone()], vec![ok3.clone()]);
    // d11: odd interface counts
    let leaf0 = sg(vec![ent(rng, a, b, 0, 1), ent(rng, b, 0, 0, 0)]);
    push("d11:leaf_ingress_zero_noncore", b, a, vec![], vec![leaf0.clone()]);
    push("d11:leaf_ingress_zero_core", b, a, vec![leaf0.clone()], vec![]);
    let first0 = sg(vec![ent(rng, a, b, 0, 0), ent(rng, b, 0, 2, 0)]);
    push("d11:first_egress_zero_noncore", b, a, vec![], vec![first0.clone()]);
    push("d11:first_egress_zero_core", a, b, vec![first0.clone()], vec![]);
    // d12: expiration extremes
    let mut e255 = vec![ent(rng, a, b, 0, 1), ent(rng, b, 0, 2, 0)];
    for e in e255.iter_mut() { e.hop_entry.hop_field.expiration_units = 255; }
    push("d12:exp255_ts_max", b, a, vec![], vec![S { ts: u32::MAX, sid: 7, e: e255.clone() }]);
    push("d12:exp255_ts_0", b, a, vec![], vec![S { ts: 0, sid: 7, e: e255.clone() }]);
    let mut e0 = e255.clone();
    for e in e0.iter_mut() { e.hop_entry.hop_field.expiration_units = 0; }
    push("d12:exp0_ts_0", b, a, vec![], vec![S { ts: 0, sid: 7, e: e0.clone() }]);
    push("d12:exp0_ts_max", b, a, vec![], vec![S { ts: u32::MAX, sid: 7, e: e0 }]);
    e255[0].hop_entry.hop_field.expiration_units = 3;
    push("d12:exp_mixed_ts_near_max", b, a, vec![], vec![S { ts: u32::MAX - 1000, sid: 7, e: e255 }]);
    v
}

// ---------------------------------------------------------------------------------------------
// driver
// ---------------------------------------------------------------------------------------------


// ---------------------------------------------------------------------------------------------
// AS entries with several peer entries: unusable ones before / between / after the usable one
// ---------------------------------------------------------------------------------------------

const JUNK_PEER_KINDS: [&str; 7] = ["zero_remote", "zero_local", "zero_both", "dup", "dangling_as", "dangling_if", "self"];

/// an unusable peer entry for `e`, modelled on the usable entry `u` (if any); `wf_ok` says whether
/// the entry keeps the segment well-formed (non-zero local interface, new (lif, peer, pif) key,
/// the entry's ConsEgress)
fn junk_peer(rng: &mut Rng, e: &AsEntry, u: Option<&PeerEntry>, kind: &str, salt: u16) -> (PeerEntry, bool) {
    let eg = e.hop_entry.hop_field.cons_egress;
    let (upeer, uif, ulif) = match u {
        Some(p) => (p.peer.to_u64(), p.peer_interface, p.hop_field.cons_ingress),
        None => (ia(1, 900), 40, 50),
    };
    let mk = |rng: &mut Rng, pr: u64, pif: u16, lif: u16, mtu: u16| PeerEntry {
        peer: IsdAsn::from_u64(pr), peer_interface: pif, peer_mtu: mtu,
        hop_field: hopf(rng.range(5, 70) as u8, lif, eg, rmac(rng)) };
    match kind {
        "zero_remote" => (mk(rng, upeer, 0, 90 + salt, 1111), false),
        "zero_local" => (mk(rng, upeer, uif, 0, 1112), false),
        "zero_both" => (mk(rng, upeer, 0, 0, 1113), false),
        "dup" => (mk(rng, upeer, uif, ulif, 1114), false),
        "dangling_as" => (mk(rng, ia(3, 700 + salt as u64), 7 + salt, 60 + salt, 1115), true),
        "dangling_if" => (mk(rng, upeer, 700 + salt, 70 + salt, 1116), true),
        _ => (mk(rng, e.local.to_u64(), 80 + salt, 80 + salt, 1117), true),
    }
}

/// give AS entries 2..=4 peer entries; `only_wf`: only entries that keep the set well-formed.
/// Returns (description, still well-formed)
fn multipeer(q: &mut Q, rng: &mut Rng, only_wf: bool) -> (String, bool) {
    // metamorphic reference: the paths of the set without the added peer entries must survive
    q.sub = Some((q.cores.clone(), q.ncs.clone()));
    q.sub_ordered = false;
    let mut wf = true;
    let mut names: Vec<String> = vec![];
    for s in q.ncs.iter_mut() {
        for i in 0..s.e.len() {
            let has = !s.e[i].peer_entries.is_empty();
            // entries with a peering link always get company; other non-first entries sometimes
            if !(has || (i > 0 && rng.chance(1, 5))) { continue; }
            let k = rng.range(1, 3) as usize;
            for j in 0..k {
                let kinds: &[&str] = if only_wf { &JUNK_PEER_KINDS[4..] } else { &JUNK_PEER_KINDS[..] };
                let kind = *rng.pick(kinds);
                let u = if s.e[i].peer_entries.is_empty() { None }
                        else { Some(s.e[i].peer_entries[rng.below(s.e[i].peer_entries.len() as u64) as usize].clone()) };
                let (pe, ok) = junk_peer(rng, &s.e[i], u.as_ref(), kind, (i * 4 + j) as u16);
                wf &= ok;
                // position: front (most interesting), back, or anywhere
                let n = s.e[i].peer_entries.len();
                let pos = match rng.below(4) { 0 | 1 => 0, 2 => n, _ => rng.below(n as u64 + 1) as usize };
                s.e[i].peer_entries.insert(pos, pe);
                if names.len() < 4 { names.push(format!("{kind}@{pos}")); }
            }
        }
    }
    (names.join(","), wf)
}

/// plain / shuffled / duplicated variants only
fn rng_variant(v: u64) -> u64 { if v <= 2 { v } else { 0 } }

fn has_peering_path(o: &Out) -> bool { o.paths.iter().any(|p| p.peering) }

/// directed: core 1 with children 2 and 3 (and grandchildren 4 under 2, 5 under 3), peering 2--3;
/// every kind of unusable peer entry before / after / around the usable one, on the up side, the
/// down side and both; requests that start / end on the peering ASes and that go through them
fn directed_multipeer(rng: &mut Rng) -> Vec<Q> {
    let (c, x, y, gx, gy) = (ia(1, 1), ia(1, 2), ia(1, 3), ia(1, 4), ia(1, 5));
    let mut v = vec![];
    let orders: [(&str, [bool; 3]); 3] = [("junk_first", [true, false, false]), ("junk_last", [false, false, true]),
                                          ("junk_around", [true, false, true])];
    for (ki, kind) in JUNK_PEER_KINDS.iter().enumerate() {
        for (oi, (oname, slots)) in orders.iter().enumerate() {
            for side in 0..3u64 {
                // keep the directed block small: all sides only for the zero-remote kind
                if ki != 0 && side != (ki as u64 + oi as u64) % 3 { continue; }
                let ux = peer(rng, y, 31, 30, 0, 1300);   // at AS 2: local if 30, remote 3#31
                let uy = peer(rng, x, 30, 31, 0, 1300);   // at AS 3: local if 31, remote 2#30
                let mut ex = entry(x, gx, 1500, 1400, hopf(40, 2, 7, rmac(rng)), vec![]);
                let mut ey = entry(y, gy, 1500, 1400, hopf(41, 2, 8, rmac(rng)), vec![]);
                let fill = |rng: &mut Rng, e: &mut AsEntry, u: &PeerEntry, junk: bool| {
                    let mut u2 = u.clone(); u2.hop_field.cons_egress = e.hop_entry.hop_field.cons_egress;
                    let mut l = vec![];
                    if junk && slots[0] { l.push(junk_peer(rng, e, Some(&u2), kind, 1).0); }
                    l.push(u2.clone());
                    if junk && slots[2] { l.push(junk_peer(rng, e, Some(&u2), kind, 2).0); }
                    e.peer_entries = l;
                };
                fill(rng, &mut ex, &ux, side != 1);
                fill(rng, &mut ey, &uy, side != 0);
                let up = S { ts: TS0 + 5, sid: 0x2222, e: vec![ent(rng, c, x, 0, 1), ex.clone(), ent(rng, gx, 0, 9, 0)] };
                let down = S { ts: TS0 + 9, sid: 0x3333, e: vec![ent(rng, c, y, 0, 2), ey.clone(), ent(rng, gy, 0, 9, 0)] };
                // the segments of the peering ASes themselves (leaf = peering AS)
                let mut lx = ex.clone(); lx.hop_entry.hop_field.cons_egress = 0; lx.next = IsdAsn::from_u64(0);
                for p in lx.peer_entries.iter_mut() { p.hop_field.cons_egress = 0; }
                let mut ly = ey.clone(); ly.hop_entry.hop_field.cons_egress = 0; ly.next = IsdAsn::from_u64(0);
                for p in ly.peer_entries.iter_mut() { p.hop_field.cons_egress = 0; }
                let upx = S { ts: TS0 + 6, sid: 0x4444, e: vec![ent(rng, c, x, 0, 1), lx] };
                let downy = S { ts: TS0 + 7, sid: 0x5555, e: vec![ent(rng, c, y, 0, 2), ly] };
                let sname = ["up", "down", "both"][side as usize];
                for (src, dst, rq) in [(gx, gy, "through"), (x, y, "on_peers"), (gy, x, "mixed")] {
                    // one request per (kind, order, side), rotating
                    if (ki + oi + side as usize) % 3 != ["through", "on_peers", "mixed"].iter().position(|r| *r == rq).unwrap() { continue; }
                    v.push(Q { stream: "directed".into(), desc: format!("d13:multipeer_{kind}_{oname}_{sname}_{rq}"), src, dst,
                               cores: vec![], ncs: vec![up.clone(), down.clone(), upx.clone(), downy.clone()],
                               ases: vec![c, x, y, gx, gy], wf: false, sub: None, sub_ordered: true, runs: 3 });
                }
            }
        }
    }
    v
}

// ---------------------------------------------------------------------------------------------
// valid set + junk segments (metamorphic: the valid paths must survive)
// ---------------------------------------------------------------------------------------------

/// append segments that cannot contribute a usable path: oversize (unencodable) segments hanging
/// on ASes of the request, segments over foreign ASes, degenerate ones.  The valid set is kept.
fn add_junk_segments(q: &mut Q, rng: &mut Rng) -> String {
    q.sub = Some((q.cores.clone(), q.ncs.clone()));
    let mut names = vec![];
    let roots: Vec<u64> = q.ncs.iter().chain(q.cores.iter()).filter_map(first_ia).collect();
    let k = rng.range(1, 3);
    for j in 0..k {
        let base = 3000 + 200 * j;
        let kind = rng.below(7);
        match kind {
            0 | 1 => {
                // an unencodable down segment (65..=75 entries) from a root of the valid set to dst
                let n = rng.range(65, 75) as usize;
                let root = if roots.is_empty() { ia(2, base) } else { *rng.pick(&roots) };
                let mut e = chain(rng, root, 2, base, n);
                let last = e.len() - 1;
                e[last].local = IsdAsn::from_u64(q.dst);
                e[last - 1].next = IsdAsn::from_u64(q.dst);
                q.ncs.push(S { ts: TS0 + 17, sid: 0x7777, e });
                names.push("oversize_down_to_dst");
            }
            2 => {
                // the same hanging on src
                let n = rng.range(65, 75) as usize;
                let root = if roots.is_empty() { ia(2, base) } else { *rng.pick(&roots) };
                let mut e = chain(rng, root, 2, base, n);
                let last = e.len() - 1;
                e[last].local = IsdAsn::from_u64(q.src);
                e[last - 1].next = IsdAsn::from_u64(q.src);
                q.ncs.push(S { ts: TS0 + 18, sid: 0x7778, e });
                names.push("oversize_up_from_src");
            }
            3 => {
                // an oversize core segment between two roots
                let r1 = if roots.is_empty() { ia(2, base) } else { *rng.pick(&roots) };
                let mut e = chain(rng, r1, 2, base, 66);
                let last = e.len() - 1;
                if let Some(r2) = roots.iter().find(|r| **r != r1) { e[last].local = IsdAsn::from_u64(*r2); }
                q.cores.push(S { ts: TS0 + 19, sid: 0x7779, e });
                names.push("oversize_core");
            }
            4 => {
                let n = rng.range(2, 6) as usize;
                q.ncs.push(S { ts: TS0 + 20, sid: 0x777a, e: chain(rng, ia(2, base), 2, base, n) });
                names.push("foreign_noncore");
            }
            5 => {
                // all interface ids zero, from a root to dst
                let root = if roots.is_empty() { ia(2, base) } else { *rng.pick(&roots) };
                q.ncs.push(S { ts: TS0 + 21, sid: 0x777b, e: vec![ent(rng, root, q.dst, 0, 0), ent(rng, q.dst, 0, 0, 0)] });
                names.push("zero_ifids_to_dst");
            }
            _ => {
                q.ncs.push(S { ts: TS0 + 22, sid: 0x777c, e: vec![] });
                q.cores.push(S { ts: TS0 + 23, sid: 0x777d, e: vec![ent(rng, q.src, 0, 0, 0)] });
                names.push("empty_and_single");
            }
        }
    }
    names.join("+")
}

fn bucket(n: usize) -> &'static str {
    match n { 0 => "segs.0", 1..=2 => "segs.1-2", 3..=5 => "segs.3-5", 6..=10 => "segs.6-10", 11..=25 => "segs.11-25", _ => "segs.26+" }
}

struct Driver { sh: Shards, sum: Summary, seen: HashSet<String>, max_ms: u128 }

impl Driver {
    /// record a case (already run)
    fn emit(&mut self, q: &Q, o: &Out) {
        let text = case_text(q, o);
        let nseg = q.cores.len() + q.ncs.len();
        let s = &mut self.sum;
        s.count(&format!("kind.{}", q.stream));
        s.count(bucket(nseg));
        if q.wf { s.count("wf_cases"); }
        if o.panic { s.count("panics"); }
        if !o.stable { s.count("unstable"); }
        s.add("paths_total", o.paths.len() as u64);
        if !o.paths.is_empty() { s.count("cases_with_paths"); }
        for p in &o.paths {
            s.count(&format!("paths_segs.{}", p.nsegs));
            if p.peering { s.count("peering_paths"); }
        }
        self.max_ms = self.max_ms.max(o.ms);
        let line = format!("#{} {} {} src={} dst={} cores={} noncores={} wf={} -> {}{}", self.sh.total, q.stream, q.desc,
            fmt_ia(q.src), fmt_ia(q.dst), q.cores.len(), q.ncs.len(), q.wf,
            if o.panic { "PANIC".to_string() } else { format!("{} paths", o.paths.len()) },
            if o.stable { "" } else { " UNSTABLE" });
        if s.samples.len() < 3 { s.samples.push(line.clone()); }
        s.index.push(line);
        self.seen.insert(text.clone());
        self.sh.push(text);
    }
}

fn main() {
    silence_panics();
    let out = arg("--out").expect("--out dir");
    let n: usize = arg("--n").and_then(|s| s.parse().ok()).unwrap_or(200);
    let stream = arg("--stream").unwrap_or_else(|| "c19".into());
    let thorough = std::env::var("VERIF_TIER").map(|t| t == "thorough").unwrap_or(false);
    let lim = if thorough { Limits { max_segs: 40, max_paths_c04: 300, max_paths_c19: 300, soup_k: 40 } }
              else { Limits { max_segs: 25, max_paths_c04: 60, max_paths_c19: 120, soup_k: 25 } };
    let seed = seed_from_env();
    let mut rng = Rng::new(seed);
    let pre = "From Sci Require Import Combine.Cases. Open Scope N_scope.";
    let mut d = Driver { sh: Shards::new(&out, pre, "ccase", "verdicts", 25), sum: Summary::default(),
                         seen: HashSet::new(), max_ms: 0 };

    let topos = topologies();
    // rotation order: every topology once, the repository's default graph three times
    let mut order: Vec<usize> = (0..topos.len()).collect();
    order.push(topos.len() - 1); order.push(topos.len() - 1);
    let mut pairs: Vec<Vec<(u64, u64)>> = topos.iter().map(all_pairs).collect();
    for (k, p) in pairs.iter_mut().enumerate() {
        rng.shuffle(p);
        // the topology's focus requests come first
        let f = topos[k].focus.clone();
        p.retain(|x| !f.contains(x));
        let mut q = f; q.extend(p.iter().cloned()); *p = q;
    }
    let mut cursor = vec![0usize; topos.len()];
    let rot = (seed as usize) % order.len();
    let mut turn = 0usize;
    // next well-formed query in rotation
    let mut next_topo_query = |rng: &mut Rng, variant: u64| -> Q {
        let t = order[(turn + rot) % order.len()];
        turn += 1;
        let (src, dst) = pairs[t][cursor[t] % pairs[t].len()];
        // the focus requests of a topology are asked plainly the first time round
        let variant = if cursor[t] < topos[t].focus.len() { 0 } else { variant };
        cursor[t] += 1;
        topo_query(&topos[t], src, dst, variant, rng)
    };
    // a well-formed query on a topology with peering links whose result uses a peering link
    let peer_topos: Vec<usize> = (0..topos.len()).filter(|&k| !topos[k].pl.is_empty()).collect();
    let mut pcursor = vec![0usize; topos.len()];
    let mut pturn = 0usize;
    let mut next_peer_query = |rng: &mut Rng, variant: u64| -> Option<Q> {
        for _ in 0..60 {
            let t = peer_topos[(pturn + rot) % peer_topos.len()];
            pturn += 1;
            let (src, dst) = pairs[t][(pcursor[t] * 7 + 3) % pairs[t].len()];
            pcursor[t] += 1;
            let q = topo_query(&topos[t], src, dst, variant, rng);
            if has_peering_path(&run(&q)) { return Some(q); }
        }
        None
    };
    let pick_variant = |rng: &mut Rng| -> u64 {
        match rng.below(100) { 0..=27 => 0, 28..=43 => 1, 44..=59 => 2, 60..=71 => 3, 72..=79 => 5, 80..=91 => 6, _ => 4 }
    };

    let mut attempts = 0usize;
    if stream == "c04" {
        while d.sh.total < n && attempts < 60 * n + 100 {
            attempts += 1;
            let v = pick_variant(&mut rng);
            let q = if rng.chance(1, 5) {
                // several peer entries per AS entry, unusable ones before / between / after the usable one
                let only_wf = rng.chance(1, 2);
                let Some(mut q) = next_peer_query(&mut rng, rng_variant(v)) else { continue; };
                let (names, wf) = multipeer(&mut q, &mut rng, only_wf);
                q.wf = wf;
                q.stream = if wf { "c04".into() } else { "multipeer".into() };
                q.desc = format!("{}+multipeer[{}]", q.desc, names);
                q
            } else { next_topo_query(&mut rng, v) };
            if q.cores.len() + q.ncs.len() > lim.max_segs { d.sum.count("dropped.segs"); continue; }
            let o = run(&q);
            if o.paths.len() > lim.max_paths_c04 { d.sum.count("dropped.paths"); continue; }
            let vn = q.desc.rsplit('/').next().unwrap_or("");
            d.sum.count(&format!("variant.{}", vn.split(|c| c == ':' || c == '+' && false).next().unwrap_or("").split("+multipeer").next().unwrap_or("")));
            if vn.contains(":bneck") { d.sum.count(&format!("bottleneck.{}", vn.split(":bneck_").nth(1).unwrap_or("").split('+').next().unwrap_or(""))); }
            if vn.contains("+multipeer") { d.sum.count("variant.+multipeer"); }
            d.emit(&q, &o);
        }
    } else {
        let mut dir = directed(&mut rng);
        dir.extend(directed_multipeer(&mut rng));
        for q in dir {
            if d.sh.total >= n { break; }
            let o = run(&q);
            d.emit(&q, &o);
        }
        while d.sh.total < n && attempts < 60 * n + 100 {
            attempts += 1;
            let r = rng.below(100);
            let q = if r < 12 {
                let pv = rng.below(3);
                let Some(mut q) = next_peer_query(&mut rng, pv) else { continue; };
                let (names, wf) = multipeer(&mut q, &mut rng, false);
                q.wf = wf;
                q.stream = "multipeer".into();
                q.desc = format!("{}+multipeer[{}]", q.desc, names);
                q
            } else if r < 24 {
                let v = rng.below(3);
                let mut q = next_topo_query(&mut rng, v);
                let names = add_junk_segments(&mut q, &mut rng);
                q.stream = "junk".into();
                q.desc = format!("{}+junk[{}]", q.desc, names);
                q.wf = false;
                q
            } else if r < 45 {
                let v = rng.below(4);
                let mut q = next_topo_query(&mut rng, v);
                let k = rng.range(1, 3);
                let mut names = vec![];
                for _ in 0..k { names.push(mutate(&mut q, &mut rng)); }
                for m in &names { d.sum.count(&format!("mut.{m}")); }
                q.stream = "mutation".into();
                q.desc = format!("{}+{}", q.desc, names.join("+"));
                q.wf = false;
                q
            } else if r < 80 {
                soup(&mut rng, lim.soup_k)
            } else {
                let v = rng.below(4);
                let mut q = next_topo_query(&mut rng, v);
                q.stream = "unmutated".into();
                q
            };
            if q.cores.len() + q.ncs.len() > lim.max_segs + 2 { d.sum.count("dropped.segs"); continue; }
            let o = run(&q);
            if o.paths.len() > lim.max_paths_c19 { d.sum.count("dropped.paths"); continue; }
            if o.ms > 200 { d.sum.count("dropped.slow"); continue; }
            d.emit(&q, &o);
        }
    }
    d.sh.flush();
    d.sum.dist.insert("max_call_ms".into(), d.max_ms as u64);
    d.sum.dist.entry("panics".into()).or_insert(0);
    d.sum.dist.entry("unstable".into()).or_insert(0);
    let distinct = d.seen.len();
    d.sum.write(&out, d.sh.total, distinct);
}
