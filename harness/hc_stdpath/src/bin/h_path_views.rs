//! C12 correspondence harness: runs every operation that exists both on the zero-copy view
//! and on the owned model of a standard / one-hop path (reversal, expiry, segment queries,
//! conversions) on generated path byte strings and writes inputs + observed results as Coq
//! case files.
use hc_stdpath::*;
use sciparse::{
    core::{convert::ToModel, encode::WireEncode, view::View},
    dataplane_path::{
        onehop::{model::OneHopPath, view::OneHopPathView},
        standard::{
            model::{HopField, InfoField, StandardPath},
            view::StandardPathView,
        },
        types::PathReverseError,
        view::{ScionDpPathView, ScionDpPathViewExt},
    },
    identifier::isd_asn::IsdAsn,
    path::{ScionPath, fingerprint::data_plane::DpPathFingerprint},
};
use std::panic::{AssertUnwindSafe, catch_unwind};
use vcommon::*;

const PANIC: u64 = 99;
const NOT_RUN: u64 = 98;
const EXP_PANIC: u64 = (1u64 << 32) + 99;

fn rev_code(r: &Result<(), PathReverseError>) -> u64 {
    match r {
        Ok(()) => 0,
        Err(e) => {
            let s = e.reason.as_ref();
            if s.contains("does not fit") { 5 }
            else if s.contains("no segments") { 1 }
            else if s.contains("hop field index") { 2 }
            else if s.contains("info field index") { 3 }
            else if s.contains("second hop") { 4 }
            else { 9 }
        }
    }
}

fn coq_info(i: &InfoField) -> String { format!("(mkInfo {} {} {})", i.flags.bits(), i.segment_id, i.timestamp) }
fn coq_hop(h: &HopField) -> String {
    format!("(mkHop {} {} {} {} {})", h.flags.bits(), h.expiration_units, h.cons_ingress, h.cons_egress, coq_bytes(&h.mac.0))
}
fn coq_path(p: &StandardPath) -> String {
    format!("(mkPath {} {} {})", p.current_info_field, p.current_hop_field,
        coq_list(p.segments.iter().map(|s| format!("(mkSeg {} {})", coq_info(&s.info_field), coq_list(s.hop_fields.iter().map(coq_hop))))))
}
const EMPTY_PATH: &str = "(mkPath 0 0 [])";
fn coq_onehop(p: &OneHopPath) -> String { format!("(mkOne {} {} {})", coq_info(&p.info), coq_hop(&p.hops[0]), coq_hop(&p.hops[1])) }
fn cb(code: u64, b: &[u8]) -> String { format!("({},{})", code, coq_bytes(b)) }
/// (code, byte-string reference): BSame = the input bytes, BRev = the bytes after the view's
/// try_reverse, otherwise the literal (keeps the case files small: Coq parses literals slowly)
fn cr(code: u64, b: &[u8], input: &[u8], rev: &[u8]) -> String {
    if b == input { format!("({},BSame)", code) } else if b == rev { format!("({},BRev)", code) } else { format!("({},BLit {})", code, coq_bytes(b)) }
}

fn off(base: &[u8], p: *const u8) -> u64 { (p as usize - base.as_ptr() as usize) as u64 }

/// all observations on one standard path byte string (exactly the size the view accepts)
fn run_std(b: &[u8], sum: &mut Summary) -> Option<String> {
    let mut pan = false;
    macro_rules! guard { ($e:expr, $d:expr) => { match catch_unwind(AssertUnwindSafe(|| $e)) { Ok(x) => x, Err(_) => { pan = true; $d } } } }
    let (v, rest) = StandardPathView::try_from_slice(b).ok()?;
    if !rest.is_empty() { return None; }
    // view reversal, twice
    let mut b1 = b.to_vec();
    let rev = guard!({ let (v, _) = StandardPathView::try_from_mut_slice(&mut b1).unwrap(); rev_code(&v.try_reverse()) }, PANIC);
    sum.count(&format!("view_reverse.{rev}"));
    let mut b2 = b1.clone();
    let rev2 = if rev == 0 { guard!({ let (v, _) = StandardPathView::try_from_mut_slice(&mut b2).unwrap(); rev_code(&v.try_reverse()) }, PANIC) } else { NOT_RUN };
    let rev2s = if rev == 0 { cr(rev2, &b2, b, &b1) } else { format!("({},BSame)", NOT_RUN) };
    // queries
    let expv = guard!(v.expiration() as u64, EXP_PANIC);
    let nh = v.hop_field_count() as usize;
    let segidx: Vec<String> = (0..=nh + 1).map(|k| guard!(match v.calculate_segment_index(k) {
        None => 0u64, Some((s, st, en)) => 1 + (s as u64) * 4 + (st as u64) * 2 + en as u64 }, PANIC).to_string()).collect();
    let segs: Vec<String> = guard!(v.segments().map(|(i, hs)| format!("({},{},{})", off(b, i.as_slice().as_ptr()),
        if hs.is_empty() { 0 } else { off(b, hs[0].as_slice().as_ptr()) }, hs.len())).collect(), vec!["(99,99,99)".to_string()]);
    // conversions
    let m = guard!(Some(v.to_model()), None);
    let (ms, mrev, mexp, menc, mrevenc) = match &m {
        None => (EMPTY_PATH.to_string(), format!("({},MSame)", PANIC), EXP_PANIC, cr(PANIC, &[], b, &b1), cr(PANIC, &[], b, &b1)),
        Some(m) => {
            let mut m2 = m.clone();
            let c = guard!(rev_code(&m2.try_reverse()), PANIC);
            sum.count(&format!("model_reverse.{c}"));
            let mexp = guard!(m.expiration() as u64, EXP_PANIC);
            let menc = guard!(match m.try_encode_to_vec() { Ok(x) => cr(0, &x, b, &b1), Err(_) => cr(1, &[], b, &b1) }, cr(PANIC, &[], b, &b1));
            if menc == "(0,BSame)" { sum.count("canonical_input"); }
            let mrevenc = if c == 0 { guard!(match m2.try_encode_to_vec() { Ok(x) => cr(0, &x, b, &b1), Err(_) => cr(1, &[], b, &b1) }, cr(PANIC, &[], b, &b1)) } else { cr(NOT_RUN, &[], b, &b1) };
            (coq_path(m), if m2 == *m { format!("({},MSame)", c) } else { format!("({},MLit {})", c, coq_path(&m2)) }, mexp, menc, mrevenc)
        }
    };
    // ScionPath::try_reverse: endpoints, dataplane bytes, fingerprint
    let (src, dst) = (IsdAsn(0x0001_ff00_0000_0110), IsdAsn(0x0002_ff00_0000_0220));
    let sp = guard!({
        let mut sp = ScionPath::new(src, dst, ScionDpPathView::Standard(v.to_boxed()), None, None);
        let c = rev_code(&sp.try_reverse());
        let ep = if sp.src_ia() == src && sp.dst_ia() == dst { 0 } else if sp.src_ia() == dst && sp.dst_ia() == src { 1 } else { 4 };
        let fp_ok = sp.fingerprint() == DpPathFingerprint::from_dp_path(sp.dp_path().as_ref(), sp.src_ia(), sp.dst_ia());
        let r = cr(c, sp.dp_path().as_slice(), b, &b1);
        format!("({},{})", r, ep + if fp_ok { 0 } else { 2 })
    }, format!("(({},BLit []),0)", PANIC));
    if pan { sum.count("panic"); }
    Some(format!("VStd (mkVS {} {} {} {} {} {} {} {} {} {} {} {})", coq_bytes(b), cr(rev, &b1, b, b), rev2s, expv,
        coq_list(segidx), coq_list(segs), ms, mrev, mexp, menc, mrevenc, sp))
}

fn run_onehop(b: &[u8], sum: &mut Summary) -> Option<String> {
    let mut pan = false;
    macro_rules! guard { ($e:expr, $d:expr) => { match catch_unwind(AssertUnwindSafe(|| $e)) { Ok(x) => x, Err(_) => { pan = true; $d } } } }
    let (v, rest) = OneHopPathView::try_from_slice(b).ok()?;
    if !rest.is_empty() { return None; }
    let mut b1 = b.to_vec();
    let rev = guard!({ let (v, _) = OneHopPathView::try_from_mut_slice(&mut b1).unwrap(); rev_code(&v.try_reverse()) }, PANIC);
    sum.count(&format!("onehop_reverse.{rev}"));
    let expv = guard!(v.expiration() as u64, EXP_PANIC);
    if expv == EXP_PANIC { sum.count("onehop_expiration_panic"); }
    let m = v.to_model();
    let mut m2 = m.clone();
    let c = guard!(rev_code(&m2.try_reverse()), PANIC);
    let menc = guard!(match m.try_encode_to_vec() { Ok(x) => cb(0, &x), Err(_) => cb(1, &[]) }, cb(PANIC, &[]));
    let (conv, convenc) = guard!(match m.clone().try_into_reversed_standard_path() {
        Ok(p) => (format!("(0,{})", coq_path(&p)), match p.try_encode_to_vec() { Ok(x) => cb(0, &x), Err(_) => cb(1, &[]) }),
        Err((e, _)) => (format!("({},{})", rev_code(&Err(e)), EMPTY_PATH), cb(NOT_RUN, &[])),
    }, (format!("({},{})", PANIC, EMPTY_PATH), cb(PANIC, &[])));
    // set_second_hop on the view and on the model with the same arguments:
    // (advanced, view bytes afterwards, encoding of the model afterwards)
    let key: [u8; 16] = core::array::from_fn(|i| (i as u8).wrapping_mul(29).wrapping_add(3));
    let ingress_if = 0x1234u16;
    let mut ssh = vec![];
    for advanced in [false, true] {
        let mut bv = b.to_vec();
        let vb = guard!({ let (v, _) = OneHopPathView::try_from_mut_slice(&mut bv).unwrap(); v.set_second_hop(ingress_if, key, advanced); 0u64 }, PANIC);
        let mut m3 = m.clone();
        let mb = guard!({ m3.set_second_hop(ingress_if, key, advanced); m3.try_encode_to_vec().unwrap_or_default() }, vec![]);
        if vb == 0 && bv != mb { sum.count("onehop_set_second_hop_view_model_differ"); }
        ssh.push(format!("({},{},{})", advanced as u64, coq_bytes(&bv), coq_bytes(&mb)));
    }
    if pan { sum.count("panic"); }
    Some(format!("VOne (mkVO {} {} {} {} ({},{}) {} {} {} {} {})", coq_bytes(b), cb(rev, &b1), expv, coq_onehop(&m), c, coq_onehop(&m2), menc, conv, convenc,
        coq_bytes(&key), coq_list(ssh)))
}

fn main() {
    if std::env::var("VERIF_DEBUG").is_err() { silence_panics(); }
    let out = arg("--out").expect("--out dir");
    let n: usize = arg("--n").and_then(|s| s.parse().ok()).unwrap_or(300);
    let tier = std::env::var("VERIF_TIER").unwrap_or_else(|_| "quick".into());
    let mut rng = Rng::new(seed_from_env());
    let pre = "From Sci Require Import StdPath.Cases_C12. Open Scope N_scope.";
    let mut sh = Shards::new(&out, pre, "vcase", "verdicts", if tier == "thorough" { 400 } else { 120 });
    let mut sum = Summary::default();
    let mut seen = std::collections::HashSet::new();
    let mut distinct = 0usize;
    let mut push = |case: String, human: String, kind: &str, sum: &mut Summary, sh: &mut Shards| {
        sum.count(&format!("kind.{kind}"));
        if seen.insert(case.clone()) { distinct += 1; }
        if sum.samples.len() < 3 { sum.samples.push(human.clone()); }
        sum.index.push(human);
        sh.push(case);
    };

    // 1. directed: the property's own witness shape, pointers at the boundaries, > 64 hops
    let directed: Vec<(u8, u8, [u8; 3])> = vec![
        (0, 5, [2, 1, 0]), (2, 0, [2, 1, 0]), (0, 3, [2, 1, 0]), (3, 9, [3, 3, 3]), (1, 63, [3, 0, 4]), (0, 2, [3, 0, 4]),
        (0, 0, [0, 2, 2]), (0, 0, [0, 0, 0]), (0, 0, [1, 0, 0]), (0, 0, [1, 1, 1]), (2, 2, [1, 1, 1]),
        (0, 0, [30, 30, 10]), (2, 63, [30, 30, 10]), (0, 5, [63, 63, 63]), (1, 40, [20, 30, 0]),
    ];
    for (ci, ch, segs) in directed {
        for canonical in [true, false] {
            let p = raw_path(&mut rng, ci, ch, segs, canonical);
            if let Some(c) = run_std(&p.bytes(), &mut sum) { push(c, format!("directed {}", p.human()), "directed", &mut sum, &mut sh); }
        }
    }
    // 2. exhaustive small shapes: <= 3 segments x <= 3 hops (zero-length segments anywhere)
    //    x pointer values (thorough: all 64 x 4; quick: every pointer up to two past the end, and 63)
    for s0 in 0..=3u8 { for s1 in 0..=3u8 { for s2 in 0..=3u8 {
        let segs = [s0, s1, s2];
        let total = hop_count(segs) as u8;
        let chs: Vec<u8> = if tier == "thorough" { (0..64).collect() } else { (0..=total + 1).chain([63]).collect() };
        let ni = info_count(segs) as u8;
        let cis: Vec<u8> = if tier == "thorough" { (0..4).collect() } else { let mut v = vec![0u8, ni.saturating_sub(1), ni.min(3), 3]; v.sort(); v.dedup(); v };
        for ch in chs { for &ci in &cis {
            let canon = rng.chance(3, 4);
            let p = raw_path(&mut rng, ci, ch, segs, canon);
            if let Some(c) = run_std(&p.bytes(), &mut sum) { push(c, format!("small {}", p.human()), "small", &mut sum, &mut sh); }
        } }
    } } }
    // 3. random: well-formed larger paths, malformed meta headers, one-hop paths
    for i in 0..n {
        match i % 6 {
            0 | 1 | 2 => {
                let nseg = rng.range(1, 3) as usize;
                let mut segs = [0u8; 3];
                for s in segs.iter_mut().take(nseg) { *s = if rng.chance(1, if tier == "thorough" { 5 } else { 14 }) { rng.range(20, 63) as u8 } else { rng.range(1, 9) as u8 }; }
                let total = hop_count(segs);
                let ch = if rng.chance(1, 8) { rng.below(64) as u8 } else { rng.below(total.min(64) as u64) as u8 };
                let ci = if rng.chance(1, 8) { rng.below(4) as u8 } else { rng.below(nseg as u64) as u8 };
                let canon = rng.chance(5, 6);
                let p = raw_path(&mut rng, ci, ch, segs, canon);
                if let Some(c) = run_std(&p.bytes(), &mut sum) { push(c, format!("wf {}", p.human()), "wf_random", &mut sum, &mut sh); }
            }
            3 => {
                let segs = [rng.below(12) as u8 * rng.below(2) as u8 + rng.below(3) as u8, rng.below(8) as u8 * rng.below(2) as u8, rng.below(64) as u8 * (rng.below(4) == 0) as u8 + rng.below(3) as u8];
                let (ci, ch) = (rng.below(4) as u8, rng.below(64) as u8);
                let p = raw_path(&mut rng, ci, ch, segs, false);
                if let Some(c) = run_std(&p.bytes(), &mut sum) { push(c, format!("malformed {}", p.human()), "malformed", &mut sum, &mut sh); }
            }
            _ => {
                let canon = rng.chance(1, 2);
                let (infos, mut hops) = fill_fields(&mut rng, [2, 0, 0], canon);
                if rng.chance(1, 3) { hops[1][2] = 0; hops[1][3] = 0; }
                let mut b = infos[0].to_vec(); b.extend_from_slice(&hops[0]); b.extend_from_slice(&hops[1]);
                if let Some(c) = run_onehop(&b, &mut sum) {
                    push(c, format!("onehop info={:02x?} hop1={:02x?} hop2={:02x?}", infos[0], hops[0], hops[1]), "onehop", &mut sum, &mut sh);
                }
            }
        }
    }
    sh.flush();
    sum.write(&out, sh.total, distinct);
}
