//! C11 correspondence harness: drives `StandardPathView::advance_ingress_with_validator` /
//! `advance_egress_with_validator` (NoValidation, HopMacValidator and two custom validators)
//! and `try_reverse` through step sequences on malformed, authentic and bit-flipped paths and
//! writes the inputs with every observed result and the bytes after every step as Coq cases.
use hc_stdpath::*;
use sciparse::{
    core::{convert::ToModel, encode::WireEncode, view::View},
    dataplane_path::onehop::view::OneHopPathView,
    dataplane_path::standard::{
        mac::{ForwardingKey, algo::calculate_hop_mac},
        routing::{AdvanceError, AdvanceValidator, EgressValidateResult, HopMacValidator, IngressAdvanceAction, IngressValidateResult},
        view::{HopFieldView, InfoFieldView, StandardPathView},
    },
};
use std::panic::{AssertUnwindSafe, catch_unwind};
use vcommon::*;

/// custom validator: rejects `validate_hop` for one hop index / every segment change
#[derive(Clone)]
struct Reject { hop: Option<usize>, seg: bool }
impl AdvanceValidator for Reject {
    type Error = String;
    fn validate_hop(&self, hop_index: usize, _h: &HopFieldView, _i: &InfoFieldView, _s: bool, _e: bool) -> Result<(), String> {
        if Some(hop_index) == self.hop { Err("hop".into()) } else { Ok(()) }
    }
    fn validate_segment_change(&self, _hop_index: usize, _ch: &HopFieldView, _ci: &InfoFieldView, _nh: &HopFieldView, _ni: &InfoFieldView) -> Result<(), String> {
        if self.seg { Err("seg".into()) } else { Ok(()) }
    }
}
struct NoVal;
impl AdvanceValidator for NoVal {
    type Error = String;
    fn validate_hop(&self, _: usize, _: &HopFieldView, _: &InfoFieldView, _: bool, _: bool) -> Result<(), String> { Ok(()) }
    fn validate_segment_change(&self, _: usize, _: &HopFieldView, _: &InfoFieldView, _: &HopFieldView, _: &InfoFieldView) -> Result<(), String> { Ok(()) }
}

fn err_code(e: &AdvanceError) -> (u64, Vec<u64>) {
    match e {
        AdvanceError::HopOutOfBounds(i) => (10, vec![*i as u64]),
        AdvanceError::InfoOutOfBounds(i) => (11, vec![*i as u64]),
        AdvanceError::InvalidSegmentIndex { expected, actual } => (12, vec![*expected as u64, *actual as u64]),
        AdvanceError::InvalidPathState(s) => (13, vec![if s.contains("single hop") { 1 } else { 2 }]),
    }
}

#[derive(Clone, Copy, PartialEq)]
enum Val { None, Mac(usize), RejectHop(usize), RejectSeg }
impl Val {
    fn code(&self) -> u64 { match self { Val::None => 0, Val::Mac(k) => 1 + *k as u64, Val::RejectHop(j) => 100 + *j as u64, Val::RejectSeg => 200 } }
}
/// step kinds: 0 ingress from outside, 1 ingress from inside, 2 egress, 3 try_reverse
#[derive(Clone, Copy)]
struct Step { kind: u8, val: Val }

struct StepRes { code: u64, params: Vec<u64>, after: Vec<u8>, hop_before: u8, cont: bool }

fn ing<E: std::fmt::Debug>(r: Result<IngressValidateResult<E>, AdvanceError>, mac_of: impl Fn(&E) -> Vec<u64>) -> (u64, Vec<u64>, bool) {
    match r {
        Err(e) => { let (c, p) = err_code(&e); (c, p, false) }
        Ok(v) => {
            let (code, o, extra) = match v { IngressValidateResult::Ok(o) => (0, o, vec![]), IngressValidateResult::ValidationFailed(o, e) => (1, o, mac_of(&e)) };
            let (k, eg) = match o.action { IngressAdvanceAction::ForwardLocal => (0u64, 0u64), IngressAdvanceAction::ContinueEgress { egress_if } => (1, egress_if as u64) };
            let mut p = vec![o.scmp_alert as u64, o.ingress_interface as u64, k, eg];
            p.extend(extra);
            (code, p, code == 0 && k == 1)
        }
    }
}
fn egr<E: std::fmt::Debug>(r: Result<EgressValidateResult<E>, AdvanceError>, mac_of: impl Fn(&E) -> Vec<u64>) -> (u64, Vec<u64>, bool) {
    match r {
        Err(e) => { let (c, p) = err_code(&e); (c, p, false) }
        Ok(v) => {
            let (code, o, extra) = match v { EgressValidateResult::Ok(o) => (0, o, vec![]), EgressValidateResult::ValidationFailed(o, e) => (1, o, mac_of(&e)) };
            let mut p = vec![o.scmp_alert as u64, o.egress_interface as u64];
            p.extend(extra);
            (code, p, code == 0)
        }
    }
}
/// expected MAC out of HopMacValidator's error (only its Debug form is public)
fn mac_from_debug<E: std::fmt::Debug>(e: &E) -> Vec<u64> {
    let s = format!("{e:?}");
    // InvalidMacError { expected: aa:bb:cc:dd:ee:ff, actual: .. }
    let i = s.find("expected: ").map(|i| i + 10).unwrap_or(0);
    s[i..].split(|c| c == ',' || c == ' ').next().unwrap_or("").split(':').filter_map(|x| u64::from_str_radix(x, 16).ok()).collect()
}

fn run_step(buf: &mut Vec<u8>, st: Step, keys: &[ForwardingKey]) -> StepRes {
    let hop_before = buf[0] & 63;
    let r = catch_unwind(AssertUnwindSafe(|| {
        let (v, _) = StandardPathView::try_from_mut_slice(buf.as_mut_slice()).unwrap();
        match (st.kind, st.val) {
            (3, _) => match v.try_reverse() { Ok(()) => (0u64, vec![], true), Err(_) => (20, vec![], false) },
            (k @ (0 | 1), Val::None) => ing(v.advance_ingress_with_validator(NoVal, k == 1), |_| vec![]),
            (k @ (0 | 1), Val::Mac(i)) => ing(v.advance_ingress_with_validator(HopMacValidator { key: keys[i] }, k == 1), mac_from_debug),
            (k @ (0 | 1), Val::RejectHop(j)) => ing(v.advance_ingress_with_validator(Reject { hop: Some(j), seg: false }, k == 1), |_| vec![]),
            (k @ (0 | 1), Val::RejectSeg) => ing(v.advance_ingress_with_validator(Reject { hop: None, seg: true }, k == 1), |_| vec![]),
            (_, Val::None) => egr(v.advance_egress_with_validator(NoVal), |_| vec![]),
            (_, Val::Mac(i)) => egr(v.advance_egress_with_validator(HopMacValidator { key: keys[i] }), mac_from_debug),
            (_, Val::RejectHop(j)) => egr(v.advance_egress_with_validator(Reject { hop: Some(j), seg: false }), |_| vec![]),
            (_, Val::RejectSeg) => egr(v.advance_egress_with_validator(Reject { hop: None, seg: true }), |_| vec![]),
        }
    }));
    match r {
        Ok((code, params, cont)) => StepRes { code, params, after: buf.clone(), hop_before, cont },
        Err(_) => StepRes { code: 99, params: vec![], after: buf.clone(), hop_before, cont: false },
    }
}

/// AS index of every hop: consecutive hops are different ASes, except that the last hop of a
/// segment and the first hop of the next one belong to the same (crossover) AS
fn as_of_hops(segs: [u8; 3]) -> Vec<usize> {
    let mut v = vec![]; let mut a = 0usize; let mut very_first = true;
    for &s in segs.iter() {
        for j in 0..s {
            if very_first { very_first = false; } else if j != 0 { a += 1; }
            v.push(a);
        }
    }
    v
}

/// authentic path: per segment, MACs chained in construction direction with the key of each
/// hop's AS; `cons[k]` says whether segment k is traversed in construction direction
fn authentic(rng: &mut Rng, segs: [u8; 3], cons: [bool; 3], keys: &[ForwardingKey]) -> RawPath {
    let mut p = raw_path(rng, 0, 0, segs, true);
    let asn = as_of_hops(segs);
    let mut base = 0usize; let mut ii = 0usize;
    for k in 0..3 {
        let n = segs[k] as usize; if n == 0 { continue; }
        let ts = 1_700_000_000u32 + rng.below(100000) as u32;
        let seg_id = rng.below(65536) as u16;
        let order: Vec<usize> = if cons[k] { (0..n).collect() } else { (0..n).rev().collect() };
        let mut beta = seg_id; let mut betas = vec![];
        for &w in &order {
            let h = &mut p.hops[base + w];
            h[0] &= 3; // alert flags only
            let (exp, ci, ce) = (h[1], u16::from_be_bytes([h[2], h[3]]), u16::from_be_bytes([h[4], h[5]]));
            let mac = calculate_hop_mac(beta, ts, exp, ci, ce, &keys[asn[base + w] % keys.len()]);
            h[6..12].copy_from_slice(&mac);
            betas.push(beta);
            beta ^= u16::from_be_bytes([mac[0], mac[1]]);
        }
        // the SegID carried at the start of travel: beta of the first hop on the wire
        let start = if cons[k] { betas[0] } else { betas[n - 1] };
        p.infos[ii] = info_bytes(cons[k] as u8, 0, start, ts);
        base += n; ii += 1;
    }
    p
}

/// full traversal with the implementation choosing the next step; returns the steps taken
fn walk(buf: &mut Vec<u8>, segs: [u8; 3], keys: &[ForwardingKey], out: &mut Vec<(Step, StepRes)>, max: usize) {
    let asn = as_of_hops(segs);
    let mut first = true;
    for _ in 0..max {
        let hop = (buf[0] & 63) as usize;
        if hop >= asn.len() { break; }
        let val = Val::Mac(asn[hop] % keys.len());
        let st = Step { kind: if first { 1 } else { 0 }, val };
        first = false;
        let r = run_step(buf, st, keys);
        let cont = r.cont; out.push((st, r));
        if !cont { break; }
        // after a segment change the pointer moved: the egress is still done by the same AS
        let st2 = Step { kind: 2, val };
        let r2 = run_step(buf, st2, keys);
        let cont2 = r2.cont; out.push((st2, r2));
        if !cont2 { break; }
    }
}

fn coq_case(kind: u64, b: &[u8], keys: &[ForwardingKey], steps: &[(Step, StepRes)], owner: u64) -> String {
    let mut prev = b.to_vec();
    let mut rs = vec![];
    for (_, r) in steps {
        let after = if r.after == prev { "RSame".to_string() } else {
            // an advance changes a handful of bytes: give the differences (position, new value)
            let diffs: Vec<(usize, u8)> = if r.after.len() == prev.len() { r.after.iter().zip(prev.iter()).enumerate().filter(|(_, (a, p))| a != p).map(|(i, (a, _))| (i, *a)).collect() } else { vec![] };
            if r.after.len() == prev.len() && diffs.len() <= 8 { format!("RDiff {}", coq_list(diffs.iter().map(|(i, a)| format!("({},{})", i, a)))) }
            else { format!("RLit {}", coq_bytes(&r.after)) }
        };
        rs.push(format!("({},{},{},{})", r.code, coq_list(r.params.iter().map(|x| x.to_string())), after, r.hop_before));
        prev = r.after.clone();
    }
    format!("RStd (mkRC {} {} {} {} {} {})", kind, coq_bytes(b), coq_list(keys.iter().map(|k| coq_bytes(k))),
        coq_list(steps.iter().map(|(s, _)| format!("({},{})", s.kind, s.val.code()))), coq_list(rs), owner)
}
fn human(tag: &str, p: &RawPath, steps: &[(Step, StepRes)]) -> String {
    format!("{tag} {} steps=[{}]", p.human(), steps.iter().map(|(s, r)| format!("{}v{}->{}{:?}", s.kind, s.val.code(), r.code, r.params)).collect::<Vec<_>>().join(" "))
}

fn main() {
    if std::env::var("VERIF_DEBUG").is_err() { silence_panics(); }
    let out = arg("--out").expect("--out dir");
    let n: usize = arg("--n").and_then(|s| s.parse().ok()).unwrap_or(300);
    let tier = std::env::var("VERIF_TIER").unwrap_or_else(|_| "quick".into());
    let thorough = tier == "thorough";
    let mut rng = Rng::new(seed_from_env());
    let pre = "From Sci Require Import StdPath.Cases_C11. Open Scope N_scope.";
    let mut sh = Shards::new(&out, pre, "rcase", "verdicts", if thorough { 300 } else { 100 });
    let mut sum = Summary::default();
    let mut seen = std::collections::HashSet::new();
    let mut distinct = 0usize;
    let keys: Vec<ForwardingKey> = vec![[0u8; 16], core::array::from_fn(|i| (i as u8).wrapping_mul(17).wrapping_add(1)), core::array::from_fn(|i| 255 - i as u8 * 3)];
    let mut emit = |case: String, hum: String, kind: &str, steps: &[(Step, StepRes)], sum: &mut Summary, sh: &mut Shards| {
        sum.count(&format!("kind.{kind}"));
        for (s, r) in steps { sum.count(&format!("step{}.result.{}", s.kind, r.code)); }
        if seen.insert(case.clone()) { distinct += 1; }
        if sum.samples.len() < 3 { sum.samples.push(hum.clone()); }
        sum.index.push(hum);
        sh.push(case);
    };
    let free_vals = [Val::None, Val::None, Val::Mac(0), Val::RejectHop(1), Val::RejectHop(2), Val::RejectSeg];

    // 1. every small shape x pointer values, one or more steps with a random validator
    for s0 in 0..=3u8 { for s1 in 0..=3u8 { for s2 in 0..=3u8 {
        let segs = [s0, s1, s2];
        let total = hop_count(segs) as u8;
        let chs: Vec<u8> = if thorough { (0..64).collect() } else { (0..=total).chain([63]).collect() };
        let ni = info_count(segs) as u8;
        let cis: Vec<u8> = if tier == "thorough" { (0..4).collect() } else { let mut v = vec![0u8, ni.saturating_sub(1), ni.min(3), 3]; v.sort(); v.dedup(); v };
        for ch in chs { for &ci in &cis {
            let canon = rng.chance(3, 4);
            let p = raw_path(&mut rng, ci, ch, segs, canon);
            let b = p.bytes();
            let mut buf = b.clone();
            let nsteps = if thorough { 3 } else { 2 };
            let mut steps = vec![];
            for _ in 0..nsteps {
                let st = Step { kind: rng.below(3) as u8, val: *rng.pick(&free_vals) };
                let r = run_step(&mut buf, st, &keys); steps.push((st, r));
            }
            emit(coq_case(0, &b, &keys, &steps, 999), human("small", &p, &steps), "small", &steps, &mut sum, &mut sh);
        } }
    } } }
    // 2. directed: pointer at 63 with more than 64 hop fields (wrap-around), single-hop segments
    for (ci, ch, segs, kinds) in [(1u8, 63u8, [32u8, 32, 1], vec![0u8]), (1, 63, [60, 5, 0], vec![2]), (1, 63, [60, 5, 0], vec![0, 2]), (2, 63, [30, 34, 3], vec![0, 2]),
                                 (0, 0, [1, 2, 0], vec![1]), (0, 1, [2, 1, 0], vec![0, 2]), (0, 1, [2, 0, 3], vec![0, 2, 0]), (0, 62, [63, 3, 0], vec![0, 2, 0, 2])] {
        let p = raw_path(&mut rng, ci, ch, segs, true);
        let b = p.bytes(); let mut buf = b.clone(); let mut steps = vec![];
        for k in kinds { let st = Step { kind: k, val: Val::None }; let r = run_step(&mut buf, st, &keys); steps.push((st, r)); }
        emit(coq_case(0, &b, &keys, &steps, 999), human("directed", &p, &steps), "directed", &steps, &mut sum, &mut sh);
    }
    // 3. authentic paths: walk forward, reverse, walk back; every segment shape with 2..3 hops
    //    (random larger ones), both construction directions
    let mut auth_shapes: Vec<[u8; 3]> = vec![];
    for a in 2..=3u8 { auth_shapes.push([a, 0, 0]); for b in 2..=3u8 { auth_shapes.push([a, b, 0]); for c in 2..=3u8 { auth_shapes.push([a, b, c]); } } }
    let extra = if thorough { n / 10 } else { n / 40 };
    for _ in 0..extra { let ns = rng.range(1, 3) as usize; let mut s = [0u8; 3]; for x in s.iter_mut().take(ns) { *x = rng.range(2, if thorough { 20 } else { 7 }) as u8; } auth_shapes.push(s); }
    for segs in &auth_shapes {
        for dirs in 0..8u8 {
            let cons = [dirs & 1 != 0, dirs & 2 != 0, dirs & 4 != 0];
            if (segs[1] == 0 && dirs & 6 != 0) || (segs[2] == 0 && dirs & 4 != 0) { continue; }
            let p = authentic(&mut rng, *segs, cons, &keys);
            let b = p.bytes(); let mut buf = b.clone(); let mut steps = vec![];
            walk(&mut buf, *segs, &keys, &mut steps, 80);
            let stop_early = rng.chance(1, 3);
            if stop_early {
                // reverse in the middle of the path instead: redo with a cut
                // cut right after an ingress step (steps alternate ingress, egress)
                let cut = (rng.below(steps.len() as u64) as usize) | 1;
                steps.truncate(cut);
                buf = steps.last().map(|(_, r)| r.after.clone()).unwrap_or(b.clone());
            }
            let st = Step { kind: 3, val: Val::None };
            let r = run_step(&mut buf, st, &keys); steps.push((st, r));
            // the reversed path lists the hops in opposite order; same AS, same key
            let asn_f = as_of_hops(*segs);
            let mut back = vec![];
            walk_rev(&mut buf, &asn_f, &keys, &mut back, 80);
            steps.extend(back);
            emit(coq_case(1, &b, &keys, &steps, 999), human("authentic", &p, &steps), "authentic", &steps, &mut sum, &mut sh);
        }
    }
    // 4. single-bit flips (thorough: also double) of authentic paths; owner = hop index whose
    //    authenticated fields contain the first flipped bit (or its segment's info field)
    let flip_shapes: Vec<([u8; 3], [bool; 3])> = if thorough {
        vec![([2, 2, 0], [false, true, false]), ([3, 0, 0], [true, false, false]), ([2, 3, 2], [false, true, true]), ([3, 2, 0], [true, false, false])]
    } else { vec![([2, 2, 0], [false, true, false])] };
    for (segs, cons) in flip_shapes {
        let p = authentic(&mut rng, segs, cons, &keys);
        let b0 = p.bytes();
        let ninfo = info_count(segs);
        for bit in 0..b0.len() * 8 {
            let mut bits = vec![bit];
            if thorough && rng.chance(1, 2) { let nb = b0.len() * 8; let second = (bit + 1 + rng.below((nb - 1) as u64) as usize) % nb; bits.push(second); }
            let mut b = b0.clone();
            for &x in &bits { b[x / 8] ^= 0x80 >> (x % 8); }
            let off = bit / 8;
            // owner: 1000 + segment index for an info-field bit (SegID or timestamp), hop index for an
            // authenticated hop-field bit (exp, cons_ingress, cons_egress, MAC), 999 otherwise
            let owner = if off < 4 { 999 } else if off < 4 + 8 * ninfo { let o = (off - 4) % 8; if o >= 2 { 1000 + ((off - 4) / 8) as u64 } else { 999 } }
                        else { let o = (off - 4 - 8 * ninfo) % 12; if o >= 1 { ((off - 4 - 8 * ninfo) / 12) as u64 } else { 999 } };
            if StandardPathView::try_from_slice(&b).map(|(_, r)| !r.is_empty()).unwrap_or(true) { sum.count("flip.rejected_by_constructor"); continue; }
            let mut buf = b.clone(); let mut steps = vec![];
            walk(&mut buf, segs, &keys, &mut steps, 80);
            let kind = if bits.len() == 1 { 2 } else { 3 };
            emit(coq_case(kind, &b, &keys, &steps, owner), format!("flip bits={:?} owner={} {}", bits, owner, human("", &p, &steps)), "flip", &steps, &mut sum, &mut sh);
        }
    }
    // 4b. one-hop paths: set_second_hop on the view and on the model with the second AS's key; the
    //     second hop must authenticate at the second AS (checked in Coq with the Gallina AES-CMAC
    //     over the fields as finally stored).  ExpTime of hop 1 in {0,1,63,255}, SegID advanced or
    //     not, second-hop slot zeroed or pre-dirtied (flags, ExpTime, interfaces, MAC)
    {
        let mut onehop_cases: Vec<(u8, bool, bool)> = vec![];
        for exp1 in [0u8, 1, 63, 255] { for adv in [false, true] { for dirty in [false, true] { onehop_cases.push((exp1, adv, dirty)); } } }
        for _ in 0..(if thorough { 64 } else { 8 }) { onehop_cases.push((rng.below(256) as u8, rng.chance(1, 2), rng.chance(1, 2))); }
        for (exp1, adv, dirty) in onehop_cases {
            let key = keys[1 + rng.below(2) as usize];
            let ingress = if rng.chance(1, 4) { rng.range(1, 65535) as u16 } else { 0x0102 };
            let ts = if rng.chance(1, 6) { u32::MAX } else { 1_700_000_000 + rng.below(100000) as u32 };
            let info = info_bytes(1, 0, rng.below(65536) as u16, ts);
            let mut mac1 = [0u8; 6]; for m in mac1.iter_mut() { *m = rng.below(256) as u8; }
            let hop1 = hop_bytes(0, exp1, 0, rng.range(1, 500) as u16, mac1);
            let hop2 = if dirty {
                let mut m = [0u8; 6]; for x in m.iter_mut() { *x = rng.below(256) as u8; }
                hop_bytes(*rng.pick(&[0u8, 1, 2, 3]), *rng.pick(&[7u8, 200, 255, exp1.wrapping_add(1)]), rng.below(65536) as u16, rng.below(65536) as u16, m)
            } else { [0u8; 12] };
            let mut b = info.to_vec(); b.extend_from_slice(&hop1); b.extend_from_slice(&hop2);
            let mut bv = b.clone();
            let vres = catch_unwind(AssertUnwindSafe(|| { let (v, _) = OneHopPathView::try_from_mut_slice(&mut bv).unwrap(); v.set_second_hop(ingress, key, adv); }));
            let mb = catch_unwind(AssertUnwindSafe(|| { let (v, _) = OneHopPathView::try_from_slice(&b).unwrap(); let mut m = v.to_model(); m.set_second_hop(ingress, key, adv); m.try_encode_to_vec().unwrap_or_default() })).unwrap_or_default();
            if vres.is_err() { bv = vec![]; }
            let case = format!("ROne (mkOC {} {} {} {} {} {})", coq_bytes(&b), coq_bytes(&key), ingress, adv as u64, coq_bytes(&bv), coq_bytes(&mb));
            let hum = format!("onehop exp1={} advanced={} dirty_slot={} ingress={} hop2_before={:02x?} hop2_view={:02x?} hop2_model={:02x?}", exp1, adv, dirty, ingress, hop2, bv.get(20..).unwrap_or(&[]), mb.get(20..).unwrap_or(&[]));
            emit(case, hum, "onehop", &[], &mut sum, &mut sh);
        }
    }
    // 5. random step sequences on random (mostly well-formed) paths
    for i in 0..n {
        let nseg = rng.range(1, 3) as usize;
        let mut segs = [0u8; 3];
        for s in segs.iter_mut().take(nseg) { *s = if rng.chance(1, 12) { rng.range(10, 40) as u8 } else { rng.range(1, 5) as u8 }; }
        if i % 7 == 0 { segs[rng.below(3) as usize] = 0; }
        let total = hop_count(segs);
        let ch = if rng.chance(1, 6) { rng.below(64) as u8 } else { rng.below(total.clamp(1, 64) as u64) as u8 };
        let ci = rng.below(4) as u8;
        let canon = rng.chance(2, 3);
        let p = raw_path(&mut rng, ci, ch, segs, canon);
        let b = p.bytes(); let mut buf = b.clone(); let mut steps = vec![];
        for _ in 0..rng.range(1, 6) {
            let st = Step { kind: *rng.pick(&[0u8, 0, 1, 2, 2, 3]), val: *rng.pick(&free_vals) };
            let r = run_step(&mut buf, st, &keys); steps.push((st, r));
        }
        emit(coq_case(0, &b, &keys, &steps, 999), human("random", &p, &steps), "random", &steps, &mut sum, &mut sh);
    }
    sh.flush();
    sum.write(&out, sh.total, distinct);
}

/// walk over the reversed path: hop j of the reversed path is hop (n-1-j) of the original one
fn walk_rev(buf: &mut Vec<u8>, asn_f: &[usize], keys: &[ForwardingKey], out: &mut Vec<(Step, StepRes)>, max: usize) {
    let n = asn_f.len();
    let mut first = true;
    for _ in 0..max {
        let hop = (buf[0] & 63) as usize;
        if hop >= n { break; }
        let val = Val::Mac(asn_f[n - 1 - hop] % keys.len());
        let st = Step { kind: if first { 1 } else { 0 }, val };
        first = false;
        let r = run_step(buf, st, keys);
        let cont = r.cont; out.push((st, r));
        if !cont { break; }
        let st2 = Step { kind: 2, val };
        let r2 = run_step(buf, st2, keys);
        let cont2 = r2.cont; out.push((st2, r2));
        if !cont2 { break; }
    }
}
