//! Shared generators for the standard-path harnesses (C11, C12): raw path byte strings built
//! from a meta header and info/hop field bytes, without going through the implementation.
use vcommon::Rng;

#[derive(Clone, Debug)]
pub struct RawPath {
    pub ci: u8,
    pub ch: u8,
    pub rsv: u8,
    pub segs: [u8; 3],
    pub infos: Vec<[u8; 8]>,
    pub hops: Vec<[u8; 12]>,
}

pub fn info_count(segs: [u8; 3]) -> usize { segs.iter().filter(|&&s| s > 0).count() }
pub fn hop_count(segs: [u8; 3]) -> usize { segs.iter().map(|&s| s as usize).sum() }

impl RawPath {
    pub fn meta(&self) -> [u8; 4] {
        let w: u32 = ((self.ci as u32 & 3) << 30) | ((self.ch as u32 & 63) << 24) | ((self.rsv as u32 & 63) << 18)
            | ((self.segs[0] as u32 & 63) << 12) | ((self.segs[1] as u32 & 63) << 6) | (self.segs[2] as u32 & 63);
        w.to_be_bytes()
    }
    pub fn bytes(&self) -> Vec<u8> {
        let mut v = self.meta().to_vec();
        for i in &self.infos { v.extend_from_slice(i); }
        for h in &self.hops { v.extend_from_slice(h); }
        v
    }
    pub fn human(&self) -> String {
        format!("ci={} ch={} rsv={} segs={:?} infos={} hops={}", self.ci, self.ch, self.rsv, self.segs,
            self.infos.iter().map(|i| format!("{:02x}/{:02x}{:02x}/{:02x}{:02x}{:02x}{:02x}", i[0], i[2], i[3], i[4], i[5], i[6], i[7])).collect::<Vec<_>>().join(","),
            self.hops.iter().map(|h| format!("{:02x}.{:02x}.{}>{}", h[0], h[1], u16::from_be_bytes([h[2], h[3]]), u16::from_be_bytes([h[4], h[5]]))).collect::<Vec<_>>().join(","))
    }
}

pub fn info_bytes(flags: u8, rsv: u8, seg_id: u16, ts: u32) -> [u8; 8] {
    let mut b = [0u8; 8];
    b[0] = flags; b[1] = rsv; b[2..4].copy_from_slice(&seg_id.to_be_bytes()); b[4..8].copy_from_slice(&ts.to_be_bytes());
    b
}
pub fn hop_bytes(flags: u8, exp: u8, ci: u16, ce: u16, mac: [u8; 6]) -> [u8; 12] {
    let mut b = [0u8; 12];
    b[0] = flags; b[1] = exp; b[2..4].copy_from_slice(&ci.to_be_bytes()); b[4..6].copy_from_slice(&ce.to_be_bytes());
    b[6..12].copy_from_slice(&mac);
    b
}

/// info/hop field contents: small distinct interface numbers, random flags from a small set,
/// timestamps near the boundaries of u32 now and then, random MAC bytes
pub fn fill_fields(rng: &mut Rng, segs: [u8; 3], canonical: bool) -> (Vec<[u8; 8]>, Vec<[u8; 12]>) {
    let mut infos = vec![];
    for k in 0..info_count(segs) {
        let flags = if canonical { *rng.pick(&[0u8, 1, 1, 2, 3]) } else { *rng.pick(&[0u8, 1, 1, 2, 3, 0x80, 0xff, 0x55]) };
        let rsv = if canonical { 0 } else { *rng.pick(&[0u8, 0, 7, 255]) };
        let ts = match rng.below(8) { 0 => 0, 1 => u32::MAX, 2 => u32::MAX - 86400, 3 => u32::MAX - 337, _ => 1_700_000_000 + (k as u32) * 1000 + rng.below(5000) as u32 };
        infos.push(info_bytes(flags, rsv, rng.below(65536) as u16, ts));
    }
    let mut hops = vec![];
    for k in 0..hop_count(segs) {
        let flags = if canonical { *rng.pick(&[0u8, 0, 1, 2, 3]) } else { *rng.pick(&[0u8, 0, 1, 2, 3, 0xfc, 0xff]) };
        let exp = *rng.pick(&[0u8, 1, 63, 200, 255, (k as u8).wrapping_mul(37)]);
        let mut mac = [0u8; 6];
        for m in mac.iter_mut() { *m = rng.below(256) as u8; }
        hops.push(hop_bytes(flags, exp, (2 * k + 1) as u16, if rng.chance(1, 12) { 0 } else { (2 * k + 2) as u16 }, mac));
    }
    (infos, hops)
}

pub fn raw_path(rng: &mut Rng, ci: u8, ch: u8, segs: [u8; 3], canonical: bool) -> RawPath {
    let (infos, hops) = fill_fields(rng, segs, canonical);
    RawPath { ci, ch, rsv: if canonical { 0 } else { *rng.pick(&[0u8, 0, 1, 63]) }, segs, infos, hops }
}
