//! C10 correspondence harness: builds SNAP tokens from a known structure (header members,
//! payload members, signing key, signature damage), runs the real `SnapTokenVerifier::verify`
//! and the real control-plane router (`build_router`: AuthMiddleware +
//! register_snaptun_identity_handler with a recording identity registry) on them and writes
//! structure + observed answers as Coq case files (Sci.Snap.Cases_C10).
use std::collections::{BTreeMap, HashSet};
use std::net::{IpAddr, SocketAddr};
use std::panic::AssertUnwindSafe;
use std::sync::{Arc, Mutex};
use std::time::{Duration, Instant, SystemTime, UNIX_EPOCH};

use base64::{Engine, engine::general_purpose::{STANDARD, URL_SAFE_NO_PAD}};
use ed25519_dalek::{Signer, Verifier};
use snap_control::api::crpc::model::{SnapDataPlane, SnapDataPlaneResolver, SnapTunIdentityRegistry};
use snap_control::server::token_verifier::{SnapTokenVerifier, SnapTokenVerifyError};
use tower::ServiceExt;
use vcommon::*;

// ---------------------------------------------------------------- JSON structure
#[derive(Clone, Debug)]
enum J {
    Null,
    Bool(bool),
    Num(u64),
    Big(String),        // integer literal >= 2^64
    Neg(i64),           // negative integer literal
    Float(String),      // literal with fraction / exponent
    Str(String),
    Arr(Vec<J>),
    Obj(bool),          // {"a":1} when true, {} when false
}
fn jesc(s: &str) -> String { vcommon::jstr(s) }
impl J {
    fn json(&self) -> String {
        match self {
            J::Null => "null".into(),
            J::Bool(b) => b.to_string(),
            J::Num(n) => n.to_string(),
            J::Big(s) => s.clone(),
            J::Neg(n) => n.to_string(),
            J::Float(s) => s.clone(),
            J::Str(s) => jesc(s),
            J::Arr(l) => format!("[{}]", l.iter().map(|x| x.json()).collect::<Vec<_>>().join(",")),
            J::Obj(ne) => if *ne { "{\"a\":1}".into() } else { "{}".into() },
        }
    }
    fn coq(&self) -> String {
        match self {
            J::Null => "JNull".into(),
            J::Bool(b) => format!("JBool {b}"),
            J::Num(n) => format!("JNum {n}"),
            J::Big(s) => format!("JNum {s}"),
            J::Neg(_) => "JNegInt".into(),
            J::Float(s) => {
                let v: f64 = s.parse().unwrap();
                // the expression of jsonwebtoken's numeric_type visitor
                if v.is_finite() && v >= 0.0 && v < (u64::MAX as f64) {
                    format!("JFloat (Some {})", v.round() as u64)
                } else { "JFloat None".into() }
            }
            J::Str(s) => format!("JStr {}", coq_string(s)),
            J::Arr(l) => format!("JArr {}", coq_list(l.iter().map(|x| format!("({})", x.coq())))),
            J::Obj(ne) => format!("JObj {ne}"),
        }
    }
}
fn coq_string(s: &str) -> String {
    match s {
        "pssid" => return "S_pssid".into(),
        "exp" => return "S_exp".into(),
        "jti" => return "S_jti".into(),
        "ver" => return "S_ver".into(),
        "iss" => return "S_iss".into(),
        "aud" => return "S_aud".into(),
        "nbf" => return "S_nbf".into(),
        "iat" => return "S_iat".into(),
        "sub" => return "S_sub".into(),
        "ef16640f-0fa9-4360-be74-dbeec7ab4f9a" => return "S_uuid0".into(),
        "ABI-RWfomxLTpFZCZhQXQAA" => return "S_pssid1".into(),
        "ssr" => return "S_ssr".into(),
        "snap" => return "S_snap".into(),
        "jti-0" => return "S_jti0".into(),
        "jti-1" => return "S_jti1".into(),
        "JWT" => return "S_JWT".into(),
        "k1" => return "S_k1".into(),
        "k0" => return "S_k0".into(),
        "other" => return "S_other".into(),
        "1900000000" => return "S_num".into(),
        _ => {}
    }
    assert!(s.bytes().all(|b| (0x20..0x7f).contains(&b)), "harness strings are printable ASCII");
    format!("\"{}\"", s.replace('"', "\"\""))
}
type Members = Vec<(String, J)>;
fn obj_json(m: &Members) -> String {
    format!("{{{}}}", m.iter().map(|(k, v)| format!("{}:{}", jesc(k), v.json())).collect::<Vec<_>>().join(","))
}
fn set(m: &mut Members, k: &str, v: J) {
    match m.iter_mut().find(|(n, _)| n == k) { Some(e) => e.1 = v, None => m.push((k.into(), v)) }
}
fn del(m: &mut Members, k: &str) { m.retain(|(n, _)| n != k); }

// ---------------------------------------------------------------- token under construction
#[derive(Clone, Debug)]
enum SigMut { None, FlipBit(usize), Truncate(usize), Empty, Pad, NotB64, Zero }
#[derive(Clone, Debug)]
struct Tok {
    hdr: Members,
    claims: Members,
    hdr_seg: Option<String>,    // overrides the header segment text
    pay_seg: Option<String>,    // overrides the payload segment text
    sig_seg: Option<String>,    // overrides the signature segment text
    key: usize,                 // signing key: 0 trusted, 1 untrusted
    sig_mut: SigMut,
    whole: Option<String>,      // overrides everything
    label: String,
}
const ALGS: [&str; 12] = ["HS256", "HS384", "HS512", "ES256", "ES384", "RS256", "RS384", "RS512", "PS256", "PS384", "PS512", "EdDSA"];

struct Keys { sk: [ed25519_dalek::SigningKey; 2] }
impl Keys {
    fn new() -> Self {
        Keys { sk: [scion_sdk_token_validator::validator::insecure_const_ed25519_signing_key(),
                    ed25519_dalek::SigningKey::from_bytes(&[99u8; 32])] }
    }
}
fn b64(x: &[u8]) -> String { URL_SAFE_NO_PAD.encode(x) }

struct Built { text: String, hdr_seg: String, pay_seg: String, sig_seg: String }
fn build(t: &Tok, keys: &Keys) -> Built {
    let hdr_seg = t.hdr_seg.clone().unwrap_or_else(|| b64(obj_json(&t.hdr).as_bytes()));
    let pay_seg = t.pay_seg.clone().unwrap_or_else(|| b64(obj_json(&t.claims).as_bytes()));
    let msg = format!("{hdr_seg}.{pay_seg}");
    let mut sig = keys.sk[t.key].sign(msg.as_bytes()).to_bytes().to_vec();
    let sig_seg = match (&t.sig_seg, &t.sig_mut) {
        (Some(s), _) => s.clone(),
        (None, SigMut::None) => b64(&sig),
        (None, SigMut::FlipBit(i)) => { sig[(i / 8) % 64] ^= 1 << (i % 8); b64(&sig) }
        (None, SigMut::Truncate(n)) => b64(&sig[..*n]),
        (None, SigMut::Empty) => String::new(),
        (None, SigMut::Pad) => format!("{}==", b64(&sig)),
        (None, SigMut::NotB64) => format!("{}!", &b64(&sig)[1..]),
        (None, SigMut::Zero) => b64(&[0u8; 64]),
    };
    let text = t.whole.clone().unwrap_or_else(|| format!("{msg}.{sig_seg}"));
    Built { text, hdr_seg, pay_seg, sig_seg }
}

// ---------------------------------------------------------------- structure seen by the model
fn hfield(m: &Members, k: &str) -> &'static str {
    // returns a tag; the string itself is fetched separately
    match m.iter().find(|(n, _)| n == k).map(|x| &x.1) {
        None | Some(J::Null) => "absent", Some(J::Str(_)) => "str", Some(_) => "bad",
    }
}
fn hfield_coq(m: &Members, k: &str) -> String {
    match m.iter().find(|(n, _)| n == k).map(|x| &x.1) {
        None | Some(J::Null) => "HAbsent".into(),
        Some(J::Str(s)) => format!("(HStr {})", coq_string(s)),
        Some(_) => "HBad".into(),
    }
}
/// independent check that a segment is base64url-no-pad of a JSON object (third-party oracle)
fn seg_is_object(seg: &str) -> bool {
    match URL_SAFE_NO_PAD.decode(seg) {
        Ok(b) => matches!(serde_json::from_slice::<serde_json::Value>(&b), Ok(serde_json::Value::Object(_))),
        Err(_) => false,
    }
}
fn header_coq(t: &Tok, b: &Built, three_parts: bool) -> String {
    if !three_parts || !seg_is_object(&b.hdr_seg) { return "None".into(); }
    if t.hdr_seg.is_some() || t.whole.is_some() {
        panic!("generator bug: overridden header segment decodes ({})", t.label);
    }
    // members other than alg/kid/typ must be strings (Header::extras is HashMap<String,String>);
    // the generator adds only "x" (ill-typed on purpose) or "cty" (a string)
    for (k, v) in &t.hdr {
        if !["alg", "kid", "typ"].contains(&k.as_str()) && !matches!(v, J::Str(_)) { return "None".into(); }
    }
    let alg = match t.hdr.iter().find(|(n, _)| n == "alg").map(|x| &x.1) {
        Some(J::Str(s)) if ALGS.contains(&s.as_str()) => format!("(Some {s})"),
        _ => "None".into(),
    };
    let _ = hfield(&t.hdr, "kid");
    format!("(Some (mkRawHeader {} {} {}))", alg, hfield_coq(&t.hdr, "kid"), hfield_coq(&t.hdr, "typ"))
}
fn claims_coq(t: &Tok, b: &Built, three_parts: bool) -> String {
    if !three_parts || !seg_is_object(&b.pay_seg) { return "None".into(); }
    if t.pay_seg.is_some() || t.whole.is_some() {
        panic!("generator bug: overridden payload segment decodes ({})", t.label);
    }
    format!("(Some {})", coq_list(t.claims.iter().map(|(k, v)| format!("({}, {})", coq_string(k), v.coq()))))
}
/// keys under which the signature segment verifies (Ed25519 oracle, same library)
fn sig_keys(b: &Built, keys: &Keys, three_parts: bool) -> (Vec<u64>, bool) {
    if !three_parts { return (vec![], false); }
    let msg = format!("{}.{}", b.hdr_seg, b.pay_seg);
    let raw = match URL_SAFE_NO_PAD.decode(&b.sig_seg) { Ok(r) => r, Err(_) => return (vec![], false) };
    let mut out = vec![];
    if let Ok(sig) = ed25519_dalek::Signature::from_slice(&raw) {
        for (i, k) in keys.sk.iter().enumerate() {
            if k.verifying_key().verify(msg.as_bytes(), &sig).is_ok() { out.push(i as u64); }
        }
    }
    (out, true)
}

// ---------------------------------------------------------------- implementation runs
fn now_secs() -> u64 { SystemTime::now().duration_since(UNIX_EPOCH).unwrap().as_secs() }

fn err_code(e: &SnapTokenVerifyError, sig_b64_ok: bool) -> u64 {
    use jsonwebtoken::errors::ErrorKind as K;
    match e {
        SnapTokenVerifyError::HeaderDecodeError(_) => 1,
        SnapTokenVerifyError::UnknownKid(_) => 2,
        SnapTokenVerifyError::VerificationFailed(e) => match e.kind() {
            K::InvalidAlgorithm => 3,
            K::InvalidSignature | K::InvalidKeyFormat | K::InvalidEddsaKey | K::Provider(_) => 4,
            K::Base64(_) => if sig_b64_ok { 5 } else { 4 },
            K::Json(_) | K::Utf8(_) => 5,
            K::MissingRequiredClaim(_) => 6,
            K::InvalidClaimFormat(_) => 7,
            K::InvalidToken => 8,
            K::ExpiredSignature => 9,
            K::ImmatureSignature => 10,
            K::InvalidAudience => 11,
            _ => 50,
        },
    }
}

struct Recorder { last: Mutex<Option<Duration>> }
impl SnapTunIdentityRegistry for Recorder {
    fn register(&self, _now: Instant, _key: &str, _id: [u8; 32], _psk: Option<[u8; 32]>, lifetime: Duration,
                _claims: &snap_tokens::AnyClaims) -> anyhow::Result<bool> {
        *self.last.lock().unwrap() = Some(lifetime);
        Ok(true)
    }
    fn remove_expired(&self, _now: Instant) {}
}
struct NoUnderlays;
impl snap_control::model::UnderlayDiscovery for NoUnderlays {
    fn list_snap_underlays(&self) -> Vec<snap_control::model::SnapUnderlay> { vec![] }
    fn list_udp_underlays(&self) -> Vec<snap_control::model::UdpUnderlay> { vec![] }
}
struct NoSegments;
#[async_trait::async_trait]
impl endhost_api_models::SegmentsDiscovery for NoSegments {
    async fn list_segments(&self, _s: sciparse::identifier::isd_asn::IsdAsn, _d: sciparse::identifier::isd_asn::IsdAsn,
                           _n: i32, _t: String) -> Result<sciparse::segment::SegmentsPage, endhost_api_models::SegmentsError> {
        Err(endhost_api_models::SegmentsError::InternalError("none".into()))
    }
}
struct NoResolver;
impl SnapDataPlaneResolver for NoResolver {
    fn get_data_plane_address(&self, _ip: IpAddr) -> Result<SnapDataPlane, (axum::http::StatusCode, anyhow::Error)> {
        Err((axum::http::StatusCode::NOT_FOUND, anyhow::anyhow!("none")))
    }
}

struct Impl { rt: tokio::runtime::Runtime, verifier: SnapTokenVerifier, jwks_verifier: Option<SnapTokenVerifier>, router: axum::Router, rec: Arc<Recorder> }
impl Impl {
    fn new() -> Self {
        let rt = tokio::runtime::Builder::new_current_thread().enable_all().build().unwrap();
        let (_, dk) = snap_tokens::v0::insecure_const_snap_token_key_pair();
        let verifier = SnapTokenVerifier::new(dk);
        let rec = Arc::new(Recorder { last: Mutex::new(None) });
        let router = {
            let _g = rt.enter();
            snap_control::server::build_router(
                NoUnderlays, "http://127.0.0.1:1/".parse().unwrap(), NoSegments, NoResolver, rec.clone(), None,
                verifier.clone(),
                snap_control::server::metrics::Metrics::new(&scion_sdk_observability::metrics::registry::MetricsRegistry::new()),
            ).unwrap()
        };
        // a second verifier with a JWKS store served from a local HTTP endpoint:
        // kid k0 -> trusted test key, k1 -> the second key, hs -> an HMAC key (wrong family)
        let jwks_verifier = rt.block_on(async {
            let keys = Keys::new();
            let x = |i: usize| URL_SAFE_NO_PAD.encode(keys.sk[i].verifying_key().as_bytes());
            let jwks = serde_json::json!({"keys": [
                {"kid": "k0", "kty": "OKP", "use": "sig", "alg": "EdDSA", "crv": "Ed25519", "x": x(0)},
                {"kid": "k1", "kty": "OKP", "use": "sig", "alg": "EdDSA", "crv": "Ed25519", "x": x(1)},
                {"kid": "hs", "kty": "oct", "alg": "HS256", "k": URL_SAFE_NO_PAD.encode(b"0123456789abcdef0123456789abcdef")}]});
            let listener = tokio::net::TcpListener::bind("127.0.0.1:0").await.ok()?;
            let addr = listener.local_addr().ok()?;
            let app = axum::Router::new().route("/.well-known/jwks.json", axum::routing::get(move || { let j = jwks.clone(); async move { axum::Json(j) } }));
            tokio::spawn(async move { let _ = axum::serve(listener, app).await; });
            let url = format!("http://{addr}/.well-known/jwks.json").parse().ok()?;
            let store = Arc::new(snap_control::server::jwks_key_store::JwksKeyStore::new(url, Duration::from_secs(3600), tokio_util::sync::CancellationToken::new()));
            let probe = tokio::time::timeout(Duration::from_secs(10), store.await_key("k1")).await;
            if !matches!(probe, Ok(Some(_))) { return None; }
            let (_, dk) = snap_tokens::v0::insecure_const_snap_token_key_pair();
            Some(SnapTokenVerifier::new(dk).with_jwks_store(store))
        });
        Impl { rt, verifier, jwks_verifier, router, rec }
    }
    /// (code, ver, exp)
    fn verify(&self, tok: &str, sig_b64_ok: bool, jwks: bool) -> (u64, u64, u64) {
        let v = if jwks { self.jwks_verifier.as_ref().unwrap() } else { &self.verifier };
        let r = std::panic::catch_unwind(AssertUnwindSafe(|| self.rt.block_on(v.verify(tok))));
        match r {
            Err(_) => (99, 0, 0),
            Ok(Ok(c)) => match c {
                snap_tokens::AnyClaims::V1(c) => (0, 1, c.exp),
                snap_tokens::AnyClaims::V0(c) => (0, 0, c.exp),
            },
            Ok(Err(e)) => (err_code(&e, sig_b64_ok), 0, 0),
        }
    }
    /// (status class, lifetime seconds)
    fn register(&self, tok: &str) -> (u64, u64) {
        *self.rec.last.lock().unwrap() = None;
        let body = prost::Message::encode_to_vec(&snap_control::proto::anapaya::snap::v1::RegisterSnapTunIdentityRequest {
            initiator_static_x25519: vec![7u8; 32], psk_share: vec![0u8; 32] });
        let mut hv = Vec::from(b"Bearer ".as_slice()); hv.extend_from_slice(tok.as_bytes());
        let hv = match axum::http::HeaderValue::from_bytes(&hv) { Ok(h) => h, Err(_) => return (1, 0) };
        let mut req = axum::http::Request::builder().method("POST")
            .uri("/anapaya.snap.v1.SnapControl/RegisterSnapTunIdentity")
            .header("content-type", "application/proto")
            .body(axum::body::Body::from(body)).unwrap();
        req.headers_mut().insert("authorization", hv);
        req.extensions_mut().insert(axum::extract::ConnectInfo(SocketAddr::from(([127, 0, 0, 1], 4000))));
        let router = self.router.clone();
        let r = std::panic::catch_unwind(AssertUnwindSafe(|| self.rt.block_on(async move {
            let resp = router.oneshot(req).await.unwrap();
            let st = resp.status().as_u16();
            let b = axum::body::to_bytes(resp.into_body(), 1 << 20).await.unwrap_or_default();
            (st, String::from_utf8_lossy(&b).to_string())
        })));
        match r {
            Err(_) => (99, 0),
            Ok((200, _)) => match *self.rec.last.lock().unwrap() { Some(d) => (0, d.as_secs()), None => (3, 0) },
            Ok((401, _)) => (1, 0),
            Ok((_, b)) if b.contains("expiration time is in the past") => (2, 0),
            Ok((st, b)) => { eprintln!("unexpected router status {st}: {b}"); (3, 0) }
        }
    }
}

// ---------------------------------------------------------------- generators
const UUID0: &str = "ef16640f-0fa9-4360-be74-dbeec7ab4f9a";
const PSSID1: &str = "ABI-RWfomxLTpFZCZhQXQAA";
fn s(x: &str) -> J { J::Str(x.into()) }
fn base_hdr() -> Members { vec![("typ".into(), s("JWT")), ("alg".into(), s("EdDSA"))] }
fn base_v0(now: u64) -> Tok {
    Tok { hdr: base_hdr(), claims: vec![("pssid".into(), s(UUID0)), ("exp".into(), J::Num(now + 3600)), ("jti".into(), s("jti-0"))],
          hdr_seg: None, pay_seg: None, sig_seg: None, key: 0, sig_mut: SigMut::None, whole: None, label: "v0".into() }
}
fn base_v1(now: u64) -> Tok {
    Tok { hdr: base_hdr(), claims: vec![
            ("ver".into(), J::Num(1)), ("iss".into(), s("ssr")), ("aud".into(), s("snap")), ("exp".into(), J::Num(now + 3600)),
            ("nbf".into(), J::Num(now - 10)), ("iat".into(), J::Num(now - 10)), ("jti".into(), s("jti-1")), ("pssid".into(), s(PSSID1))],
          hdr_seg: None, pay_seg: None, sig_seg: None, key: 0, sig_mut: SigMut::None, whole: None, label: "v1".into() }
}
// the case loop runs verifier and router inside one wall-clock second (retried otherwise), so the
// verifier's `now` is the recorded one exactly and the leeway edge (60 s) can be probed to the second
const OFFS: [i64; 14] = [-3600, -120, -65, -61, -60, -59, -30, 30, 59, 60, 61, 65, 120, 3600];
fn at(now: u64, off: i64) -> u64 { (now as i64 + off) as u64 }

type Mutation = Box<dyn Fn(&mut Tok, u64)>;
fn m(label: &str, f: impl Fn(&mut Tok, u64) + 'static) -> (String, Mutation) { (label.to_string(), Box::new(f)) }

/// every single-field mutation (applied to both base tokens)
fn mutations() -> Vec<(String, Mutation)> {
    let mut v: Vec<(String, Mutation)> = vec![];
    // ---- header
    for a in ["none", "HS256", "ES256", "EdDSA", "eddsa", "RS256", "PS512", "HS384"] {
        let a = a.to_string(); v.push(m(&format!("alg={a}"), move |t, _| set(&mut t.hdr, "alg", s(&a))));
    }
    v.push(m("alg-absent", |t, _| del(&mut t.hdr, "alg")));
    v.push(m("alg-number", |t, _| set(&mut t.hdr, "alg", J::Num(1))));
    v.push(m("alg-null", |t, _| set(&mut t.hdr, "alg", J::Null)));
    for (l, k) in [("kid=k1", s("k1")), ("kid=empty", s("")), ("kid-null", J::Null), ("kid-number", J::Num(7)), ("kid-array", J::Arr(vec![s("k1")]))] {
        v.push(m(l, move |t, _| set(&mut t.hdr, "kid", k.clone())));
    }
    for (l, k) in [("typ=other", s("other")), ("typ-null", J::Null), ("typ-number", J::Num(5))] {
        v.push(m(l, move |t, _| set(&mut t.hdr, "typ", k.clone())));
    }
    v.push(m("typ-absent", |t, _| del(&mut t.hdr, "typ")));
    v.push(m("hdr-extra-string", |t, _| set(&mut t.hdr, "cty", s("x"))));
    v.push(m("hdr-extra-number", |t, _| set(&mut t.hdr, "x", J::Num(1))));
    // ---- every claim removed / retyped
    for c in ["ver", "iss", "aud", "exp", "nbf", "iat", "jti", "pssid", "sub"] {
        v.push(m(&format!("{c}-removed"), move |t, _| del(&mut t.claims, c)));
        for (l, val) in [("null", J::Null), ("bool", J::Bool(true)), ("string", s("1900000000")), ("number", J::Num(1900000000)),
                         ("neg", J::Neg(-5)), ("float", J::Float("1900000000.5".into())), ("array", J::Arr(vec![s("snap")])),
                         ("object", J::Obj(true)), ("emptyobject", J::Obj(false)), ("emptyarray", J::Arr(vec![])), ("big", J::Big("18446744073709551616".into())), ("floatneg", J::Float("-1.5".into())),
                         ("floathuge", J::Float("1e30".into()))] {
            v.push(m(&format!("{c}-as-{l}"), move |t, _| set(&mut t.claims, c, val.clone())));
        }
    }
    // ---- times
    for c in ["exp", "nbf", "iat"] {
        for off in OFFS {
            v.push(m(&format!("{c}=now{off:+}"), move |t, now| set(&mut t.claims, c, J::Num(at(now, off)))));
            v.push(m(&format!("{c}=now{off:+}.25(float)"), move |t, now| set(&mut t.claims, c, J::Float(format!("{}.25", at(now, off))))));
        }
    }
    v.push(m("exp=0", |t, _| set(&mut t.claims, "exp", J::Num(0))));
    v.push(m("exp=2^63-1", |t, _| set(&mut t.claims, "exp", J::Num(i64::MAX as u64))));
    v.push(m("exp=2^63", |t, _| set(&mut t.claims, "exp", J::Num(1 << 63))));
    v.push(m("exp=2^64-1", |t, _| set(&mut t.claims, "exp", J::Num(u64::MAX))));
    v.push(m("nbf=2^64-1", |t, _| set(&mut t.claims, "nbf", J::Num(u64::MAX))));
    v.push(m("nbf=0", |t, _| set(&mut t.claims, "nbf", J::Num(0))));
    // ---- ver
    for (l, val) in [("0", J::Num(0)), ("1", J::Num(1)), ("2", J::Num(2)), ("\"1\"", s("1")), ("1.0", J::Float("1.0".into())), ("-1", J::Neg(-1))] {
        v.push(m(&format!("ver={l}"), move |t, _| set(&mut t.claims, "ver", val.clone())));
    }
    // ---- aud
    for (l, val) in [("\"snap\"", s("snap")), ("\"other\"", s("other")), ("\"SNAP\"", s("SNAP")), ("[snap]", J::Arr(vec![s("snap")])),
                     ("[other]", J::Arr(vec![s("other")])), ("[other,snap]", J::Arr(vec![s("other"), s("snap")])), ("[]", J::Arr(vec![])),
                     ("[snap,7]", J::Arr(vec![s("snap"), J::Num(7)])), ("[other,7]", J::Arr(vec![s("other"), J::Num(7)])),
                     ("7", J::Num(7)), ("{}", J::Obj(false)), ("{a:1}", J::Obj(true)), ("[[snap]]", J::Arr(vec![J::Arr(vec![s("snap")])]))] {
        v.push(m(&format!("aud={l}"), move |t, _| set(&mut t.claims, "aud", val.clone())));
    }
    // ---- iss / sub (not validated)
    v.push(m("iss=other", |t, _| set(&mut t.claims, "iss", s("other"))));
    v.push(m("sub=x", |t, _| set(&mut t.claims, "sub", s("x"))));
    v.push(m("sub-number", |t, _| set(&mut t.claims, "sub", J::Num(3))));
    v.push(m("iss-array", |t, _| set(&mut t.claims, "iss", J::Arr(vec![s("ssr")]))));
    // ---- duplicates, unknown members
    v.push(m("dup-exp-later-past", |t, now| t.claims.push(("exp".into(), J::Num(now - 3600)))));
    v.push(m("dup-exp-earlier-past", |t, now| t.claims.insert(0, ("exp".into(), J::Num(now - 3600)))));
    v.push(m("dup-exp-same", |t, now| t.claims.push(("exp".into(), J::Num(now + 3600)))));
    v.push(m("dup-aud", |t, _| t.claims.push(("aud".into(), s("snap")))));
    v.push(m("dup-jti", |t, _| t.claims.push(("jti".into(), s("again")))));
    v.push(m("dup-pssid-bad-last", |t, _| t.claims.push(("pssid".into(), s("nope")))));
    v.push(m("dup-ver", |t, _| t.claims.push(("ver".into(), J::Num(2)))));
    v.push(m("unknown-claim", |t, _| t.claims.push(("aa_acc_subject_id".into(), s("subj")))));
    v.push(m("unknown-claim-object", |t, _| t.claims.push(("zz".into(), J::Obj(true)))));
    // ---- pssid shapes
    for p in ["ef16640f0fa94360be74dbeec7ab4f9a", "urn:uuid:ef16640f-0fa9-4360-be74-dbeec7ab4f9a", "{ef16640f-0fa9-4360-be74-dbeec7ab4f9a}",
              "ef16640f-0fa9-4360-be74-dbeec7ab4f9", "EF16640F-0FA9-4360-BE74-DBEEC7AB4F9A", "", "AAAAAAAAAAAAAAAAAAAAAAA",
              "ABI-RWfomxLTpFZCZhQXQA", "ABI-RWfomxLTpFZCZhQXQAAA", "BBI-RWfomxLTpFZCZhQXQAA", "ABI-RWfomxLTpFZCZhQXQAA=", "ABI+RWfomxLTpFZCZhQXQAA",
              "ABI-RWfomxLTpFZCZhQXQAB", "not a pssid",
              "{ef16640f0fa94360be74dbeec7ab4f9a}", "URN:UUID:ef16640f-0fa9-4360-be74-dbeec7ab4f9a", "ef16640f0-fa9-4360-be74-dbeec7ab4f9a",
              "ef16640f-0fa9-4360-be74-dbeec7ab4f9g", "{ef16640f-0fa9-4360-be74-dbeec7ab4f9a)", "urn:uuid:ef16640f0fa94360be74dbeec7ab4f9a1234",
              "AP__-_-_-_-_-_-_-_-_-_8", "AQI-RWfomxLTpFZCZhQXQAA", "APz-RWfomxLTpFZCZhQXQAE", "ABI-RWfomxLTpFZCZhQXQA.", "A", "ABI-RWfomxLTpFZCZhQXQAAAAA"] {
        v.push(m(&format!("pssid={p}"), move |t, _| set(&mut t.claims, "pssid", s(p))));
    }
    // ---- signature
    v.push(m("signed-by-untrusted-key", |t, _| t.key = 1));
    for i in [0usize, 7, 255, 256, 300, 511] { v.push(m(&format!("sig-flip-bit-{i}"), move |t, _| t.sig_mut = SigMut::FlipBit(i))); }
    v.push(m("sig-truncated-63", |t, _| t.sig_mut = SigMut::Truncate(63)));
    v.push(m("sig-truncated-32", |t, _| t.sig_mut = SigMut::Truncate(32)));
    v.push(m("sig-empty", |t, _| t.sig_mut = SigMut::Empty));
    v.push(m("sig-padded", |t, _| t.sig_mut = SigMut::Pad));
    v.push(m("sig-not-base64", |t, _| t.sig_mut = SigMut::NotB64));
    v.push(m("sig-zero", |t, _| t.sig_mut = SigMut::Zero));
    // ---- base64 / segment variants (signature made over the varied text)
    v.push(m("header-seg-padded", |t, _| { let h = STANDARD.encode(obj_json(&t.hdr)).replace('+', "-").replace('/', "_");
        t.hdr_seg = Some(if h.ends_with('=') { h } else { format!("{h}=") }); }));
    v.push(m("payload-seg-padded", |t, _| { let p = b64(obj_json(&t.claims).as_bytes()); t.pay_seg = Some(format!("{p}=")); }));
    v.push(m("payload-seg-std-alphabet", |t, _| { t.claims.push(("zz".into(), s("~~~???>>>"))); let p = STANDARD.encode(obj_json(&t.claims));
        let p = p.trim_end_matches('=').to_string(); t.pay_seg = Some(if p.contains('+') || p.contains('/') { p } else { format!("{p}+") }); }));
    v.push(m("header-seg-std-alphabet", |t, _| { t.hdr.push(("cty".into(), s("~~~???>>>"))); let p = STANDARD.encode(obj_json(&t.hdr));
        let p = p.trim_end_matches('=').to_string(); t.hdr_seg = Some(if p.contains('+') || p.contains('/') { p } else { format!("{p}+") }); }));
    v.push(m("payload-seg-whitespace", |t, _| { let p = b64(obj_json(&t.claims).as_bytes()); t.pay_seg = Some(format!("{p} ")); }));
    v.push(m("payload-is-array", |t, _| t.pay_seg = Some(b64(format!("[{},1900000000,{}]", jesc(UUID0), jesc("j")).as_bytes()))));
    v.push(m("payload-is-string", |t, _| t.pay_seg = Some(b64(b"\"hello\""))));
    v.push(m("payload-not-json", |t, _| t.pay_seg = Some(b64(b"{not json"))));
    v.push(m("payload-empty", |t, _| t.pay_seg = Some(String::new())));
    v.push(m("header-not-json", |t, _| t.hdr_seg = Some(b64(b"{\"alg\":"))));
    v.push(m("header-is-array", |t, _| t.hdr_seg = Some(b64(b"[\"EdDSA\"]"))));
    v.push(m("header-empty", |t, _| t.hdr_seg = Some(String::new())));
    v
}

fn random_string(rng: &mut Rng) -> String {
    let n = rng.range(0, 120) as usize;
    let alpha: &[u8] = match rng.below(3) {
        0 => b"abcdefghijklmnopqrstuvwxyzABCDEFGHIJKLMNOPQRSTUVWXYZ0123456789-_.",
        1 => b"abcXYZ019-_..=+/ {}\"",
        _ => b"eyJhbGciOiJFZERTQSJ9.",
    };
    (0..n).map(|_| *rng.pick(alpha) as char).collect()
}

fn main() {
    if std::env::var("VERIF_DEBUG").is_err() { silence_panics(); }
    scion_sdk_utils::rustls::select_ring_crypto_provider();
    // the JWKS endpoint is on loopback: never through a proxy
    unsafe { std::env::set_var("NO_PROXY", "127.0.0.1,localhost"); std::env::set_var("no_proxy", "127.0.0.1,localhost"); }
    let out = arg("--out").expect("--out");
    let n: usize = arg("--n").and_then(|x| x.parse().ok()).unwrap_or(600);
    let mut rng = Rng::new(seed_from_env());
    let keys = Keys::new();
    let im = Impl::new();
    let muts = mutations();
    let mut sh = Shards::new(&out, "From Sci Require Import Snap.Cases_C10.\nOpen Scope string_scope. Open Scope N_scope.",
                             "tcase", "verdicts", 80);
    let mut sum = Summary::default();
    let mut seen: HashSet<String> = HashSet::new();
    let mut codes: BTreeMap<u64, u64> = BTreeMap::new();

    // ---- the list of tokens to run: (kind, constructor)
    let mut plan: Vec<(String, Box<dyn Fn(u64, &mut Rng) -> Tok>)> = vec![];
    plan.push(("valid".into(), Box::new(|now, _| base_v0(now))));
    plan.push(("valid".into(), Box::new(|now, _| base_v1(now))));
    for base in 0..2 {
        for (i, (label, _)) in muts.iter().enumerate() {
            let label = label.clone();
            plan.push(("single".into(), Box::new(move |now, _| {
                let mut t = if base == 0 { base_v0(now) } else { base_v1(now) };
                let ms = mutations(); (ms[i].1)(&mut t, now);
                t.label = format!("{} {}", t.label, label); t })));
        }
    }
    // splicing header / payload / signature between two valid tokens
    for mask in 0..8u32 {
        plan.push(("splice".into(), Box::new(move |now, _| {
            let keys = Keys::new();
            let a = base_v0(now); let mut b = base_v1(now); set(&mut b.hdr, "kid", s("k1"));
            let (ba, bb) = (build(&a, &keys), build(&b, &keys));
            let pick = |bit: u32, x: &String, y: &String| if mask & bit == 0 { x.clone() } else { y.clone() };
            let mut t = if mask & 1 == 0 { a.clone() } else { b.clone() };
            t.claims = if mask & 2 == 0 { a.claims.clone() } else { b.claims.clone() };
            t.sig_seg = Some(pick(4, &ba.sig_seg, &bb.sig_seg));
            let _ = pick;
            t.label = format!("splice h{} p{} s{}", mask & 1, (mask >> 1) & 1, (mask >> 2) & 1); t })));
    }
    // whole-string variants
    for (l, f) in [("two-segments", 0), ("four-segments", 1), ("empty", 2), ("dots-only", 3), ("trailing-dot", 4), ("leading-space", 5)] {
        plan.push(("shape".into(), Box::new(move |now, _| {
            let keys = Keys::new(); let mut t = base_v0(now); let b = build(&t, &keys);
            t.whole = Some(match f { 0 => format!("{}.{}", b.hdr_seg, b.pay_seg), 1 => format!("{}.x", b.text), 2 => String::new(),
                                     3 => "..".into(), 4 => format!("{}.", b.text), _ => format!(" {}", b.text) });
            t.label = format!("shape {l}"); t })));
    }
    // JWKS configuration (verify() only): kid x signing key x version, then every header mutation
    if im.jwks_verifier.is_some() {
        for base in 0..2 { for key in 0..2usize { for kid in ["k0", "k1", "hs", "nope", ""] {
            plan.push(("jwks:kid".into(), Box::new(move |now, _| {
                let mut t = if base == 0 { base_v0(now) } else { base_v1(now) };
                t.key = key; set(&mut t.hdr, "kid", s(kid));
                t.label = format!("{} JWKS kid={kid} signed-by-key{key}", t.label); t })));
        } } }
        for base in 0..2 { for key in 0..2usize {
            plan.push(("jwks:nokid".into(), Box::new(move |now, _| {
                let mut t = if base == 0 { base_v0(now) } else { base_v1(now) };
                t.key = key; t.label = format!("{} JWKS no-kid signed-by-key{key}", t.label); t })));
        } }
        for (i, (label, _)) in muts.iter().enumerate() {
            if !(label.starts_with("alg") || label.starts_with("kid") || label.starts_with("typ") || label.starts_with("hdr") || label.starts_with("sig")
                 || label.starts_with("nbf=") || label.starts_with("exp=") || label.starts_with("aud=") || label.starts_with("header")) { continue; }
            let label = label.clone();
            plan.push(("jwks:single".into(), Box::new(move |now, _| {
                let mut t = base_v1(now); t.key = 1; set(&mut t.hdr, "kid", s("k1"));
                let ms = mutations(); (ms[i].1)(&mut t, now);
                t.label = format!("{} JWKS kid=k1 key1 then {}", t.label, label); t })));
        }
    } else { sum.count("jwks.unavailable"); }
    let directed = plan.len();
    // random: 1-3 mutations combined, and random strings
    while plan.len() < n.max(directed) {
        if rng.chance(1, 6) {
            plan.push(("random-string".into(), Box::new(|now, rng| { let mut t = base_v0(now); t.whole = Some(random_string(rng)); t.label = "random string".into(); t })));
        } else {
            plan.push(("random-multi".into(), Box::new(|now, rng| {
                let ms = mutations();
                let mut t = if rng.chance(1, 2) { base_v0(now) } else { base_v1(now) };
                let k = rng.range(1, 3);
                for _ in 0..k { let i = rng.below(ms.len() as u64) as usize; (ms[i].1)(&mut t, now); t.label = format!("{} {}", t.label, ms[i].0); }
                t })));
        }
    }
    // quick tier: when n is smaller than the directed list, sample it (seeded), always keeping the valid tokens
    let mut order: Vec<usize> = (0..plan.len()).collect();
    if n < plan.len() { let mut rest: Vec<usize> = (2..plan.len()).collect(); rng.shuffle(&mut rest); rest.truncate(n.saturating_sub(2)); rest.sort(); order = vec![0, 1]; order.extend(rest); }

    let mut sig_expect_ok = 0u64;
    for &pi in &order {
        let (kind, ctor) = &plan[pi];
        // the verifier reads the system clock: run the case inside one second
        let (now, t, b, code, ver, exp, status, life, skeys) = loop {
            let now = now_secs();
            let t = ctor(now, &mut Rng(rng.0 ^ pi as u64));
            let b = build(&t, &keys);
            let three = t.whole.is_none();
            if let Some(w) = &t.whole {
                // same splitting as jsonwebtoken's expect_two!(rsplitn(2, '.')) twice
                let mut it = w.rsplitn(2, '.'); let (_sig, msg) = (it.next(), it.next());
                if let Some(msg) = msg { let mut it = msg.rsplitn(2, '.'); let (_p, h) = (it.next(), it.next());
                    if let Some(h) = h { if seg_is_object(h) { panic!("generator bug: whole-string case has a decodable header: {w}"); } } }
            }
            let (skeys, sig_b64_ok) = sig_keys(&b, &keys, three);
            let jw = kind.starts_with("jwks:");
            let (code, ver, exp) = im.verify(&b.text, sig_b64_ok, jw);
            let (status, life) = if jw { (98, 0) } else { im.register(&b.text) };
            if now_secs() == now { break (now, t, b, code, ver, exp, status, life, skeys); }
        };
        let three = t.whole.is_none();
        if !skeys.is_empty() { sig_expect_ok += 1; }
        let uuid_ok; let p1_ok;
        match t.claims.iter().rev().find(|(k, _)| k == "pssid").map(|x| &x.1) {
            Some(J::Str(p)) => {
                uuid_ok = uuid::Uuid::parse_str(p).is_ok();
                p1_ok = matches!(URL_SAFE_NO_PAD.decode(p), Ok(v) if v.len() == 17 && v[0] == 0);
            }
            _ => { uuid_ok = false; p1_ok = false; }
        }
        let jw = if kind.starts_with("jwks:") { "(Some [(\"k0\", 0); (\"k1\", 1); (\"hs\", 2)])" } else { "None" };
        let case = format!("mkTCase {} {} {} {} {} {} {jw} {} {} {} {} {}", now, header_coq(&t, &b, three), claims_coq(&t, &b, three),
            coq_list(skeys.iter().map(|k| k.to_string())), coq_bool(uuid_ok), coq_bool(p1_ok), code, ver, exp, status, life);
        sh.push(case);
        *codes.entry(code).or_insert(0) += 1;
        sum.count(&format!("kind.{}", kind.replace(':', "-")));
        sum.count(&format!("verify_code.{code}"));
        sum.count(&format!("router_status.{status}"));
        let human = format!("[{}] now={} token={} -> verify code {} router {} lifetime {}", t.label, now, b.text, code, status, life);
        if sum.samples.len() < 3 && (pi < 2 || code == 10) { sum.samples.push(human.clone()); }
        seen.insert(format!("{}|{:?}|{:?}|{:?}|{}|{:?}", t.label, t.hdr, t.claims, t.sig_mut, t.key, t.whole));
        sum.index.push(human);
    }
    sh.flush();
    sum.add("signature_verifies_under_some_key", sig_expect_ok);
    sum.add("directed_list_size", directed as u64);
    sum.write(&out, sh.total, seen.len());
}
