//! C09 correspondence harness: drives the real `IdentityRegistry` and the real `SnapTunServer`
//! (real ana-gotatun client tunnels, as the unit tests of snap-tun/src/server.rs do) through
//! histories of register / advance / purge / connect / data-in / data-out / tick events and
//! writes every observation as Coq case files (Sci.Snap.Cases_C09).
//!
//! The server reads `Instant::now()` itself; its authorisation object is a wrapper that
//! ignores the instant it is handed and asks the registry at `base + virtual_time`.
use std::collections::{HashSet, VecDeque};
use std::net::SocketAddr;
use std::sync::atomic::{AtomicU64, Ordering};
use std::sync::Arc;
use std::time::{Duration, Instant};

use ana_gotatun::{
    noise::{Tunn, TunnResult, rate_limiter::RateLimiter},
    packet::{IpNextProtocol, Packet, WgKind},
    x25519,
};
use snap_control::server::identity_registry::IdentityRegistry;
use snap_tun::scion_packet::{Scion, ScionHeader};
use snap_tun::server::{HandleIncomingPacketResult, SnapTunAuthorization, SnapTunServer};
use vcommon::*;
use zerocopy::IntoBytes;

const N_IDS: usize = 3;
const N_KEYS: usize = 2;
const N_ADDRS: usize = 2;

struct VAuth { reg: Arc<IdentityRegistry>, base: Instant, vt: Arc<AtomicU64>, ids: [[u8; 32]; N_IDS] }
impl SnapTunAuthorization for VAuth {
    type SessionData = u64; // index of the identity whose session this is
    fn is_authorized(&self, _now: Instant, identity: &[u8; 32]) -> Option<Arc<u64>> {
        let t = self.base + Duration::from_secs(self.vt.load(Ordering::SeqCst));
        // the registry's own SnapTunAuthorization implementation
        <IdentityRegistry as SnapTunAuthorization>::is_authorized(&self.reg, t, identity)
            .map(|_| Arc::new(self.ids.iter().position(|i| i == identity).map(|p| p as u64).unwrap_or(99)))
    }
}

#[derive(Clone, Debug, PartialEq, Eq, Hash)]
enum Ev { Register(usize, usize, u64), Advance(u64), Purge, Connect(usize, usize), DataIn(usize), DataOut(usize), Tick }

fn scion_packet(body: [u8; 4]) -> Packet {
    let p = Scion { header: ScionHeader::new(0, 0xAA, 0xABCDE, 4, IpNextProtocol::Udp, 7, 0x0123_4567_89AB_CDEF, 0xFEDC_BA98_7654_3210), payload: body };
    Packet::copy_from(p.as_bytes())
}

struct World {
    base: Instant, vt: Arc<AtomicU64>, reg: Arc<IdentityRegistry>, ids: [[u8; 32]; N_IDS], secrets: Vec<x25519::StaticSecret>,
    server: SnapTunServer<VAuth>, server_pub: x25519::PublicKey, clients: Vec<Option<(usize, Tunn)>>, q: VecDeque<WgKind>,
    counter: u32, out: Vec<String>, human: Vec<String>, stats: Vec<&'static str>,
}
fn addr_of(a: usize) -> SocketAddr { format!("192.168.1.{}:{}", a + 1, 1000 + a).parse().unwrap() }

impl World {
    fn new() -> Self {
        let base = Instant::now();
        let vt = Arc::new(AtomicU64::new(0));
        let reg = Arc::new(IdentityRegistry::new());
        let secrets: Vec<_> = (0..N_IDS).map(|i| x25519::StaticSecret::from([i as u8 + 1; 32])).collect();
        let mut ids = [[0u8; 32]; N_IDS];
        for i in 0..N_IDS { ids[i] = *x25519::PublicKey::from(&secrets[i]).as_bytes(); }
        let server_secret = x25519::StaticSecret::from([77u8; 32]);
        let server_pub = x25519::PublicKey::from(&server_secret);
        let rl = Arc::new(RateLimiter::new(&server_pub, 1_000_000));
        let authz = Arc::new(VAuth { reg: reg.clone(), base, vt: vt.clone(), ids });
        let server = SnapTunServer::new(server_secret, rl, authz);
        World { base, vt, reg, ids, secrets, server, server_pub, clients: (0..N_ADDRS).map(|_| None).collect(), q: VecDeque::new(),
                counter: 0, out: vec![], human: vec![], stats: vec![] }
    }
    fn now(&self) -> Instant { self.base + Duration::from_secs(self.vt.load(Ordering::SeqCst)) }
    fn answers(&self) -> String {
        let now = self.now();
        let a: Vec<String> = (0..N_IDS).map(|i| coq_bool(self.reg.has_authorization(now, &self.ids[i])).to_string()).collect();
        let z: Vec<String> = (0..N_IDS).map(|i| coq_bool(self.reg.has_authorization(self.base, &self.ids[i])).to_string()).collect();
        format!("{}, {}", coq_list(a), coq_list(z))
    }
    fn log(&mut self, ev: String, human: String) {
        let ans = self.answers();
        self.out.push(format!("({}, {})", ev, ans));
        self.human.push(human);
    }
    fn next_body(&mut self) -> [u8; 4] { self.counter += 1; self.counter.to_be_bytes() }

    /// one datagram from address `a` into the server; `model` is the toy packet it corresponds to
    fn server_in(&mut self, a: usize, pkt: Packet, model: String, sent_body: Option<Vec<u8>>, what: &str) {
        let before = self.q.len();
        let r = self.server.handle_incoming_packet_with_session(pkt, addr_of(a), &mut self.q);
        let ndata = self.q.iter().skip(before).filter(|k| matches!(k, WgKind::Data(_))).count();
        let (fwd, attr, body) = match r {
            HandleIncomingPacketResult::Forwarded { packet, session_data, .. } => {
                let bytes: &[u8] = &packet[..];
                let intact = sent_body.as_ref().map(|s| s.as_slice() == bytes).unwrap_or(false);
                let body: Vec<u8> = if intact && bytes.len() >= 4 { bytes[bytes.len() - 4..].to_vec() } else { vec![] };
                (true, *session_data, body)
            }
            HandleIncomingPacketResult::Result { .. } => (false, 0, vec![]),
        };
        self.stats.push(if fwd { "in.forwarded" } else { "in.not_forwarded" });
        self.log(format!("HIn {} ({}) {} {} {} {}", a, model, coq_bool(fwd), attr, coq_bytes(&body), ndata),
                 format!("{what}@a{a}->{}", if fwd { format!("FWD(id{attr})") } else { "no".into() }));
        // deliver what the server queued for this address to the client tunnel there
        let queued: Vec<WgKind> = self.q.drain(..).collect();
        for k in queued {
            let Some((c, tunn)) = self.clients[a].as_mut() else { continue };
            let c = *c;
            let is_resp = matches!(k, WgKind::HandshakeResp(_));
            match tunn.handle_incoming_packet(k) {
                TunnResult::WriteToNetwork(keepalive) if is_resp => {
                    // the initiator confirms the session with a keepalive (empty data packet)
                    let pkt: Packet = match keepalive { WgKind::Data(d) => d.into_bytes(), _ => continue };
                    self.server_in(a, pkt, format!("TData {c} []"), None, "keepalive");
                }
                TunnResult::WriteToTunnel(_) => self.stats.push("queued_outbound_delivered"),
                _ => {}
            }
        }
    }

    fn apply(&mut self, ev: &Ev) {
        match *ev {
            Ev::Register(k, id, l) => {
                let now = self.now();
                let was_new = self.reg.register(now, format!("k{k}"), self.ids[id], Duration::from_secs(l));
                self.log(format!("HRegister {k} {id} {l} {}", coq_bool(was_new)), format!("reg(k{k},id{id},{l})={}", was_new));
            }
            Ev::Advance(d) => { self.vt.fetch_add(d, Ordering::SeqCst); self.log(format!("HAdvance {d}"), format!("+{d}s")); }
            Ev::Purge => { let now = self.now(); self.reg.remove_expired(now); self.log("HPurge".into(), "purge".into()); }
            Ev::Tick => { let _ = self.server.update_timers(); self.log("HTick".into(), "tick".into()); }
            Ev::Connect(a, c) => {
                // a fresh client tunnel at address a (replaces whatever client was there)
                let rl = Arc::new(RateLimiter::new(&x25519::PublicKey::from(&self.secrets[c]), 1_000_000));
                self.counter += 1;
                let mut tunn = Tunn::new(self.secrets[c].clone(), self.server_pub, None, None, self.counter, rl, "10.0.0.1:5001".parse().unwrap());
                let Some(init) = tunn.format_handshake_initiation(false) else { self.stats.push("connect.no_init"); return };
                self.clients[a] = Some((c, tunn));
                self.server_in(a, init.into_bytes(), format!("THandshake {c}"), None, &format!("connect(id{c})"));
            }
            Ev::DataIn(a) => {
                let body = self.next_body();
                let Some((c, tunn)) = self.clients[a].as_mut() else { self.stats.push("datain.no_client"); return };
                let c = *c;
                let plain = scion_packet(body);
                let plain_bytes = plain[..].to_vec();
                match tunn.encapsulate_with_session(plain) {
                    Ok(data) => self.server_in(a, data.into_bytes(), format!("TData {c} {}", coq_bytes(&body)), Some(plain_bytes), &format!("data(id{c})")),
                    Err(_) => self.stats.push("datain.client_has_no_session"),
                }
            }
            Ev::DataOut(a) => {
                let body = self.next_body();
                let plain = scion_packet(body);
                let plain_bytes = plain[..].to_vec();
                let r = self.server.handle_outgoing_packet_with_session(plain, addr_of(a));
                let (cls, attr, dec) = match r {
                    None => (1u64, 0u64, None),
                    Some(h) => {
                        let attr = *h.session_data;
                        match h.network_packet {
                            Some(WgKind::Data(d)) => {
                                let mut dec = None;
                                if let Some((c, tunn)) = self.clients[a].as_mut() {
                                    if let TunnResult::WriteToTunnel(p) = tunn.handle_incoming_packet(WgKind::Data(d)) {
                                        if p[..] == plain_bytes[..] { dec = Some(*c as u64); }
                                    }
                                }
                                (0, attr, dec)
                            }
                            _ => (3, attr, None),
                        }
                    }
                };
                self.stats.push(match cls { 0 => "out.encrypted", 3 => "out.queued", _ => "out.none" });
                self.log(format!("HOut {} {} {} {} {}", a, coq_bytes(&body), cls, attr, coq_opt(dec.map(|d| d.to_string()))),
                         format!("out@a{a}->{}", match cls { 0 => format!("DATA(id{attr})"), 3 => format!("queued(id{attr})"), _ => "none".into() }));
            }
        }
    }
}

fn alphabet() -> Vec<Ev> {
    let mut v = vec![];
    for k in 0..N_KEYS { for id in 0..N_IDS { for l in [0u64, 5, 10] { v.push(Ev::Register(k, id, l)); } } }
    for d in [5u64, 10] { v.push(Ev::Advance(d)); }
    v.push(Ev::Purge);
    for a in 0..N_ADDRS { for c in 0..N_IDS { v.push(Ev::Connect(a, c)); } }
    for a in 0..N_ADDRS { v.push(Ev::DataIn(a)); v.push(Ev::DataOut(a)); }
    v.push(Ev::Tick);
    v
}

fn random_event(rng: &mut Rng) -> Ev {
    match rng.below(100) {
        0..=24 => Ev::Register(rng.below(N_KEYS as u64) as usize, rng.below(N_IDS as u64) as usize, *rng.pick(&[0u64, 3, 5, 10, 30, 60, 60])),
        25..=39 => Ev::Advance(*rng.pick(&[1u64, 2, 5, 10])),
        40..=46 => Ev::Purge,
        47..=61 => Ev::Connect(rng.below(N_ADDRS as u64) as usize, rng.below(N_IDS as u64) as usize),
        62..=79 => Ev::DataIn(rng.below(N_ADDRS as u64) as usize),
        80..=94 => Ev::DataOut(rng.below(N_ADDRS as u64) as usize),
        _ => Ev::Tick,
    }
}

/// directed histories named in the property's "why tests can't"
fn directed() -> Vec<(&'static str, Vec<Ev>)> {
    use Ev::*;
    vec![
        ("lapse between handshake and first data", vec![Register(0, 0, 5), Connect(0, 0), Advance(5), DataIn(0), DataOut(0)]),
        ("data flows both ways while registered", vec![Register(0, 0, 10), Connect(0, 0), DataIn(0), DataOut(0), DataIn(0)]),
        ("lapse, then re-registration revives the persisted tunnel", vec![Register(0, 0, 5), Connect(0, 0), DataIn(0), Advance(5), DataIn(0), DataOut(0), Register(0, 0, 5), DataIn(0), DataOut(0)]),
        ("re-registration with a shorter lifetime", vec![Register(0, 0, 30), Connect(0, 0), DataIn(0), Register(0, 0, 5), Advance(5), DataIn(0), DataOut(0)]),
        ("superseded by another identity under the same key", vec![Register(0, 0, 30), Connect(0, 0), DataIn(0), Register(0, 1, 30), DataIn(0), DataOut(0), Connect(1, 1), DataIn(1)]),
        ("identity moved to another key, old key reused", vec![Register(0, 0, 30), Register(1, 0, 30), Register(0, 1, 30), Connect(0, 0), DataIn(0), Connect(1, 1), DataIn(1)]),
        ("purge removes, then registration is new again", vec![Register(0, 0, 5), Advance(5), Purge, Register(0, 0, 5), Connect(0, 0), DataIn(0)]),
        ("second client on the same address", vec![Register(0, 0, 30), Register(1, 1, 30), Connect(0, 0), DataIn(0), Connect(0, 1), DataIn(0), DataOut(0)]),
        ("second client on a different address", vec![Register(0, 0, 30), Register(1, 1, 30), Connect(0, 0), Connect(1, 1), DataIn(0), DataIn(1), DataOut(0), DataOut(1)]),
        ("outbound queued before confirmation, drained by first data", vec![Register(0, 0, 30), Connect(0, 0), DataOut(0), DataOut(0), DataIn(0)]),
        ("outbound queued, identity lapses before the drain", vec![Register(0, 0, 5), Connect(0, 0), DataOut(0), Advance(5), DataIn(0), Register(0, 0, 5), DataIn(0)]),
        ("unregistered identity cannot connect", vec![Connect(0, 2), DataIn(0), DataOut(0), Register(0, 2, 10), Connect(0, 2), DataIn(0)]),
        ("zero lifetime", vec![Register(0, 0, 0), Connect(0, 0), Purge, Register(0, 0, 0)]),
        ("timer ticks keep the tunnel", vec![Register(0, 0, 30), Connect(0, 0), Tick, Tick, DataIn(0), Tick, DataOut(0)]),
        ("re-registration under the same key, then superseded", vec![Register(0, 0, 30), Register(0, 0, 30), Register(0, 1, 30), Connect(0, 0), Connect(1, 1), DataIn(1)]),
        ("re-registration moves the identity to the new key only", vec![Register(0, 0, 30), Register(1, 0, 10), Register(0, 1, 30), Advance(10), Register(1, 2, 5)]),
        ("re-registration after a purge under another key", vec![Register(0, 0, 5), Register(0, 0, 5), Advance(5), Purge, Register(1, 0, 5), Register(0, 1, 5), Register(1, 1, 5)]),
        ("same identity on two addresses", vec![Register(0, 0, 30), Connect(0, 0), Connect(1, 0), DataIn(0), DataIn(1), Advance(30), DataIn(0), DataIn(1)]),
    ]
}

fn main() {
    silence_panics();
    let out = arg("--out").expect("--out");
    let n: usize = arg("--n").and_then(|x| x.parse().ok()).unwrap_or(400);
    let thorough = std::env::var("VERIF_TIER").map(|t| t == "thorough").unwrap_or(false);
    let mut rng = Rng::new(seed_from_env());
    let mut sh = Shards::new(&out, "From Sci Require Import Snap.Cases_C09.\nOpen Scope N_scope.", "rcase", "verdicts", 100);
    let mut sum = Summary::default();
    let mut seen: HashSet<Vec<Ev>> = HashSet::new();
    let alpha = alphabet();

    let mut histories: Vec<(String, Vec<Ev>)> = directed().into_iter().map(|(l, h)| (format!("directed: {l}"), h)).collect();
    // exhaustive short histories: all of length 1 and 2 (thorough) or a seeded sample (quick), then samples of length 3..4
    let k = alpha.len();
    let mut short: Vec<Vec<Ev>> = vec![];
    for i in 0..k { short.push(vec![alpha[i].clone()]); }
    for i in 0..k { for j in 0..k { short.push(vec![alpha[i].clone(), alpha[j].clone()]); } }
    if thorough {
        // all length-3 histories that start by registering an identity under key 0 for 5 s
        for i in 0..k { for j in 0..k { for l in 0..k { if matches!(alpha[i], Ev::Register(0, _, 5)) { short.push(vec![alpha[i].clone(), alpha[j].clone(), alpha[l].clone()]); } } } }
    } else {
        rng.shuffle(&mut short); short.truncate(n / 4);
    }
    for h in short { histories.push(("exhaustive-short".into(), h)); }
    let n_short3 = if thorough { n / 6 } else { n / 4 };
    for _ in 0..n_short3 {
        let len = rng.range(3, 6) as usize;
        histories.push(("sampled-short".into(), (0..len).map(|_| rng.pick(&alpha).clone()).collect()));
    }
    while histories.len() < n {
        let len = rng.range(6, 40) as usize;
        // half of the random histories are "guided": events that cannot do anything in the
        // current situation (data without a client tunnel, ...) are mostly re-drawn, so that long
        // stretches of live traffic with lapses and re-registrations in between are reached
        let guided = rng.chance(1, 2);
        let mut h: Vec<Ev> = vec![];
        // a shadow run tells the generator which client tunnels completed their handshake
        let mut shadow = World::new();
        let mut has_session = [false; N_ADDRS];
        let mut registered = [false; N_IDS];
        while h.len() < len {
            let e = random_event(&mut rng);
            if guided {
                let useless = match e {
                    Ev::DataIn(a) | Ev::DataOut(a) => !has_session[a],
                    Ev::Connect(_, c) => !registered[c],
                    _ => false,
                };
                if useless && !rng.chance(1, 8) { continue; }
                let ok = std::panic::catch_unwind(std::panic::AssertUnwindSafe(|| shadow.apply(&e))).is_ok();
                if !ok { shadow = World::new(); }
                match e {
                    Ev::Connect(a, _) => has_session[a] = shadow.human.last().map(|l| l.starts_with("keepalive")).unwrap_or(false),
                    Ev::Register(_, c, _) => registered[c] = true,
                    _ => {}
                }
            }
            h.push(e);
        }
        histories.push((if guided { "random-guided".into() } else { "random".into() }, h));
    }

    let ids = coq_list((0..N_IDS).map(|i| i.to_string()));
    let mut events_total = 0u64;
    for (kind, h) in &histories {
        let r = std::panic::catch_unwind(std::panic::AssertUnwindSafe(|| { let mut w = World::new(); for e in h { w.apply(e); } w }));
        let w = match r { Ok(w) => w, Err(_) => { // an implementation panic: a case the model cannot agree with
            sh.push(format!("mkRCase {ids} [(HTick, [], [])]")); sum.count("impl_panic"); sum.index.push(format!("[{kind}] PANIC in {:?}", h)); continue; } };
        sh.push(format!("mkRCase {ids} {}", coq_list(w.out.iter().cloned())));
        events_total += w.out.len() as u64;
        sum.count(&format!("kind.{}", kind.split(':').next().unwrap()));
        for s in &w.stats { sum.count(s); }
        let human = format!("[{kind}] {}", w.human.join(" ; "));
        if sum.samples.len() < 3 && kind.starts_with("directed") { sum.samples.push(human.clone()); }
        sum.index.push(human);
        seen.insert(h.clone());
    }
    sh.flush();
    sum.add("observations_total", events_total);
    sum.add("alphabet_size", k as u64);
    sum.write(&out, sh.total, seen.len());
}
