fn main() {}
