//! C14 correspondence harness: runs the REAL SCMP code of /repo and writes the observed results
//! as Coq case files (Sci.Scmp.Cases):
//!   * `Scmp<Kind>Layout::from_offending_packet_length` directly (CLay),
//!   * SCMP error packets through `ScionScmpPacket::try_encode_to_vec` (CEnc src 0) and through the
//!     SNAP gateway's `create_scmp_error` via snap-dataplane's verif hook (CEnc src 2),
//!   * `DefaultEchoHandler::handle` on received packets of every kind (CHnd),
//!   * pocketscion's `LocalNetworkSimulation::handle_local_routing_action` (CSim),
//!   * the receive loop of `PathUnawareUdpScionSocket` with the real `ScmpErrorHandler` (+ echo
//!     handler) via scion-stack's verif hook (CStr).
//! Received packets are built byte by byte HERE (not with sciparse's encoders) and their
//! checksums come from the RFC 1071 implementation below, independent of sciparse.
use std::net::{IpAddr, Ipv4Addr, Ipv6Addr, SocketAddr};
use std::panic::AssertUnwindSafe;

use pocketscion::network::{
    local::{
        external_as_registry::ExternalAsRegistry, receiver_registry::NetworkReceiverRegistry,
        simulator::LocalNetworkSimulation,
    },
    scion::{routing::LocalAsRoutingAction, topology::ScionRouter},
};
use scion_stack::stack::{
    scmp_handler::{DefaultEchoHandler, ScmpHandler},
    verif_hooks_scmp,
};
use sciparse::{
    address::{
        addr::ScionAddr,
        host_addr::{ScionHostAddr, ServiceAddr},
        ip_socket_addr::ScionSocketIpAddr,
    },
    core::{encode::WireEncode, layout::Layout, view::View},
    dataplane_path::{model::DpPath, view::ScionDpPathViewExt},
    identifier::isd_asn::IsdAsn,
    packet::{model::ScionScmpPacket, view::ScionRawPacketView},
    payload::scmp::{
        layout::*,
        model::*,
        types::{ScmpDestinationUnreachableCode, ScmpParameterProblemCode},
    },
};
use snap_dataplane::{dispatcher::Dispatcher, tunnel_gateway::gateway::verif_hooks as gw};
use vcommon::*;

/// round-robin selectors: every error kind / routing error / scenario appears in every run,
/// whatever the seed (the random stream only chooses sizes, addresses, contents)
static RR: [std::sync::atomic::AtomicUsize; 4] = [const { std::sync::atomic::AtomicUsize::new(0) }; 4];
fn rr(k: usize, n: usize) -> usize { RR[k].fetch_add(1, std::sync::atomic::Ordering::Relaxed) % n }

// ---------------------------------------------------------------------------------------------
// independent RFC 1071
// ---------------------------------------------------------------------------------------------
fn ones_sum(data: &[u8]) -> u32 {
    let mut s: u64 = 0;
    let mut i = 0;
    while i + 1 < data.len() {
        s += ((data[i] as u64) << 8) | data[i + 1] as u64;
        i += 2;
    }
    if i < data.len() {
        s += (data[i] as u64) << 8;
    }
    while s >> 16 != 0 {
        s = (s & 0xffff) + (s >> 16);
    }
    s as u32
}
fn pseudo(dst_ia: u64, src_ia: u64, dst_host: &[u8], src_host: &[u8], len: usize, proto: u8) -> Vec<u8> {
    let mut v = vec![];
    v.extend_from_slice(&dst_ia.to_be_bytes());
    v.extend_from_slice(&src_ia.to_be_bytes());
    v.extend_from_slice(dst_host);
    v.extend_from_slice(src_host);
    v.extend_from_slice(&(len as u32).to_be_bytes());
    v.extend_from_slice(&(proto as u32).to_be_bytes());
    v
}
/// checksum to transmit for `msg` (checksum field bytes 2..4 of `msg` must be zero)
fn rfc1071(ps: &[u8], msg: &[u8]) -> u16 {
    let mut all = ps.to_vec();
    all.extend_from_slice(msg);
    !(ones_sum(&all) as u16)
}

// ---------------------------------------------------------------------------------------------
// packet construction (byte level, literal offsets of the SCION header specification)
// ---------------------------------------------------------------------------------------------
#[derive(Clone, Debug)]
struct Host { nib: u8, raw: Vec<u8> }
impl Host {
    fn v4(a: [u8; 4]) -> Host { Host { nib: 0, raw: a.to_vec() } }
    fn v6(a: [u8; 16]) -> Host { Host { nib: 3, raw: a.to_vec() } }
    fn svc(s: u16) -> Host { Host { nib: 4, raw: vec![(s >> 8) as u8, s as u8, 0, 0] } }
    fn unknown(nib: u8, fill: u8) -> Host { Host { nib, raw: vec![fill; ((nib & 3) as usize + 1) * 4] } }
}
#[derive(Clone, Debug)]
struct Hop { flags: u8, exp: u8, ing: u16, eg: u16, mac: [u8; 6] }
#[derive(Clone, Debug)]
struct Info { flags: u8, rsv: u8, segid: u16, ts: u32 }
#[derive(Clone, Debug)]
enum PathSpec {
    Empty,
    OneHop(Info, Hop, Hop),
    /// ci, ch, declared segment lengths, info fields, hop fields (counts may disagree with the
    /// declared lengths only through `Raw`)
    Std { ci: u8, ch: u8, segs: Vec<(Info, Vec<Hop>)> },
    Raw { pt: u8, data: Vec<u8> },
}
fn hop_bytes(h: &Hop) -> Vec<u8> {
    let mut v = vec![h.flags, h.exp];
    v.extend_from_slice(&h.ing.to_be_bytes());
    v.extend_from_slice(&h.eg.to_be_bytes());
    v.extend_from_slice(&h.mac);
    v
}
fn info_bytes(i: &Info) -> Vec<u8> {
    let mut v = vec![i.flags, i.rsv];
    v.extend_from_slice(&i.segid.to_be_bytes());
    v.extend_from_slice(&i.ts.to_be_bytes());
    v
}
fn path_bytes(p: &PathSpec) -> (u8, Vec<u8>) {
    match p {
        PathSpec::Empty => (0, vec![]),
        PathSpec::OneHop(i, a, b) => {
            let mut v = info_bytes(i);
            v.extend(hop_bytes(a));
            v.extend(hop_bytes(b));
            (2, v)
        }
        PathSpec::Std { ci, ch, segs } => {
            let l = |k: usize| segs.get(k).map(|s| s.1.len() as u32).unwrap_or(0);
            let meta: u32 = ((*ci as u32 & 3) << 30) | ((*ch as u32 & 63) << 24) | (l(0) << 12) | (l(1) << 6) | l(2);
            let mut v = meta.to_be_bytes().to_vec();
            for s in segs { v.extend(info_bytes(&s.0)); }
            for s in segs { for h in &s.1 { v.extend(hop_bytes(h)); } }
            (1, v)
        }
        PathSpec::Raw { pt, data } => (*pt, data.clone()),
    }
}
#[derive(Clone, Debug)]
struct Pkt { next: u8, dst_ia: u64, src_ia: u64, dst: Host, src: Host, path: PathSpec, payload: Vec<u8>,
             /// declared payload length (None: the real one)
             plen: Option<u16>,
             /// cut the encoded packet to this many bytes
             cut: Option<usize> }
impl Pkt {
    fn bytes(&self) -> Vec<u8> {
        let (pt, pb) = path_bytes(&self.path);
        let hl = 12 + 16 + self.dst.raw.len() + self.src.raw.len() + pb.len();
        let plen = self.plen.unwrap_or(self.payload.len() as u16);
        let mut v = vec![0, 0, 0, 0, self.next, (hl / 4) as u8, (plen >> 8) as u8, plen as u8, pt,
                         (self.dst.nib << 4) | (self.src.nib & 15), 0, 0];
        v.extend_from_slice(&self.dst_ia.to_be_bytes());
        v.extend_from_slice(&self.src_ia.to_be_bytes());
        v.extend_from_slice(&self.dst.raw);
        v.extend_from_slice(&self.src.raw);
        v.extend(pb);
        v.extend_from_slice(&self.payload);
        if let Some(c) = self.cut { v.truncate(c); }
        v
    }
    fn pseudo(&self, len: usize) -> Vec<u8> {
        pseudo(self.dst_ia, self.src_ia, &self.dst.raw, &self.src.raw, len, self.next)
    }
}
/// SCMP message bytes with a verifying (or deliberately wrong) checksum
fn scmp_msg(p: &Pkt, ty: u8, code: u8, rest: &[u8], good_ck: bool) -> Vec<u8> {
    let mut m = vec![ty, code, 0, 0];
    m.extend_from_slice(rest);
    let ck = rfc1071(&p.pseudo(m.len()), &m);
    let ck = if good_ck { ck } else { ck ^ 0x5a5a };
    m[2] = (ck >> 8) as u8;
    m[3] = ck as u8;
    m
}
fn udp_dgram(p: &Pkt, sport: u16, dport: u16, data: &[u8], len_field: Option<u16>) -> Vec<u8> {
    let l = len_field.unwrap_or((8 + data.len()) as u16);
    let mut m = vec![(sport >> 8) as u8, sport as u8, (dport >> 8) as u8, dport as u8, (l >> 8) as u8, l as u8, 0, 0];
    m.extend_from_slice(data);
    let ck = rfc1071(&p.pseudo(m.len()), &m);
    m[6] = (ck >> 8) as u8;
    m[7] = ck as u8;
    m
}

// ---------------------------------------------------------------------------------------------
// random structure
// ---------------------------------------------------------------------------------------------
fn rnd_bytes(rng: &mut Rng, n: usize) -> Vec<u8> {
    // runs of 16..96 equal bytes: compact under RLE, still position dependent
    let mut v = Vec::with_capacity(n);
    while v.len() < n {
        let b = rng.below(256) as u8;
        let run = rng.range(16, 96) as usize;
        for _ in 0..run { if v.len() < n { v.push(b); } }
    }
    v
}
fn rnd_host(rng: &mut Rng, allow_odd: bool) -> Host {
    match rng.below(if allow_odd { 12 } else { 8 }) {
        0..=3 => Host::v4([10, rng.below(4) as u8, 0, rng.range(1, 250) as u8]),
        4..=6 => { let mut a = [0u8; 16]; a[0] = 0x20; a[1] = 1; a[15] = rng.range(1, 250) as u8; Host::v6(a) }
        7 => Host::svc(*rng.pick(&[1u16, 2, 0x8002, 0x10])),
        8 => Host::v4([224 + rng.below(16) as u8, 0, 0, 1]),                     // multicast v4
        9 => { let mut a = [0u8; 16]; a[0] = 0xff; a[1] = 2; a[15] = 1; Host::v6(a) } // multicast v6
        _ => Host::unknown(*rng.pick(&[1u8, 2, 5, 6, 7, 8, 11, 13, 15]), rng.below(256) as u8),
    }
}
fn rnd_hop(rng: &mut Rng) -> Hop {
    Hop { flags: *rng.pick(&[0u8, 0, 1, 2, 3, 0x80]), exp: rng.below(256) as u8, ing: rng.below(40) as u16,
          eg: rng.below(40) as u16, mac: [rng.below(256) as u8, 2, 3, 4, 5, rng.below(256) as u8] }
}
fn rnd_info(rng: &mut Rng) -> Info {
    Info { flags: *rng.pick(&[0u8, 1, 2, 3, 0xfe, 0xff]), rsv: 0, segid: rng.below(65536) as u16, ts: rng.below(1 << 32) as u32 }
}
fn rnd_std(rng: &mut Rng, max_hops: usize) -> PathSpec {
    let nseg = rng.range(1, 3) as usize;
    let mut segs = vec![];
    let mut total = 0usize;
    for _ in 0..nseg {
        let n = rng.range(1, (max_hops.max(nseg) / nseg).max(1) as u64) as usize;
        total += n;
        segs.push((rnd_info(rng), (0..n).map(|_| rnd_hop(rng)).collect::<Vec<_>>()));
    }
    let (ci, ch) = match rng.below(8) {
        0 => (3u8, 0u8),                       // info index out of range
        1 => (0, total.min(63) as u8),         // hop index out of range (when total < 64)
        _ => (rng.below(nseg as u64) as u8, rng.below(total as u64) as u8),
    };
    PathSpec::Std { ci, ch, segs }
}
fn rnd_path(rng: &mut Rng) -> PathSpec {
    match rng.below(12) {
        0 | 1 => PathSpec::Empty,
        2 => { let mut h2 = rnd_hop(rng); if rng.chance(1, 2) { h2.ing = 0; } else { h2.ing = 7; }
               PathSpec::OneHop(rnd_info(rng), rnd_hop(rng), h2) }
        3 => PathSpec::Raw { pt: *rng.pick(&[3u8, 4, 9, 200]), data: vec![7; 4 * rng.range(0, 20) as usize] },
        4 => rnd_std(rng, 60),
        5 => PathSpec::Std { ci: 0, ch: 0, segs: vec![] },                       // declared empty standard path
        _ => rnd_std(rng, 9),
    }
}
const IA_A: u64 = (1u64 << 48) | 0xff00_0000_0110;
const IA_B: u64 = (1u64 << 48) | 0xff00_0000_0111;
const IA_C: u64 = (2u64 << 48) | 0xff00_0000_0220;

fn base_pkt(rng: &mut Rng, odd_hosts: bool) -> Pkt {
    Pkt { next: 202, dst_ia: IA_A, src_ia: *rng.pick(&[IA_B, IA_B, IA_C, IA_A]), dst: rnd_host(rng, odd_hosts),
          src: rnd_host(rng, odd_hosts), path: rnd_path(rng), payload: vec![], plen: None, cut: None }
}

/// SCMP payload of every type/code, truncations, wrong checksums, error quoting an error
fn rnd_scmp_payload(rng: &mut Rng, p: &Pkt, kind: &mut String) -> Vec<u8> {
    let tys: [u8; 16] = [1, 2, 4, 5, 6, 128, 129, 130, 131, 0, 3, 7, 100, 127, 132, 255];
    let ty = if rng.chance(2, 5) { 128 } else { *rng.pick(&tys) };
    let code = *rng.pick(&[0u8, 0, 1, 3, 4, 16, 33, 255]);
    let fixed: usize = match ty { 5 => 16, 6 => 24, 130 | 131 => 20, _ => 4 };
    let mut rest: Vec<u8> = (0..fixed).map(|i| (i as u8).wrapping_mul(37).wrapping_add(ty)).collect();
    // variable part
    let var: Vec<u8> = match rng.below(6) {
        0 => vec![],
        1 => { let n_ = rng.range(1, 64) as usize; rnd_bytes(rng, n_) },
        2 => { let n_ = rng.range(900, 1400) as usize; rnd_bytes(rng, n_) },
        3 => {
            // quote of an SCMP error packet (error quoting an error) or of an echo request
            let mut inner = base_pkt(rng, false);
            let ity = *rng.pick(&[1u8, 4, 128, 5]);
            inner.payload = scmp_msg(&inner, ity, 0, &[0, 0, 0, 0, 1, 2, 3, 4], true);
            inner.bytes()
        }
        4 => {
            // quote of a UDP packet
            let mut inner = base_pkt(rng, false);
            inner.next = 17;
            inner.payload = udp_dgram(&inner, 4000, 5000, &[9; 20], None);
            inner.bytes()
        }
        _ => { let n_ = rng.range(100, 300) as usize; rnd_bytes(rng, n_) },
    };
    if ty != 130 && ty != 131 || rng.chance(1, 4) { rest.extend(var); }
    let good = !rng.chance(1, 4);
    let mut m = scmp_msg(p, ty, code, &rest, good);
    *kind = format!("ty{ty}{}", if good { "" } else { "-badck" });
    // truncation inside the SCMP message
    if rng.chance(1, 5) {
        let cut = rng.below(m.len() as u64 + 1) as usize;
        let cut = if rng.chance(1, 2) { cut.min(*rng.pick(&[0usize, 1, 3, 4, 7, 8, 19, 20, 23, 24, 27, 28])) } else { cut };
        m.truncate(cut.min(m.len()));
        kind.push_str("-trunc");
    }
    m
}

// ---------------------------------------------------------------------------------------------
// printing
// ---------------------------------------------------------------------------------------------
fn coq_dppath(p: &DpPath) -> String {
    let info = |i: &sciparse::dataplane_path::standard::model::InfoField| format!("(mkIF {} {} {})", i.flags.bits(), i.segment_id, i.timestamp);
    let hop = |h: &sciparse::dataplane_path::standard::model::HopField| {
        format!("(mkHF {} {} {} {} {})", h.flags.bits(), h.expiration_units, h.cons_ingress, h.cons_egress, coq_bytes(&h.mac.0))
    };
    match p {
        DpPath::Empty => "DP_Empty".into(),
        DpPath::OneHop(o) => format!("(DP_OneHop {} {} {})", info(&o.info), hop(&o.hops[0]), hop(&o.hops[1])),
        DpPath::Standard(s) => format!("(DP_Std {} {} {})", s.current_info_field, s.current_hop_field,
            coq_list(s.segments.iter().map(|g| format!("(mkSeg {} {})", info(&g.info_field), coq_list(g.hop_fields.iter().map(|h| hop(h))))))),
        DpPath::Unsupported { path_type, data } => format!("(DP_Unsupported {} {})", u8::from(*path_type), coq_bytes(data)),
    }
}
fn path_of(view: &ScionRawPacketView) -> DpPath { view.header().path().to_model() }

// ---------------------------------------------------------------------------------------------
// the cases
// ---------------------------------------------------------------------------------------------
struct Out { sh: Shards, sm: Summary, seen: std::collections::HashSet<String>, distinct: usize }
impl Out {
    fn push(&mut self, kind: &str, case: String, human: String, nontrivial: bool) {
        self.sm.count(kind);
        if self.seen.insert(case.clone()) && nontrivial { self.distinct += 1; }
        if self.sm.samples.len() < 6 && self.sm.dist.get(kind) == Some(&1) { self.sm.samples.push(format!("{kind}: {human}")); }
        self.sm.index.push(format!("{kind}: {human}"));
        self.sh.push(case);
    }
}

fn layout_size(ty: u8, n: usize, h: usize) -> usize {
    match ty {
        1 => ScmpDestinationUnreachableLayout::from_offending_packet_length(n, h).size_bytes(),
        2 => ScmpPacketTooBigLayout::from_offending_packet_length(n, h).size_bytes(),
        4 => ScmpParameterProblemLayout::from_offending_packet_length(n, h).size_bytes(),
        5 => ScmpExternalInterfaceDownLayout::from_offending_packet_length(n, h).size_bytes(),
        _ => ScmpInternalConnectivityDownLayout::from_offending_packet_length(n, h).size_bytes(),
    }
}
fn err_hdr(ty: u8) -> usize { match ty { 5 => 20, 6 => 28, _ => 8 } }

fn gen_layout(rng: &mut Rng, o: &mut Out) {
    let ty = *rng.pick(&[1u8, 2, 4, 5, 6]);
    let h = match rng.below(8) {
        0 => *rng.pick(&[0usize, 36, 1020, 1232 - 28, 1232 - 27, 1232 - 20, 1232 - 19, 1232 - 8, 1232 - 7, 1231, 1232, 1233, 5000, 1 << 40]),
        1 => 1232 - err_hdr(ty) + rng.range(0, 2) as usize - 1,
        _ => 4 * rng.range(9, 255) as usize,
    };
    let t = 1232usize.saturating_sub(h).saturating_sub(err_hdr(ty));
    let n = match rng.below(6) {
        0 => *rng.pick(&[0usize, 1, 9216, 65535, 1 << 33]),
        1 | 2 | 3 => (t + rng.range(0, 4) as usize).saturating_sub(2),
        _ => rng.below(9217) as usize,
    };
    let size = layout_size(ty, n, h);
    o.push("layout", format!("CLay {ty} {n} {h} {size}"), format!("ty={ty} n={n} h={h} -> {size}"), true);
}

fn scion_host(h: &Host) -> Option<ScionHostAddr> {
    match h.nib {
        0 => Some(ScionHostAddr::V4(Ipv4Addr::new(h.raw[0], h.raw[1], h.raw[2], h.raw[3]))),
        3 => { let mut a = [0u8; 16]; a.copy_from_slice(&h.raw); Some(ScionHostAddr::V6(Ipv6Addr::from(a))) }
        4 => Some(ScionHostAddr::Svc(ServiceAddr(((h.raw[0] as u16) << 8) | h.raw[1] as u16))),
        _ => None,
    }
}
fn rnd_emsg(rng: &mut Rng, off: Vec<u8>) -> (ScmpMessage, [u64; 5]) {
    let code = *rng.pick(&[0u8, 1, 3, 6, 9, 16, 35, 255]);
    let f16 = rng.below(65536) as u16;
    let g16 = rng.below(65536) as u16;
    let ia = IsdAsn(*rng.pick(&[IA_A, IA_C, 0, u64::MAX]));
    match rr(0, 5) {
        0 => (ScmpDestinationUnreachable::new(ScmpDestinationUnreachableCode::from(code), off).into(), [1, code as u64, 0, 0, 0]),
        1 => (ScmpPacketTooBig::new(f16, off).into(), [2, 0, f16 as u64, 0, 0]),
        2 => (ScmpParameterProblem::new(ScmpParameterProblemCode::from(code), f16, off).into(), [4, code as u64, f16 as u64, 0, 0]),
        3 => (ScmpExternalInterfaceDown::new(ia, f16, off).into(), [5, 0, ia.0, f16 as u64, 0]),
        _ => (ScmpInternalConnectivityDown::new(ia, f16, g16, off).into(), [6, 0, ia.0, f16 as u64, g16 as u64]),
    }
}

/// offending packet: a realistic SCION packet of about `n` bytes (header + compressible payload)
fn offending(rng: &mut Rng, n: usize) -> Vec<u8> {
    let mut p = base_pkt(rng, false);
    p.next = *rng.pick(&[17u8, 17, 202, 6]);
    let hdr = p.bytes().len();
    if n <= hdr { let mut b = p.bytes(); b.truncate(n); return b; }
    p.payload = rnd_bytes(rng, n - hdr);
    p.plen = Some(((n - hdr) & 0xffff) as u16);
    p.bytes()
}

fn gen_encode(rng: &mut Rng, o: &mut Out) {
    // reply header: every address / path combination
    let dst = loop { let h = rnd_host(rng, false); if scion_host(&h).is_some() { break h; } };
    let src = loop { let h = rnd_host(rng, false); if scion_host(&h).is_some() { break h; } };
    let pspec = match rng.below(10) {
        0 => PathSpec::Empty,
        1 => PathSpec::OneHop(rnd_info(rng), rnd_hop(rng), rnd_hop(rng)),
        2 => PathSpec::Raw { pt: 3, data: vec![1; 4 * rng.range(0, 246) as usize] },
        3 => rnd_std(rng, 63),
        _ => rnd_std(rng, 12),
    };
    // header validity is C03's subject: keep the reply path encodable (indices in range)
    let pspec = match pspec { PathSpec::Std { segs, .. } => PathSpec::Std { ci: 0, ch: 0, segs }, p => p };
    // parse the path with the real parser to obtain the model (a packet carrying it)
    let carrier = Pkt { next: 17, dst_ia: IA_A, src_ia: IA_B, dst: dst.clone(), src: src.clone(), path: pspec, payload: vec![], plen: None, cut: None };
    let cb = carrier.bytes();
    let Ok((cv, _)) = ScionRawPacketView::try_from_slice(&cb) else { o.sm.count("encode.skipped-unparsable-path"); return; };
    let path = path_of(cv);
    let psize = path.required_size();
    let h = 12 + 16 + dst.raw.len() + src.raw.len() + psize;
    let kind_hdr_guess = *rng.pick(&[8usize, 20, 28]);
    let t = 1232usize.saturating_sub(h).saturating_sub(kind_hdr_guess);
    let n = match rng.below(8) {
        0 => *rng.pick(&[0usize, 1, 9216]),
        1 | 2 | 3 | 4 => (t + rng.range(0, 4) as usize).saturating_sub(2).min(9216),
        _ => rng.below(9217) as usize,
    };
    let off = offending(rng, n);
    let (msg, f) = rnd_emsg(rng, off.clone());
    let pk = ScionScmpPacket::new(
        ScionAddr::new(IsdAsn(IA_B), scion_host(&src).unwrap()),
        ScionAddr::new(IsdAsn(IA_A), scion_host(&dst).unwrap()),
        path, msg);
    let r = std::panic::catch_unwind(AssertUnwindSafe(|| pk.try_encode_to_vec()));
    let (oc, out) = match r { Ok(Ok(b)) => (0, b), Ok(Err(_)) => (1, vec![]), Err(_) => (99, vec![]) };
    o.sm.count(&format!("encode.h{}", h / 128 * 128));
    o.sm.count(if off.len() + err_hdr(f[0] as u8) + h > 1232 { "encode.truncated" } else { "encode.whole" });
    o.push("encode", format!("CEnc 0 {} {} {} {} {} {} {} {} {} {} {}", f[0], f[1], f[2], f[3], f[4], coq_rle(&off),
                             dst.raw.len(), src.raw.len(), psize, oc, coq_rle(&out)),
           format!("sciparse ty={} h={h} offending={}B -> oc={oc} total={}B", f[0], off.len(), out.len()), true);
}

struct NullDispatcher;
impl Dispatcher for NullDispatcher {
    fn try_dispatch(&self, _packet: &sciparse::packet::view::ScionPacketView) {}
}

fn gen_gateway(rng: &mut Rng, o: &mut Out) {
    // inbound datagrams that FAIL the gateway's policy check; the gateway answers with an SCMP
    // ParameterProblem quoting the datagram
    let from_ip: IpAddr = if rng.chance(1, 2) { IpAddr::V4(Ipv4Addr::new(10, 9, 9, 9)) } else { IpAddr::V6(Ipv6Addr::new(0xfd00, 0, 0, 0, 0, 0, 0, 9)) };
    let local = if rng.chance(1, 2) { ScionHostAddr::V4(Ipv4Addr::new(192, 0, 2, 1)) } else { ScionHostAddr::V6(Ipv6Addr::new(0xfd00, 0, 0, 0, 0, 0, 0, 1)) };
    let mut p = base_pkt(rng, true);
    let mut kind = String::new();
    p.next = *rng.pick(&[17u8, 202, 202]);
    p.payload = if p.next == 202 { rnd_scmp_payload(rng, &p, &mut kind) } else { udp_dgram(&p, 1, 2, &{ let n_ = rng.below(3000) as usize; rnd_bytes(rng, n_) }, None) };
    let scenario = rng.below(4);
    match scenario {
        0 => { /* source address differs from the tunnel peer (as generated) */ }
        1 => { p.path = PathSpec::OneHop(rnd_info(rng), rnd_hop(rng), rnd_hop(rng));
               p.src = match from_ip { IpAddr::V4(a) => Host::v4(a.octets()), IpAddr::V6(a) => Host::v6(a.octets()) }; }
        2 => { p.path = PathSpec::Raw { pt: 4, data: vec![0; 8] };
               p.src = match from_ip { IpAddr::V4(a) => Host::v4(a.octets()), IpAddr::V6(a) => Host::v6(a.octets()) }; }
        _ => {}
    }
    let mut d = p.bytes();
    if scenario == 3 { if rng.chance(1, 2) { d.truncate(rng.below(40) as usize); } else { d[0] = 0x10; } }
    let pool = gw::new_pool(4);
    let r = std::panic::catch_unwind(AssertUnwindSafe(|| gw::inbound(&NullDispatcher, &pool, &d, from_ip, local)));
    let dl = match from_ip { IpAddr::V4(_) => 4, IpAddr::V6(_) => 16 };
    let sl = match local { ScionHostAddr::V4(_) => 4, ScionHostAddr::V6(_) => 16, _ => 4 };
    // (PP code, pointer, check kind: 0 malformed, 1 source address, 2 path type) the reply must carry
    let expect = |error: gw::CheckError| match error {
        gw::CheckError::MalformedPacket => (u8::from(ScmpParameterProblemCode::InvalidCommonHeader), 0usize, 0),
        gw::CheckError::InvalidSourceAddress => (u8::from(ScmpParameterProblemCode::InvalidSourceAddress), 28 + p.dst.raw.len(), 1),
        gw::CheckError::InvalidPathType => (u8::from(ScmpParameterProblemCode::UnknownPathType), 8, 2),
    };
    let (oc, out, (code, ptr, chk)) = match r {
        Ok(gw::InboundOutcome::Dispatched) => { o.sm.count("gateway.dispatched"); return; }
        Ok(gw::InboundOutcome::Reply { error, bytes, .. }) => { o.sm.count(&format!("gateway.{error:?}")); (0, bytes, expect(error)) }
        Ok(gw::InboundOutcome::Suppressed { error }) => { o.sm.count(&format!("gateway.suppressed.{error:?}")); (2, vec![], expect(error)) }
        Ok(gw::InboundOutcome::ReplyEncodeError { error, .. }) => (1, vec![], expect(error)),
        Err(_) => (99, vec![], (0, 0, 0)),
    };
    o.push("gateway", format!("CEnc 2 4 {code} {ptr} {chk} 0 {} {dl} {sl} 0 {oc} {}", coq_rle(&d), coq_rle(&out)),
           format!("gateway inbound {}B {kind} next={} -> oc={oc} reply={}B", d.len(), p.next, out.len()), true);
}

fn rnd_received(rng: &mut Rng, kind: &mut String) -> Vec<u8> {
    let mut p = base_pkt(rng, true);
    match rng.below(10) {
        0 => { p.next = 17; p.payload = udp_dgram(&p, 1000, 2000, &{ let n_ = rng.below(200) as usize; rnd_bytes(rng, n_) }, None); *kind = "udp".into(); }
        1 => { p.next = *rng.pick(&[6u8, 43, 201, 203, 0]); p.payload = rnd_bytes(rng, 20); *kind = format!("next{}", p.next); }
        _ => { p.payload = rnd_scmp_payload(rng, &p, kind); }
    }
    match rng.below(12) {
        0 => { p.plen = Some(rng.below(p.payload.len() as u64 + 1) as u16); kind.push_str("-plen-short"); }
        1 => { p.plen = Some(p.payload.len() as u16 + 40); kind.push_str("-plen-long"); }
        2 => { let l = p.bytes().len(); p.cut = Some(l - rng.below((p.payload.len() + 1) as u64) as usize); kind.push_str("-cut"); }
        _ => {}
    }
    p.bytes()
}

fn gen_handler(rng: &mut Rng, o: &mut Out) {
    let mut kind = String::new();
    let b = rnd_received(rng, &mut kind);
    let Ok((view, _)) = ScionRawPacketView::try_from_slice(&b) else { o.sm.count("handler.skipped-undecodable"); return; };
    let vb = view.as_slice().to_vec();
    let path = path_of(view);
    let r = std::panic::catch_unwind(AssertUnwindSafe(|| DefaultEchoHandler::new().handle(view)));
    let (oc, rep, rpath) = match r {
        Err(_) => (99, vec![], DpPath::Empty),
        Ok(None) => (0, vec![], DpPath::Empty),
        Ok(Some(reply)) => {
            let rp = reply.header.path.clone();
            match std::panic::catch_unwind(AssertUnwindSafe(|| reply.try_encode_to_vec())) {
                Ok(Ok(bytes)) => (1, bytes, rp),
                Ok(Err(_)) => (3, vec![], rp),
                Err(_) => (99, vec![], rp),
            }
        }
    };
    o.sm.count(&format!("handler.oc{oc}"));
    o.sm.count(&format!("handler.{}", kind.split('-').next().unwrap_or("")));
    o.push("handler", format!("CHnd {} {} {oc} {} {}", coq_rle(&vb), coq_dppath(&path), coq_rle(&rep), coq_dppath(&rpath)),
           format!("echo handler on {kind} {}B -> oc={oc} reply={}B", vb.len(), rep.len()), true);
}

fn gen_sim(rng: &mut Rng, o: &mut Out) {
    let mut kind = String::new();
    let b = rnd_received(rng, &mut kind);
    let Ok(boxed) = ScionRawPacketView::try_from_boxed(b.clone().into_boxed_slice()) else {
        // try_from_boxed wants the exact size: cut to the view first
        let Ok((v, _)) = ScionRawPacketView::try_from_slice(&b) else { o.sm.count("sim.skipped-undecodable"); return; };
        let vb = v.as_slice().to_vec();
        return gen_sim_on(rng, o, vb, kind);
    };
    let vb = boxed.as_slice().to_vec();
    gen_sim_on(rng, o, vb, kind)
}
fn gen_sim_on(rng: &mut Rng, o: &mut Out, vb: Vec<u8>, kind: String) {
    let Ok(mut boxed) = ScionRawPacketView::try_from_boxed(vb.clone().into_boxed_slice()) else { o.sm.count("sim.skipped-unboxable"); return; };
    let path = path_of(&boxed);
    let local_as = IsdAsn(IA_A);
    let router_ip: IpAddr = if rng.chance(3, 4) { IpAddr::V4(Ipv4Addr::new(10, 0, 0, 254)) } else { IpAddr::V6(Ipv6Addr::new(0xfd00, 0, 0, 0, 0, 0, 0, 0xfe)) };
    let router = ScionRouter::new(vec![1, 2], SocketAddr::new(router_ip, 30042));
    let receivers = NetworkReceiverRegistry::new();
    let external = ExternalAsRegistry::new();
    let sim = LocalNetworkSimulation::new(local_as, 1, &receivers, &external, &router);
    // the action: an explicit SCMP error, or local forwarding with no receiver registered
    let (action, f): (LocalAsRoutingAction, [u64; 5]) = if rng.chance(1, 3) {
        let (m, f) = rnd_emsg(rng, vb.clone());
        (LocalAsRoutingAction::SendSCMPErrorResponse(m.try_into_error_message().expect("error message")), f)
    } else if rng.chance(1, 2) {
        // the router's own routing errors: StandardRoutingError::to_scmp_error quotes the whole packet
        use pocketscion::network::scion::routing::spec::standard::StandardRoutingError as E;
        let cd = rng.chance(1, 2);
        let e = match rr(1, 11) {
            0 => E::NonLocalDelivery,
            1 => E::UnknownIngressInterface { hop_index: 0, if_id: 7, cons_dir: cd },
            2 => E::InvalidIngressInterface { hop_index: 1, expected: 1, found: 2, cons_dir: cd },
            3 => E::UnknownEgressInterface { hop_index: 0, if_id: 9, cons_dir: cd },
            4 => E::InvalidEgressInterface { hop_index: 2, expected: 3, found: 4, cons_dir: cd },
            5 => E::FutureTimestamp { hop_index: 0 },
            6 => E::SegmentExpired { hop_index: 0 },
            7 => E::InvalidMacError { hop_index: 0, expected: [1; 6], actual: [2; 6] },
            8 => E::InvalidSegmentChange { hop_index: 1 },
            9 => E::EgressInterfaceDown { hop_index: 0, if_id: rng.below(65536) as u16 },
            _ => E::InvalidScmpAlert { hop_index: 0, cons_dir: cd },
        };
        let Some(m) = e.to_scmp_error(local_as, &boxed) else { o.sm.count("sim.skipped-no-scmp-error"); return; };
        let (f, off) = emsg_fields(&m);
        if off != vb { o.sm.count("sim.routing-error-quote-differs"); }
        o.sm.count("sim.routing-error");
        // the expected quote is the packet itself: CSim models e_off = packet
        if off != vb { return gen_sim_quote_mismatch(o, &vb, &off); }
        (LocalAsRoutingAction::SendSCMPErrorResponse(m), f)
    } else {
        // dispatch(): invalid destination address -> ParameterProblem(InvalidAddressHeader, 0);
        // other AS -> ParameterProblem(NonLocalDelivery, 0); SVC destination -> service reply (UDP,
        // not SCMP: skipped); no receiver -> DestinationUnreachable(AddressUnreachable)
        let dst_nib = vb[9] >> 4;
        let dst_ia = u64::from_be_bytes(vb[12..20].try_into().unwrap());
        if ![0u8, 3, 4].contains(&dst_nib) {
            (LocalAsRoutingAction::ForwardLocal, [4, u8::from(ScmpParameterProblemCode::InvalidAddressHeader) as u64, 0, 0, 0])
        } else if dst_ia != IA_A {
            (LocalAsRoutingAction::ForwardLocal, [4, u8::from(ScmpParameterProblemCode::NonLocalDelivery) as u64, 0, 0, 0])
        } else if dst_nib == 4 { o.sm.count("sim.skipped-svc"); return; }
        else { (LocalAsRoutingAction::ForwardLocal, [1, u8::from(ScmpDestinationUnreachableCode::AddressUnreachable) as u64, 0, 0, 0]) }
    };
    let r = std::panic::catch_unwind(AssertUnwindSafe(|| sim.handle_local_routing_action(action, &mut boxed)));
    let (oc, out) = match r {
        Err(_) => (99, vec![]),
        Ok(Err(_)) => (2, vec![]),
        Ok(Ok(None)) => (0, vec![]),
        Ok(Ok(Some(reply))) => match std::panic::catch_unwind(AssertUnwindSafe(|| reply.try_encode_to_vec())) {
            Ok(Ok(b)) => (1, b), Ok(Err(_)) => (3, vec![]), Err(_) => (99, vec![]),
        },
    };
    let rlen = match router_ip { IpAddr::V4(_) => 4, IpAddr::V6(_) => 16 };
    o.sm.count(&format!("sim.oc{oc}"));
    o.push("sim", format!("CSim {} {} {} {} {} {} {} {} {rlen} {oc} {}", coq_rle(&vb), coq_dppath(&path), f[0], f[1], f[2], f[3], f[4],
                          IA_A, coq_rle(&out)),
           format!("pocketscion on {kind} {}B, error ty={} -> oc={oc} reply={}B", vb.len(), f[0], out.len()), true);
}

/// pocketscion's router answering echo / traceroute requests (handle_scmp)
fn gen_sim_echo(rng: &mut Rng, o: &mut Out) {
    let mut kind = String::new();
    let b = if rng.chance(2, 3) {
        // a clean echo / traceroute request (SCION hosts, mostly reversible path)
        let mut p = base_pkt(rng, false);
        let ty = *rng.pick(&[128u8, 128, 130]);
        let mut rest: Vec<u8> = vec![(rng.below(256)) as u8, rng.below(256) as u8, rng.below(256) as u8, rng.below(256) as u8];
        if ty == 130 { rest.extend_from_slice(&[0; 16]); } else { let n_ = rng.below(300) as usize; rest.extend(rnd_bytes(rng, n_)); }
        p.payload = scmp_msg(&p, ty, 0, &rest, true);
        kind = format!("clean-ty{ty}");
        p.bytes()
    } else { rnd_received(rng, &mut kind) };
    let Ok((v, _)) = ScionRawPacketView::try_from_slice(&b) else { o.sm.count("simecho.skipped-undecodable"); return; };
    let vb = v.as_slice().to_vec();
    let Ok(mut boxed) = ScionRawPacketView::try_from_boxed(vb.clone().into_boxed_slice()) else { o.sm.count("simecho.skipped-unboxable"); return; };
    let path = path_of(&boxed);
    let router_ip: IpAddr = if rng.chance(3, 4) { IpAddr::V4(Ipv4Addr::new(10, 0, 0, 254)) } else { IpAddr::V6(Ipv6Addr::new(0xfd00, 0, 0, 0, 0, 0, 0, 0xfe)) };
    let ifid: u16 = *rng.pick(&[1u16, 7, 65535]);
    let router = ScionRouter::new(vec![ifid], SocketAddr::new(router_ip, 30042));
    let receivers = NetworkReceiverRegistry::new();
    let external = ExternalAsRegistry::new();
    let sim = LocalNetworkSimulation::new(IsdAsn(IA_A), ifid, &receivers, &external, &router);
    let action = if rng.chance(1, 2) { LocalAsRoutingAction::IngressSCMPHandleRequest { interface_id: ifid } }
                 else { LocalAsRoutingAction::EgressSCMPHandleRequest { interface_id: ifid } };
    let r = std::panic::catch_unwind(AssertUnwindSafe(|| sim.handle_local_routing_action(action, &mut boxed)));
    let (oc, out) = match r {
        Err(_) => (99, vec![]),
        Ok(Err(_)) => (2, vec![]),
        Ok(Ok(None)) => (0, vec![]),
        Ok(Ok(Some(reply))) => match std::panic::catch_unwind(AssertUnwindSafe(|| reply.try_encode_to_vec())) {
            Ok(Ok(b)) => (1, b), Ok(Err(_)) => (3, vec![]), Err(_) => (99, vec![]),
        },
    };
    let (rnib, rraw): (u8, Vec<u8>) = match router_ip { IpAddr::V4(a) => (0, a.octets().to_vec()), IpAddr::V6(a) => (3, a.octets().to_vec()) };
    o.sm.count(&format!("simecho.oc{oc}"));
    o.push("simecho", format!("CSimEcho {} {} {} {rnib} {} {ifid} {oc} {}", coq_rle(&vb), coq_dppath(&path), IA_A, coq_bytes(&rraw), coq_rle(&out)),
           format!("pocketscion handle_scmp on {kind} {}B -> oc={oc} reply={}B", vb.len(), out.len()), true);
}

/// a routing error that does not quote the whole offending packet: reported as a failing case
fn gen_sim_quote_mismatch(o: &mut Out, vb: &[u8], off: &[u8]) {
    // CEnc with an impossible outcome makes the verdict non-zero (bit 1): model and implementation disagree
    o.push("sim", format!("CEnc 0 1 0 0 0 0 {} 4 4 0 0 {}", coq_rle(vb), coq_rle(off)),
           "StandardRoutingError::to_scmp_error does not quote the offending packet".into(), true);
}

// ---------------------------------------------------------------------------------------------
// pocketscion's routing simulator: errors raised on a real path through a real topology
// ---------------------------------------------------------------------------------------------
struct Capture(std::sync::Arc<std::sync::Mutex<Vec<Vec<u8>>>>);
impl pocketscion::network::local::receivers::Receiver for Capture {
    fn receive_packet(&self, packet: &ScionRawPacketView) { self.0.lock().unwrap().push(packet.as_slice().to_vec()); }
}
struct World {
    topo: pocketscion::network::scion::topology::ScionTopology,
    ts: u32,
    /// (src ia, dst ia, raw standard path bytes, interfaces along the path)
    paths: Vec<(u64, u64, Vec<u8>, Vec<(u64, u16)>)>,
}
const C1: u64 = (1u64 << 48) | 0xff00_0000_0110;
const C2: u64 = (1u64 << 48) | 0xff00_0000_0120;
const L1: u64 = (1u64 << 48) | 0xff00_0000_0111;
const L2: u64 = (1u64 << 48) | 0xff00_0000_0121;
fn build_world() -> Option<World> {
    use pocketscion::network::scion::{segment::registry::SegmentRegistry,
        topology::{ScionAs, ScionLink, ScionLinkType, ScionTopologyBuilder}};
    let mut b = ScionTopologyBuilder::new();
    b.add_as(ScionAs::new_core(IsdAsn(C1))).ok()?;
    b.add_as(ScionAs::new_core(IsdAsn(C2))).ok()?;
    b.add_as(ScionAs::new(IsdAsn(L1))).ok()?;
    b.add_as(ScionAs::new(IsdAsn(L2))).ok()?;
    b.add_link(ScionLink::new(IsdAsn(C1), 1, ScionLinkType::Core, IsdAsn(C2), 2).ok()?).ok()?;
    b.add_link(ScionLink::new(IsdAsn(C1), 3, ScionLinkType::Parent, IsdAsn(L1), 4).ok()?).ok()?;
    b.add_link(ScionLink::new(IsdAsn(C2), 5, ScionLinkType::Parent, IsdAsn(L2), 6).ok()?).ok()?;
    let topo = b.build().ok()?;
    let ts: u32 = 1_700_000_000;
    let when = chrono::DateTime::<chrono::Utc>::from_timestamp(ts as i64, 0)?;
    let reg = SegmentRegistry::from_topology(&topo);
    let mut paths = vec![];
    for (s, d) in [(L1, L2), (L2, L1), (L1, C2), (C1, L2), (L1, C1), (C2, C1)] {
        let Ok(ps) = reg.paths(IsdAsn(s), IsdAsn(d), when, &topo) else { continue };
        for p in ps {
            let sciparse::dataplane_path::view::ScionDpPathView::Standard(v) = p.dp_path() else { continue };
            let ifs: Vec<(u64, u16)> = p.metadata().and_then(|m| m.interfaces.as_ref())
                .map(|v| v.iter().map(|i| (i.interface.isd_asn.0, i.interface.id)).collect()).unwrap_or_default();
            paths.push((s, d, v.as_slice().to_vec(), ifs));
        }
    }
    if paths.is_empty() { return None; }
    Some(World { topo, ts, paths })
}

/// One packet through the real routing simulator (`ScionNetworkSim::simulate_traversal` with the
/// specification routing logic) and, exactly as `NetworkSimulator::dispatch` does, the resulting
/// local action through the real `LocalNetworkSimulation::handle_local_routing_action` at the router
/// the traversal ended at.  Recorded: the packet as injected, the packet as it stood at that router
/// (the traversal updates path pointers / SegIDs in place: this is the offending packet the router
/// has in hand when it raises the error), and the reply.
fn gen_net(rng: &mut Rng, o: &mut Out, w: &World) {
    use pocketscion::network::scion::{routing::{ScionNetworkTime, spec::SpecRoutingLogic}, simulator::ScionNetworkSim};
    let (src, dst, pathb, ifs) = rng.pick(&w.paths).clone();
    let scenario = rr(2, 11);
    let mut topo = w.topo.clone();
    let mut now = w.ts + 100;
    let mut ignore_macs = false;
    let mut ingress_if = 0u16;
    let mut pb = pathb.clone();
    let mut dst_ia = dst;
    let nseg = [(pb[1] & 3) as usize * 16 + (pb[2] >> 4) as usize, ((pb[2] & 15) as usize) * 4 + (pb[3] >> 6) as usize, (pb[3] & 63) as usize];
    let ninfo = nseg.iter().filter(|&&x| x > 0).count();
    let nhops: usize = nseg.iter().sum();
    let hop_off = |j: usize| 4 + 8 * ninfo + 12 * j;
    // (expected SCMP type, expected code; 0,0 = whatever the simulator decides)
    let (name, exp): (&str, (u8, u8)) = match scenario {
        0 | 9 | 10 => {
            // a link of the path is down
            if ifs.is_empty() { o.sm.count("net.skipped-no-interfaces"); return; }
            let (ia, id) = *rng.pick(&ifs);
            match topo.mut_scion_link(&IsdAsn(ia), id) { Some(l) => l.set_is_up(false), None => { o.sm.count("net.skipped-no-link"); return; } }
            ("link-down", (5, 0))
        }
        1 => { let j = rng.below(nhops as u64) as usize; pb[hop_off(j) + 6 + rng.below(6) as usize] ^= 0x41; ("bad-mac", (4, 51)) }
        2 => { now = w.ts + 40 * 86400; ("expired", (4, 52)) }
        3 => { now = w.ts - 5000; ("future", (4, 48)) }
        4 => { dst_ia = if dst == C1 { L1 } else { C1 }; ("non-local", (4, 35)) }
        5 => ("no-receiver", (1, 3)),
        6 => { ingress_if = 9; ("wrong-ingress", (4, 0)) }
        7 => { ignore_macs = true; let j = rng.below(nhops as u64) as usize; let f = hop_off(j) + 2 + 2 * rng.below(2) as usize; pb[f] = 3; pb[f + 1] = 0xe7; ("unknown-interface", (0, 0)) }
        _ => { ignore_macs = true; // segments swapped / pointers moved: invalid segment change or advance failure
               if ninfo >= 2 { let (a, b) = (4usize, 12usize); for k in 0..8 { pb.swap(a + k, b + k); } } else { pb[0] = (pb[0] & 0xc0) | (nhops as u8 - 1); }
               ("path-mangled", (0, 0)) }
    };
    // the offending packet: UDP mostly; an SCMP error (must not be answered) or an echo request
    let mut p = Pkt { next: 17, dst_ia, src_ia: src, dst: Host::v4([10, 0, 0, 2]), src: if rng.chance(1, 4) { rnd_host(rng, false) } else { Host::v4([10, 0, 0, 1]) },
                      path: PathSpec::Raw { pt: 1, data: pb }, payload: vec![], plen: None, cut: None };
    let hdr = p.bytes().len();
    let t = 1232usize.saturating_sub(36 + pathb.len()).saturating_sub(if exp.0 == 5 { 20 } else { 8 });
    let total = match rng.below(6) { 0 => hdr + 8, 1 => hdr + 60, 2 | 3 => (t + rng.range(0, 4) as usize).saturating_sub(2).max(hdr + 8), 4 => 1400, _ => 3000 + rng.below(4000) as usize };
    let body = total.saturating_sub(hdr + 8);
    let data = rnd_bytes(rng, body);
    match scenario {
        9 => { p.next = 202; p.payload = scmp_msg(&p, *rng.pick(&[1u8, 4, 5, 3, 100]), 0, &data, true); }
        10 => { p.next = 202; p.payload = scmp_msg(&p, 128, 0, &data, true); }
        _ => { p.payload = udp_dgram(&p, 4000, 5000, &data, None); }
    }
    let inj = p.bytes();
    let Ok(mut boxed) = ScionRawPacketView::try_from_boxed(inj.clone().into_boxed_slice()) else { o.sm.count("net.skipped-unboxable"); return; };
    let src_ia = IsdAsn(src);
    let r = std::panic::catch_unwind(AssertUnwindSafe(|| {
        let out = ScionNetworkSim::simulate_traversal::<SpecRoutingLogic>(&topo, &mut boxed, ScionNetworkTime::from_timestamp_secs(now), src_ia, ingress_if, ignore_macs);
        let Ok(out) = out else { return (4u64, vec![], vec![], 0u64) };
        let at = boxed.as_slice().to_vec();
        let at_as = out.at_as.0;
        let router = topo.get_router(&out.at_as, out.at_ingress_interface);
        // a receiver for the whole SOURCE AS: a reply to a packet that originated in the AS where the
        // error is raised is not returned but delivered inside that AS
        let got: std::sync::Arc<std::sync::Mutex<Vec<Vec<u8>>>> = Default::default();
        let mut receivers = NetworkReceiverRegistry::new();
        let _ = receivers.add_wildcard_receiver(src_ia, std::sync::Arc::new(Capture(got.clone())));
        let external = ExternalAsRegistry::new();
        let sim = LocalNetworkSimulation::new(out.at_as, out.at_ingress_interface, &receivers, &external, router);
        match sim.handle_local_routing_action(out.action, &mut boxed) {
            Err(_) => (2, at, vec![], at_as),
            Ok(None) => { let g = got.lock().unwrap(); if g.len() == 1 { (1, at, g[0].clone(), at_as) } else if g.is_empty() { (0, at, vec![], at_as) } else { (5, at, vec![], at_as) } }
            Ok(Some(reply)) => match reply.try_encode_to_vec() { Ok(b) => (1, at, b, at_as), Err(_) => (3, at, vec![], at_as) },
        }
    }));
    let (oc, at, out, at_as) = r.unwrap_or((99, vec![], vec![], 0));
    if oc == 4 { o.sm.count(&format!("net.{name}.traversal-error")); return; }
    o.sm.count(&format!("net.{name}.oc{oc}"));
    if oc == 1 { o.sm.count(&format!("net.reply.ty{}", out.get(4 * out[5] as usize).copied().unwrap_or(0))); }
    o.sm.count(if inj.len() > t { "net.offending-above-truncation" } else { "net.offending-below-truncation" });
    let plain_src = p.src.nib == 0 && p.src.raw[0] < 224 || p.src.nib == 3 && p.src.raw[0] != 0xff;
    let expect_reply = scenario != 9 && scenario != 8 && plain_src;
    o.push("net", format!("CNet {} {} {} {} {} {at_as} {oc} {}", coq_rle(&inj), coq_rle(&at), exp.0, exp.1, coq_bool(expect_reply), coq_rle(&out)),
           format!("routing {name} {}->{} next={} offending={}B (path {}B) at {:x} -> oc={oc} reply={}B", src & 0xfff, dst & 0xfff, p.next, inj.len(), pathb.len(), at_as, out.len()), true);
}

fn emsg_fields(m: &ScmpErrorMessage) -> ([u64; 5], Vec<u8>) {
    match m {
        ScmpErrorMessage::DestinationUnreachable(x) => ([1, u8::from(x.code) as u64, 0, 0, 0], x.get_offending_packet().to_vec()),
        ScmpErrorMessage::PacketTooBig(x) => ([2, 0, x.mtu as u64, 0, 0], x.get_offending_packet().to_vec()),
        ScmpErrorMessage::ParameterProblem(x) => ([4, u8::from(x.code) as u64, x.pointer as u64, 0, 0], x.get_offending_packet().to_vec()),
        ScmpErrorMessage::ExternalInterfaceDown(x) => ([5, 0, x.isd_asn.0, x.interface_id as u64, 0], x.get_offending_packet().to_vec()),
        ScmpErrorMessage::InternalConnectivityDown(x) => ([6, 0, x.isd_asn.0, x.ingress_interface_id as u64, x.egress_interface_id as u64], x.get_offending_packet().to_vec()),
    }
}

fn gen_stream(rng: &mut Rng, o: &mut Out) {
    let n = rng.range(2, 7) as usize;
    let with_echo = rng.chance(2, 3);
    let with_path = rng.chance(1, 2);
    let buflen = *rng.pick(&[0usize, 5, 64, 2000]);
    let mut script = vec![];
    let mut lits = vec![];
    let mut kinds = vec![];
    while script.len() < n {
        let mut kind = String::new();
        let b = if rng.chance(1, 3) {
            let mut p = base_pkt(rng, true);
            p.next = 17;
            let data = { let n_ = rng.below(120) as usize; rnd_bytes(rng, n_) };
            let lf = match rng.below(6) { 0 => Some(4u16), 1 => Some(8 + data.len() as u16 / 2), 2 => Some(8 + data.len() as u16 + 9), _ => None };
            p.payload = udp_dgram(&p, rng.below(65536) as u16, 443, &data, lf);
            if rng.chance(1, 8) { p.payload.truncate(rng.below(8) as usize); }
            kind = "udp".into();
            p.bytes()
        } else { rnd_received(rng, &mut kind) };
        let Ok((v, _)) = ScionRawPacketView::try_from_slice(&b) else { continue; };
        let vb = v.as_slice().to_vec();
        lits.push(format!("({},{})", coq_rle(&vb), coq_dppath(&path_of(v))));
        kinds.push(kind);
        script.push(vb);
    }
    let local = ScionSocketIpAddr::new(IsdAsn(IA_A), IpAddr::V4(Ipv4Addr::new(10, 0, 0, 1)), 30041);
    let sc = script.clone();
    let r = std::panic::catch_unwind(AssertUnwindSafe(|| verif_hooks_scmp::run_recv_loop(local, sc, with_path, with_echo, buflen)));
    let Ok(run) = r else {
        o.push("stream", format!("CStr {} {buflen} {} [(0,(0,[],0,0,[],0))] [] []", coq_bool(with_echo), coq_list(lits)),
               format!("stream {kinds:?} PANIC"), true);
        return;
    };
    let dgs = coq_list(run.datagrams.iter().map(|(k, d)| {
        let (nib, raw): (u8, Vec<u8>) = match d.src.ip() { IpAddr::V4(a) => (0, a.octets().to_vec()), IpAddr::V6(a) => (3, a.octets().to_vec()) };
        format!("({k},({},{},{},{nib},{},{}))", d.reported_len, coq_rle(&d.data), d.src.isd_asn().0, coq_rle(&raw), d.src.port())
    }));
    let reps = coq_list(run.replies.iter().map(|(k, b)| format!("({k},{})", coq_rle(b))));
    // path type of the packet a callback came from: read from the script packet
    let errs = coq_list(run.errors.iter().map(|(k, m, pb)| {
        let (f, off) = emsg_fields(m);
        let pt = script[*k - 1][8];
        format!("({k},({},{},{},{},{},{},{pt},{}))", f[0], f[1], f[2], f[3], f[4], coq_rle(&off), coq_rle(pb))
    }));
    o.sm.add("stream.datagrams", run.datagrams.len() as u64);
    o.sm.add("stream.replies", run.replies.len() as u64);
    o.sm.add("stream.error-callbacks", run.errors.len() as u64);
    o.push("stream", format!("CStr {} {buflen} {} {dgs} {reps} {errs}", coq_bool(with_echo), coq_list(lits)),
           format!("stream echo={with_echo} path={with_path} buf={buflen} {kinds:?} -> {} datagrams, {} replies, {} error callbacks",
                   run.datagrams.len(), run.replies.len(), run.errors.len()), true);
}

fn main() {
    silence_panics();
    let out = arg("--out").expect("--out");
    let n: usize = arg("--n").and_then(|s| s.parse().ok()).unwrap_or(400);
    let mut rng = Rng::new(seed_from_env());
    let pre = "From Sci Require Import Scmp.Cases. Open Scope N_scope.";
    let mut o = Out { sh: Shards::new(&out, pre, "scase", "verdicts", 40), sm: Summary::default(),
                      seen: Default::default(), distinct: 0 };
    let world = build_world();
    if world.is_none() { o.sm.count("net.world-not-built"); }
    for i in 0..n {
        match i % 16 {
            0 | 1 => gen_layout(&mut rng, &mut o),
            2 | 6 | 15 => match &world { Some(w) => gen_net(&mut rng, &mut o, w), None => gen_layout(&mut rng, &mut o) },
            3 | 4 | 5 => gen_encode(&mut rng, &mut o),
            7 => gen_gateway(&mut rng, &mut o),
            8 | 9 | 10 | 11 => gen_handler(&mut rng, &mut o),
            12 => gen_sim(&mut rng, &mut o),
            13 => if i % 32 == 13 { gen_sim(&mut rng, &mut o) } else { gen_sim_echo(&mut rng, &mut o) },
            _ => gen_stream(&mut rng, &mut o),
        }
    }
    o.sh.flush();
    let total = o.sh.total;
    o.sm.write(&out, total, o.distinct);
}
