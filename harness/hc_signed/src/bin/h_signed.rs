//! C18 correspondence harness.
//!
//! Stream 1 (signing): segments of 1..=5 entries with peer entries are signed with real P-256
//! keys through `SignedPathSegment::add_entry`, then mutated (bit flips of body / header /
//! framing / signature / info, permutations, truncations, extensions, duplications, key
//! substitutions, header field changes); the real `validate_signature` runs on every entry.
//! The case file carries the bytes, what prost / the DER parser say about them, the verifier's
//! key table, the ledger of honest signing events and the structural expectation.
//!
//! Stream 2/3 (conversion): `control_plane::v1::PathSegment` and `daemon::v1::Path` messages
//! built structurally with boundary values; `try_from_rpc`, the value, `into_rpc`/`to_rpc` of
//! the value and the round trip are observed.
use prost::Message;
use scion_protobuf::{control_plane::v1 as cp, crypto::v1 as cr, daemon::v1 as dm};
use sciparse::core::view::View;
use sciparse::dataplane_path::standard::types::HopFieldMac;
use sciparse::dataplane_path::standard::view::StandardPathView;
use sciparse::identifier::isd_asn::IsdAsn;
use sciparse::path::ScionPath;
use sciparse::path::metadata::link::{LinkMeta, LinkType};
use sciparse::segment::*;
use sciparse::signed_message::{SignedMessage, ValidateError};
use std::collections::HashMap;
use std::panic::AssertUnwindSafe;
use vcommon::{Rng, Shards, Summary, arg, coq_bool, coq_list, coq_opt, seed_from_env, silence_panics};

fn z(v: i64) -> String { format!("({v})%Z") }
/// byte string literal: one hexadecimal numeral instead of a list (lists of numerals are slow to parse)
fn coq_bytes(b: &[u8]) -> String {
    if b.is_empty() { return "[]".into(); }
    // words of 8 bytes: long numerals are slow to parse as well
    let ws: Vec<String> = b.chunks(8).map(|c| { let mut h = String::from("0x"); for x in c { h.push_str(&format!("{x:02x}")); } h }).collect();
    format!("(bw {} [{}])", b.len(), ws.join("; "))
}
/// Coq parses large decimal `N` numerals slowly (milliseconds each) and hexadecimal ones fast:
/// rewrite every decimal numeral of more than 3 digits that is not a `(..)%Z` literal
fn hexify(t: &str) -> String {
    let b = t.as_bytes();
    let mut out = String::with_capacity(t.len());
    let mut i = 0;
    while i < b.len() {
        let c = b[i];
        let prev_ident = i > 0 && (b[i - 1].is_ascii_alphanumeric() || b[i - 1] == b'_');
        if c.is_ascii_digit() && !prev_ident {
            let mut j = i;
            if c == b'0' && i + 1 < b.len() && b[i + 1] == b'x' {
                j = i + 2;
                while j < b.len() && b[j].is_ascii_hexdigit() { j += 1; }
                out.push_str(&t[i..j]);
            } else {
                while j < b.len() && b[j].is_ascii_digit() { j += 1; }
                let is_z = t[j..].starts_with(")%Z");
                if j - i > 3 && !is_z { out.push_str(&format!("0x{:x}", t[i..j].parse::<u128>().unwrap())); } else { out.push_str(&t[i..j]); }
            }
            i = j;
        } else { out.push(c as char); i += 1; }
    }
    out
}
fn bopt(o: Option<&[u8]>) -> String { coq_opt(o.map(coq_bytes)) }

// ---------------------------------------------------------------- signing stream

struct Pool { items: Vec<Vec<u8>>, idx: HashMap<Vec<u8>, usize> }
impl Pool {
    fn new() -> Self { Pool { items: vec![], idx: HashMap::new() } }
    fn get(&mut self, b: &[u8]) -> usize {
        if let Some(&i) = self.idx.get(b) { return i; }
        let i = self.items.len();
        self.items.push(b.to_vec());
        self.idx.insert(b.to_vec(), i);
        i
    }
}

fn key(n: usize) -> p256::ecdsa::SigningKey {
    let mut b = [0u8; 32];
    b[0] = 0x11; b[31] = n as u8 + 1; b[7] = (n as u8).wrapping_mul(37);
    p256::ecdsa::SigningKey::from_slice(&b).unwrap()
}
fn ia(n: u64) -> IsdAsn { IsdAsn::from((1u64 << 48) | (0xff00_0000_0110 + n)) }
fn kid_of(as_no: usize) -> cp::VerificationKeyId {
    cp::VerificationKeyId { isd_as: ia(as_no as u64).to_u64(), subject_key_id: vec![as_no as u8 + 1; 4], trc_base: 1, trc_serial: 1 }
}

fn gen_entry(rng: &mut Rng, i: usize) -> AsEntry {
    let hf = |rng: &mut Rng| SegmentHopField { expiration_units: rng.below(256) as u8, cons_ingress: rng.below(65536) as u16,
        cons_egress: rng.below(65536) as u16, mac: HopFieldMac([0; 6]) };
    let npeers = *rng.pick(&[0usize, 0, 1, 2]);
    AsEntry { local: ia(i as u64), next: ia(i as u64 + 1), mtu: *rng.pick(&[1280u32, 1500, 9000, u32::MAX]),
        hop_entry: HopEntry { ingress_mtu: *rng.pick(&[0u16, 1400, 65535]), hop_field: hf(rng) },
        peer_entries: (0..npeers).map(|p| PeerEntry { peer: ia(100 + p as u64), peer_interface: rng.below(65536) as u16,
            peer_mtu: 1400, hop_field: hf(rng) }).collect(),
        extensions: vec![], unsigned_extensions: vec![] }
}

/// one honest signing event: (key number, signature, chunks of the signed input)
type Ledger = Vec<(usize, Vec<u8>, Vec<Vec<u8>>)>;

struct Honest { seg: SignedPathSegment, ledger: Ledger, keys: HashMap<Vec<u8>, usize> }

/// signs `n` entries; entry i is signed by key i with key id of AS i (or no key id for `nokid`)
fn honest(rng: &mut Rng, n: usize, ts: u32, seg_id: u16, nokid: Option<usize>) -> Honest {
    let mut seg = SignedPathSegment::empty(ts, seg_id);
    let mut ledger = vec![];
    let mut keys = HashMap::new();
    for i in 0..n {
        let e = gen_entry(rng, i);
        let kid = if nokid == Some(i) { None } else { Some(kid_of(i)) };
        keys.insert(kid.as_ref().map(|k| k.encode_to_vec()).unwrap_or_default(), i);
        sign_onto(&mut seg, &mut ledger, e, i, kid, rng.below(1 << 31) as u32);
    }
    Honest { seg, ledger, keys }
}
fn sign_onto(seg: &mut SignedPathSegment, ledger: &mut Ledger, e: AsEntry, k: usize, kid: Option<cp::VerificationKeyId>, sig_ts: u32) {
    let mac_key = [7u8; 16];
    // the harness' own account of what is being signed: this entry, the info, ALL entries so far
    let mut chunks: Vec<Vec<u8>> = vec![seg.info().encoded.clone()];
    for p in &seg.as_entries { chunks.push(p.signature().header_and_body.clone()); chunks.push(p.signature().signature.clone()); }
    seg.add_entry(e, &key(k), kid, &mac_key, sig_ts).unwrap();
    let s = seg.as_entries.last().unwrap().signature();
    chunks.insert(0, s.header_and_body.clone());
    ledger.push((k, s.signature.clone(), chunks));
}

fn flip(b: &mut [u8], rng: &mut Rng) -> bool {
    if b.is_empty() { return false; }
    let bit = rng.below(b.len() as u64 * 8) as usize;
    b[bit / 8] ^= 1 << (bit % 8);
    true
}

fn verr_code(e: &ValidateError) -> u64 {
    match e {
        ValidateError::InvalidHeaderAndBody => 1, ValidateError::InvalidHeader => 2, ValidateError::KeyMissing(_) => 3,
        ValidateError::InvalidAssociatedDataLength { .. } => 4, ValidateError::InvalidDigestAlgorithm => 5,
        ValidateError::SignatureMalformed => 6, ValidateError::SignatureVerificationFailed(_) => 7, _ => 8,
    }
}

struct SignCase { text: String, human: String, nontrivial: bool, kind: &'static str, mode: &'static str, results: Vec<u64> }

fn gen_sign(rng: &mut Rng, forced: Option<usize>) -> SignCase {
    let n = rng.range(1, 5) as usize;
    let ts = *rng.pick(&[0u32, 1, 1_700_000_000, u32::MAX]);
    let seg_id = *rng.pick(&[0u16, 1, 4242, 65535]);
    let nokid = if rng.chance(1, 6) { Some(rng.below(n as u64) as usize) } else { None };
    let mut h = honest(rng, n, ts, seg_id, nokid);
    let mut rpc = h.seg.clone().into_rpc();
    let mut keys = h.keys.clone();
    // expectation: entry i validates iff i < first_bad and it is not in `bad`
    let mut first_bad = usize::MAX;
    let mut bad: Vec<usize> = vec![];
    let j = rng.below(n as u64) as usize;
    let kind_no = forced.unwrap_or_else(|| rng.below(16) as usize);
    let mut info_override: Option<Vec<u8>> = None;
    let with_hb = |rpc: &mut cp::PathSegment, j: usize, f: &mut dyn FnMut(&mut cr::HeaderAndBodyInternal)| {
        let s = rpc.as_entries[j].signed.as_mut().unwrap();
        let mut hb = cr::HeaderAndBodyInternal::decode(&s.header_and_body[..]).unwrap();
        f(&mut hb);
        s.header_and_body = hb.encode_to_vec();
    };
    let with_hdr = |rpc: &mut cp::PathSegment, j: usize, f: &mut dyn FnMut(&mut cr::Header)| {
        let s = rpc.as_entries[j].signed.as_mut().unwrap();
        let mut hb = cr::HeaderAndBodyInternal::decode(&s.header_and_body[..]).unwrap();
        let mut hd = cr::Header::decode(&hb.header[..]).unwrap();
        f(&mut hd);
        hb.header = hd.encode_to_vec();
        s.header_and_body = hb.encode_to_vec();
    };
    let kind: &'static str = match kind_no {
        0 => "honest",
        1 => { with_hb(&mut rpc, j, &mut |hb| { flip(&mut hb.body, rng); }); first_bad = j; "flip-body" }
        2 => { with_hb(&mut rpc, j, &mut |hb| { flip(&mut hb.header, rng); }); first_bad = j; "flip-header" }
        3 => { flip(&mut rpc.as_entries[j].signed.as_mut().unwrap().header_and_body, rng); first_bad = j; "flip-framing" }
        4 => { flip(&mut rpc.as_entries[j].signed.as_mut().unwrap().signature, rng); first_bad = j; "flip-signature" }
        5 => {
            // the segment header: another timestamp / id (one bit), or one bit of the raw bytes
            if rng.chance(1, 2) {
                let i = cp::SegmentInformation { timestamp: (ts ^ (1 << rng.below(32))) as i64, segment_id: seg_id as u32 };
                let i = if rng.chance(1, 2) { i } else { cp::SegmentInformation { timestamp: ts as i64, segment_id: (seg_id ^ (1 << rng.below(16))) as u32 } };
                rpc.segment_info = i.encode_to_vec();
            } else if !flip(&mut rpc.segment_info, rng) { rpc.segment_info = vec![0x10, 0x01]; }
            info_override = Some(rpc.segment_info.clone());
            first_bad = 0; "flip-info"
        }
        6 => {
            if n >= 2 { let a = rng.below(n as u64 - 1) as usize; let b = rng.range(a as u64 + 1, n as u64 - 1) as usize;
                rpc.as_entries.swap(a, b); first_bad = a; }
            "swap"
        }
        7 => { let keep = rng.below(n as u64 + 1) as usize; rpc.as_entries.truncate(keep); "truncate-tail" }
        8 => { if n >= 2 { rpc.as_entries.remove(j); first_bad = j; } "drop-entry" }
        9 => { let c = rpc.as_entries[j].clone(); rpc.as_entries.push(c); bad.push(n); "append-copy" }
        10 => { let c = rpc.as_entries[j].clone(); rpc.as_entries.insert(j + 1, c); first_bad = j + 1; "insert-copy" }
        11 => {
            // honest extension by the next AS
            let e = gen_entry(rng, n);
            keys.insert(kid_of(n).encode_to_vec(), n);
            sign_onto(&mut h.seg, &mut h.ledger, e, n, Some(kid_of(n)), 5);
            rpc = h.seg.clone().into_rpc();
            "extend-honest"
        }
        12 => {
            // extension with an entry signed for ANOTHER segment (other info), or by a key the
            // verifier does not resolve for that AS
            if rng.chance(1, 2) {
                let mut other = honest(rng, n + 1, ts.wrapping_add(1), seg_id, None);
                let foreign = other.seg.clone().into_rpc().as_entries.pop().unwrap();
                keys.insert(kid_of(n).encode_to_vec(), n);
                h.ledger.append(&mut other.ledger);
                rpc.as_entries.push(foreign);
            } else {
                let e = gen_entry(rng, n);
                keys.insert(kid_of(n).encode_to_vec(), n);          // the verifier resolves key n
                sign_onto(&mut h.seg, &mut h.ledger, e, (n + 1) % 6, Some(kid_of(n)), 5); // signed with another key
                rpc = h.seg.clone().into_rpc();
            }
            bad.push(n); "extend-forged"
        }
        13 => {
            // key substitution at the verifier: another key, or no key, for entry j
            let s = rpc.as_entries[j].signed.as_ref().unwrap();
            let hb = cr::HeaderAndBodyInternal::decode(&s.header_and_body[..]).unwrap();
            let kid = cr::Header::decode(&hb.header[..]).unwrap().verification_key_id;
            if rng.chance(1, 3) { keys.remove(&kid); } else { keys.insert(kid, (j + 1) % 6); }
            bad.push(j); "key-substitution"
        }
        14 => {
            let v = *rng.pick(&[0i32, 2, 3, 4, -1]);
            with_hdr(&mut rpc, j, &mut |hd| hd.signature_algorithm = v); first_bad = j; "header-algorithm"
        }
        _ => {
            let d = *rng.pick(&[1i32, -1, 1000, i32::MIN]);
            with_hdr(&mut rpc, j, &mut |hd| hd.associated_data_length = hd.associated_data_length.wrapping_add(d)); first_bad = j; "header-assoc-len"
        }
    };
    // --- run the implementation
    let keyv: Vec<p256::ecdsa::VerifyingKey> = (0..6).map(|k| *key(k).verifying_key()).collect();
    let provider = |kid: &[u8]| keys.get(kid).map(|&k| keyv[k]).ok_or(ValidateError::KeyMissing("no key".into()));
    let entries: Vec<(Vec<u8>, Vec<u8>)> = rpc.as_entries.iter().map(|e| { let s = e.signed.as_ref().unwrap(); (s.header_and_body.clone(), s.signature.clone()) }).collect();
    let conv = std::panic::catch_unwind(AssertUnwindSafe(|| SignedPathSegment::try_from_rpc(rpc.clone())));
    let (mode, info_enc, results): (&'static str, Vec<u8>, Vec<u64>) = match conv {
        Ok(Ok(seg2)) => {
            let res = seg2.as_entries.iter().map(|e| {
                match std::panic::catch_unwind(AssertUnwindSafe(|| e.validate_signature(&provider, &seg2))) {
                    Ok(Ok(())) => 0, Ok(Err(e)) => verr_code(&e), Err(_) => 99 }
            }).collect();
            ("segment", seg2.info().encoded.clone(), res)
        }
        _ => {
            // the mutated message has no segment value: validate at the signed-message layer
            // with the associated data of the chain rule
            let info = rpc.segment_info.clone();
            let res = (0..entries.len()).map(|i| {
                let m = SignedMessage { header_and_body: entries[i].0.clone(), signature: entries[i].1.clone() };
                let mut chunks: Vec<&[u8]> = vec![&info];
                for p in &entries[..i] { chunks.push(&p.0); chunks.push(&p.1); }
                let len: usize = chunks.iter().map(|c| c.len()).sum();
                match std::panic::catch_unwind(AssertUnwindSafe(|| m.validate(&provider, (len, chunks.iter().copied())))) {
                    Ok(Ok(_)) => 0, Ok(Err(e)) => verr_code(&e), Err(_) => 99 }
            }).collect();
            ("message", info, res)
        }
    };
    // a changed info only counts as a change if the value the verifier uses changed
    if let Some(raw) = &info_override {
        if mode == "segment" && info_enc == h.seg.info().encoded && *raw != info_enc { first_bad = usize::MAX; }
    }
    let expect: Vec<bool> = (0..entries.len()).map(|i| i < first_bad && !bad.contains(&i)).collect();
    // --- case text
    let mut pool = Pool::new();
    let info_i = pool.get(&info_enc);
    let ents: Vec<(usize, usize)> = entries.iter().map(|(hb, sg)| (pool.get(hb), pool.get(sg))).collect();
    let mut dec = vec![]; let mut der = vec![]; let mut seen_hb = vec![]; let mut seen_sg = vec![];
    for (hb, sg) in &entries {
        let hi = pool.get(hb); let si = pool.get(sg);
        if !seen_hb.contains(&hi) {
            seen_hb.push(hi);
            let d = match cr::HeaderAndBodyInternal::decode(&hb[..]) {
                Err(_) => "None".to_string(),
                Ok(x) => match cr::Header::decode(&x.header[..]) {
                    Err(_) => "(Some None)".to_string(),
                    Ok(hd) => format!("(Some (Some ({}, {}, {})))", z(hd.signature_algorithm as i64), coq_bytes(&hd.verification_key_id), z(hd.associated_data_length as i64)),
                },
            };
            dec.push(format!("({hi}, {d})"));
        }
        if !seen_sg.contains(&si) {
            seen_sg.push(si);
            der.push(format!("({si}, {})", coq_bool(p256::ecdsa::Signature::from_der(sg).is_ok())));
        }
    }
    let mut keyt: Vec<(&Vec<u8>, &usize)> = keys.iter().collect();
    keyt.sort();
    let ledger = coq_list(h.ledger.iter().map(|(k, sg, chunks)| {
        let si = pool.get(sg);
        let cs: Vec<String> = chunks.iter().map(|c| pool.get(c).to_string()).collect();
        format!("({k}, {si}, {})", coq_list(cs))
    }));
    let text = format!("CSign (mkSign {} {} {} {} {} {} {} {} {})",
        coq_list(pool.items.iter().map(|b| coq_bytes(b))), info_i,
        coq_list(ents.iter().map(|(a, b)| format!("({a},{b})"))), coq_list(dec), coq_list(der),
        coq_list(keyt.iter().map(|(k, v)| format!("({}, {})", coq_bytes(k), v))), ledger,
        coq_list(expect.iter().map(|b| coq_bool(*b).to_string())), coq_list(results.iter().map(|r| r.to_string())));
    let human = format!("sign kind={kind} n={n} j={j} mode={mode} nokid={nokid:?} entries_after={} results={results:?} expect={expect:?}", entries.len());
    SignCase { text, human, nontrivial: entries.len() > 1, kind, mode, results }
}

// ---------------------------------------------------------------- segment conversion stream

fn rerr_code(m: &str) -> u64 {
    match m {
        "Invalid MAC length in HopField" => 1, "Exp Time in HopField is not a valid u8" => 2,
        "Ingress in HopField is not a valid u16" => 3, "Egress in HopField is not a valid u16" => 4,
        "Ingress MTU in HopEntry is not a valid u16" => 5, "Missing hop field in HopEntry" => 6,
        "Peer interface in PeerEntry exceeds u16 maximum" => 7, "Peer MTU in PeerEntry exceeds u16 maximum" => 8,
        "Missing Hop Field in Peer Entry" => 9, "Timestamp is not a valid u32" => 10, "Segment ID is not a valid u16" => 11,
        "Missing Signed Message" => 12, "Failed to decode Signed Header and Body" => 13,
        "Failed to decode AsEntrySignedBody" => 14, "missing Hop Entry" => 15, "Failed to decode segment info" => 16,
        _ => 98,
    }
}
fn coq_rhf(h: &cp::HopField) -> String { format!("(mkRHF {} {} {} {})", h.ingress, h.egress, h.exp_time, coq_bytes(&h.mac)) }
fn coq_rbody(b: &cp::AsEntrySignedBody) -> String {
    let hop = coq_opt(b.hop_entry.as_ref().map(|he| format!("(mkRHE {} {})", coq_opt(he.hop_field.as_ref().map(coq_rhf)), he.ingress_mtu)));
    let peers = coq_list(b.peer_entries.iter().map(|p| format!("(mkRPE {} {} {} {})", p.peer_isd_as, p.peer_interface, p.peer_mtu, coq_opt(p.hop_field.as_ref().map(coq_rhf)))));
    format!("(mkRB {} {} {} {} {})", b.isd_as, b.next_isd_as, hop, peers, b.mtu)
}
fn coq_hf(h: &SegmentHopField) -> String { format!("(mkHF {} {} {} {})", h.expiration_units, h.cons_ingress, h.cons_egress, coq_bytes(h.mac.as_bytes())) }
fn coq_segment(s: &SignedPathSegment) -> String {
    let ents = coq_list(s.as_entries.iter().map(|se| {
        let e = se.entry();
        let peers = coq_list(e.peer_entries.iter().map(|p| format!("(mkPE {} {} {} {})", p.peer.to_u64(), p.peer_interface, p.peer_mtu, coq_hf(&p.hop_field))));
        format!("(mkSE (mkAE {} {} {} (mkHE {} {}) {} {} {}) (mkSigned {} {}))", e.local.to_u64(), e.next.to_u64(), e.mtu,
            e.hop_entry.ingress_mtu, coq_hf(&e.hop_entry.hop_field), peers, coq_bytes(&e.extensions), coq_bytes(&e.unsigned_extensions),
            coq_bytes(&se.signature().header_and_body), coq_bytes(&se.signature().signature))
    }));
    format!("(mkSeg (mkSI {} {} {}) {})", s.info().timestamp, s.info().segment_id, coq_bytes(&s.info().encoded), ents)
}
fn coq_rsegment(r: &cp::PathSegment) -> String {
    let ents = coq_list(r.as_entries.iter().map(|e| {
        // an `unsigned` part would be a difference from the model: make it visible
        if e.unsigned.is_some() { return "(mkRAE (Some (mkSigned [999] [999])))".to_string(); }
        format!("(mkRAE {})", coq_opt(e.signed.as_ref().map(|s| format!("(mkSigned {} {})", coq_bytes(&s.header_and_body), coq_bytes(&s.signature)))))
    }));
    format!("(mkRSeg {} {})", coq_bytes(&r.segment_info), ents)
}

fn b16(rng: &mut Rng) -> u64 { if rng.chance(7, 8) { *rng.pick(&[0u64, 1, 7, 65535]) } else { *rng.pick(&[65536u64, 1 << 32, u64::MAX]) } }
fn gen_rhf(rng: &mut Rng) -> cp::HopField {
    let maclen = if rng.chance(9, 10) { 6 } else { *rng.pick(&[0usize, 5, 7]) };
    cp::HopField { ingress: b16(rng), egress: b16(rng),
        exp_time: if rng.chance(9, 10) { *rng.pick(&[0u32, 63, 255]) } else { *rng.pick(&[256u32, u32::MAX]) },
        mac: (0..maclen).map(|k| k as u8 + 1).collect() }
}
fn mtu16(rng: &mut Rng) -> u32 { if rng.chance(9, 10) { *rng.pick(&[0u32, 1500, 65535]) } else { *rng.pick(&[65536u32, u32::MAX]) } }

struct ConvCase { text: String, human: String, nontrivial: bool, kind: &'static str, res: u64 }

fn gen_seg(rng: &mut Rng) -> ConvCase {
    let mut kind = "structural";
    let rpc: cp::PathSegment = if rng.chance(1, 8) {
        kind = "signed-roundtrip";
        let n = rng.range(1, 3) as usize;
        honest(rng, n, 1_700_000_000, 77, None).seg.into_rpc()
    } else {
        let info = if rng.chance(1, 12) { rng.pick(&[vec![0x08u8], vec![0xff], vec![0x0a, 0x05, 1]]).clone() } else {
            cp::SegmentInformation {
                timestamp: if rng.chance(5, 6) { *rng.pick(&[0i64, 1, 100, u32::MAX as i64]) } else { *rng.pick(&[u32::MAX as i64 + 1, -1, i64::MAX, i64::MIN]) },
                segment_id: if rng.chance(7, 8) { *rng.pick(&[0u32, 1, 65535]) } else { *rng.pick(&[65536u32, u32::MAX]) },
            }.encode_to_vec()
        };
        let n = rng.below(4) as usize;
        let entries = (0..n).map(|k| {
            if rng.chance(1, 20) { return cp::AsEntry { signed: None, unsigned: None }; }
            let body = cp::AsEntrySignedBody {
                isd_as: *rng.pick(&[0u64, 1, (1 << 48) | 0xff00_0000_0110, u64::MAX]), next_isd_as: k as u64,
                hop_entry: if rng.chance(1, 20) { None } else { Some(cp::HopEntry { hop_field: if rng.chance(1, 20) { None } else { Some(gen_rhf(rng)) }, ingress_mtu: mtu16(rng) }) },
                peer_entries: (0..*rng.pick(&[0usize, 0, 1, 2])).map(|_| cp::PeerEntry { peer_isd_as: rng.below(5), peer_interface: b16(rng),
                    peer_mtu: mtu16(rng), hop_field: if rng.chance(1, 20) { None } else { Some(gen_rhf(rng)) } }).collect(),
                mtu: *rng.pick(&[0u32, 1500, u32::MAX]), extensions: None,
            };
            let body_bytes = if rng.chance(1, 20) { vec![0xff, 0xff, k as u8] } else { body.encode_to_vec() };
            let hdr = cr::Header { signature_algorithm: 1, verification_key_id: vec![k as u8], timestamp: None, metadata: vec![], associated_data_length: 0 };
            let hb = if rng.chance(1, 20) { vec![0x0a, 0x7f, k as u8] } else { cr::HeaderAndBodyInternal { header: hdr.encode_to_vec(), body: body_bytes }.encode_to_vec() };
            cp::AsEntry { signed: Some(cr::SignedMessage { header_and_body: hb, signature: vec![0x30, k as u8] }), unsigned: None }
        }).collect();
        cp::PathSegment { segment_info: info, as_entries: entries }
    };
    // what prost says about the parts
    let info_dec = cp::SegmentInformation::decode(&rpc.segment_info[..]).ok();
    let info_enc = info_dec.as_ref().map(|i| i.encode_to_vec()).unwrap_or_default();
    let gentries = coq_list(rpc.as_entries.iter().map(|e| match &e.signed {
        None => "GNone".to_string(),
        Some(s) => {
            let d = match cr::HeaderAndBodyInternal::decode(&s.header_and_body[..]) {
                Err(_) => "None".to_string(),
                Ok(hb) => match cp::AsEntrySignedBody::decode(&hb.body[..]) {
                    Err(_) => "(Some None)".to_string(),
                    Ok(b) => format!("(Some (Some {}))", coq_rbody(&b)),
                },
            };
            format!("(GSigned {} {} {})", coq_bytes(&s.header_and_body), coq_bytes(&s.signature), d)
        }
    }));
    let r = std::panic::catch_unwind(AssertUnwindSafe(|| SignedPathSegment::try_from_rpc(rpc.clone())));
    let (res, val, back, rt) = match r {
        Err(_) => (99, "None".to_string(), "None".to_string(), false),
        Ok(Err(e)) => (rerr_code(&e.message), "None".to_string(), "None".to_string(), false),
        Ok(Ok(seg)) => {
            let b = seg.clone().into_rpc();
            let rt = std::panic::catch_unwind(AssertUnwindSafe(|| SignedPathSegment::try_from_rpc(b.clone()).ok().as_ref() == Some(&seg))).unwrap_or(false);
            (0, format!("(Some {})", coq_segment(&seg)), format!("(Some {})", coq_rsegment(&b)), rt)
        }
    };
    let text = format!("CSeg (mkSegC {} {} {} {} {} {} {} {})", coq_bytes(&rpc.segment_info),
        coq_opt(info_dec.map(|i| format!("({}, {})", z(i.timestamp), i.segment_id))), coq_bytes(&info_enc), gentries, res, val, back, coq_bool(rt));
    let human = format!("seg kind={kind} entries={} info={:?} result={res} rt={rt}", rpc.as_entries.len(), rpc.segment_info);
    ConvCase { text, human, nontrivial: !rpc.as_entries.is_empty(), kind, res }
}

// ---------------------------------------------------------------- API-built segment values, to RPC and back

fn gen_segrt(rng: &mut Rng) -> ConvCase {
    let n = rng.range(1, 3) as usize;
    let with_ext = rng.chance(1, 2);
    let mut seg = SignedPathSegment::empty(*rng.pick(&[0u32, 1_700_000_000, u32::MAX]), *rng.pick(&[0u16, 9, 65535]));
    let mut has_ext = false;
    for i in 0..n {
        let mut e = gen_entry(rng, i);
        if with_ext && rng.chance(1, 2) {
            has_ext = true;
            if rng.chance(1, 2) { e.extensions = vec![1, 2]; } else { e.unsigned_extensions = vec![3]; }
        }
        seg.add_entry(e, &key(i), Some(kid_of(i)), &[7u8; 16], 5).unwrap();
    }
    let back = seg.clone().into_rpc();
    let dec = coq_list(back.as_entries.iter().filter_map(|e| e.signed.as_ref()).map(|s| {
        let d = match cr::HeaderAndBodyInternal::decode(&s.header_and_body[..]) {
            Err(_) => "None".to_string(),
            Ok(hb) => match cp::AsEntrySignedBody::decode(&hb.body[..]) {
                Err(_) => "(Some None)".to_string(),
                Ok(b) => format!("(Some (Some {}))", coq_rbody(&b)),
            },
        };
        format!("({}, {})", coq_bytes(&s.header_and_body), d)
    }));
    let r = std::panic::catch_unwind(AssertUnwindSafe(|| SignedPathSegment::try_from_rpc(back.clone())));
    let (res, val2, same) = match r {
        Err(_) => (99, "None".to_string(), false),
        Ok(Err(e)) => (rerr_code(&e.message), "None".to_string(), false),
        Ok(Ok(v2)) => (0, format!("(Some {})", coq_segment(&v2)), v2 == seg),
    };
    let text = format!("CSegRt (mkSegRt {} {} {} {} {})", coq_segment(&seg), coq_rsegment(&back), dec, res, val2);
    let human = format!("segrt entries={n} has_extensions={has_ext} result={res} same={same}");
    ConvCase { text, human, nontrivial: true, kind: if has_ext { "api-value-with-extensions" } else { "api-value" }, res }
}

// ---------------------------------------------------------------- message-level stream

fn gen_msg(rng: &mut Rng) -> ConvCase {
    use sciparse::signed_message::DigestAlgorithm as DA;
    let (alg, algno) = *rng.pick(&[(DA::Sha256, 1u64), (DA::Sha384, 2), (DA::Sha512, 3)]);
    let k = rng.below(6) as usize;
    let kid = if rng.chance(1, 4) { None } else { Some(kid_of(k)) };
    let chunks: Vec<Vec<u8>> = (0..rng.below(4)).map(|_| (0..rng.below(20)).map(|_| rng.below(256) as u8).collect()).collect();
    let assoc: Vec<u8> = chunks.concat();
    // the API lets the signer declare any length next to the chunks
    let declared = if rng.chance(1, 8) { assoc.len() + 1 } else { assoc.len() };
    let body = cp::SegmentsRequest { src_isd_as: rng.below(100), dst_isd_as: 2 };
    let m = SignedMessage::sign(&key(k), alg, rng.below(1 << 31) as u32, kid, (declared, chunks.iter().map(|c| c.as_slice())), &body, &()).unwrap();
    let signed_input = [m.header_and_body.clone(), assoc.clone()].concat();
    let mut m2 = m.clone();
    let mut vassoc = assoc.clone();
    let mut slen = declared;
    let mut vkey = Some(k);
    let var = rng.below(9);
    let kind: &'static str = match var {
        2 => { if flip(&mut vassoc, rng) { "assoc-bit" } else { "same" } }
        3 => { slen = declared + *rng.pick(&[1usize, 7]); "supplied-length" }
        4 => { vkey = if rng.chance(1, 3) { None } else { Some((k + 1) % 6) }; "other-key" }
        5 => { flip(&mut m2.signature, rng); "signature-bit" }
        6 => "rechunked",
        7 => {
            let mut hb = cr::HeaderAndBodyInternal::decode(&m2.header_and_body[..]).unwrap();
            let mut hd = cr::Header::decode(&hb.header[..]).unwrap();
            hd.signature_algorithm = *rng.pick(&[0i32, 1, 2, 3, 9]);
            hb.header = hd.encode_to_vec();
            m2.header_and_body = hb.encode_to_vec();
            "header-algorithm"
        }
        8 => { flip(&mut m2.header_and_body, rng); "hb-bit" }
        _ => "same",
    };
    let expect = m2 == m && vkey == Some(k) && slen == declared && vassoc == assoc;
    let keyv: Vec<p256::ecdsa::VerifyingKey> = (0..6).map(|k| *key(k).verifying_key()).collect();
    let provider = |_kid: &[u8]| vkey.map(|k| keyv[k]).ok_or(ValidateError::KeyMissing("no key".into()));
    // the verifier may cut the associated data into other chunks
    let cut = if var == 6 && !vassoc.is_empty() { rng.below(vassoc.len() as u64) as usize } else { 0 };
    let vchunks: Vec<&[u8]> = vec![&vassoc[..cut], &vassoc[cut..]];
    let res = match std::panic::catch_unwind(AssertUnwindSafe(|| m2.validate(&provider, (slen, vchunks.iter().copied())))) {
        Ok(Ok(_)) => 0, Ok(Err(e)) => verr_code(&e), Err(_) => 99 };
    let dec = match cr::HeaderAndBodyInternal::decode(&m2.header_and_body[..]) {
        Err(_) => "None".to_string(),
        Ok(x) => match cr::Header::decode(&x.header[..]) {
            Err(_) => "(Some None)".to_string(),
            Ok(hd) => format!("(Some (Some ({}, {}, {})))", z(hd.signature_algorithm as i64), coq_bytes(&hd.verification_key_id), z(hd.associated_data_length as i64)),
        },
    };
    let text = format!("CMsg (mkMsg {} {} {} {} {} {} {} [({}, {}, {}, {})] {} {})", coq_bytes(&m2.header_and_body), coq_bytes(&m2.signature), dec,
        coq_bool(p256::ecdsa::Signature::from_der(&m2.signature).is_ok()), coq_opt(vkey.map(|k| k.to_string())), slen, coq_bytes(&vassoc),
        algno, k, coq_bytes(&m.signature), coq_bytes(&signed_input), coq_bool(expect), res);
    let human = format!("msg digest={algno} kind={kind} assoc_len={} declared={declared} supplied={slen} key={vkey:?} result={res} expect={expect}", assoc.len());
    ConvCase { text, human, nontrivial: true, kind, res }
}

// ---------------------------------------------------------------- path conversion stream

fn std_raw(segs: &[usize]) -> Vec<u8> {
    let mut meta: u32 = 0;
    for (i, &l) in segs.iter().enumerate() { meta |= (l as u32) << (12 - 6 * i); }
    let mut raw = meta.to_be_bytes().to_vec();
    for (i, _) in segs.iter().enumerate() { raw.extend_from_slice(&[(i == 0) as u8, 0, 0, 7 + i as u8, 0, 0, 0, 100]); }
    for &l in segs { for h in 0..l { raw.extend_from_slice(&[0, 63, 0, h as u8, 0, h as u8 + 1, 1, 2, 3, 4, 5, 6]); } }
    raw
}
fn coq_zz(s: i64, n: i64) -> String { format!("({}, {})", z(s), z(n)) }
fn coq_rpath(r: &dm::Path) -> String {
    let iface = coq_opt(r.interface.as_ref().map(|i| coq_opt(i.address.as_ref().map(|a| coq_bytes(a.address.as_bytes())))));
    format!("(mkRP {} {} {} {} {} {} {} {} {} {} {} {})", coq_bytes(&r.raw), iface,
        coq_list(r.interfaces.iter().map(|i| format!("({}, {})", i.isd_as, i.id))), r.mtu,
        coq_opt(r.expiration.as_ref().map(|t| coq_zz(t.seconds, t.nanos as i64))),
        coq_list(r.latency.iter().map(|d| coq_zz(d.seconds, d.nanos as i64))),
        coq_list(r.bandwidth.iter().map(|b| b.to_string())),
        coq_list(r.geo.iter().map(|g| format!("({}, {}, {})", g.latitude.to_bits(), g.longitude.to_bits(), coq_bytes(g.address.as_bytes())))),
        coq_list(r.link_type.iter().map(|t| z(*t as i64))), coq_list(r.internal_hops.iter().map(|h| h.to_string())),
        coq_list(r.notes.iter().map(|s| coq_bytes(s.as_bytes()))),
        coq_opt(r.epic_auths.as_ref().map(|e| format!("({}, {})", coq_bytes(&e.auth_phvf), coq_bytes(&e.auth_lhvf)))))
}
fn coq_spath(p: &ScionPath) -> String {
    let raw = p.to_rpc().raw;
    let meta = coq_opt(p.metadata().map(|m| {
        let ifs = coq_opt(m.interfaces.as_ref().map(|l| coq_list(l.iter().map(|i| {
            let geo = coq_opt(i.geo_info.as_ref().map(|g| format!("(mkGeo {} {} {})", g.latitude.to_bits(), g.longitude.to_bits(), bopt(g.address.as_ref().map(|a| a.as_bytes())))));
            let lat = coq_opt(i.latency.map(|d| format!("({}, {})", d.as_secs(), d.subsec_nanos())));
            let link = coq_opt(i.link.map(|l| match l {
                LinkMeta::Ingress { internal_hop_count } => format!("(LIngress {internal_hop_count})"),
                LinkMeta::Egress(t) => format!("(LEgress {})", match t { LinkType::Unset => "LtUnset".to_string(), LinkType::Direct => "LtDirect".into(),
                    LinkType::MultiHop => "LtMultiHop".into(), LinkType::OpenNet => "LtOpenNet".into(), LinkType::Unknown(v) => format!("(LtUnknown {v})") }),
            }));
            format!("(mkIf {} {} {} {} {} {})", i.interface.isd_asn.to_u64(), i.interface.id, geo, lat, coq_opt(i.bandwidth.map(|b| b.to_string())), link)
        }))));
        let epic = coq_opt(m.epic_auth.as_ref().map(|e| format!("({}, {})", coq_bytes(&e.phop_authenticator), coq_bytes(&e.lhop_authenticator))));
        let notes = coq_opt(m.notes.as_ref().map(|ns| coq_list(ns.iter().map(|s| coq_bytes(s.as_bytes())))));
        format!("(mkPM {} {} {} {} {})", m.expiration, m.mtu, ifs, epic, notes)
    }));
    format!("(mkPath {} {} {} {} {})", p.src_ia().to_u64(), p.dst_ia().to_u64(), coq_bytes(&raw), meta,
        coq_opt(p.next_hop().map(|a| coq_bytes(a.to_string().as_bytes()))))
}
fn perr_code(m: &str) -> u64 {
    if m.starts_with("cannot create empty path with wildcard") { 1 }
    else if m == "RPC payload had an empty path" { 2 }
    else if m.starts_with("failed to parse standard path from RPC") { 3 }
    else if m == "RPC payload had extra data after parsing standard path" { 4 }
    else if m.starts_with("failed to parse next hop address from RPC") { 5 }
    else if m.starts_with("RPC payload had invalid number of interfaces") { 6 }
    else if m == "interface_id exceeds u16 range" { 7 }
    else if m == "RPC payload missing expiration timestamp" { 8 }
    else if m == "RPC MTU does not fit in u16" { 9 }
    else { 98 }
}
fn vlen(rng: &mut Rng, right: usize, others: &[usize]) -> usize { if rng.chance(3, 4) { right } else { *rng.pick(others) } }

fn gen_path(rng: &mut Rng) -> ConvCase {
    let n = *rng.pick(&[2usize, 2, 4, 4, 6, 0, 1, 3]);
    let raw = match rng.below(12) {
        0 => vec![], 1 => { let mut r = std_raw(&[2]); r.truncate(20); r }, 2 => { let mut r = std_raw(&[2]); r.push(0); r },
        3 => std_raw(&[2, 2]), 4 => std_raw(&[1, 2, 3]), _ => std_raw(&[2]),
    };
    let iface: Option<dm::Interface> = match rng.below(8) {
        0 => None,
        1 => Some(dm::Interface { address: None }),
        k => Some(dm::Interface { address: Some(dm::Underlay { address: match k {
            2 => "[2001:db8::1]:30041", 3 => "not-an-address", 4 => "", 5 => "10.0.0.1", _ => "10.0.0.1:30041" }.to_string() }) }),
    };
    let lat_vals: [(i64, i32); 12] = [(0, 5000), (1, 0), (-1, 0), (i64::MIN, 0), (i64::MAX, 999_999_999), (5, 2_000_000_000),
        (5, -1), (0, -1), (i64::MAX, 2_000_000_000), (0, 1_000_000_000), (1, -1_000_000_000), (-2, 2_000_000_000)];
    let half = n / 2;
    let r = dm::Path {
        raw, interface: iface,
        interfaces: (0..n).map(|k| dm::PathInterface { isd_as: *rng.pick(&[0u64, (1 << 48) | (0xff00_0000_0110 + k as u64), u64::MAX]),
            id: if rng.chance(15, 16) { *rng.pick(&[0u64, 1, 65535]) } else { *rng.pick(&[65536u64, 1 << 32]) } }).collect(),
        mtu: if rng.chance(9, 10) { *rng.pick(&[0u32, 1400, 65535]) } else { *rng.pick(&[65536u32, u32::MAX]) },
        expiration: if rng.chance(1, 16) { None } else { Some(prost_types::Timestamp {
            seconds: if rng.chance(5, 6) { *rng.pick(&[0i64, 1000, 1_800_000_000, i64::MAX]) } else { *rng.pick(&[-1i64, i64::MIN]) }, nanos: *rng.pick(&[0i32, 5, -1]) }) },
        latency: (0..vlen(rng, n.saturating_sub(1), &[0, n, n.saturating_sub(2)])).map(|_| { let (s, nn) = if rng.chance(2, 3) { lat_vals[rng.below(3) as usize] } else { *rng.pick(&lat_vals) };
            prost_types::Duration { seconds: s, nanos: nn } }).collect(),
        bandwidth: (0..vlen(rng, n.saturating_sub(1), &[0, n])).map(|_| *rng.pick(&[0u64, 1, 100, u64::MAX])).collect(),
        geo: (0..vlen(rng, n, &[0, n.saturating_sub(1)])).map(|_| match rng.below(6) {
            0 => dm::GeoCoordinates::default(), 1 => dm::GeoCoordinates { latitude: -0.0, longitude: 0.0, address: String::new() },
            2 => dm::GeoCoordinates { latitude: 0.0, longitude: 0.0, address: "Zurich".into() },
            3 => dm::GeoCoordinates { latitude: f32::NAN, longitude: 1.0, address: String::new() },
            _ => dm::GeoCoordinates { latitude: 47.5, longitude: 8.5, address: "x".into() } }).collect(),
        link_type: (0..vlen(rng, half, &[0, n])).map(|_| if rng.chance(3, 4) { rng.below(4) as i32 } else { *rng.pick(&[4i32, 255, 256, 257, -1, i32::MIN]) }).collect(),
        internal_hops: (0..vlen(rng, half.saturating_sub(1), &[0, half])).map(|_| *rng.pick(&[0u32, 1, 7, u32::MAX])).collect(),
        notes: (0..vlen(rng, half + 1, &[0, 1])).map(|k| ["a", "", "note"][k % 3].to_string()).collect(),
        epic_auths: if rng.chance(1, 4) { Some(dm::EpicAuths { auth_phvf: vec![1, 2], auth_lhvf: vec![] }) } else { None },
        discovery_information: Default::default(),
    };
    let a = (1u64 << 48) | 0xff00_0000_0110;
    let (src, dst) = match rng.below(8) { 0 => (a, a), 1 => (0, 0), 2 => (0, a), 3 => (1 << 48, 1 << 48), 4 => (a, 0), _ => (a, a + 1) };
    let std = match StandardPathView::try_from_slice(&r.raw) { Err(_) => 1, Ok((_, rest)) => if rest.is_empty() { 0 } else { 2 } };
    let sa = r.interface.as_ref().and_then(|i| i.address.as_ref()).and_then(|u| u.address.parse::<std::net::SocketAddr>().ok()).map(|s| s.to_string());
    let res = std::panic::catch_unwind(AssertUnwindSafe(|| ScionPath::try_from_rpc(r.clone(), IsdAsn::from(src), IsdAsn::from(dst))));
    let (code, val, back, rt) = match res {
        Err(_) => (99, "None".to_string(), "None".to_string(), false),
        Ok(Err(e)) => (perr_code(&e.message), "None".to_string(), "None".to_string(), false),
        Ok(Ok(p)) => {
            let b = p.to_rpc();
            let v = coq_spath(&p);
            let rt = std::panic::catch_unwind(AssertUnwindSafe(|| ScionPath::try_from_rpc(b.clone(), IsdAsn::from(src), IsdAsn::from(dst)).ok().map(|q| coq_spath(&q)) == Some(v.clone()))).unwrap_or(false);
            (0, format!("(Some {v})"), format!("(Some {})", coq_rpath(&b)), rt)
        }
    };
    let text = format!("CPath (mkPathC {} {} {} {} {} {} {} {} {})", coq_rpath(&r), src, dst, std, coq_opt(sa.map(|s| coq_bytes(s.as_bytes()))), code, val, back, coq_bool(rt));
    let human = format!("path n_if={n} raw_len={} std={std} src={src:#x} dst={dst:#x} iface={:?} mtu={} exp={:?} lat={:?} bw={:?} geo={} lt={:?} ih={:?} notes={} result={code} rt={rt}",
        r.raw.len(), r.interface, r.mtu, r.expiration.as_ref().map(|t| t.seconds), r.latency.iter().map(|d| (d.seconds, d.nanos)).collect::<Vec<_>>(), r.bandwidth,
        r.geo.len(), r.link_type, r.internal_hops, r.notes.len());
    ConvCase { text, human, nontrivial: code == 0 || n > 0, kind: "path", res: code }
}

fn main() {
    silence_panics();
    let out = arg("--out").expect("--out dir");
    let n: usize = arg("--n").and_then(|s| s.parse().ok()).unwrap_or(320);
    let mut rng = Rng::new(seed_from_env());
    let pre = "From Sci Require Import Signed.Cases. Open Scope N_scope.";
    let mut sh = Shards::new(&out, pre, "ccase", "verdicts", 40);
    let mut sum = Summary::default();
    let mut seen = std::collections::HashSet::new();
    for i in 0..n {
        let (text, human, nontrivial) = match i % 8 {
            0..=2 => {
                // the first 16 signing cases walk through every mutation kind once
                let forced = if i / 8 * 3 + i % 8 < 16 { Some(i / 8 * 3 + i % 8) } else { None };
                let c = gen_sign(&mut rng, forced);
                sum.count(&format!("sign.kind.{}", c.kind)); sum.count(&format!("sign.mode.{}", c.mode));
                for r in &c.results { sum.count(&format!("sign.result.{r}")); }
                (c.text, c.human, c.nontrivial)
            }
            4 => { let c = gen_seg(&mut rng); sum.count(&format!("seg.kind.{}", c.kind)); sum.count(&format!("seg.result.{}", c.res)); (c.text, c.human, c.nontrivial) }
            3 => { let c = gen_msg(&mut rng); sum.count(&format!("msg.kind.{}", c.kind)); sum.count(&format!("msg.result.{}", c.res)); (c.text, c.human, c.nontrivial) }
            5 => if (i / 8) % 2 == 0 {
                let c = gen_segrt(&mut rng); sum.count(&format!("segrt.kind.{}", c.kind)); sum.count(&format!("segrt.result.{}", c.res)); (c.text, c.human, c.nontrivial)
            } else {
                let c = gen_seg(&mut rng); sum.count(&format!("seg.kind.{}", c.kind)); sum.count(&format!("seg.result.{}", c.res)); (c.text, c.human, c.nontrivial)
            },
            _ => { let c = gen_path(&mut rng); sum.count(&format!("path.result.{}", c.res)); (c.text, c.human, c.nontrivial) }
        };
        if seen.insert(text.clone()) && nontrivial { sum.count("distinct_nontrivial"); }
        if sum.samples.len() < 3 && i % 3 == 0 { sum.samples.push(human.clone()); }
        sum.index.push(human);
        sh.push(hexify(&text));
    }
    sh.flush();
    let distinct = *sum.dist.get("distinct_nontrivial").unwrap_or(&0) as usize;
    sum.write(&out, sh.total, distinct);
}
