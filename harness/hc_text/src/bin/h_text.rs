//! C15 correspondence harness: runs the real `FromStr` / `Display` implementations of the
//! sciparse identifier and address types on generated strings and values and writes the
//! inputs together with the observed results as Coq case files (`Sci.Text.Cases`).
//!
//! `Ipv4Addr` / `Ipv6Addr` text syntax is std-library code and is NOT modelled: every case
//! carries an oracle table listing each substring of the input that std parses as an IP
//! address (with its value) and the std display string of each IP value involved.
use sciparse::address::{
    AddressParseError as E,
    addr::{ScionAddr, ScionAddrSvc, ScionAddrV4, ScionAddrV6},
    host_addr::{ScionHostAddr, ServiceAddr},
    ip_addr::ScionIpAddr,
    ip_socket_addr::ScionSocketIpAddr,
    socket_addr::{ScionSocketAddr, ScionSocketAddrSvc, ScionSocketAddrV4, ScionSocketAddrV6},
};
use sciparse::identifier::{asn::Asn, isd::Isd, isd_asn::IsdAsn};
use std::net::{Ipv4Addr, Ipv6Addr};
use std::str::FromStr;
use vcommon::*;

#[derive(Clone, Copy, PartialEq, Eq, Debug, Hash)]
enum Host { V4(u32), V6(u128), Svc(u16) }
#[derive(Clone, Copy, PartialEq, Eq, Debug, Hash)]
enum Val { Num(u64), Host(Host), Addr(u64, Host), Sock(u64, Host, u16) }
#[derive(Clone, PartialEq, Eq, Debug)]
enum Res { Ok(Val, Option<String>), OkList(Vec<(u64, Host)>), Err(u64), Panic }

const K_ISD: u64 = 0; const K_ASN: u64 = 1; const K_IA: u64 = 2; const K_SVC: u64 = 3; const K_HOST: u64 = 4;
const K_ADDR_SVC: u64 = 5; const K_ADDR_V4: u64 = 6; const K_ADDR_V6: u64 = 7; const K_ADDR: u64 = 8; const K_IPADDR: u64 = 9;
const K_SOCK_SVC: u64 = 10; const K_SOCK_V4: u64 = 11; const K_SOCK_V6: u64 = 12; const K_SOCK: u64 = 13; const K_IPSOCK: u64 = 14;
const K_TXT: u64 = 15;
const N_KINDS: u64 = 15; // FromStr types; K_TXT is generated separately
const KIND_NAMES: [&str; 16] = ["Isd", "Asn", "IsdAsn", "ServiceAddr", "ScionHostAddr", "ScionAddrSvc", "ScionAddrV4",
    "ScionAddrV6", "ScionAddr", "ScionIpAddr", "ScionSocketAddrSvc", "ScionSocketAddrV4", "ScionSocketAddrV6",
    "ScionSocketAddr", "ScionSocketIpAddr", "TxtRecord"];

fn ecode(e: &E) -> u64 {
    match e {
        E::Isd => 1, E::Asn => 2, E::IsdAsn => 3, E::Service => 4, E::HostAddr => 5, E::Scion => 6,
        E::ScionV4 => 7, E::ScionV6 => 8, E::ScionSvc => 9, E::Socket => 10, E::SocketV4 => 11,
        E::SocketV6 => 12, E::SocketSvc => 13,
    }
}
fn host_of(h: ScionHostAddr) -> Host {
    match h { ScionHostAddr::V4(a) => Host::V4(a.to_bits()), ScionHostAddr::V6(a) => Host::V6(a.to_bits()), ScionHostAddr::Svc(s) => Host::Svc(s.0) }
}
fn to_host(h: Host) -> ScionHostAddr {
    match h { Host::V4(a) => ScionHostAddr::V4(Ipv4Addr::from_bits(a)), Host::V6(a) => ScionHostAddr::V6(Ipv6Addr::from_bits(a)), Host::Svc(s) => ScionHostAddr::Svc(ServiceAddr(s)) }
}
fn addr_val(a: ScionAddr) -> Val { Val::Addr(a.isd_asn().to_u64(), host_of(a.host())) }
fn sock_val(a: ScionSocketAddr) -> Val { Val::Sock(a.isd_asn().to_u64(), host_of(a.host()), a.port()) }

/// FromStr of the type `kind`, result value and its Display (both under catch_unwind)
fn parse_impl(kind: u64, s: &str) -> Res {
    fn fin<T: std::fmt::Display>(r: Result<T, E>, f: impl Fn(&T) -> Val) -> Result<(Val, String), u64> {
        match r { Ok(v) => Ok((f(&v), v.to_string())), Err(e) => Err(ecode(&e)) }
    }
    let s2 = s.to_string();
    let r = catch(move || -> Result<(Val, String), u64> {
        let s = s2.as_str();
        match kind {
            K_ISD => fin(Isd::from_str(s), |v| Val::Num(v.0 as u64)),
            K_ASN => fin(Asn::from_str(s), |v| Val::Num(v.0)),
            K_IA => fin(IsdAsn::from_str(s), |v| Val::Num(v.0)),
            K_SVC => match ServiceAddr::from_str(s) { Ok(v) => Ok((Val::Num(v.0 as u64), v.to_string())), Err(_) => Err(20) },
            K_HOST => fin(ScionHostAddr::from_str(s), |v| Val::Host(host_of(*v))),
            K_ADDR_SVC => fin(ScionAddrSvc::from_str(s), |v| addr_val(ScionAddr::Svc(*v))),
            K_ADDR_V4 => fin(ScionAddrV4::from_str(s), |v| addr_val(ScionAddr::V4(*v))),
            K_ADDR_V6 => fin(ScionAddrV6::from_str(s), |v| addr_val(ScionAddr::V6(*v))),
            K_ADDR => fin(ScionAddr::from_str(s), |v| addr_val(*v)),
            K_IPADDR => fin(ScionIpAddr::from_str(s), |v| addr_val(v.into_scion_addr())),
            K_SOCK_SVC => fin(ScionSocketAddrSvc::from_str(s), |v| sock_val(ScionSocketAddr::Svc(*v))),
            K_SOCK_V4 => fin(ScionSocketAddrV4::from_str(s), |v| sock_val(ScionSocketAddr::V4(*v))),
            K_SOCK_V6 => fin(ScionSocketAddrV6::from_str(s), |v| sock_val(ScionSocketAddr::V6(*v))),
            K_SOCK => fin(ScionSocketAddr::from_str(s), |v| sock_val(*v)),
            K_IPSOCK => fin(ScionSocketIpAddr::from_str(s), |v| sock_val((*v).into())),
            _ => unreachable!(),
        }
    });
    match r { None => Res::Panic, Some(Ok((v, d))) => Res::Ok(v, Some(d)), Some(Err(c)) => Res::Err(c) }
}

/// the TXT record parser through the verif-hooks entry point
fn parse_txt_impl(s: &str) -> Res {
    let s2 = s.to_string();
    let r = catch(move || scion_stack::resolver::txt::verif_hooks::parse_txt_record(&s2));
    match r {
        None => Res::Panic,
        Some(None) => Res::Err(30),
        Some(Some(Err(c))) => Res::Err(30 + c as u64),
        Some(Some(Ok(v))) => Res::OkList(v.into_iter().map(|a| { let a = a.into_scion_addr(); (a.isd_asn().to_u64(), host_of(a.host())) }).collect()),
    }
}
fn coq_pairs(l: &[(u64, Host)]) -> String { coq_list(l.iter().map(|(ia, h)| format!("({ia},{})", coq_host(*h)))) }

/// Display of a value through the type `kind`; None when the kind cannot hold the value or on panic
fn display_impl(kind: u64, v: Val) -> Option<String> {
    catch(move || -> Option<String> {
        Some(match (kind, v) {
            (K_ISD, Val::Num(n)) => Isd(n as u16).to_string(),
            (K_ASN, Val::Num(n)) => Asn(n).to_string(),
            (K_IA, Val::Num(n)) => IsdAsn(n).to_string(),
            (K_SVC, Val::Num(n)) => ServiceAddr(n as u16).to_string(),
            (K_HOST, Val::Host(h)) => to_host(h).to_string(),
            (K_ADDR_SVC, Val::Addr(ia, Host::Svc(s))) => ScionAddrSvc::new(IsdAsn(ia), ServiceAddr(s)).to_string(),
            (K_ADDR_V4, Val::Addr(ia, Host::V4(a))) => ScionAddrV4::new(IsdAsn(ia), Ipv4Addr::from_bits(a)).to_string(),
            (K_ADDR_V6, Val::Addr(ia, Host::V6(a))) => ScionAddrV6::new(IsdAsn(ia), Ipv6Addr::from_bits(a)).to_string(),
            (K_ADDR, Val::Addr(ia, h)) => ScionAddr::new(IsdAsn(ia), to_host(h)).to_string(),
            (K_IPADDR, Val::Addr(ia, h)) => match to_host(h).ip() { Some(ip) => ScionIpAddr::new(IsdAsn(ia), ip).to_string(), None => return None },
            (K_SOCK_SVC, Val::Sock(ia, Host::Svc(s), p)) => ScionSocketAddrSvc::new(IsdAsn(ia), ServiceAddr(s), p).to_string(),
            (K_SOCK_V4, Val::Sock(ia, Host::V4(a), p)) => ScionSocketAddrV4::new(IsdAsn(ia), Ipv4Addr::from_bits(a), p).to_string(),
            (K_SOCK_V6, Val::Sock(ia, Host::V6(a), p)) => ScionSocketAddrV6::new(IsdAsn(ia), Ipv6Addr::from_bits(a), p).to_string(),
            (K_SOCK, Val::Sock(ia, h, p)) => ScionSocketAddr::new(IsdAsn(ia), to_host(h), p).to_string(),
            (K_IPSOCK, Val::Sock(ia, h, p)) => match ScionSocketAddr::new(IsdAsn(ia), to_host(h), p).try_to_scion_sock_ip_addr() { Some(a) => a.to_string(), None => return None },
            _ => return None,
        })
    }).flatten()
}

/// serde string form (SerializeDisplay / DeserializeFromStr) of the types that derive it:
/// (JSON text, value deserialised from that text)
fn serde_impl(kind: u64, v: Val) -> Option<(String, Option<Val>)> {
    fn go<T: serde::Serialize + serde::de::DeserializeOwned>(t: T, f: impl Fn(&T) -> Val) -> Option<(String, Option<Val>)> {
        let j = serde_json::to_string(&t).ok()?;
        let back = serde_json::from_str::<T>(&j).ok().map(|x| f(&x));
        Some((j, back))
    }
    catch(move || match (kind, v) {
        (K_ISD, Val::Num(n)) => go(Isd(n as u16), |v| Val::Num(v.0 as u64)),
        (K_ASN, Val::Num(n)) => go(Asn(n), |v| Val::Num(v.0)),
        (K_IA, Val::Num(n)) => go(IsdAsn(n), |v| Val::Num(v.0)),
        (K_HOST, Val::Host(h)) => go(to_host(h), |v| Val::Host(host_of(*v))),
        (K_ADDR, Val::Addr(ia, h)) => go(ScionAddr::new(IsdAsn(ia), to_host(h)), |v| addr_val(*v)),
        (K_IPADDR, Val::Addr(ia, h)) => to_host(h).ip().and_then(|ip| go(ScionIpAddr::new(IsdAsn(ia), ip), |v| addr_val(v.into_scion_addr()))),
        (K_SOCK, Val::Sock(ia, h, p)) => go(ScionSocketAddr::new(IsdAsn(ia), to_host(h), p), |v| sock_val(*v)),
        _ => None,
    }).flatten()
}

// ---------- Coq printers ----------
/// a byte string as `(bs len value)`: big-endian value in decimal (one numeral instead of a
/// list literal: the case files parse several times faster)
fn coq_bs(b: &[u8]) -> String {
    if b.is_empty() { return "[]".to_string(); }
    // base-256 -> base-10^9
    let mut digits: Vec<u32> = vec![0];
    for &x in b {
        let mut carry = x as u64;
        for d in digits.iter_mut() { let v = (*d as u64) * 256 + carry; *d = (v % 1_000_000_000) as u32; carry = v / 1_000_000_000; }
        while carry > 0 { digits.push((carry % 1_000_000_000) as u32); carry /= 1_000_000_000; }
    }
    let mut s = format!("{}", digits.last().unwrap());
    for d in digits.iter().rev().skip(1) { s += &format!("{:09}", d); }
    format!("(bs {} {})", b.len(), s)
}
fn coq_host(h: Host) -> String {
    match h { Host::V4(a) => format!("(H4 {a})"), Host::V6(a) => format!("(H6 {a})"), Host::Svc(s) => format!("(HS {s})") }
}
fn coq_val(v: Val) -> String {
    match v {
        Val::Num(n) => format!("(VNum {n})"), Val::Host(h) => format!("(VHost {})", coq_host(h)),
        Val::Addr(ia, h) => format!("(VAddr {ia} {})", coq_host(h)),
        Val::Sock(ia, h, p) => format!("(VSock {ia} {} {p})", coq_host(h)),
    }
}
fn val_host(v: Val) -> Option<Host> {
    match v { Val::Host(h) | Val::Addr(_, h) | Val::Sock(_, h, _) => Some(h), _ => None }
}
/// every substring of `s`, between the positions at which the parsers can cut a host string
/// (string ends, one byte in from either end, after ',' '[' or whitespace, before ']' ','
/// or whitespace, around the last ':'), that std parses as Ipv4Addr or Ipv6Addr.  A query of
/// the model outside this table would be answered "not an IP address" and show up as a
/// disagreement with the implementation.
fn ip_table(s: &str) -> Vec<(String, Host)> {
    let idx: Vec<usize> = s.char_indices().map(|(i, _)| i).chain(std::iter::once(s.len())).collect();
    let chars: Vec<(usize, char)> = s.char_indices().collect();
    let mut starts: Vec<usize> = vec![0];
    let mut ends: Vec<usize> = vec![s.len()];
    if idx.len() > 1 { starts.push(idx[1]); ends.push(idx[idx.len() - 2]); }
    for (k, &(i, c)) in chars.iter().enumerate() {
        let next = idx[k + 1];
        if c == ',' || c == '[' || c.is_whitespace() { starts.push(next); }
        if c == ',' || c == ']' || c.is_whitespace() { ends.push(i); }
    }
    if let Some(p) = s.rfind(':') { ends.push(p); if p > 0 { if let Some(&q) = idx.iter().rev().find(|&&q| q < p) { ends.push(q); } } }
    starts.sort(); starts.dedup(); ends.sort(); ends.dedup();
    let mut out: Vec<(String, Host)> = vec![];
    for &i in &starts {
        for &j in &ends {
            if j <= i || j - i > 50 { continue; }
            let t = &s[i..j];
            let h = if let Ok(x) = Ipv4Addr::from_str(t) { Some(Host::V4(x.to_bits())) }
                    else if let Ok(x) = Ipv6Addr::from_str(t) { Some(Host::V6(x.to_bits())) } else { None };
            if let Some(h) = h { if !out.iter().any(|(u, _)| u == t) { out.push((t.to_string(), h)); } }
        }
    }
    out
}
fn ip_display(h: Host) -> Option<(Host, String)> {
    match h { Host::V4(a) => Some((h, Ipv4Addr::from_bits(a).to_string())), Host::V6(a) => Some((h, Ipv6Addr::from_bits(a).to_string())), Host::Svc(_) => None }
}

struct Case { kind: u64, input: String, val: Option<Val>, class: &'static str, list: Option<Vec<(u64, Host)>> }

fn emit(c: &Case, sh: &mut Shards, sum: &mut Summary, seen: &mut std::collections::HashSet<String>) {
    let res = if c.kind == K_TXT { parse_txt_impl(&c.input) } else { parse_impl(c.kind, &c.input) };
    let tbl = ip_table(&c.input);
    let mut disp: Vec<(Host, String)> = vec![];
    let mut add = |h: Option<Host>| { if let Some(x) = h.and_then(ip_display) { if !disp.contains(&x) { disp.push(x); } } };
    add(c.val.and_then(val_host));
    if let Res::Ok(v, _) = &res { add(val_host(*v)); }
    if let Res::OkList(l) = &res { for (_, h) in l { add(Some(*h)); } }
    if let Some(l) = &c.list { for (_, h) in l { add(Some(*h)); } }
    for (_, h) in &tbl { add(Some(*h)); }
    let (rs, show, rh) = match &res {
        Res::Ok(v, d) => (format!("(ROk {})", coq_val(*v)), coq_opt(d.as_ref().map(|d| coq_bs(d.as_bytes()))), format!("Ok {:?}", v)),
        Res::OkList(l) => (format!("(ROk (VList {}))", coq_pairs(l)), "None".to_string(), format!("Ok {:?}", l)),
        Res::Err(c) => (format!("(RErr {c})"), "None".to_string(), format!("Err {c}")),
        Res::Panic => ("RPanic".to_string(), "None".to_string(), "PANIC".to_string()),
    };
    let case = format!("mkT {} {} {} {} {} {} {}", c.kind, coq_bs(c.input.as_bytes()),
        coq_list(tbl.iter().map(|(t, h)| format!("({},{})", coq_bs(t.as_bytes()), coq_host(*h)))),
        rs, coq_list(disp.iter().map(|(h, d)| format!("({},{})", coq_host(*h), coq_bs(d.as_bytes())))),
        show, match &c.list { Some(l) => format!("(Some (VList {}))", coq_pairs(l)), None => coq_opt(c.val.map(coq_val)) });
    sum.count(&format!("kind.{}", KIND_NAMES[c.kind as usize]));
    sum.count(&format!("class.{}", c.class));
    sum.count(match &res { Res::Ok(..) | Res::OkList(..) => "result.ok", Res::Err(_) => "result.err", Res::Panic => "result.panic" });
    sum.count(&format!("len.{}", match c.input.len() { 0 => "0", 1..=3 => "1-3", 4..=15 => "4-15", 16..=40 => "16-40", _ => "41+" }));
    if !c.input.is_ascii() { sum.count("non_ascii"); }
    let human = format!("{} {} {:?}{} -> {}", c.class, KIND_NAMES[c.kind as usize], c.input,
        c.val.map(|v| format!(" (display of {:?})", v)).or(c.list.as_ref().map(|l| format!(" (canonical record of {:?})", l))).unwrap_or_default(), rh);
    if seen.insert(format!("{}|{}", c.kind, c.input)) && !c.input.is_empty() { sum.count("distinct_nontrivial"); }
    if sum.samples.len() < 3 && c.class != "directed" { sum.samples.push(human.clone()); }
    sum.index.push(human);
    sh.push(case);
}

// ---------- generators ----------
fn gen_isd(r: &mut Rng) -> u64 { match r.below(8) { 0 => 0, 1 => 1, 2 => 65535, 3 => *r.pick(&[9, 10, 99, 100, 255, 256, 65534]), _ => r.below(65536) } }
fn gen_asn(r: &mut Rng) -> u64 {
    match r.below(10) {
        0 => 0, 1 => 1, 2 => 0xffff_ffff, 3 => 0x1_0000_0000, 4 => 0xffff_ffff_ffff, 5 => 0xff00_0000_0110,
        6 => *r.pick(&[0xffff_fffe, 0x1_0000_0001, 0xffff_0000_0000, 0x1_0000, 0xffff, 0xabcd_ef01_2345, 0x0001_0000_0000, 0x000a_000b_000c, 10, 4294967295]),
        7 => r.below(1 << 32), _ => r.next() & 0xffff_ffff_ffff,
    }
}
fn gen_ia(r: &mut Rng) -> u64 { (gen_isd(r) << 48) | gen_asn(r) }
fn gen_svc(r: &mut Rng) -> u16 {
    match r.below(10) { 0 => 1, 1 => 2, 2 => 0x10, 3 => 0x8001, 4 => 0x8002, 5 => 0x8010, 6 => *r.pick(&[0, 3, 0xffff, 0x7fff, 0x8000, 0x11, 0x0f]), 7 => r.below(65536) as u16,
        _ => *r.pick(&[1u16, 2, 0x10, 0x8001, 0x8002, 0x8010]) }
}
fn gen_v4(r: &mut Rng) -> u32 { match r.below(6) { 0 => 0, 1 => 0xffff_ffff, 2 => 0x0a00_0001, 3 => 0x7f00_0001, _ => r.next() as u32 } }
/// IPv6 values covering the corner forms of std's Display: dotted-quad tails (IPv4-mapped;
/// IPv4-compatible and NAT64 for whatever std prints), `::`, `::1`, leading / trailing / inner /
/// two competing zero runs, a single zero group, no zero group, all ones.
const V6_CORNERS: [u128; 26] = [
    0, 1,
    0x0000_0000_0000_0000_0000_ffff_0000_0000, // ::ffff:0.0.0.0
    0x0000_0000_0000_0000_0000_ffff_ffff_ffff, // ::ffff:255.255.255.255
    0x0000_0000_0000_0000_0000_ffff_0a00_0001, // ::ffff:10.0.0.1
    0x0000_0000_0000_0000_0000_ffff_0000_0001, // ::ffff:0.0.0.1
    0x0000_0000_0000_0000_0000_0000_0102_0304, // ::1.2.3.4 (IPv4-compatible)
    0x0000_0000_0000_0000_0000_0000_0001_0000, // ::0.1.0.0 / ::1:0
    0x0064_ff9b_0000_0000_0000_0000_c000_0221, // 64:ff9b::192.0.2.33 (NAT64)
    0x0000_0000_0000_0000_0000_fffe_0102_0304, // ::fffe:102:304 (not mapped)
    0x0000_0000_0000_0000_ffff_0000_0102_0304, // ::ffff:0:102:304 (SIIT)
    0x0001_0000_0000_0000_0000_0000_0000_0000, // 1::
    0x0001_0000_0000_0000_0000_0000_0000_0001, // 1::1
    0xfe80_0000_0000_0000_0000_0000_0000_0000, // fe80::
    0x0000_0000_0001_0000_0000_0000_0000_0000, // 0:0:1::
    0x0000_0000_0000_0000_0001_0000_0000_0000, // ::1:0:0:0
    0x0001_0000_0000_0002_0000_0000_0000_0003, // 1:0:0:2::3 (longer run wins)
    0x0001_0000_0000_0000_0002_0000_0000_0003, // 1::2:0:0:3
    0x0001_0000_0000_0002_0000_0000_0003_0004, // equal runs: first wins
    0x0001_0000_0003_0004_0005_0006_0007_0008, // single zero group: not compressed
    0x0001_0002_0003_0004_0005_0006_0007_0008, // no zero group
    0x0000_0002_0003_0004_0005_0006_0007_0008, // leading single zero group
    0x0001_0002_0003_0004_0005_0006_0007_0000, // trailing single zero group
    0xffff_ffff_ffff_ffff_ffff_ffff_ffff_ffff, // max length
    0x2001_0db8_0000_0000_0000_0000_0000_0001, // 2001:db8::1
    0x0000_0000_0000_0000_0000_0000_ffff_ffff, // ::255.255.255.255 / ::ffff:ffff
];
fn gen_v6(r: &mut Rng) -> u128 {
    let x = ((r.next() as u128) << 64) | r.next() as u128;
    match r.below(12) {
        0 | 1 | 2 => *r.pick(&V6_CORNERS),
        3 | 4 => 0xffff_0000_0000 | (r.next() as u32 as u128), // ::ffff:a.b.c.d
        5 => r.next() as u32 as u128, 6 => x & 0xffff_0000_ffff_0000_0000_0000_ffff_0000, 7 => x & 0xffff_ffff_0000_0000_0000_0000_0000_ffff,
        8 => (0x0064_ff9b_u128 << 96) | (r.next() as u32 as u128),
        _ => x,
    }
}
fn gen_port(r: &mut Rng) -> u16 { match r.below(6) { 0 => 0, 1 => 65535, 2 => 80, 3 => 1, _ => r.below(65536) as u16 } }
fn gen_host(r: &mut Rng, which: u64) -> Host {
    match which { 0 => Host::Svc(gen_svc(r)), 1 => Host::V4(gen_v4(r)), _ => Host::V6(gen_v6(r)) }
}
/// a value that the type `kind` can hold
fn gen_val(r: &mut Rng, kind: u64) -> Val {
    let any = r.below(3);
    let ip = 1 + r.below(2);
    match kind {
        K_ISD => Val::Num(gen_isd(r)), K_ASN => Val::Num(gen_asn(r)), K_IA => Val::Num(gen_ia(r)), K_SVC => Val::Num(gen_svc(r) as u64),
        K_HOST => Val::Host(gen_host(r, any)),
        K_ADDR_SVC => Val::Addr(gen_ia(r), gen_host(r, 0)), K_ADDR_V4 => Val::Addr(gen_ia(r), gen_host(r, 1)), K_ADDR_V6 => Val::Addr(gen_ia(r), gen_host(r, 2)),
        K_ADDR => Val::Addr(gen_ia(r), gen_host(r, any)), K_IPADDR => Val::Addr(gen_ia(r), gen_host(r, ip)),
        K_SOCK_SVC => Val::Sock(gen_ia(r), gen_host(r, 0), gen_port(r)), K_SOCK_V4 => Val::Sock(gen_ia(r), gen_host(r, 1), gen_port(r)),
        K_SOCK_V6 => Val::Sock(gen_ia(r), gen_host(r, 2), gen_port(r)), K_SOCK => Val::Sock(gen_ia(r), gen_host(r, any), gen_port(r)),
        _ => Val::Sock(gen_ia(r), gen_host(r, ip), gen_port(r)),
    }
}

// grammar-derived strings with the alternative spellings
fn sp_dec(r: &mut Rng, v: u64) -> String {
    let mut s = String::new();
    if r.chance(1, 5) { s.push('+'); }
    for _ in 0..(if r.chance(1, 4) { r.below(4) } else { 0 }) { s.push('0'); }
    s + &v.to_string()
}
fn sp_hex(r: &mut Rng, v: u64) -> String {
    let mut s = String::new();
    if r.chance(1, 6) { s.push('+'); }
    for _ in 0..(if r.chance(1, 4) { r.below(3) } else { 0 }) { s.push('0'); }
    let h = format!("{v:x}");
    s + &(if r.chance(1, 4) { h.to_uppercase() } else { h })
}
fn sp_asn(r: &mut Rng, v: u64) -> String {
    if v <= 0xffff_ffff && r.chance(3, 4) { sp_dec(r, v) }
    else { format!("{}:{}:{}", sp_hex(r, (v >> 32) & 0xffff), sp_hex(r, (v >> 16) & 0xffff), sp_hex(r, v & 0xffff)) }
}
fn sp_ia(r: &mut Rng, v: u64) -> String { format!("{}-{}", sp_dec(r, v >> 48), sp_asn(r, v & 0xffff_ffff_ffff)) }
fn sp_host(r: &mut Rng, h: Host) -> String {
    match h {
        Host::V4(a) => Ipv4Addr::from_bits(a).to_string(),
        Host::V6(a) => {
            let x = Ipv6Addr::from_bits(a);
            match r.below(4) { 0 => { let g = x.segments(); g.iter().map(|s| format!("{s:x}")).collect::<Vec<_>>().join(":") }
                               1 => x.to_string().to_uppercase(), _ => x.to_string() }
        }
        Host::Svc(s) => { let d = ServiceAddr(s).to_string(); if s & 0x8000 == 0 && r.chance(1, 3) { d + "_A" } else { d } }
    }
}
fn sp_val(r: &mut Rng, kind: u64, v: Val) -> String {
    match v {
        Val::Num(n) => match kind { K_ISD => sp_dec(r, n), K_ASN => sp_asn(r, n), K_IA => sp_ia(r, n), _ => sp_host(r, Host::Svc(n as u16)) },
        Val::Host(h) => sp_host(r, h),
        Val::Addr(ia, h) => format!("{},{}", sp_ia(r, ia), sp_host(r, h)),
        Val::Sock(ia, h, p) => format!("[{},{}]:{}", sp_ia(r, ia), sp_host(r, h), sp_dec(r, p as u64)),
    }
}
const ALPHA: [&str; 10] = ["[", "]", ":", ",", "-", "0", "1", "f", "x", " "];
const EDIT: [&str; 30] = ["[", "]", ":", ",", "-", "0", "1", "f", "x", " ", "+", "_", ".", "9", "A", "M", "F", "g", "\t", "\n",
    "é", "€", "😀", "\u{a0}", "\u{3000}", "٣", "：", "%", "/", "\0"];
fn mutate(r: &mut Rng, s: &str) -> String {
    let mut cs: Vec<String> = s.chars().map(|c| c.to_string()).collect();
    let n = cs.len();
    let pos = |r: &mut Rng, m: usize| -> usize { match r.below(5) { 0 => 0, 1 => m, _ => r.below(m as u64 + 1) as usize } };
    match r.below(5) {
        0 => { let p = pos(r, n); cs.insert(p, r.pick(&EDIT).to_string()); }
        1 if n > 0 => { let p = pos(r, n - 1); cs.remove(p); }
        2 if n > 0 => { let p = pos(r, n - 1); cs[p] = r.pick(&EDIT).to_string(); }
        3 if n > 1 => { let p = pos(r, n - 2); cs.swap(p, p + 1); }
        _ => { let p = pos(r, n); let q = r.pick(&EDIT).to_string(); cs.insert(p, q); if n > 0 { let p2 = pos(r, n); cs.insert(p2, r.pick(&EDIT).to_string()); } }
    }
    cs.concat()
}
fn bracket_variant(r: &mut Rng, s: &str) -> String {
    match r.below(8) {
        0 => s.replacen('[', "", 1), 1 => s.replacen(']', "", 1), 2 => s.replace('[', "").replace(']', ""),
        3 => s.replacen('[', "[[", 1), 4 => s.replacen(']', "]]", 1), 5 => s.replacen('[', "]", 1).replacen(']', "[", 1),
        6 => format!("x{s}"), _ => s.replacen("]:", "]y:", 1),
    }
}
fn overflow_variant(r: &mut Rng, kind: u64, v: Val) -> String {
    let big = *r.pick(&["65536", "65535", "4294967295", "4294967296", "281474976710655", "281474976710656", "18446744073709551615",
        "18446744073709551616", "99999999999999999999999999", "10000", "ffff", "10000:0:0", "ffff:ffff:ffff", "0:0:10000", "1:ffff:fffff",
        "0:0:ffffffff", "-1", "+", "-", "+0", "-0", "00000000000000000000000000001", "0x10", "1e3"]);
    let s = sp_val(r, kind, v);
    // replace one numeric token
    let toks: Vec<(usize, usize)> = {
        let b = s.as_bytes(); let mut v = vec![]; let mut i = 0;
        while i < b.len() { if b[i].is_ascii_hexdigit() { let st = i; while i < b.len() && b[i].is_ascii_hexdigit() { i += 1; } v.push((st, i)); } else { i += 1; } }
        v
    };
    if toks.is_empty() { return big.to_string(); }
    let (a, b) = *r.pick(&toks);
    format!("{}{}{}", &s[..a], big, &s[b..])
}

// ---------- TXT records ----------
const WS: [&str; 8] = [" ", "\t", "\n", "\r", "\u{a0}", "\u{3000}", "\u{2028}", "\u{85}"];
fn ws(r: &mut Rng) -> String { match r.below(6) { 0 => r.pick(&WS).to_string(), 1 => format!("{}{}", r.pick(&WS), r.pick(&WS)), _ => String::new() } }
fn gen_txt_list(r: &mut Rng) -> Vec<(u64, Host)> {
    (0..1 + r.below(3)).map(|_| { let w = 1 + r.below(2); (gen_ia(r), gen_host(r, w)) }).collect()
}
fn txt_canonical(l: &[(u64, Host)]) -> String {
    format!("scion=v1;{}", l.iter().map(|(ia, h)| format!("[{},{}]", IsdAsn(*ia), to_host(*h))).collect::<Vec<_>>().join(","))
}
fn txt_spelled(r: &mut Rng, l: &[(u64, Host)]) -> String {
    let mut s = String::from("scion=v1;"); s += &ws(r);
    for (i, (ia, h)) in l.iter().enumerate() {
        if i > 0 { s += &ws(r); s.push(','); s += &ws(r); }
        s.push('['); s += &ws(r); s += &sp_ia(r, *ia); s += &ws(r); s.push(','); s += &ws(r); s += &sp_host(r, *h); s += &ws(r); s.push(']');
    }
    s + &ws(r)
}
fn gen_txt_cases(r: &mut Rng, n: usize, thorough: bool, cases: &mut Vec<Case>) {
    let t = |s: &str, class: &'static str| Case { kind: K_TXT, input: s.to_string(), val: None, class, list: None };
    for s in ["scion=v1;[19-ff00:0:110,192.0.2.1]", "scion=v1;[19-ff00:0:110,192.0.2.1],[19-ff00:0:111,2001:db8::1]",
              "scion=v1;[19-ff00:0:110,192.0.2.1] , [19-ff00:0:111,2001:db8::1]", "scion=v1;[19-ff00:0:110,192.0.2.1],",
              "scion=v1;[19-ff00:0:110,192.0.2.1], ", "scion=v1;[19-ff00:0:110,192.0.2.1],,", "scion=v1;,[19-ff00:0:110,192.0.2.1]",
              "scion=v1;", "scion=v1; ", "scion=v1;[", "scion=v1;]", "scion=v1;[]", "scion=v1;[,]", "scion=v1;[1-1,1.1.1.1", "scion=v1;1-1,1.1.1.1]",
              "scion=v1;[1-1,1.1.1.1][1-1,1.1.1.1]", "scion=v1;[[1-1,1.1.1.1]]", "scion=v1;[1-1,1.1.1.1]]", "scion=v1;[1-1,CS]", "scion=v1;[1-1,1.1.1.1]x",
              "scion=v1;x[1-1,1.1.1.1]", "scion=v1;[1-1;1.1.1.1]", "scion=v1;[1-1,1.1.1.1,2.2.2.2]", "scion=v2;[1-1,1.1.1.1]", "SCION=v1;[1-1,1.1.1.1]",
              " scion=v1;[1-1,1.1.1.1]", "scion=v1[1-1,1.1.1.1]", "", "scion=v1;[\u{a0}1-1\u{3000},\u{2028}1.1.1.1\u{85}]\u{a0}", "scion=v1;[é1-1,1.1.1.1]",
              "scion=v1;[1-1,1.1.1.1]é", "scion=v1;é", "scion=v1;[é", "scion=v1;[1-1,1.1.1.1],é", "scion=v1;[1 -1,1.1.1.1]", "scion=v1;[1-1,1.1. 1.1]",
              "scion=v1;[1-1,::ffff:1.2.3.4]", "scion=v1;[1-1,[::1]]", "scion=v1;[1-1,::1%eth0]", "scion=v1;[+1-+1,1.1.1.1]", "scion=v1;[1-0:0:1,1.1.1.1]"] {
        cases.push(t(s, "directed"));
    }
    for pair in V6_CORNERS.chunks(2) {
        let l: Vec<(u64, Host)> = pair.iter().map(|&a| (gen_ia(r), Host::V6(a))).collect();
        cases.push(Case { kind: K_TXT, input: txt_canonical(&l), val: None, class: "value", list: Some(l.clone()) });
        cases.push(t(&txt_spelled(r, &l), "grammar"));
    }
    // every payload of length 0..3 over a 9-symbol alphabet
    let alpha = ["[", "]", ",", "1", "-", ".", ":", "x", " "];
    let mut small: Vec<String> = vec![String::new()];
    for a in alpha { small.push(a.to_string()); for b in alpha { small.push(format!("{a}{b}")); for c in alpha { small.push(format!("{a}{b}{c}")); } } }
    for (i, p) in small.iter().enumerate() { if thorough || i % 4 == 0 { cases.push(t(&format!("scion=v1;{p}"), "small")); } }
    let mut made = 0;
    while made < n {
        made += 1;
        let l = gen_txt_list(r);
        match r.below(10) {
            0 | 1 | 2 => cases.push(Case { kind: K_TXT, input: txt_canonical(&l), val: None, class: "value", list: Some(l) }),
            3 | 4 | 5 => cases.push(t(&txt_spelled(r, &l), "grammar")),
            6 | 7 => { let b = if r.chance(1, 2) { txt_canonical(&l) } else { txt_spelled(r, &l) }; cases.push(t(&mutate(r, &b), "mutation")); }
            8 => { let b = txt_canonical(&l); let v = match r.below(6) { 0 => format!("{b},"), 1 => b.replacen("],[", "][", 1), 2 => b.replacen('[', "", 1),
                       3 => b.replacen(']', "", 1), 4 => b.replacen("scion=v1;", *r.pick(&["scion=v1; ", "scion=v1", "scion=v2;", "scion = v1;", ""]), 1), _ => format!("{b} , ") };
                   cases.push(t(&v, "bracket")); }
            _ => { let k2 = r.below(N_KINDS); let v2 = gen_val(r, k2); let x = sp_val(r, k2, v2); cases.push(t(&format!("scion=v1;[{x}]"), "cross")); }
        }
    }
}

fn main() {
    silence_panics();
    let out = arg("--out").expect("--out dir");
    let n: usize = arg("--n").and_then(|s| s.parse().ok()).unwrap_or(600);
    let seed = seed_from_env();
    let thorough = std::env::var("VERIF_TIER").map(|t| t == "thorough").unwrap_or(false);
    let mut rng = Rng::new(seed);
    let pre = "From Sci Require Import Text.Cases. Open Scope N_scope.";
    let mut sh = Shards::new(&out, pre, "tcase", "verdicts", 200);
    let mut sum = Summary::default();
    let mut seen = std::collections::HashSet::new();
    let mut cases: Vec<Case> = vec![];

    // 1. directed: the two probe inputs of DESIGN.md and relatives, on every socket kind
    for k in [K_SOCK, K_SOCK_V4, K_SOCK_V6, K_SOCK_SVC, K_IPSOCK] {
        for s in [":80", "x1-ff00:0:110,10.0.0.1y:1000", "é1-ff00:0:110,10.0.0.1]:1000", "1-ff00:0:110,10.0.0.1]:1000",
                  "[1-ff00:0:110,10.0.0.1:1000", "]:80", "[:80", "[]:80", "é:80", "x:80", "1-ff00:0:110,CS:80", "x1-1,::1y:1",
                  "[1-ff00:0:110,10.0.0.1]:1000", "[1-ff00:0:110,::1]:1000", "[1-ff00:0:110,CS]:1000", "😀1-1,CSé:1"] {
            cases.push(Case { kind: k, input: s.to_string(), val: None, class: "directed", list: None });
        }
    }
    for (k, s) in [(K_SVC, "<SVC:0x0003>"), (K_SVC, "CS_A"), (K_SVC, "CS_"), (K_SVC, "CS_M_M"), (K_SVC, "Wildcard_M"), (K_ASN, "0:0:1"),
                   (K_ASN, "+1"), (K_ASN, "+ff00:+0:+110"), (K_ASN, "FF00:0:110"), (K_ASN, "4294967296"), (K_ASN, "1:2:3:4"), (K_ASN, "1:2"),
                   (K_IA, "1-2-3"), (K_IA, "-"), (K_IA, "1-"), (K_IA, "-1"), (K_IA, "65536-1"), (K_IA, "1–1"), (K_ISD, "+"), (K_ISD, "-0"),
                   (K_HOST, "CS"), (K_HOST, "1.2.3.4"), (K_HOST, "::"), (K_HOST, "01.2.3.4"), (K_ADDR, "1-1,"), (K_ADDR, ",CS"), (K_ADDR, "1-1,CS,"),
                   (K_ADDR, "1-1,CS,CS"), (K_ADDR, " 1-1,CS"), (K_ADDR, "1-1, CS"), (K_IPADDR, "1-1,CS")] {
        cases.push(Case { kind: k, input: s.to_string(), val: None, class: "directed", list: None });
    }
    // display of every boundary service address / AS number
    for s in [0u64, 1, 2, 3, 0x10, 0x11, 0x7fff, 0x8000, 0x8001, 0x8002, 0x8010, 0xffff] { cases.push(Case { kind: K_SVC, input: String::new(), val: Some(Val::Num(s)), class: "value", list: None }); }
    for a in [0u64, 1, 0xffff_ffff, 0x1_0000_0000, 0xffff_ffff_ffff, 0xff00_0000_0110] { cases.push(Case { kind: K_ASN, input: String::new(), val: Some(Val::Num(a)), class: "value", list: None }); }

    // every IPv6 display corner form through every type that holds a host address
    for &a in V6_CORNERS.iter() {
        let (ia, p) = (gen_ia(&mut rng), gen_port(&mut rng));
        for k in [K_HOST, K_ADDR_V6, K_ADDR, K_IPADDR, K_SOCK_V6, K_SOCK, K_IPSOCK] {
            let v = match k { K_HOST => Val::Host(Host::V6(a)), K_ADDR_V6 | K_ADDR | K_IPADDR => Val::Addr(ia, Host::V6(a)), _ => Val::Sock(ia, Host::V6(a), p) };
            cases.push(Case { kind: k, input: String::new(), val: Some(v), class: "value", list: None });
        }
    }
    for &a in [0u32, 1, 0xffff_ffff, 0x0a00_0001, 0x7f00_0001, 0x0100_0000].iter() {
        let (ia, p) = (gen_ia(&mut rng), gen_port(&mut rng));
        for k in [K_HOST, K_ADDR_V4, K_ADDR, K_IPADDR, K_SOCK_V4, K_SOCK, K_IPSOCK] {
            let v = match k { K_HOST => Val::Host(Host::V4(a)), K_ADDR_V4 | K_ADDR | K_IPADDR => Val::Addr(ia, Host::V4(a)), _ => Val::Sock(ia, Host::V4(a), p) };
            cases.push(Case { kind: k, input: String::new(), val: Some(v), class: "value", list: None });
        }
    }
    // 2. every string of length 0..3 over the 10-symbol alphabet
    let mut small: Vec<String> = vec![String::new()];
    for a in ALPHA { small.push(a.to_string()); for b in ALPHA { small.push(format!("{a}{b}")); for c in ALPHA { small.push(format!("{a}{b}{c}")); } } }
    let small_kinds: Vec<u64> = if thorough { (0..N_KINDS).collect() } else { vec![K_SOCK] };
    for k in &small_kinds { for s in &small { cases.push(Case { kind: *k, input: s.clone(), val: None, class: "small", list: None }); } }
    if !thorough { for (i, s) in small.iter().enumerate() { if i % 6 == 0 { cases.push(Case { kind: (i as u64 / 6) % N_KINDS, input: s.clone(), val: None, class: "small", list: None }); } } }

    // 3. random stream
    let mut i = 0u64;
    let fixed_cases = cases.len();
    while cases.len() < fixed_cases + n {
        let kind = i % N_KINDS; i += 1;
        let v = gen_val(&mut rng, kind);
        let c = match rng.below(10) {
            0 | 1 | 2 => Case { kind, input: String::new(), val: Some(v), class: "value", list: None },
            3 | 4 => Case { kind, input: sp_val(&mut rng, kind, v), val: None, class: "grammar", list: None },
            5 | 6 => { let base = if rng.chance(1, 2) { sp_val(&mut rng, kind, v) } else { display_impl(kind, v).unwrap_or_default() };
                       Case { kind, input: mutate(&mut rng, &base), val: None, class: "mutation", list: None } }
            7 => { let sock = rng.chance(2, 3);
                   let k = if sock { K_SOCK } else { kind };
                   let vv = if sock { gen_val(&mut rng, K_SOCK) } else { v };
                   let base = sp_val(&mut rng, k, vv);
                   let tk = if rng.chance(1, 2) { K_SOCK } else { kind };
                   Case { kind: tk, input: bracket_variant(&mut rng, &base), val: None, class: "bracket", list: None } }
            8 => Case { kind, input: overflow_variant(&mut rng, kind, v), val: None, class: "overflow", list: None },
            _ => { // a valid form of another kind fed to this kind
                   let k2 = rng.below(N_KINDS); let v2 = gen_val(&mut rng, k2);
                   Case { kind, input: sp_val(&mut rng, k2, v2), val: None, class: "cross", list: None } }
        };
        cases.push(c);
    }
    let n_txt = n / 4;
    gen_txt_cases(&mut rng, n_txt, thorough, &mut cases);
    let mut serde_bad: Vec<String> = vec![];
    for mut c in cases {
        if let Some(v) = c.val {
            match display_impl(c.kind, v) {
                Some(d) => {
                    // the serde string form must be the quoted Display form and deserialise like FromStr
                    if let Some((j, back)) = serde_impl(c.kind, v) {
                        let fs = match parse_impl(c.kind, &d) { Res::Ok(x, _) => Some(x), _ => None };
                        if j == format!("\"{}\"", d) && back == fs { sum.count("serde.agree"); }
                        else { sum.count("serde.DISAGREE"); serde_bad.push(format!("{} {:?}: json {} back {:?} from_str {:?}", KIND_NAMES[c.kind as usize], v, j, back, fs)); }
                    }
                    c.input = d
                }
                None => { // Display itself panicked: report as a parse case on the empty string with class display-panic
                    c.input = String::new(); c.class = "display-panic"; }
            }
        }
        emit(&c, &mut sh, &mut sum, &mut seen);
    }
    sh.flush();
    if !serde_bad.is_empty() { eprintln!("serde string form disagrees with Display/FromStr:\n{}", serde_bad.join("\n")); std::process::exit(3); }
    let distinct = *sum.dist.get("distinct_nontrivial").unwrap_or(&0) as usize;
    sum.write(&out, sh.total, distinct);
}
