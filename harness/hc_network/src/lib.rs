//! Shared part of the Network-area harness (C01, C13): topology descriptions, the bridge to the
//! real pocketscion topology / segment registry / simulator, structural packets, generators.
use std::panic::AssertUnwindSafe;

use pocketscion::network::scion::{
    routing::{AsRoutingAction, LocalAsRoutingAction, ScionNetworkTime, spec::SpecRoutingLogic},
    segment::registry::SegmentRegistry,
    simulator::ScionNetworkSim,
    topology::{ScionAs, ScionLink, ScionLinkType, ScionTopology, ScionTopologyBuilder},
};
use sciparse::{
    address::addr::{ScionAddr, ScionAddrV4},
    core::{convert::ToModel, model::Model},
    dataplane_path::{
        model::DpPath,
        onehop::model::OneHopPath,
        standard::{
            model::{HopField, InfoField, Segment, StandardPath},
            types::{HopFieldFlags, HopFieldMac, InfoFieldFlags},
        },
        view::{ScionDpPathView, ScionDpPathViewRef},
    },
    identifier::isd_asn::IsdAsn,
    packet::{model::ScionRawPacket, view::ScionRawPacketView},
    path::ScionPath,
    payload::{ProtocolNumber, scmp::model::ScmpErrorMessage},
};
use vcommon::*;

pub fn ia(isd: u64, asn: u64) -> u64 { (isd << 48) | asn }

// ------------------------------------------------------------------ topology description
#[derive(Clone, Debug)]
pub struct TAs { pub ia: u64, pub core: bool, pub key: [u8; 16] }
/// `a` IS `ty` OF `b`; ty: 0 peer, 1 parent, 2 child, 3 core
#[derive(Clone, Debug)]
pub struct TLink { pub a: u64, pub aif: u16, pub ty: u8, pub b: u64, pub bif: u16, pub up: bool }
#[derive(Clone, Debug, Default)]
pub struct Topo { pub ases: Vec<TAs>, pub links: Vec<TLink>, pub tag: String }

impl Topo {
    pub fn to_real(&self) -> Option<ScionTopology> {
        let mut b = ScionTopologyBuilder::new();
        for a in &self.ases {
            let s = if a.core { ScionAs::new_core(IsdAsn(a.ia)) } else { ScionAs::new(IsdAsn(a.ia)) };
            b.add_as(s.with_forwarding_key(a.key)).ok()?;
        }
        for l in &self.links {
            let ty = match l.ty { 0 => ScionLinkType::Peer, 1 => ScionLinkType::Parent, 2 => ScionLinkType::Child, _ => ScionLinkType::Core };
            let link = ScionLink::new(IsdAsn(l.a), l.aif, ty, IsdAsn(l.b), l.bif).ok()?;
            b.add_link(link).ok()?;
        }
        let mut t = b.build().ok()?;
        for l in &self.links {
            if !l.up { t.mut_scion_link(&IsdAsn(l.a), l.aif)?.set_is_up(false); }
        }
        Some(t)
    }
    pub fn coq_ases(&self) -> String {
        coq_list(self.ases.iter().map(|a| format!("A {} {} {}", a.ia, coq_bool(a.core), u128::from_be_bytes(a.key))))
    }
    pub fn coq_links(&self) -> String {
        coq_list(self.links.iter().map(|l| format!("L {} {} {} {} {} {}", l.a, l.aif, l.ty, l.b, l.bif, coq_bool(l.up))))
    }
    fn next_if(&self, rng: &mut Rng, a: u64) -> u16 {
        loop {
            let c = rng.range(1, 40) as u16;
            if !self.links.iter().any(|l| (l.a == a && l.aif == c) || (l.b == a && l.bif == c)) { return c; }
        }
    }
    pub fn add_link(&mut self, rng: &mut Rng, a: u64, ty: u8, b: u64) {
        let aif = self.next_if(rng, a);
        let bif = self.next_if(rng, b);
        self.links.push(TLink { a, aif, ty, b, bif, up: true });
    }
    pub fn add_as(&mut self, rng: &mut Rng, ia: u64, core: bool) {
        let mut key = [0u8; 16];
        for k in key.iter_mut() { *k = rng.below(256) as u8; }
        self.ases.push(TAs { ia, core, key });
    }
}

/// spec: AS i (i < n_core: core) in isd[i]; parents[i] subset of earlier ASes; peers pairs
pub fn topo_from_spec(rng: &mut Rng, n_core: usize, isd: &[u64], parents: &[Vec<usize>], peers: &[(usize, usize)], tag: &str) -> Topo {
    let asn: Vec<u64> = (0..isd.len()).map(|i| 0x10 + i as u64).collect();
    topo_from_spec_asn(rng, n_core, isd, &asn, parents, peers, tag)
}

/// as `topo_from_spec`, with the AS NUMBER of every AS chosen by the caller: numbers may repeat
/// across ISDs (an AS is identified by ISD-AS, never by its number alone)
pub fn topo_from_spec_asn(rng: &mut Rng, n_core: usize, isd: &[u64], asn: &[u64], parents: &[Vec<usize>], peers: &[(usize, usize)], tag: &str) -> Topo {
    let n = isd.len();
    let mut t = Topo { tag: tag.into(), ..Default::default() };
    let ias: Vec<u64> = (0..n).map(|i| ia(isd[i], asn[i])).collect();
    for i in 0..n { t.add_as(rng, ias[i], i < n_core); }
    for i in 0..n_core { for j in (i + 1)..n_core { t.add_link(rng, ias[i], 3, ias[j]); } }
    for i in n_core..n {
        for &p in &parents[i] {
            if isd[p] == isd[i] { t.add_link(rng, ias[p], 1, ias[i]); }
        }
    }
    for &(x, y) in peers { if x != y { t.add_link(rng, ias[x], 0, ias[y]); } }
    t
}

/// AS numbers that restart in every ISD (so they repeat across ISDs): the k-th AS of an ISD gets
/// number `base + k`
pub fn per_isd_asns(isd: &[u64], base: u64) -> Vec<u64> {
    let mut cnt = std::collections::BTreeMap::new();
    isd.iter().map(|i| { let c = cnt.entry(*i).or_insert(0u64); *c += 1; base + *c - 1 }).collect()
}

/// multi-ISD topologies in which AS NUMBERS repeat across ISDs
pub fn repeat_topos(rng: &mut Rng) -> Vec<Topo> {
    let mut v = vec![];
    // same number as core in both ISDs and as leaf in both: 1-2 -> 1-1 -> 2-1 -> 2-2
    v.push(topo_from_spec_asn(rng, 2, &[1, 2, 1, 2], &[1, 1, 2, 2], &[vec![], vec![], vec![0], vec![1]], &[], "rep_chain"));
    // a number that is a leaf in one ISD and the core of the other: 1-2 -> 1-1 -> 2-2 -> 2-1
    v.push(topo_from_spec_asn(rng, 2, &[1, 2, 1, 2], &[1, 2, 2, 1], &[vec![], vec![], vec![0], vec![1]], &[], "rep_leafcore"));
    // three ISDs, every core has number 1, every leaf number 5, one grandchild 1-1 <- 1-5 <- 1-7 / 3-7 <- 3-5
    v.push(topo_from_spec_asn(rng, 3, &[1, 2, 3, 1, 2, 3, 1, 3], &[1, 1, 1, 5, 5, 5, 7, 7],
        &[vec![], vec![], vec![], vec![0], vec![1], vec![2], vec![3], vec![5]], &[], "rep_threeisd"));
    // two cores per ISD with the same numbers in both ISDs, leaves repeat too, a peering link
    // between the two equally numbered leaves
    v.push(topo_from_spec_asn(rng, 4, &[1, 1, 2, 2, 1, 2, 1, 2], &[1, 2, 1, 2, 3, 3, 4, 4],
        &[vec![], vec![], vec![], vec![], vec![0], vec![2], vec![1, 4], vec![3]], &[(4, 5)], "rep_twocores_peer"));
    v
}

pub fn directed_topos(rng: &mut Rng) -> Vec<Topo> {
    let mut v = vec![];
    // chain core - a - b
    v.push(topo_from_spec(rng, 1, &[1, 1, 1], &[vec![], vec![0], vec![1]], &[], "chain3"));
    // shortcut: core A; B child of A; C, D children of B
    v.push(topo_from_spec(rng, 1, &[1, 1, 1, 1], &[vec![], vec![0], vec![1], vec![1]], &[], "shortcut4"));
    // peering: core A; B, C children of A; D child of B; E child of C; B peer C
    v.push(topo_from_spec(rng, 1, &[1, 1, 1, 1, 1], &[vec![], vec![0], vec![0], vec![1], vec![2]], &[(1, 2)], "peering5"));
    // peering at the leaves: B peer C, both children of A
    v.push(topo_from_spec(rng, 1, &[1, 1, 1], &[vec![], vec![0], vec![0]], &[(1, 2)], "peerleaf3"));
    // two cores, one child each
    v.push(topo_from_spec(rng, 2, &[1, 1, 1, 1], &[vec![], vec![], vec![0], vec![1]], &[], "twocores4"));
    // two ISDs
    v.push(topo_from_spec(rng, 2, &[1, 2, 1, 2], &[vec![], vec![], vec![0], vec![1]], &[], "twoisd4"));
    // three cores in a mesh, multi-homed child
    v.push(topo_from_spec(rng, 3, &[1, 1, 1, 1, 1], &[vec![], vec![], vec![], vec![0, 1], vec![3]], &[], "mesh3"));
    // on-path: deep chain
    v.push(topo_from_spec(rng, 1, &[1, 1, 1, 1, 1], &[vec![], vec![0], vec![1], vec![2], vec![3]], &[], "chain5"));
    // several cores per ISD, every non-core AS under one core only (plan rows up_core / core_down)
    v.extend(plan_topos(rng).into_iter().take(2));
    // AS numbers repeated across ISDs
    v.extend(repeat_topos(rng));
    v
}

/// topologies that put (src, dst) pairs into every row of the ListSegmentPlan table: an ISD
/// with several cores where each non-core AS hangs under ONE core only (its up segments reach
/// that core alone), a single-core ISD, and two ISDs joined by core links
pub fn plan_topos(rng: &mut Rng) -> Vec<Topo> {
    let mut v = vec![];
    // ISD 1: cores 0,1 (linked); 2 under core 0, 3 under core 1, 4 under 2
    v.push(topo_from_spec(rng, 2, &[1, 1, 1, 1, 1], &[vec![], vec![], vec![0], vec![1], vec![2]], &[], "plan_twocores"));
    // three cores in a chain-like mesh, leaves under the outer ones
    v.push(topo_from_spec(rng, 3, &[1, 1, 1, 1, 1], &[vec![], vec![], vec![], vec![0], vec![2]], &[], "plan_threecores"));
    // ISD 1 (core 0, child 2, grandchild 4) and ISD 2 (core 1, child 3)
    v.push(topo_from_spec(rng, 2, &[1, 2, 1, 2, 1], &[vec![], vec![], vec![0], vec![1], vec![2]], &[], "plan_twoisd"));
    // ISD 1 with two cores + ISD 2 with one core
    v.push(topo_from_spec(rng, 3, &[1, 1, 2, 1, 1, 2], &[vec![], vec![], vec![], vec![0], vec![1], vec![2]], &[], "plan_mixed"));
    // single core, two branches
    v.push(topo_from_spec(rng, 1, &[1, 1, 1, 1], &[vec![], vec![0], vec![0], vec![1]], &[], "plan_singlecore"));
    v
}

/// deterministic family of small DAG topologies (3..5 ASes, 1..2 cores, 1..2 ISDs, optional
/// peering, random interface numbering), `count` of them sampled by the seeded PRNG
pub fn enumerate_small(rng: &mut Rng, count: usize) -> Vec<Topo> {
    let mut v = vec![];
    let mut k = 0;
    while v.len() < count {
        let n = 3 + (k % 3);
        let n_core = 1 + (k / 3) % 2;
        let two_isd = n_core == 2 && (k / 6) % 2 == 1;
        k += 1;
        let mut isd = vec![1u64; n];
        if two_isd { isd[1] = 2; for i in n_core..n { if rng.chance(1, 2) { isd[i] = 2; } } }
        let mut parents: Vec<Vec<usize>> = vec![vec![]; n];
        for i in n_core..n {
            let cands: Vec<usize> = (0..i).filter(|&p| isd[p] == isd[i]).collect();
            if cands.is_empty() { continue; }
            // non-empty subset
            let mut set: Vec<usize> = cands.iter().cloned().filter(|_| rng.chance(1, 2)).collect();
            if set.is_empty() { set.push(*rng.pick(&cands)); }
            parents[i] = set;
        }
        let mut peers = vec![];
        if rng.chance(1, 2) && n > n_core + 1 {
            let x = rng.range(n_core as u64, n as u64 - 1) as usize;
            let y = rng.range(0, n as u64 - 1) as usize;
            if x != y { peers.push((x, y)); }
        }
        if two_isd && rng.chance(1, 2) {
            v.push(topo_from_spec_asn(rng, n_core, &isd, &per_isd_asns(&isd, 1), &parents, &peers, &format!("small{k}r")));
        } else {
            v.push(topo_from_spec(rng, n_core, &isd, &parents, &peers, &format!("small{k}")));
        }
    }
    v
}

pub fn random_topo(rng: &mut Rng, max_as: usize) -> Topo {
    let n = rng.range(6, max_as as u64) as usize;
    let n_core = rng.range(1, 3) as usize;
    let two = n_core > 1 && rng.chance(1, 3);
    let mut isd = vec![1u64; n];
    if two { isd[1] = 2; for i in n_core..n { if rng.chance(1, 2) { isd[i] = 2; } } }
    let mut parents: Vec<Vec<usize>> = vec![vec![]; n];
    for i in n_core..n {
        let cands: Vec<usize> = (0..i).filter(|&p| isd[p] == isd[i]).collect();
        if cands.is_empty() { continue; }
        let mut set = vec![*rng.pick(&cands)];
        if rng.chance(1, 4) { let q = *rng.pick(&cands); if !set.contains(&q) { set.push(q); } }
        parents[i] = set;
    }
    let mut peers = vec![];
    for _ in 0..rng.below(3) {
        let x = rng.range(0, n as u64 - 1) as usize;
        let y = rng.range(0, n as u64 - 1) as usize;
        if x != y { peers.push((x, y)); }
    }
    if two && rng.chance(1, 2) {
        return topo_from_spec_asn(rng, n_core, &isd, &per_isd_asns(&isd, 1), &parents, &peers, "random_rep");
    }
    topo_from_spec(rng, n_core, &isd, &parents, &peers, "random")
}

// ------------------------------------------------------------------ structural packets
#[derive(Clone, Debug, PartialEq)]
pub struct Hop { pub flags: u8, pub exp: u8, pub cin: u16, pub ceg: u16, pub mac: [u8; 6] }
#[derive(Clone, Debug, PartialEq)]
pub struct Info { pub flags: u8, pub segid: u16, pub ts: u32 }
#[derive(Clone, Debug, PartialEq)]
pub struct Pkt { pub src: u64, pub dst: u64, pub ci: u8, pub ch: u8, pub lens: Vec<u8>, pub infos: Vec<Info>, pub hops: Vec<Hop>, pub onehop: bool }

impl Pkt {
    pub fn from_model(src: u64, dst: u64, p: &StandardPath) -> Pkt {
        let mut k = Pkt { src, dst, ci: p.current_info_field, ch: p.current_hop_field, lens: vec![], infos: vec![], hops: vec![], onehop: false };
        for s in p.segments.iter() {
            k.lens.push(s.hop_fields.len() as u8);
            k.infos.push(Info { flags: s.info_field.flags.bits(), segid: s.info_field.segment_id, ts: s.info_field.timestamp });
            for h in s.hop_fields.iter() {
                k.hops.push(Hop { flags: h.flags.bits(), exp: h.expiration_units, cin: h.cons_ingress, ceg: h.cons_egress, mac: h.mac.0 });
            }
        }
        k
    }
    pub fn to_model(&self) -> StandardPath {
        let mut p = StandardPath::new_empty();
        p.current_info_field = self.ci;
        p.current_hop_field = self.ch;
        let mut at = 0usize;
        for (s, &l) in self.lens.iter().enumerate() {
            let mut seg = Segment {
                info_field: InfoField { flags: InfoFieldFlags::from_bits_truncate(self.infos[s].flags), segment_id: self.infos[s].segid, timestamp: self.infos[s].ts },
                hop_fields: Default::default(),
            };
            for h in &self.hops[at..at + l as usize] {
                seg.hop_fields.push(HopField { flags: HopFieldFlags::from_bits_truncate(h.flags), expiration_units: h.exp, cons_ingress: h.cin, cons_egress: h.ceg, mac: HopFieldMac(h.mac) });
            }
            at += l as usize;
            p.segments.push(seg);
        }
        p
    }
    pub fn from_onehop(src: u64, dst: u64, p: &OneHopPath) -> Pkt {
        let h = |h: &HopField| Hop { flags: h.flags.bits(), exp: h.expiration_units, cin: h.cons_ingress, ceg: h.cons_egress, mac: h.mac.0 };
        Pkt { src, dst, ci: 0, ch: 0, lens: vec![], onehop: true,
              infos: vec![Info { flags: p.info.flags.bits(), segid: p.info.segment_id, ts: p.info.timestamp }],
              hops: vec![h(&p.hops[0]), h(&p.hops[1])] }
    }
    pub fn to_onehop(&self) -> OneHopPath {
        let h = |h: &Hop| HopField { flags: HopFieldFlags::from_bits_truncate(h.flags), expiration_units: h.exp, cons_ingress: h.cin, cons_egress: h.ceg, mac: HopFieldMac(h.mac) };
        OneHopPath::new_from_parts(
            InfoField { flags: InfoFieldFlags::from_bits_truncate(self.infos[0].flags), segment_id: self.infos[0].segid, timestamp: self.infos[0].ts },
            [h(&self.hops[0]), h(&self.hops[1])])
    }
    pub fn well_formed(&self) -> bool {
        if self.onehop { return self.lens.is_empty() && self.infos.len() == 1 && self.hops.len() == 2; }
        !self.lens.is_empty() && self.lens.len() <= 3 && self.lens.iter().all(|&l| l >= 1)
            && self.infos.len() == self.lens.len()
            && self.lens.iter().map(|&l| l as usize).sum::<usize>() == self.hops.len()
            && self.lens.iter().all(|&l| l <= 63) && self.ci < 4 && self.ch < 64
    }
    pub fn to_raw(&self) -> Option<Box<ScionRawPacketView>> {
        if !self.well_formed() { return None; }
        let s = ScionAddr::V4(ScionAddrV4::new(IsdAsn(self.src), std::net::Ipv4Addr::new(10, 0, 0, 1)));
        let d = ScionAddr::V4(ScionAddrV4::new(IsdAsn(self.dst), std::net::Ipv4Addr::new(10, 0, 0, 2)));
        let path = if self.onehop { DpPath::OneHop(self.to_onehop()) } else { DpPath::Standard(self.to_model()) };
        ScionRawPacket::new(s, d, path, ProtocolNumber::Other(0), vec![1, 2, 3])
            .try_encode_to_owned_view().ok()
    }
    pub fn uses_peering(&self) -> bool { self.infos.iter().any(|i| i.flags & 2 != 0) }
    pub fn reversed(&self) -> Pkt {
        let mut m = self.to_model();
        let _ = m.try_reverse();
        Pkt::from_model(self.dst, self.src, &m)
    }
    fn mac_n(m: &[u8; 6]) -> u64 { m.iter().fold(0u64, |a, &b| a * 256 + b as u64) }
    pub fn coq_fields(&self) -> String {
        format!("{} {} {} {} {} {}",
            self.dst, self.ci, self.ch,
            coq_list(self.lens.iter().map(|l| l.to_string())),
            coq_list(self.infos.iter().map(|i| format!("I {} {} {}", i.flags, i.segid, i.ts))),
            coq_list(self.hops.iter().map(|h| format!("H {} {} {} {} {}", h.flags, h.exp, h.cin, h.ceg, Self::mac_n(&h.mac)))))
    }
    /// state a traversal leaves behind: pointers, SegIDs, hop flags
    pub fn coq_state(&self) -> String {
        let mut v: Vec<String> = vec![self.ci.to_string(), self.ch.to_string()];
        v.extend(self.infos.iter().map(|i| i.segid.to_string()));
        v.extend(self.hops.iter().map(|h| h.flags.to_string()));
        coq_list(v)
    }
    pub fn human(&self) -> String {
        format!("dst={:x} ci={} ch={} lens={:?} infos={:?} hops={:?}", self.dst, self.ci, self.ch, self.lens,
            self.infos.iter().map(|i| (i.flags, i.segid, i.ts)).collect::<Vec<_>>(),
            self.hops.iter().map(|h| (h.flags, h.exp, h.cin, h.ceg, Self::mac_n(&h.mac))).collect::<Vec<_>>())
    }
}

// ------------------------------------------------------------------ minting authentic paths
/// ExpTime values of the lifetime dimension (plus random ones)
pub const EXP_VALUES: [u8; 7] = [0, 1, 2, 63, 127, 254, 255];

/// last second of a hop field's lifetime, SPECIFICATION formula: ts + floor((ExpTime + 1) * 337.5 s)
pub fn spec_expiry(ts: u32, exp: u8) -> u64 { ts as u64 + ((exp as u64 + 1) * 675) / 2 }

impl Topo {
    /// the other end of the link at interface `ifid` of AS `x`
    pub fn partner(&self, x: u64, ifid: u16) -> Option<(u64, u16)> {
        self.links.iter().find_map(|l| if l.a == x && l.aif == ifid { Some((l.b, l.bif)) } else if l.b == x && l.bif == ifid { Some((l.a, l.aif)) } else { None })
    }
    /// the AS every hop field of `p` (a path without peering, starting at `p.src`) belongs to
    pub fn owners(&self, p: &Pkt) -> Option<Vec<u64>> {
        let mut cur = p.src;
        let mut v = vec![];
        let mut j = 0usize;
        for (s, l) in p.lens.iter().enumerate() {
            let cons = p.infos[s].flags & 1 != 0;
            for k in 0..*l as usize {
                v.push(cur);
                if k + 1 < *l as usize {
                    let h = &p.hops[j];
                    let eg = if cons { h.ceg } else { h.cin };
                    cur = self.partner(cur, eg)?.0;
                }
                j += 1;
            }
        }
        Some(v)
    }
    /// `p` (no peering) minted anew: segment s gets timestamp `ts[s]` and initial SegID
    /// `beta0[s]`, hop j gets ExpTime `exp[j]`; MACs chained in construction direction with
    /// the forwarding keys of the owning ASes
    pub fn mint(&self, p: &Pkt, ts: &[u32], beta0: &[u16], exp: &[u8]) -> Option<Pkt> {
        use sciparse::dataplane_path::standard::mac::algo::calculate_hop_mac;
        if p.uses_peering() || p.onehop { return None; }
        let owners = self.owners(p)?;
        let mut q = p.clone();
        let mut start = 0usize;
        for (s, l) in p.lens.iter().enumerate() {
            let l = *l as usize;
            let cons = p.infos[s].flags & 1 != 0;
            let idx: Vec<usize> = if cons { (start..start + l).collect() } else { (start..start + l).rev().collect() };
            let mut beta = beta0[s];
            let mut beta_last = beta;
            for j in idx {
                let key = self.ases.iter().find(|a| a.ia == owners[j])?.key;
                let h = &mut q.hops[j];
                h.exp = exp[j];
                h.mac = calculate_hop_mac(beta, ts[s], h.exp, h.cin, h.ceg, &key);
                beta_last = beta;
                beta ^= u16::from_be_bytes([h.mac[0], h.mac[1]]);
            }
            q.infos[s].ts = ts[s];
            // against construction direction the packet starts with the SegID of the hop field
            // constructed last (the sender's own; no ingress update happens there)
            q.infos[s].segid = if cons { beta0[s] } else { beta_last };
            start += l;
        }
        Some(q)
    }
}

pub fn path_model(p: &ScionPath) -> Option<StandardPath> {
    match p.dp_path() { ScionDpPathView::Standard(v) => Some(v.to_model()), _ => None }
}

// ------------------------------------------------------------------ running the implementation
/// (ia, ingress interface, action code, argument)
pub type TraceStep = (u64, u16, u64, u64);
pub struct RunOut { pub trace: Vec<TraceStep>, pub end: u8, pub fin: Option<Pkt> }

fn scmp_code(e: &ScmpErrorMessage) -> (u64, u64) {
    match e {
        ScmpErrorMessage::ParameterProblem(pp) => (100 + u8::from(pp.code) as u64, 0),
        ScmpErrorMessage::ExternalInterfaceDown(d) => (6, d.interface_id as u64),
        _ => (7, 0),
    }
}
fn action_code(a: &AsRoutingAction) -> (u64, u64) {
    match a {
        AsRoutingAction::ForwardNextHop { egress_interface_id } => (1, *egress_interface_id as u64),
        AsRoutingAction::Drop => (5, 0),
        AsRoutingAction::Local(l) => match l {
            LocalAsRoutingAction::ForwardLocal => (2, 0),
            LocalAsRoutingAction::IngressSCMPHandleRequest { interface_id } => (3, *interface_id as u64),
            LocalAsRoutingAction::EgressSCMPHandleRequest { interface_id } => (4, *interface_id as u64),
            LocalAsRoutingAction::SendSCMPErrorResponse(e) => scmp_code(e),
            LocalAsRoutingAction::ForwardExternal { .. } => (8, 0),
        },
    }
}

pub const STEP_CAP: usize = 200;
/// end: 0 = verdict reached, 1 = iterator error, 2 = panic, 3 = step cap hit, 4 = not encodable
pub fn run_impl(topo: &ScionTopology, pkt: &Pkt, now: u32, at: u64, ifid: u16) -> RunOut {
    let Some(mut raw) = pkt.to_raw() else { return RunOut { trace: vec![], end: 4, fin: None } };
    let trace;
    let end;
    let r = std::panic::catch_unwind(AssertUnwindSafe(|| {
        let it = ScionNetworkSim::iter::<SpecRoutingLogic>(topo, &mut raw, ScionNetworkTime::from_timestamp_secs(now), IsdAsn(at), ifid, false);
        let Ok(it) = it else { return (vec![], 1u8) };
        let mut tr = vec![];
        let mut e = 0u8;
        for step in it {
            match step {
                Ok(o) => { let (c, a) = action_code(&o.action); tr.push((o.at_as.0, o.at_ingress_interface, c, a)); }
                Err(_) => { e = 1; break; }
            }
            if tr.len() >= STEP_CAP { e = 3; break; }
        }
        (tr, e)
    }));
    match r { Ok((t, e)) => { trace = t; end = e; } Err(_) => { trace = vec![]; end = 2; } }
    let fin = match raw.header().path() {
        ScionDpPathViewRef::Standard(v) => Some(Pkt::from_model(pkt.src, pkt.dst, &v.to_model())),
        _ => None, // one-hop: state not compared
    };
    RunOut { trace, end, fin }
}

// ------------------------------------------------------------------ cases
pub struct Case {
    pub topo: Topo, pub now: u32, pub at: u64, pub ifid: u16, pub pkt: Pkt,
    /// 0 offered path, 1 reverse of an arrived offered path, 2.. mutated
    pub kind: u8, pub what: String,
    pub meta: Vec<(u64, u16)>,
    pub out: RunOut,
}
impl Case {
    pub fn coq(&self) -> String {
        let fin = self.out.fin.as_ref().map(|p| p.coq_state()).unwrap_or_else(|| "[]".into());
        format!("mkCase {} {} {} {} {} {} {} {} {} {} {}",
            self.topo.coq_ases(), self.topo.coq_links(), self.now, self.at, self.ifid,
            self.pkt.coq_fields(), self.kind,
            coq_list(self.meta.iter().map(|(a, i)| format!("F {a} {i}"))),
            coq_list(self.out.trace.iter().map(|(a, i, c, x)| format!("T {a} {i} {c} {x}"))),
            self.out.end, fin)
    }
    pub fn kind_name(&self) -> String {
        match self.kind { 0 => "offered".into(), 1 => "reverse".into(), 7 => "lifetime".into(), 8 => format!("address.{}", self.what.split(' ').nth(1).unwrap_or("")), 3 => format!("onehop.{}", self.what.split(' ').nth(1).unwrap_or("")), _ => format!("mut.{}", self.what.split(' ').next().unwrap_or("")) }
    }
    pub fn end_name(&self) -> String {
        if self.out.end != 0 { return format!("abnormal{}", self.out.end); }
        match self.out.trace.last() { Some((_, _, c, _)) => format!("code{c}"), None => "none".into() }
    }
    pub fn nontrivial(&self) -> bool { self.pkt.hops.len() >= 2 }
    pub fn human(&self) -> String {
        format!("topo={} ases={} links={:?} now={} at={:x}#{} kind={} {} | {} | impl trace={:?} end={}",
            self.topo.tag, self.topo.ases.len(),
            self.topo.links.iter().map(|l| format!("{:x}#{}-{}-{:x}#{}{}", l.a, l.aif, l.ty, l.b, l.bif, if l.up { "" } else { "!down" })).collect::<Vec<_>>(),
            self.now, self.at, self.ifid, self.kind, self.what, self.pkt.human(), self.out.trace, self.out.end)
    }
}

pub struct World { pub topo: Topo, pub real: ScionTopology, pub ts: u32, pub paths: Vec<(u64, u64, Pkt, Vec<(u64, u16)>)> }

impl World {
    pub fn build(topo: &Topo, rng: &mut Rng) -> Option<World> {
        let real = topo.to_real()?;
        let ts: u32 = 1_700_000_000 + rng.below(1_000_000) as u32;
        let when = chrono::DateTime::<chrono::Utc>::from_timestamp(ts as i64, 0)?;
        let reg = SegmentRegistry::from_topology(&real);
        let mut paths = vec![];
        for s in &topo.ases {
            for d in &topo.ases {
                if s.ia == d.ia { continue; }
                let Ok(ps) = reg.paths(IsdAsn(s.ia), IsdAsn(d.ia), when, &real) else { continue };
                for p in ps {
                    let Some(m) = path_model(&p) else { continue };
                    let meta: Vec<(u64, u16)> = p.metadata().and_then(|m| m.interfaces.as_ref())
                        .map(|v| v.iter().map(|i| (i.interface.isd_asn.0, i.interface.id)).collect()).unwrap_or_default();
                    paths.push((s.ia, d.ia, Pkt::from_model(s.ia, d.ia, &m), meta));
                }
            }
        }
        Some(World { topo: topo.clone(), real, ts, paths })
    }

    /// topology only (no path listing)
    pub fn build_light(topo: &Topo, rng: &mut Rng) -> Option<World> {
        let real = topo.to_real()?;
        let ts: u32 = 1_700_000_000 + rng.below(1_000_000) as u32;
        Some(World { topo: topo.clone(), real, ts, paths: vec![] })
    }

    fn case(&self, topo: &Topo, real: &ScionTopology, now: u32, at: u64, ifid: u16, pkt: Pkt, kind: u8, what: String, meta: Vec<(u64, u16)>) -> Case {
        let out = run_impl(real, &pkt, now, at, ifid);
        Case { topo: topo.clone(), now, at, ifid, pkt, kind, what, meta, out }
    }

    /// all hop fields of all offered paths: the attacker's stock of authentic hop fields
    fn stock(&self) -> Vec<Hop> { self.paths.iter().flat_map(|p| p.2.hops.iter().cloned()).collect() }

    pub fn cases(&self, rng: &mut Rng, budget: usize, mode: &str, sum: &mut Summary) -> Vec<Case> {
        let mut out = vec![];
        if self.paths.is_empty() { return out; }
        let now = self.ts + rng.range(0, 300) as u32;
        let stock = self.stock();
        // offered paths + reverses: all of them while the budget lasts (about half of it in c13 mode)
        let mut order: Vec<usize> = (0..self.paths.len()).collect();
        rng.shuffle(&mut order);
        // shapes first: make sure multi-segment / peering / long paths are not starved
        order.sort_by_key(|&i| std::cmp::Reverse((self.paths[i].2.uses_peering() as usize, self.paths[i].2.lens.len())));
        let base_budget = if mode == "c01" { budget } else { budget / 4 + 1 };
        // the directed families below leave a quarter of the budget to the random mutations
        let cap = budget - budget / 4;
        let mut k = 0usize;
        while out.len() + 1 < base_budget.max(2) && k < order.len() {
            // alternate between the shape-sorted front and a random pick
            let i = if k % 2 == 0 { order[k / 2] } else { order[rng.below(order.len() as u64) as usize] };
            k += 1;
            let (s, d, pkt, meta) = &self.paths[i];
            let c = self.case(&self.topo, &self.real, now, *s, 0, pkt.clone(), 0, format!("offered {:x}->{:x}", s, d), meta.clone());
            if c.out.end == 4 { continue; }
            let arrived = c.out.fin.clone();
            let delivered = c.out.end == 0 && matches!(c.out.trace.last(), Some((a, _, 2, _)) if a == d);
            out.push(c);
            if delivered {
                if let Some(a) = arrived {
                    let r = a.reversed();
                    let mut rmeta: Vec<(u64, u16)> = meta.clone(); rmeta.reverse();
                    out.push(self.case(&self.topo, &self.real, now, *d, 0, r, 1, format!("reverse {:x}->{:x}", d, s), rmeta));
                }
            } else {
                sum.count("offered.not_delivered_by_impl");
            }
        }
        if mode == "c01" { return out; }
        // directed: a peering hop field moved behind a segment change (finding
        // C13-peer-link-segment-change): up-segment hop fields [leaf, X regular] as segment 0,
        // [X peering hop, Y peering hop] as segment 1, both against construction direction
        let mut made = 0;
        for (s, d, pp, _) in self.paths.iter().filter(|p| p.2.uses_peering() && p.2.lens.len() == 2 && p.2.lens[0] == 2) {
            if made >= 1 || out.len() >= budget { break; }
            let Some((_, _, r, _)) = self.paths.iter().find(|q| q.0 == *s && !q.2.uses_peering() && q.2.lens[0] >= 2 && q.2.hops[0] == pp.hops[0] && q.2.infos[0].flags & 1 == 0) else { continue };
            let q = Pkt { src: *s, dst: *d, ci: 0, ch: 0, onehop: false, lens: vec![2, 2],
                infos: vec![r.infos[0].clone(), Info { flags: 0, segid: pp.infos[0].segid, ts: pp.infos[0].ts }],
                hops: vec![r.hops[0].clone(), r.hops[1].clone(), pp.hops[1].clone(), pp.hops[2].clone()] };
            let c = self.case(&self.topo, &self.real, now, *s, 0, q, 2, "peer_xover_splice".into(), vec![]);
            if c.out.end == 4 { continue; }
            out.push(c); made += 1;
        }
        // directed: attacker-spliced segment changes -- for the ordered pairs (arrival link type,
        // departure link type) realizable at the ASes of this topology, a packet of two
        // 2-hop segments built from AUTHENTIC hop fields of the control plane's segments whose
        // crossover at AS X uses exactly that pair; injected at X on the arrival interface
        if out.len() + 4 <= budget {
            let mut n_x = 0;
            for c in self.xover_pair_cases(rng, now, sum) {
                if out.len() >= cap || n_x >= (if budget < 20 { 3 } else { 5 }) { break; }
                out.push(c); n_x += 1;
            }
        }
        // directed: hop field lifetime.  An offered path minted anew with a different timestamp
        // per segment and ExpTime values from EXP_VALUES (and random ones); the clock at the last
        // second of the path's lifetime, one before and one after -- by the SPECIFICATION formula
        // (spec_expiry) -- and around the youngest segment timestamp
        if mode != "c01" {
            let plain: Vec<usize> = (0..self.paths.len()).filter(|&i| !self.paths[i].2.uses_peering()).collect();
            let want = (budget / 4).max(3);
            let mut made = 0usize;
            let mut tries = 0usize;
            while !plain.is_empty() && (made < 3 || (made < want && out.len() < cap)) && tries < 12 {
                tries += 1;
                // longer paths first
                let i = if tries == 1 { *plain.iter().max_by_key(|&&i| (self.paths[i].2.lens.len(), self.paths[i].2.hops.len())).unwrap() } else { *rng.pick(&plain) };
                let (s, d, base, _) = &self.paths[i];
                // the recipe is right iff it reproduces the control plane's own MACs
                let beta_orig: Vec<u16> = {
                    let mut v = vec![]; let mut st = 0usize;
                    for (k, l) in base.lens.iter().enumerate() {
                        let l = *l as usize;
                        let mut b = base.infos[k].segid;
                        if base.infos[k].flags & 1 == 0 { for h in &base.hops[st + 1..st + l] { b ^= u16::from_be_bytes([h.mac[0], h.mac[1]]); } }
                        v.push(b); st += l;
                    }
                    v
                };
                let ts_orig: Vec<u32> = base.infos.iter().map(|x| x.ts).collect();
                let exp_orig: Vec<u8> = base.hops.iter().map(|h| h.exp).collect();
                match self.topo.mint(base, &ts_orig, &beta_orig, &exp_orig) {
                    Some(q) if q == *base => {}
                    other => { if std::env::var("NETDBG").is_ok() { eprintln!("DIFF topo={} base={} owners={:?} minted={:?}", self.topo.tag, base.human(), self.topo.owners(base), other.map(|q| q.human())); } sum.count("lifetime.mint_recipe_differs"); continue; }
                }
                let e = if rng.chance(1, 8) { rng.below(256) as u8 } else { EXP_VALUES[(rng.below(7)) as usize] };
                let n = base.hops.len();
                // every hop lives at least e; some live longer
                let mut exp: Vec<u8> = (0..n).map(|_| if rng.chance(1, 2) { e } else { e.saturating_add(rng.below(40) as u8) }).collect();
                let jmin = rng.below(n as u64) as usize; exp[jmin] = e;
                // distinct timestamps, at most 300 s apart (shorter than the shortest lifetime)
                let mut ts: Vec<u32> = vec![];
                for _ in 0..base.lens.len() { loop { let t = self.ts - rng.below(301) as u32; if !ts.contains(&t) { ts.push(t); break; } } }
                let beta0: Vec<u16> = (0..base.lens.len()).map(|_| rng.below(65536) as u16).collect();
                let Some(q) = self.topo.mint(base, &ts, &beta0, &exp) else { continue };
                let mut t_end = u64::MAX; let mut st = 0usize;
                for (k, l) in q.lens.iter().enumerate() { for h in &q.hops[st..st + *l as usize] { t_end = t_end.min(spec_expiry(ts[k], h.exp)); } st += *l as usize; }
                let t_max = *ts.iter().max().unwrap() as u64;
                let mut clocks: Vec<(u64, &str)> = vec![(t_end - 1, "expiry-1"), (t_end, "expiry"), (t_end + 1, "expiry+1")];
                if rng.chance(1, 3) { clocks.push((t_max - 1, "youngest_ts-1")); clocks.push((t_max, "youngest_ts")); }
                for (clk, nm) in clocks {
                    if made >= 3 && out.len() >= cap { break; }
                    let c = self.case(&self.topo, &self.real, clk as u32, *s, 0, q.clone(), 7, format!("lifetime exp={e} clock={nm} ts={:?} exps={:?}", ts, exp), vec![]);
                    if c.out.end == 4 { continue; }
                    sum.count(&format!("lifetime.exp{}", if EXP_VALUES.contains(&e) { e.to_string() } else { "rand".into() }));
                    sum.count(&format!("lifetime.clock.{nm}.{}", if c.out.end == 0 && matches!(c.out.trace.last(), Some((a, _, 2, _)) if a == d) { "delivered" } else { "refused" }));
                    out.push(c); made += 1;
                }
            }
        }
        // directed: addresses.  An offered path (no peering) whose DESTINATION ISD-AS is rewritten
        // to: the right one / another existing AS / the same AS number in another ISD / the
        // wildcard forms 0-<as>, <isd>-0, 0-0; and the same forms in the SOURCE field (which no
        // forwarding decision may depend on).  Only equality of ISD-AS makes a packet local.
        {
            let plain: Vec<usize> = (0..self.paths.len()).filter(|&i| !self.paths[i].2.uses_peering()).collect();
            let asn = |x: u64| x & 0xffff_ffff_ffff;
            let isd = |x: u64| x >> 48;
            let want = if budget < 20 { 3 } else { 6 };
            let first = rng.below(12) as usize;
            let mut made = 0usize;
            while !plain.is_empty() && made < want {
                let (s, d, base, meta) = &self.paths[*rng.pick(&plain)];
                let v = (first + made) % 12;
                made += 1;
                let mut q = base.clone();
                let other_isd = |x: u64| { let o = self.topo.ases.iter().map(|a| isd(a.ia)).find(|i| *i != isd(x)).unwrap_or(isd(x) + 1); ia(o, asn(x)) };
                let other_as = |x: u64, y: u64, rng: &mut Rng| { let c: Vec<u64> = self.topo.ases.iter().map(|a| a.ia).filter(|a| *a != x && *a != y).collect(); if c.is_empty() { y } else { *rng.pick(&c) } };
                let nm = match v {
                    0 => "dst=right",
                    1 => { q.dst = other_as(*d, *d, rng); "dst=other_as" }
                    2 => { q.dst = *s; "dst=source_as" }
                    3 => { q.dst = other_isd(*d); "dst=same_asn_other_isd" }
                    4 => { q.dst = ia(0, asn(*d)); "dst=wildcard_isd" }
                    5 => { q.dst = ia(isd(*d), 0); "dst=wildcard_as" }
                    6 => { q.dst = 0; "dst=wildcard_both" }
                    7 => { q.src = other_as(*s, *d, rng); "src=other_as" }
                    8 => { q.src = other_isd(*s); "src=same_asn_other_isd" }
                    9 => { q.src = ia(0, asn(*s)); "src=wildcard_isd" }
                    10 => { q.src = ia(isd(*s), 0); "src=wildcard_as" }
                    _ => { q.src = 0; "src=wildcard_both" }
                };
                let c = self.case(&self.topo, &self.real, now, *s, 0, q, 8, format!("address {nm} path {:x}->{:x}", s, d), meta.clone());
                if c.out.end == 4 { sum.count(&format!("address.{nm}.not_encodable")); continue; }
                sum.count(&format!("address.{nm}.{}", if c.out.end == 0 && matches!(c.out.trace.last(), Some((_, _, 2, _))) { "delivered" } else { "refused" }));
                out.push(c);
            }
        }
        // directed: more than 64 hop fields with CurrHF = 63: the pointer must not wrap (routing.rs guards)
        if out.len() + 2 <= budget && rng.chance(1, 3) {
            let junk = Hop { flags: 0, exp: 63, cin: 1, ceg: 2, mac: [1, 2, 3, 4, 5, 6] };
            let (s, d, base, _) = &self.paths[rng.below(self.paths.len() as u64) as usize];
            // (a) egress guard: an authentic first segment placed behind 63 filler hop fields
            let l0 = base.lens[0] as usize;
            if l0 >= 2 {
                let mut hops = vec![junk.clone(); 63];
                hops.extend(base.hops[..l0].iter().cloned());
                let q = Pkt { src: *s, dst: *d, ci: 1, ch: 63, onehop: false, lens: vec![63, l0 as u8],
                    infos: vec![Info { flags: 0, segid: 0, ts: base.infos[0].ts }, base.infos[0].clone()], hops };
                let c = self.case(&self.topo, &self.real, now, *s, 0, q, 2, "currhf_limit_egress".into(), vec![]);
                if c.out.end != 4 { out.push(c); }
            }
            // (b) segment-change guard: CurrHF 63 at the end of the second of three segments
            let q = Pkt { src: *s, dst: *d, ci: 1, ch: 63, onehop: false, lens: vec![62, 2, 2],
                infos: vec![base.infos[0].clone(), base.infos[0].clone(), base.infos[0].clone()], hops: vec![junk.clone(); 66] };
            let c = self.case(&self.topo, &self.real, now, *s, 0, q, 2, "currhf_limit_xover".into(), vec![]);
            if c.out.end != 4 { out.push(c); }
        }
        // directed: one-hop paths over a link (intact, link down, forged MAC, expired, no such interface)
        if !self.topo.links.is_empty() && out.len() + 3 <= budget && rng.chance(1, 2) {
            for variant in [rng.below(5)] {
                let l = rng.pick(&self.topo.links).clone();
                let key = self.topo.ases.iter().find(|a| a.ia == l.a).map(|a| a.key).unwrap_or([0; 16]);
                let oh = OneHopPath::new(l.aif, rng.below(65536) as u16, self.ts, key, 63);
                let mut p = Pkt::from_onehop(l.a, l.b, &oh);
                let mut topo = self.topo.clone();
                let mut now2 = now;
                let what = match variant {
                    0 => "onehop intact".to_string(),
                    1 => { for x in topo.links.iter_mut() { if x.a == l.a && x.aif == l.aif { x.up = false; } } "onehop link_down".into() }
                    2 => { p.hops[0].mac[2] ^= 0x40; "onehop forged_mac".into() }
                    3 => { now2 = self.ts + 400_000; "onehop expired".into() }
                    _ => { p.hops[0].ceg = 41 + rng.below(5) as u16; "onehop no_such_interface".into() }
                };
                let real2;
                let real_ref = if topo.links.iter().any(|l| !l.up) { match topo.to_real() { Some(r) => { real2 = r; &real2 } None => continue } } else { &self.real };
                let c = self.case(&topo, real_ref, now2, l.a, 0, p, 3, what, vec![]);
                if c.out.end == 4 { continue; }
                out.push(c);
            }
        }
        // mutated packets
        let mut guard = 0;
        while out.len() < budget && guard < budget * 20 {
            guard += 1;
            let (s, _d, base, _) = &self.paths[rng.below(self.paths.len() as u64) as usize];
            let mut p = base.clone();
            let mut topo = self.topo.clone();
            let mut now2 = now;
            let mut at = *s;
            let mut ifid = 0u16;
            let what;
            let n = p.hops.len();
            match rng.below(16) {
                0 => { let j = rng.below(n as u64) as usize; p.hops[j].cin = mutate16(rng, p.hops[j].cin); what = format!("hop_in j={j}"); }
                1 => { let j = rng.below(n as u64) as usize; p.hops[j].ceg = mutate16(rng, p.hops[j].ceg); what = format!("hop_eg j={j}"); }
                2 => { let j = rng.below(n as u64) as usize; p.hops[j].exp = rng.below(256) as u8; what = format!("hop_exp j={j}"); }
                3 => { let j = rng.below(n as u64) as usize; let b = rng.below(6) as usize; p.hops[j].mac[b] ^= 1 << rng.below(8); what = format!("hop_mac j={j} byte={b}"); }
                4 => { let j = rng.below(n as u64) as usize; p.hops[j].flags ^= 1 << rng.below(2); what = format!("hop_flags j={j}"); }
                5 => { let s = rng.below(p.infos.len() as u64) as usize;
                       match rng.below(4) { 0 => p.infos[s].segid ^= 1 << rng.below(16), 1 => p.infos[s].ts = p.infos[s].ts.wrapping_add(rng.range(1, 400) as u32),
                                            2 => p.infos[s].flags ^= 1, _ => p.infos[s].flags ^= 2 }
                       what = format!("info s={s}"); }
                6 => { // splice: replace one hop field by another authentic one
                       let j = rng.below(n as u64) as usize; p.hops[j] = rng.pick(&stock).clone(); what = format!("splice_replace j={j}"); }
                7 => { // splice: swap two hop fields
                       let i = rng.below(n as u64) as usize; let j = rng.below(n as u64) as usize; p.hops.swap(i, j); what = format!("splice_swap {i},{j}"); }
                8 => { // splice: recombine segments of two offered paths
                       let other = &self.paths[rng.below(self.paths.len() as u64) as usize].2;
                       let q = recombine(rng, &p, other);
                       what = format!("splice_segments {:?}+{:?}", p.lens, other.lens); p = q; }
                9 => { // drop or duplicate a hop field inside a segment
                       let j = rng.below(n as u64) as usize;
                       let (seg, _) = seg_of(&p.lens, j);
                       if rng.chance(1, 2) && p.lens[seg] > 1 { p.hops.remove(j); p.lens[seg] -= 1; what = format!("hop_drop j={j}"); }
                       else { let h = p.hops[j].clone(); p.hops.insert(j, h); p.lens[seg] += 1; what = format!("hop_dup j={j}"); } }
                10 => { // link down: one of the links (preferably on the path)
                        if rng.chance(1, 2) {
                            let li = rng.below(topo.links.len() as u64) as usize; topo.links[li].up = false; what = format!("link_down {li}");
                        } else {
                            // an arbitrary up/down assignment
                            let mut downs = vec![];
                            for (li, l) in topo.links.iter_mut().enumerate() { if rng.chance(1, 3) { l.up = false; downs.push(li); } }
                            what = format!("link_down {:?}", downs);
                        } }
                11 => { // clock relative to timestamp / expiry of the first hop
                        let ts = p.infos[0].ts; let e = p.hops.iter().map(|h| h.exp).min().unwrap_or(0) as u64;
                        let exp = ts as u64 + ((e + 1) * 675) / 2;
                        now2 = match rng.below(6) { 0 => ts.wrapping_sub(1), 1 => ts, 2 => (exp - 1) as u32, 3 => exp as u32, 4 => (exp + 1) as u32, _ => (exp + 1000) as u32 };
                        if rng.chance(1, 2) { let j = rng.below(n as u64) as usize; p.hops[j].exp = rng.below(3) as u8; }
                        what = format!("clock now={now2}"); }
                12 if rng.chance(1, 2) => { // offered path, but entering its first AS from a neighbour
                        let ifs: Vec<u16> = topo.links.iter().filter_map(|l| if l.a == at { Some(l.aif) } else if l.b == at { Some(l.bif) } else { None }).collect();
                        if ifs.is_empty() { continue; }
                        ifid = *rng.pick(&ifs);
                        what = format!("inject_src_external #{}", ifid); }
                12 => { // wrong ingress point: inject elsewhere / on an external interface
                        let a = rng.pick(&topo.ases).ia; at = a;
                        let ifs: Vec<u16> = topo.links.iter().filter_map(|l| if l.a == a { Some(l.aif) } else if l.b == a { Some(l.bif) } else { None }).collect();
                        ifid = if ifs.is_empty() || rng.chance(1, 4) { rng.below(3) as u16 } else { *rng.pick(&ifs) };
                        what = format!("inject at={:x}#{}", at, ifid); }
                13 => { // mid-path injection with consistent pointers at the AS owning hop j, via any of its interfaces
                        let j = rng.below(n as u64) as usize; let (seg, _) = seg_of(&p.lens, j);
                        p.ch = j as u8; p.ci = seg as u8;
                        let a = rng.pick(&topo.ases).ia; at = a;
                        let ifs: Vec<u16> = topo.links.iter().filter_map(|l| if l.a == a { Some(l.aif) } else if l.b == a { Some(l.bif) } else { None }).collect();
                        ifid = if ifs.is_empty() || rng.chance(1, 5) { 0 } else { *rng.pick(&ifs) };
                        what = format!("midpath j={j} at={:x}#{}", at, ifid); }
                14 => { // pointers
                        if rng.chance(1, 2) { p.ch = rng.below((n + 2) as u64) as u8; } else { p.ci = rng.below(4) as u8; }
                        what = format!("pointers ci={} ch={}", p.ci, p.ch); }
                _ => { // destination address
                        let d0 = p.dst;
                        p.dst = match rng.below(6) { 0 => d0 & 0xffff_ffff_ffff, 1 => d0 & !0xffff_ffff_ffffu64, 2 => 0, 3 => d0 ^ (3 << 48), _ => rng.pick(&topo.ases).ia };
                        what = format!("dst {:x}", p.dst); }
            }
            if !p.well_formed() { continue; }
            let real2;
            let real_ref = if topo.links.iter().any(|l| !l.up) { match topo.to_real() { Some(r) => { real2 = r; &real2 } None => continue } } else { &self.real };
            let c = self.case(&topo, real_ref, now2, at, ifid, p, 2, what, vec![]);
            if c.out.end == 4 { continue; }
            out.push(c);
        }
        out
    }
}

fn mutate16(rng: &mut Rng, v: u16) -> u16 {
    match rng.below(4) { 0 => 0, 1 => v ^ (1 << rng.below(6)), 2 => rng.range(1, 40) as u16, _ => v.wrapping_add(1) }
}
pub fn seg_of(lens: &[u8], j: usize) -> (usize, usize) {
    let mut at = 0usize;
    for (s, &l) in lens.iter().enumerate() { if j < at + l as usize { return (s, j - at); } at += l as usize; }
    (lens.len().saturating_sub(1), 0)
}
fn segment(p: &Pkt, s: usize) -> (Info, Vec<Hop>) {
    let at: usize = p.lens[..s].iter().map(|&l| l as usize).sum();
    (p.infos[s].clone(), p.hops[at..at + p.lens[s] as usize].to_vec())
}
/// a path out of whole segments of `a` and `b` in arbitrary order (1..3 segments)
fn recombine(rng: &mut Rng, a: &Pkt, b: &Pkt) -> Pkt {
    let mut pool = vec![];
    for s in 0..a.lens.len() { pool.push(segment(a, s)); }
    for s in 0..b.lens.len() { pool.push(segment(b, s)); }
    rng.shuffle(&mut pool);
    let k = rng.range(1, 3.min(pool.len() as u64)) as usize;
    let mut q = Pkt { src: a.src, dst: if rng.chance(1, 2) { a.dst } else { b.dst }, ci: 0, ch: 0, lens: vec![], infos: vec![], hops: vec![], onehop: false };
    for (i, h) in pool.into_iter().take(k) {
        let mut i = i; let mut h = h;
        if rng.chance(1, 4) { i.flags ^= 1; h.reverse(); }
        q.lens.push(h.len() as u8); q.infos.push(i); q.hops.extend(h);
    }
    q
}

// ------------------------------------------------------------------ segments (C01)
pub struct SegEntry { pub ia: u64, pub key: [u8; 16], pub hop: (u8, u16, u16), pub mac: [u8; 6], pub peers: Vec<(u64, u16, (u8, u16, u16), [u8; 6])> }
pub struct SegCase { pub tag: String, pub beta0: u16, pub ts: u32, pub entries: Vec<SegEntry> }
impl SegCase {
    pub fn coq(&self) -> String {
        let m = |x: &[u8; 6]| x.iter().fold(0u64, |a, &b| a * 256 + b as u64);
        format!("mkSCase {} {} {}", self.beta0, self.ts,
            coq_list(self.entries.iter().map(|e| format!("E {} {} {} {} {} {} {}", e.ia, u128::from_be_bytes(e.key), e.hop.0, e.hop.1, e.hop.2, m(&e.mac),
                coq_list(e.peers.iter().map(|p| format!("P {} {} {} {} {} {}", p.0, p.1, p.2.0, p.2.1, p.2.2, m(&p.3))))))))
    }
    pub fn human(&self) -> String {
        format!("topo={} beta0={} ts={} entries={:?}", self.tag, self.beta0, self.ts,
            self.entries.iter().map(|e| format!("{:x}:{}>{} peers={}", e.ia, e.hop.1, e.hop.2, e.peers.len())).collect::<Vec<_>>())
    }
}
impl World {
    /// the control plane's segments for a few AS pairs, with random SegID and expiry
    pub fn segments(&self, rng: &mut Rng, max: usize) -> Vec<SegCase> {
        let reg = SegmentRegistry::from_topology(&self.real);
        let mut out = vec![];
        let mut seen = std::collections::HashSet::new();
        let mut pairs: Vec<(u64, u64)> = vec![];
        for s in &self.topo.ases { for d in &self.topo.ases { if s.ia != d.ia { pairs.push((s.ia, d.ia)); } } }
        rng.shuffle(&mut pairs);
        for (s, d) in pairs {
            if out.len() >= max { break; }
            let Ok(ls) = reg.endhost_list_segments(IsdAsn(s), IsdAsn(s), IsdAsn(d)) else { continue };
            let segid = rng.below(65536) as u16;
            let exp = *rng.pick(&[0u8, 1, 63, 200, 255]);
            let when = chrono::DateTime::<chrono::Utc>::from_timestamp(self.ts as i64, 0).unwrap();
            let Ok(ps) = ls.into_path_segments(&self.real, when, segid, exp) else { continue };
            for seg in ps.iter_all() {
                let mut entries = vec![];
                for e in seg.as_entries.iter() {
                    let e = e.entry();
                    let key = self.topo.ases.iter().find(|a| a.ia == e.local.0).map(|a| a.key).unwrap_or([0; 16]);
                    let hf = &e.hop_entry.hop_field;
                    entries.push(SegEntry { ia: e.local.0, key, hop: (hf.expiration_units, hf.cons_ingress, hf.cons_egress), mac: hf.mac.0,
                        peers: e.peer_entries.iter().map(|p| (p.peer.0, p.peer_interface, (p.hop_field.expiration_units, p.hop_field.cons_ingress, p.hop_field.cons_egress), p.hop_field.mac.0)).collect() });
                }
                let c = SegCase { tag: self.topo.tag.clone(), beta0: seg.info().segment_id, ts: seg.info().timestamp, entries };
                if seen.insert(c.coq()) && out.len() < max { out.push(c); }
            }
        }
        out
    }
}

// ------------------------------------------------------------------ joinability (C01, last sentence)
pub struct JoinCase { pub tag: String, pub src: u64, pub dst: u64, pub cores: Vec<u64>, pub segs: Vec<Vec<u64>>, pub offered: usize, pub row: (u64, u64, u64) }
impl JoinCase {
    pub fn coq(&self) -> String {
        format!("mkJCase {} {} {} {} {}", self.src, self.dst,
            coq_list(self.cores.iter().map(|c| c.to_string())),
            coq_list(self.segs.iter().map(|s| coq_list(s.iter().map(|x| x.to_string())))), self.offered)
    }
    pub fn human(&self) -> String {
        format!("topo={} {:x}->{:x} plan-row={:?} segments={} offered={}", self.tag, self.src, self.dst, self.row, self.segs.len(), self.offered)
    }
}
impl Topo {
    /// every segment SCION beaconing produces over this topology, as AS sequences in
    /// construction order (computed here, independently of the registry): non-core segments =
    /// every parent->child walk starting at a core AS; core segments = every simple walk over
    /// core links between core ASes.  Parallel links give the same AS sequence (deduplicated).
    pub fn all_segments(&self) -> Vec<Vec<u64>> {
        let cores: Vec<u64> = self.ases.iter().filter(|a| a.core).map(|a| a.ia).collect();
        let mut children: std::collections::BTreeMap<u64, Vec<u64>> = Default::default();
        let mut corenb: std::collections::BTreeMap<u64, Vec<u64>> = Default::default();
        for l in self.links.iter().filter(|l| l.up) {
            match l.ty { 1 => children.entry(l.a).or_default().push(l.b), 2 => children.entry(l.b).or_default().push(l.a),
                         3 => { corenb.entry(l.a).or_default().push(l.b); corenb.entry(l.b).or_default().push(l.a); } _ => {} }
        }
        let mut out: std::collections::BTreeSet<Vec<u64>> = Default::default();
        fn down(cur: &mut Vec<u64>, ch: &std::collections::BTreeMap<u64, Vec<u64>>, out: &mut std::collections::BTreeSet<Vec<u64>>) {
            if cur.len() >= 2 { out.insert(cur.clone()); }
            if cur.len() >= 8 { return; }
            for &c in ch.get(cur.last().unwrap()).map(|v| v.as_slice()).unwrap_or(&[]) {
                if cur.contains(&c) { continue; }
                cur.push(c); down(cur, ch, out); cur.pop();
            }
        }
        fn core(cur: &mut Vec<u64>, nb: &std::collections::BTreeMap<u64, Vec<u64>>, out: &mut std::collections::BTreeSet<Vec<u64>>) {
            if cur.len() >= 2 { out.insert(cur.clone()); }
            if cur.len() >= 6 { return; }
            for &c in nb.get(cur.last().unwrap()).map(|v| v.as_slice()).unwrap_or(&[]) {
                if cur.contains(&c) { continue; }
                cur.push(c); core(cur, nb, out); cur.pop();
            }
        }
        for &c in &cores { let mut cur = vec![c]; down(&mut cur, &children, &mut out); let mut cur = vec![c]; core(&mut cur, &corenb, &mut out); }
        out.into_iter().collect()
    }
}

impl World {
    /// for AS pairs (and, per source, the wildcard "any core" destinations): ALL segments of the
    /// topology (independent beaconing), the row of the lookup plan the pair falls into, and
    /// what the real lookup path (registry lister + ListSegmentPlan + combinator) offers
    pub fn join_cases(&self, rng: &mut Rng, max: usize) -> Vec<JoinCase> {
        let reg = SegmentRegistry::from_topology(&self.real);
        let when = chrono::DateTime::<chrono::Utc>::from_timestamp(self.ts as i64, 0).unwrap();
        let cores: Vec<u64> = self.topo.ases.iter().filter(|a| a.core).map(|a| a.ia).collect();
        let segs = self.topo.all_segments();
        let isd = |x: u64| x >> 48;
        let mut pairs: Vec<(u64, u64)> = vec![];
        for s in &self.topo.ases {
            for d in &self.topo.ases { if s.ia != d.ia { pairs.push((s.ia, d.ia)); } }
            // wildcard destinations: any core of each ISD
            let mut isds: Vec<u64> = self.topo.ases.iter().map(|a| isd(a.ia)).collect(); isds.sort(); isds.dedup();
            for i in isds { pairs.push((s.ia, i << 48)); }
        }
        rng.shuffle(&mut pairs);
        // rows of the plan table not seen yet first
        let row_of = |s: u64, d: u64| -> (u64, u64, u64) {
            let n_cores = cores.iter().filter(|c| isd(**c) == isd(s)).count();
            let ctx = if isd(s) != isd(d) { 2 } else if n_cores == 1 { 0 } else { 1 };
            let sk = if cores.contains(&s) { 0 } else { 1 };
            let dk = if d & 0xffff_ffff_ffff == 0 { 2 } else if cores.contains(&d) { 0 } else { 1 };
            (ctx, sk, dk)
        };
        let mut seen_rows = std::collections::BTreeSet::new();
        // then pairs across ISDs whose AS numbers also occur in another ISD of this topology
        let asn = |x: u64| x & 0xffff_ffff_ffff;
        let repeated = |x: u64| self.topo.ases.iter().any(|a| asn(a.ia) == asn(x) && isd(a.ia) != isd(x));
        pairs.sort_by_cached_key(|(s, d)| if seen_rows.insert(row_of(*s, *d)) { 0 } else if isd(*s) != isd(*d) && asn(*d) != 0 && (repeated(*s) || repeated(*d)) { 1 } else { 2 });
        let mut out = vec![];
        for (s, d) in pairs {
            if out.len() >= max { break; }
            let wildcard = d & 0xffff_ffff_ffff == 0;
            let offered = if wildcard {
                // wildcard lookups yield segments, not paths: count the listed segments
                match reg.endhost_list_segments(IsdAsn(s), IsdAsn(s), IsdAsn(d)) {
                    Ok(ls) => ls.into_path_segments(&self.real, when, 0, 63).map(|ps| ps.iter_all().count()).unwrap_or(0),
                    Err(_) => 0,
                }
            } else {
                reg.paths(IsdAsn(s), IsdAsn(d), when, &self.real).map(|p| p.len()).unwrap_or(0)
            };
            out.push(JoinCase { tag: self.topo.tag.clone(), src: s, dst: d, cores: cores.clone(), segs: segs.clone(), offered, row: row_of(s, d) });
        }
        out
    }
}

// ------------------------------------------------------------------ spliced segment changes
/// an authentic hop field of AS `ia`: the SegID its MAC verifies with, and a neighbouring hop
/// field of the same segment as filler
struct OwnedHop { ia: u64, hop: Hop, beta: u16, ts: u32, filler: Hop }

impl World {
    /// link type of interface `ifid` at AS `x` as the router sees it: 0 core, 1 parent, 2 child, 3 peer
    fn if_type(&self, x: u64, ifid: u16) -> Option<u8> {
        for l in &self.topo.links {
            // ty: x IS ty OF the other end (0 peer, 1 parent, 2 child, 3 core)
            let ty = if l.a == x && l.aif == ifid { Some(l.ty) } else if l.b == x && l.bif == ifid { Some(match l.ty { 1 => 2, 2 => 1, t => t }) } else { None };
            if let Some(t) = ty { return Some(match t { 3 => 0, 2 => 1, 1 => 2, _ => 3 }); }
        }
        None
    }

    fn owned_hops(&self, rng: &mut Rng) -> Vec<OwnedHop> {
        let mut v = vec![];
        for sc in self.segments(rng, 14) {
            let mut beta = sc.beta0;
            let hops: Vec<Hop> = sc.entries.iter().map(|e| Hop { flags: 0, exp: e.hop.0, cin: e.hop.1, ceg: e.hop.2, mac: e.mac }).collect();
            for (i, e) in sc.entries.iter().enumerate() {
                let filler = if i + 1 < hops.len() { hops[i + 1].clone() } else if i > 0 { hops[i - 1].clone() } else { hops[i].clone() };
                v.push(OwnedHop { ia: e.ia, hop: hops[i].clone(), beta, ts: sc.ts, filler: filler.clone() });
                for p in &e.peers {
                    // as written, peer entries are MACed over the entry's own beta
                    v.push(OwnedHop { ia: e.ia, hop: Hop { flags: 0, exp: p.2.0, cin: p.2.1, ceg: p.2.2, mac: p.3 }, beta, ts: sc.ts, filler: filler.clone() });
                }
                beta ^= u16::from_be_bytes([e.mac[0], e.mac[1]]);
            }
        }
        v
    }

    /// for the ordered pairs (arrival link type, departure link type) realizable at the ASes of
    /// this topology: a packet of two 2-hop segments built from AUTHENTIC hop fields whose
    /// crossover at AS X uses exactly that pair, injected at X on the arrival interface
    pub fn xover_pair_cases(&self, rng: &mut Rng, now: u32, sum: &mut Summary) -> Vec<Case> {
        let stock = self.owned_hops(rng);
        let mut by_pair: std::collections::BTreeMap<(u8, u8), Vec<Pkt>> = Default::default();
        let names = ["core", "parent", "child", "peer"];
        for h1 in &stock {
            for c1 in [true, false] {
                let t_in = if c1 { h1.hop.cin } else { h1.hop.ceg };
                if t_in == 0 { continue; }
                let Some(ty_in) = self.if_type(h1.ia, t_in) else { continue };
                for h2 in stock.iter().filter(|h| h.ia == h1.ia) {
                    for c2 in [true, false] {
                        let t_out = if c2 { h2.hop.ceg } else { h2.hop.cin };
                        if t_out == 0 { continue; }
                        let Some(ty_out) = self.if_type(h2.ia, t_out) else { continue };
                        let e = by_pair.entry((ty_in, ty_out)).or_default();
                        if e.len() >= 3 { continue; }
                        let sigma1 = u16::from_be_bytes([h1.hop.mac[0], h1.hop.mac[1]]);
                        let segid0 = if c1 { h1.beta } else { h1.beta ^ sigma1 };
                        e.push(Pkt { src: h1.ia, dst: h1.ia, ci: 0, ch: 1, onehop: false, lens: vec![2, 2],
                            infos: vec![Info { flags: c1 as u8, segid: segid0, ts: h1.ts }, Info { flags: c2 as u8, segid: h2.beta, ts: h2.ts }],
                            hops: vec![h1.filler.clone(), h1.hop.clone(), h2.hop.clone(), h2.filler.clone()] });
                    }
                }
            }
        }
        let mut pairs: Vec<(u8, u8)> = by_pair.keys().cloned().collect();
        rng.shuffle(&mut pairs);
        // the invalid core -> core splice first when this topology has one
        pairs.sort_by_key(|p| if *p == (0, 0) { 0 } else { 1 });
        let mut out = vec![];
        for p in pairs.into_iter().take(5) {
            let pk = rng.pick(&by_pair[&p]).clone();
            let at = pk.src;
            let h1 = &pk.hops[1];
            let ifid = if pk.infos[0].flags & 1 == 1 { h1.cin } else { h1.ceg };
            let what = format!("xover_pair {}->{}", names[p.0 as usize], names[p.1 as usize]);
            sum.count(&format!("xover.{}_{}", names[p.0 as usize], names[p.1 as usize]));
            let c = self.case(&self.topo, &self.real, now, at, ifid, pk, 2, what, vec![]);
            if c.out.end != 4 { out.push(c); }
        }
        out
    }
}
