//! C13 / C01 correspondence harness: builds pocketscion topologies, asks the real segment
//! registry + combinator for paths, pushes packets (offered paths, their reverses, and
//! mutated / spliced / misinjected variants) through the real `ScionNetworkSim` iterator with
//! `SpecRoutingLogic`, and writes topology + packet + observed per-AS trace as Coq cases.
use hc_network::*;
use vcommon::*;

fn main() {
    silence_panics();
    let out = arg("--out").expect("--out");
    let n: usize = arg("--n").and_then(|s| s.parse().ok()).unwrap_or(400);
    let mode = arg("--mode").unwrap_or_else(|| "c13".into());
    let mut rng = Rng::new(seed_from_env() ^ if mode == "c01" { 0x51 } else { 0 });
    let mut sh = Shards::new(
        &out,
        "From Sci Require Import Network.Cases. Open Scope N_scope.",
        "ncase",
        if mode == "c01" { "verdicts_c01" } else { "verdicts" },
        24,
    );
    let mut sum = Summary::default();
    let mut seen = std::collections::HashSet::new();
    let mut distinct = 0usize;

    let mut emit = |c: Case, sh: &mut Shards, sum: &mut Summary| {
        let text = c.coq();
        if seen.insert(text.clone()) && c.nontrivial() {
            distinct += 1;
        }
        sum.count(&format!("kind.{}", c.kind_name()));
        sum.count(&format!("end.{}", c.end_name()));
        sum.count(&format!("hops.{}", c.pkt.hops.len().min(12)));
        sum.count(&format!("ases.{}", c.topo.ases.len()));
        if c.pkt.uses_peering() { sum.count("class.peering_flag"); }
        if sum.samples.len() < 3 { sum.samples.push(c.human()); }
        sum.index.push(c.human());
        sh.push(text);
    };

    // ---- directed topologies first (shortcut, peering, on-path, core transit, two ISDs)
    let mut topos: Vec<Topo> = directed_topos(&mut rng);
    // ---- enumerated small topologies, then random larger ones
    let n_small = if n >= 4000 { 400 } else { 36 };
    topos.extend(enumerate_small(&mut rng, n_small));
    let mut budget_per_topo = (n / (topos.len() + 6)).max(6);
    let mut produced = 0usize;
    let mut ti = 0usize;
    while produced < n {
        let topo = if ti < topos.len() { topos[ti].clone() } else {
            budget_per_topo = budget_per_topo.max(10);
            random_topo(&mut rng, if n >= 4000 { 20 } else { 12 })
        };
        ti += 1;
        let Some(world) = World::build(&topo, &mut rng) else { sum.count("topo.rejected"); continue; };
        sum.count("topo.built");
        sum.add("paths.offered", world.paths.len() as u64);
        let left = n - produced;
        let cases = world.cases(&mut rng, budget_per_topo.min(left), &mode, &mut sum);
        for c in cases {
            emit(c, &mut sh, &mut sum);
            produced += 1;
            if produced >= n { break; }
        }
        if ti > 20000 { break; }
    }
    sh.flush();
    sum.write(&out, sh.total, distinct);
}
