//! C01 correspondence harness (control plane): the segments the real pocketscion registry
//! produces (SignedPathSegment::add_entry -> AsEntry::update_macs) for generated topologies,
//! printed with the AS keys so that the beacon model recomputes every MAC.
use hc_network::*;
use vcommon::*;

fn main() {
    silence_panics();
    let out = arg("--out").expect("--out");
    let n: usize = arg("--n").and_then(|s| s.parse().ok()).unwrap_or(200);
    let mut rng = Rng::new(seed_from_env() ^ 0x5e6);
    let mut sh = Shards::new(&out, "From Sci Require Import Network.Cases. Open Scope N_scope.", "scase", "sverdicts", 16);
    let mut sum = Summary::default();
    let mut topos: Vec<Topo> = directed_topos(&mut rng);
    topos.extend(enumerate_small(&mut rng, if n >= 1000 { 200 } else { 24 }));
    let per = (n / (topos.len() + 4)).max(3);
    let mut ti = 0usize;
    let mut distinct = 0usize;
    while sh.total < n && ti < 5000 {
        let topo = if ti < topos.len() { topos[ti].clone() } else { random_topo(&mut rng, 12) };
        ti += 1;
        let Some(w) = World::build_light(&topo, &mut rng) else { continue };
        for c in w.segments(&mut rng, per.min(n - sh.total)) {
            sum.count(&format!("entries.{}", c.entries.len()));
            sum.count(&format!("peers.{}", c.entries.iter().map(|e| e.peers.len()).sum::<usize>().min(4)));
            if sum.samples.len() < 3 { sum.samples.push(c.human()); }
            sum.index.push(c.human());
            if c.entries.len() >= 2 { distinct += 1; }
            sh.push(c.coq());
        }
    }
    sh.flush();
    sum.write(&out, sh.total, distinct);
}
