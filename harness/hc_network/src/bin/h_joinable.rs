//! C01 correspondence harness (last sentence of the property): whenever the segments the
//! control plane lists for an AS pair can be joined into a route, at least one path is offered.
use hc_network::*;
use vcommon::*;

fn main() {
    silence_panics();
    let out = arg("--out").expect("--out");
    let n: usize = arg("--n").and_then(|s| s.parse().ok()).unwrap_or(200);
    let mut rng = Rng::new(seed_from_env() ^ 0x10a);
    let mut sh = Shards::new(&out, "From Sci Require Import Network.Cases. Open Scope N_scope.", "jcase", "jverdicts", 12);
    let mut sum = Summary::default();
    let mut topos: Vec<Topo> = directed_topos(&mut rng);
    topos.extend(plan_topos(&mut rng));
    topos.extend(enumerate_small(&mut rng, if n >= 1000 { 150 } else { 14 }));
    let per = (n / (topos.len() + 3)).max(4);
    let mut ti = 0usize;
    let mut distinct = 0usize;
    while sh.total < n && ti < 5000 {
        let topo = if ti < topos.len() { topos[ti].clone() } else { random_topo(&mut rng, 12) };
        ti += 1;
        let Some(w) = World::build_light(&topo, &mut rng) else { continue };
        for c in w.join_cases(&mut rng, per.min(n - sh.total)) {
            sum.count(if c.offered > 0 { "offered.some" } else { "offered.none" });
            sum.count(&format!("row.{}_{}_{}", c.row.0, c.row.1, c.row.2));
            sum.count(&format!("segments.{}", c.segs.len().min(8)));
            if sum.samples.len() < 3 { sum.samples.push(c.human()); }
            sum.index.push(c.human());
            if !c.segs.is_empty() { distinct += 1; }
            sh.push(c.coq());
        }
    }
    sh.flush();
    sum.write(&out, sh.total, distinct);
}
