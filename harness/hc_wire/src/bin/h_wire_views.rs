//! C02 correspondence harness: builds byte strings (exhaustive / sampled over the
//! size-determining fields, truncated at field boundaries), constructs every view type of
//! sciparse on them, runs every safe accessor and short safe mutator sequences under
//! `catch_unwind`, and writes what the implementation did as Coq case files
//! (`Sci.Wire.Cases_C02`).  Accessor / mutator numbering = coq/theories/Wire/Views.v.
use std::panic::{catch_unwind, AssertUnwindSafe};

use sciparse::core::view::{View, ViewConversionError as VE};
use sciparse::dataplane_path::onehop::view::OneHopPathView;
use sciparse::dataplane_path::standard::types::{HopFieldFlags, HopFieldMac, InfoFieldFlags};
use sciparse::dataplane_path::standard::view::{HopFieldView, InfoFieldView, StandardPathView};
use sciparse::dataplane_path::view::{ScionDpPathViewRef, ScionDpPathViewRefMut};
use sciparse::header::view::ScionHeaderView;
use sciparse::identifier::{asn::Asn, isd::Isd};
use sciparse::packet::view::{ScionRawPacketView, ScionScmpPacketView, ScionUdpPacketView};
use sciparse::payload::scmp::view::*;
use sciparse::payload::udp::view::UdpDatagramView;
use sciparse::address::host_addr::WireHostAddr;
use vcommon::*;

#[derive(Clone, Debug, PartialEq)]
enum AV { N(u128), L(Vec<u128>), None }
impl AV {
    fn coq(&self) -> String {
        match self {
            AV::N(n) => format!("(VN {n})"),
            AV::L(l) => format!("(VL {})", coq_list(l.iter().map(|x| x.to_string()))),
            AV::None => "VNone".into(),
        }
    }
}

/// context: base pointer of the outer view + list of absolute ranges handed out
struct Ctx { base: usize, abs: Vec<(u128, u128)> }
impl Ctx {
    fn note(&mut self, s: &[u8]) { let lo = (s.as_ptr() as usize).wrapping_sub(self.base) as u128; self.abs.push((lo, lo + s.len() as u128)); }
}
fn rel(base: &[u8], s: &[u8]) -> (u128, u128) {
    let lo = (s.as_ptr() as usize).wrapping_sub(base.as_ptr() as usize) as u128;
    (lo, lo + s.len() as u128)
}
fn range(cx: &mut Ctx, base: &[u8], s: &[u8]) -> AV { cx.note(s); let (a, b) = rel(base, s); AV::L(vec![a, b]) }

fn at_code(at: &str) -> u128 {
    match at {
        "CommonHeader" => 1, "AddressHeader" => 2, "PathMeta" => 3, "path" => 4, "TotalHeader" => 5,
        "StdPathMeta" => 6, "StdPathData" => 7, "OneHopPath" => 8, "InfoFieldView" => 9, "HopFieldView" => 10,
        "UdpHeader" => 11, "ScmpMessageHeader" => 12, "buf" => 13,
        "ScmpDestinationUnreachable" => 101, "ScmpPacketTooBig" => 102, "ScmpParameterProblem" => 104,
        "ScmpExternalInterfaceDown" => 105, "ScmpInternalConnectivityDown" => 106, "ScmpEchoRequest" => 228,
        "ScmpEchoReply" => 229, "ScmpTracerouteRequest" => 230, "ScmpTracerouteReply" => 231,
        "ScmpUnknownMessage" => 400, _ => 999,
    }
}
fn other_code(m: &str) -> u128 {
    match m {
        "InvalidHeaderLength" => 1, "UnsupportedVersion" => 2,
        "UDP length field smaller than minimum header size" => 3, "next header not UDP" => 4,
        "next header not SCMP" => 5, "Boxed buffer size does not match view size" => 6,
        "invalid dst_host_addr" => 7, "invalid src_host_addr" => 8, _ => 999,
    }
}
fn err_list(e: &VE) -> Vec<u128> {
    match e {
        VE::BufferTooSmall { at, required, actual } => vec![1, at_code(at), *required as u128, *actual as u128],
        VE::Other(m) => vec![2, other_code(m)],
    }
}

// ---------------------------------------------------------------- accessors
fn acc_info(id: u64, v: &InfoFieldView) -> AV {
    match id { 0 => AV::N(v.flags().bits() as u128), 1 => AV::N(v.segment_id() as u128), 2 => AV::N(v.timestamp() as u128), _ => AV::None }
}
fn acc_hop(id: u64, v: &HopFieldView) -> AV {
    match id {
        0 => AV::N(v.flags().bits() as u128), 1 => AV::N(v.exp_time() as u128), 2 => AV::N(v.cons_ingress() as u128),
        3 => AV::N(v.cons_egress() as u128), 4 => AV::L(v.mac().0.iter().map(|x| *x as u128).collect()), _ => AV::None,
    }
}
fn acc_std(cx: &mut Ctx, id: u64, arg: u64, v: &StandardPathView) -> AV {
    let base = v.as_slice();
    let i = arg as usize;
    match id {
        0 => AV::N(v.curr_info_field_idx() as u128), 1 => AV::N(v.curr_hop_field_idx() as u128),
        2 => AV::N(v.seg0_len() as u128), 3 => AV::N(v.seg1_len() as u128), 4 => AV::N(v.seg2_len() as u128),
        5 => AV::N(v.info_field_count() as u128), 6 => AV::N(v.hop_field_count() as u128),
        7 => v.info_field(i).map(|f| range(cx, base, f.as_slice())).unwrap_or(AV::None),
        8 => v.hop_field(i).map(|f| range(cx, base, f.as_slice())).unwrap_or(AV::None),
        9 => { let s = v.info_fields(); let b = unsafe { std::slice::from_raw_parts(s.as_ptr() as *const u8, s.len() * 8) }; range(cx, base, b) }
        10 => { let s = v.hop_fields(); let b = unsafe { std::slice::from_raw_parts(s.as_ptr() as *const u8, s.len() * 12) }; range(cx, base, b) }
        11 => v.curr_info_field().map(|f| range(cx, base, f.as_slice())).unwrap_or(AV::None),
        12 => v.curr_hop_field().map(|f| range(cx, base, f.as_slice())).unwrap_or(AV::None),
        13 => v.curr_egress_interface().map(|x| AV::N(x as u128)).unwrap_or(AV::None),
        14 => AV::N(v.expiration() as u128),
        15 => v.calculate_segment_index(i).map(|(a, b, c)| AV::L(vec![a as u128, b as u128, c as u128])).unwrap_or(AV::None),
        16 => AV::L(v.segments().map(|(inf, h)| { cx.note(inf.as_slice()); for x in h { cx.note(x.as_slice()); } h.len() as u128 }).collect()),
        20..=29 => v.info_field(i).map(|f| acc_info(id - 20, f)).unwrap_or(AV::None),
        30..=39 => v.hop_field(i).map(|f| acc_hop(id - 30, f)).unwrap_or(AV::None),
        _ => AV::None,
    }
}
fn acc_onehop(cx: &mut Ctx, id: u64, v: &OneHopPathView) -> AV {
    let base = v.as_slice();
    match id {
        0 => range(cx, base, v.info_field().as_slice()),
        1 => { let [a, b] = v.hop_fields(); cx.note(a.as_slice()); cx.note(b.as_slice());
               let (a0, a1) = rel(base, a.as_slice()); let (b0, b1) = rel(base, b.as_slice()); AV::L(vec![a0, a1, b0, b1]) }
        10..=19 => acc_info(id - 10, v.info_field()),
        20..=29 => acc_hop(id - 20, v.hop_fields()[0]),
        30..=39 => acc_hop(id - 30, v.hop_fields()[1]),
        _ => AV::None,
    }
}
fn host_av(h: Result<WireHostAddr, sciparse::address::host_addr::HostAddressSizeError>) -> AV {
    match h {
        Err(_) => AV::None,
        Ok(WireHostAddr::V4(a)) => AV::L(std::iter::once(0u128).chain(a.octets().iter().map(|x| *x as u128)).collect()),
        Ok(WireHostAddr::V6(a)) => AV::L(std::iter::once(1u128).chain(a.octets().iter().map(|x| *x as u128)).collect()),
        Ok(WireHostAddr::Svc(s)) => AV::L(vec![2, s.0 as u128]),
        Ok(WireHostAddr::Unknown { id, bytes }) => AV::L([3u128, id as u128].into_iter().chain(bytes.iter().map(|x| *x as u128)).collect()),
    }
}
fn acc_header(cx: &mut Ctx, id: u64, arg: u64, v: &ScionHeaderView) -> AV {
    let base = v.as_slice();
    match id {
        0 => AV::N(v.version() as u128), 1 => AV::N(v.traffic_class() as u128), 2 => AV::N(v.flow_id() as u128),
        3 => AV::N(u8::from(v.next_header()) as u128), 4 => AV::N(v.payload_len() as u128), 5 => AV::N(v.header_len() as u128),
        6 => AV::N(u8::from(v.path_type()) as u128), 7 => AV::N(u8::from(v.dst_addr_type()) as u128),
        8 => AV::N(u8::from(v.src_addr_type()) as u128), 9 => AV::N(v.dst_isd().0 as u128), 10 => AV::N(v.dst_as().0 as u128),
        11 => AV::N(v.src_isd().0 as u128), 12 => AV::N(v.src_as().0 as u128),
        13 => AV::N(v.dst_ia().to_u64() as u128), 14 => AV::N(v.src_ia().to_u64() as u128),
        15 => host_av(v.dst_host_addr()), 16 => host_av(v.src_host_addr()),
        17 => match v.path() {
            ScionDpPathViewRef::Empty => AV::L(vec![0]),
            ScionDpPathViewRef::Standard(p) => { cx.note(p.as_slice()); let (a, b) = rel(base, p.as_slice()); AV::L(vec![1, a, b]) }
            ScionDpPathViewRef::OneHop(p) => { cx.note(p.as_slice()); let (a, b) = rel(base, p.as_slice()); AV::L(vec![2, a, b]) }
            ScionDpPathViewRef::Unsupported { path_type, data } => { cx.note(data); let (a, b) = rel(base, data); AV::L(vec![u8::from(path_type) as u128, a, b]) }
        },
        100..=199 => match v.path() { ScionDpPathViewRef::Standard(p) => acc_std(cx, id - 100, arg, p), _ => AV::None },
        200..=299 => match v.path() { ScionDpPathViewRef::OneHop(p) => acc_onehop(cx, id - 200, p), _ => AV::None },
        _ => AV::None,
    }
}
fn acc_udp(cx: &mut Ctx, id: u64, v: &UdpDatagramView) -> AV {
    match id {
        0 => AV::N(v.src_port() as u128), 1 => AV::N(v.dst_port() as u128), 2 => AV::N(v.length() as u128),
        3 => AV::N(v.checksum() as u128), 4 => range(cx, v.as_slice(), v.payload()), _ => AV::None,
    }
}
fn acc_msg(cx: &mut Ctx, id: u64, m: ScmpMessageView<'_>) -> AV {
    use ScmpMessageView as M;
    macro_rules! common { ($v:expr, $code:expr, $tail:expr, $($f:expr),*) => {{
        let v = $v; let fields: Vec<u128> = vec![$($f(v)),*];
        match id {
            0 => AV::N(u8::from(v.message_type()) as u128), 1 => AV::N($code(v)), 2 => AV::N(v.checksum() as u128),
            3 => $tail(cx, v),
            _ => fields.get((id - 4) as usize).map(|x| AV::N(*x)).unwrap_or(AV::None),
        }
    }}}
    match m {
        M::DestinationUnreachable(v) => common!(v, |v: &ScmpDestinationUnreachableMessageView| u8::from(v.code()) as u128,
            |cx: &mut Ctx, v: &ScmpDestinationUnreachableMessageView| range(cx, v.as_slice(), v.offending_packet()),
            |v: &ScmpDestinationUnreachableMessageView| v.reserved() as u128),
        M::PacketTooBig(v) => common!(v, |v: &ScmpPacketTooBigMessageView| v.code() as u128,
            |cx: &mut Ctx, v: &ScmpPacketTooBigMessageView| range(cx, v.as_slice(), v.offending_packet()),
            |v: &ScmpPacketTooBigMessageView| v.reserved() as u128, |v: &ScmpPacketTooBigMessageView| v.mtu() as u128),
        M::ParameterProblem(v) => common!(v, |v: &ScmpParameterProblemMessageView| u8::from(v.code()) as u128,
            |cx: &mut Ctx, v: &ScmpParameterProblemMessageView| range(cx, v.as_slice(), v.offending_packet()),
            |v: &ScmpParameterProblemMessageView| v.reserved() as u128, |v: &ScmpParameterProblemMessageView| v.pointer() as u128),
        M::ExternalInterfaceDown(v) => common!(v, |v: &ScmpExternalInterfaceDownMessageView| v.code() as u128,
            |cx: &mut Ctx, v: &ScmpExternalInterfaceDownMessageView| range(cx, v.as_slice(), v.offending_packet()),
            |v: &ScmpExternalInterfaceDownMessageView| v.isd_asn().to_u64() as u128, |v: &ScmpExternalInterfaceDownMessageView| v.interface_id() as u128),
        M::InternalConnectivityDown(v) => common!(v, |v: &ScmpInternalConnectivityDownMessageView| v.code() as u128,
            |cx: &mut Ctx, v: &ScmpInternalConnectivityDownMessageView| range(cx, v.as_slice(), v.offending_packet()),
            |v: &ScmpInternalConnectivityDownMessageView| v.isd_asn().to_u64() as u128,
            |v: &ScmpInternalConnectivityDownMessageView| v.ingress_interface_id() as u128,
            |v: &ScmpInternalConnectivityDownMessageView| v.egress_interface_id() as u128),
        M::EchoRequest(v) => common!(v, |v: &ScmpEchoRequestMessageView| v.code() as u128,
            |cx: &mut Ctx, v: &ScmpEchoRequestMessageView| range(cx, v.as_slice(), v.data()),
            |v: &ScmpEchoRequestMessageView| v.identifier() as u128, |v: &ScmpEchoRequestMessageView| v.sequence_number() as u128),
        M::EchoReply(v) => common!(v, |v: &ScmpEchoReplyMessageView| v.code() as u128,
            |cx: &mut Ctx, v: &ScmpEchoReplyMessageView| range(cx, v.as_slice(), v.data()),
            |v: &ScmpEchoReplyMessageView| v.identifier() as u128, |v: &ScmpEchoReplyMessageView| v.sequence_number() as u128),
        M::TracerouteRequest(v) => common!(v, |v: &ScmpTracerouteRequestMessageView| v.code() as u128,
            |_cx: &mut Ctx, _v: &ScmpTracerouteRequestMessageView| AV::None,
            |v: &ScmpTracerouteRequestMessageView| v.identifier() as u128, |v: &ScmpTracerouteRequestMessageView| v.sequence_number() as u128,
            |v: &ScmpTracerouteRequestMessageView| v.isd_asn().to_u64() as u128, |v: &ScmpTracerouteRequestMessageView| v.interface_id() as u128),
        M::TracerouteReply(v) => common!(v, |v: &ScmpTracerouteReplyMessageView| v.code() as u128,
            |_cx: &mut Ctx, _v: &ScmpTracerouteReplyMessageView| AV::None,
            |v: &ScmpTracerouteReplyMessageView| v.identifier() as u128, |v: &ScmpTracerouteReplyMessageView| v.sequence_number() as u128,
            |v: &ScmpTracerouteReplyMessageView| v.isd_asn().to_u64() as u128, |v: &ScmpTracerouteReplyMessageView| v.interface_id() as u128),
        M::Unknown(v) => match id {
            0 => AV::N(v.message_type() as u128), 1 => AV::N(v.code() as u128), 2 => AV::N(v.checksum() as u128),
            3 => range(cx, v.as_slice(), v.message_specific_data()), _ => AV::None,
        },
    }
}
fn msg_kind(m: &ScmpMessageView<'_>) -> u128 {
    use ScmpMessageView as M;
    match m { M::DestinationUnreachable(_) => 1, M::PacketTooBig(_) => 2, M::ParameterProblem(_) => 4, M::ExternalInterfaceDown(_) => 5,
        M::InternalConnectivityDown(_) => 6, M::EchoRequest(_) => 128, M::EchoReply(_) => 129, M::TracerouteRequest(_) => 130,
        M::TracerouteReply(_) => 131, M::Unknown(_) => 256 }
}
fn acc_scmp(cx: &mut Ctx, id: u64, v: &ScmpPayloadView) -> AV {
    match id {
        0 => AV::N(u8::from(v.message_type()) as u128), 1 => AV::N(v.code() as u128), 2 => AV::N(v.checksum() as u128),
        3 => AV::N(msg_kind(&v.message())),
        4 => v.dst_port().map(|p| AV::N(p as u128)).unwrap_or(AV::None),
        10..=29 => acc_msg(cx, id - 10, v.message()),
        _ => AV::None,
    }
}
fn conv<T: View + ?Sized>(r: Result<&T, VE>) -> AV {
    match r { Ok(v) => AV::L(vec![1, v.as_slice().len() as u128]), Err(e) => AV::L(std::iter::once(0u128).chain(err_list(&e)).collect()) }
}

// ---------------------------------------------------------------- mutators
fn mut_info(id: u64, val: u64, v: &mut InfoFieldView) {
    match id { 0 => v.set_flags(InfoFieldFlags::from_bits_retain(val as u8)), 1 => v.set_segment_id(val as u16), 2 => v.set_timestamp(val as u32), _ => {} }
}
fn mut_hop(id: u64, val: u64, v: &mut HopFieldView) {
    match id {
        0 => v.set_flags(HopFieldFlags::from_bits_retain(val as u8)), 1 => v.set_exp_time(val as u8),
        2 => v.set_cons_ingress(val as u16), 3 => v.set_cons_egress(val as u16),
        4 => { let b = val.to_be_bytes(); v.set_mac(HopFieldMac([b[2], b[3], b[4], b[5], b[6], b[7]])) }
        _ => {}
    }
}
fn mut_std(cx: &mut Ctx, id: u64, arg: u64, val: u64, v: &mut StandardPathView) {
    match id {
        0 => v.set_curr_info_field(val as u8), 1 => v.set_curr_hop_field(val as u8),
        20..=29 => if let Some(f) = v.info_field_mut(arg as usize) { cx.note(f.as_slice()); mut_info(id - 20, val, f) },
        30..=39 => if let Some(f) = v.hop_field_mut(arg as usize) { cx.note(f.as_slice()); mut_hop(id - 30, val, f) },
        _ => {}
    }
}
fn mut_onehop(cx: &mut Ctx, id: u64, val: u64, v: &mut OneHopPathView) {
    match id {
        10..=19 => { let f = v.info_field_mut(); cx.note(f.as_slice()); mut_info(id - 10, val, f) }
        20..=29 => { let [a, _] = v.mut_hop_fields(); cx.note(a.as_slice()); mut_hop(id - 20, val, a) }
        30..=39 => { let [_, b] = v.mut_hop_fields(); cx.note(b.as_slice()); mut_hop(id - 30, val, b) }
        _ => {}
    }
}
fn mut_header(cx: &mut Ctx, id: u64, arg: u64, val: u64, v: &mut ScionHeaderView) {
    match id {
        0 => v.set_version(val as u8), 1 => v.set_traffic_class(val as u8), 2 => v.set_flow_id(val as u32),
        3 => v.set_next_header((val as u8).into()), 4 => v.set_src_isd(Isd(val as u16)), 5 => v.set_src_as(Asn(val)),
        6 => v.set_dst_isd(Isd(val as u16)), 7 => v.set_dst_as(Asn(val)),
        100..=199 => if let ScionDpPathViewRefMut::Standard(p) = v.path_mut() { cx.note(p.as_slice()); mut_std(cx, id - 100, arg, val, p) },
        200..=299 => if let ScionDpPathViewRefMut::OneHop(p) = v.path_mut() { cx.note(p.as_slice()); mut_onehop(cx, id - 200, val, p) },
        _ => {}
    }
}
fn poke(cx: &mut Ctx, s: &mut [u8], arg: u64, val: u64) { cx.note(s); if (arg as usize) < s.len() { s[arg as usize] = val as u8; } }
fn mut_udp(cx: &mut Ctx, id: u64, arg: u64, val: u64, v: &mut UdpDatagramView) {
    match id {
        0 => v.set_src_port(val as u16), 1 => v.set_dst_port(val as u16), 2 => v.set_length(val as u16), 3 => v.set_checksum(val as u16),
        4 => poke(cx, v.payload_mut(), arg, val), _ => {}
    }
}
fn mut_msg(cx: &mut Ctx, id: u64, arg: u64, val: u64, m: ScmpMessageViewMut<'_>) {
    use ScmpMessageViewMut as M;
    match m {
        M::DestinationUnreachable(v) => match id { 0 => v.set_code((val as u8).into()), 1 => v.set_checksum(val as u16), 2 => poke(cx, v.offending_packet_mut(), arg, val), 3 => v.set_reserved(val as u32), _ => {} },
        M::PacketTooBig(v) => match id { 0 => v.set_code(val as u8), 1 => v.set_checksum(val as u16), 2 => poke(cx, v.offending_packet_mut(), arg, val), 3 => v.set_reserved(val as u16), 4 => v.set_mtu(val as u16), _ => {} },
        M::ParameterProblem(v) => match id { 0 => v.set_code((val as u8).into()), 1 => v.set_checksum(val as u16), 2 => poke(cx, v.offending_packet_mut(), arg, val), 3 => v.set_reserved(val as u16), 4 => v.set_pointer(val as u16), _ => {} },
        M::ExternalInterfaceDown(v) => match id { 0 => v.set_code(val as u8), 1 => v.set_checksum(val as u16), 2 => poke(cx, v.offending_packet_mut(), arg, val), 3 => v.set_isd_asn(sciparse::identifier::isd_asn::IsdAsn::from_u64(val)), 4 => v.set_interface_id(val), _ => {} },
        M::InternalConnectivityDown(v) => match id { 0 => v.set_code(val as u8), 1 => v.set_checksum(val as u16), 2 => poke(cx, v.offending_packet_mut(), arg, val), 3 => v.set_isd_asn(sciparse::identifier::isd_asn::IsdAsn::from_u64(val)), 4 => v.set_ingress_interface_id(val), 5 => v.set_egress_interface_id(val), _ => {} },
        M::EchoRequest(v) => match id { 0 => v.set_code(val as u8), 1 => v.set_checksum(val as u16), 2 => poke(cx, v.data_mut(), arg, val), 3 => v.set_identifier(val as u16), 4 => v.set_sequence_number(val as u16), _ => {} },
        M::EchoReply(v) => match id { 0 => v.set_code(val as u8), 1 => v.set_checksum(val as u16), 2 => poke(cx, v.data_mut(), arg, val), 3 => v.set_identifier(val as u16), 4 => v.set_sequence_number(val as u16), _ => {} },
        M::TracerouteRequest(v) => match id { 0 => v.set_code(val as u8), 1 => v.set_checksum(val as u16), 3 => v.set_identifier(val as u16), 4 => v.set_sequence_number(val as u16), 5 => v.set_isd_asn(sciparse::identifier::isd_asn::IsdAsn::from_u64(val)), 6 => v.set_interface_id(val), _ => {} },
        M::TracerouteReply(v) => match id { 0 => v.set_code(val as u8), 1 => v.set_checksum(val as u16), 3 => v.set_identifier(val as u16), 4 => v.set_sequence_number(val as u16), 5 => v.set_isd_asn(sciparse::identifier::isd_asn::IsdAsn::from_u64(val)), 6 => v.set_interface_id(val), _ => {} },
        M::Unknown(v) => match id { 0 => v.set_code(val as u8), 1 => v.set_checksum(val as u16), 2 => poke(cx, v.message_specific_data_mut(), arg, val), _ => {} },
    }
}
fn mut_scmp(cx: &mut Ctx, id: u64, arg: u64, val: u64, v: &mut ScmpPayloadView) {
    match id { 0 => v.set_code(val as u8), 1 => v.set_checksum(val as u16), 10..=29 => mut_msg(cx, id - 10, arg, val, v.message_mut()), _ => {} }
}

// ---------------------------------------------------------------- constructor families
/// one observation: (family, arg, (class, numbers)); numbering = Views.run_ctor
type CObs = (u64, u64, (u64, Vec<u128>));
fn cres(r: std::thread::Result<Result<Vec<u128>, VE>>) -> (u64, Vec<u128>) {
    match r { Err(_) => (99, vec![]), Ok(Err(e)) => (0, err_list(&e)), Ok(Ok(l)) => (1, l) }
}
fn owned_lens<T: View + ?Sized>(bx: Box<T>) -> Vec<u128> {
    let reported = bx.as_slice().len() as u128;
    let owned = bx.as_slice_boxed().len() as u128;
    vec![reported, owned]
}
/// every constructor family of the `View` trait on `buf`; `dsts` = destination sizes for copy_to_slice
fn boxed_exact_probe() -> bool {
    static P: std::sync::OnceLock<bool> = std::sync::OnceLock::new();
    *P.get_or_init(|| {
        // seg0 = 1: 4 + 8 + 12 = 24 bytes required, 25 given
        let mut b = vec![0u8; 25]; b[2] = 0x10;
        StandardPathView::has_required_size(&b).ok() == Some(24) && StandardPathView::try_from_boxed(b.into_boxed_slice()).is_err()
    })
}
fn ctor_obs<T: View + ?Sized>(buf: &[u8], dsts: &[usize], fixed: bool) -> Vec<CObs> {
    let mut out: Vec<CObs> = vec![];
    // 0: try_from_slice
    out.push((0, 0, cres(catch_unwind(AssertUnwindSafe(|| T::try_from_slice(buf).map(|(v, rest)| {
        let (a, _) = rel(buf, v.as_slice()); let (c, _) = rel(buf, rest);
        vec![v.as_slice().len() as u128, rest.len() as u128, a, c] }))))));
    // 1: try_from_mut_slice (on a copy)
    out.push((1, 0, cres(catch_unwind(AssertUnwindSafe(|| { let mut m = buf.to_vec(); let base = m.as_ptr() as usize;
        T::try_from_mut_slice(&mut m).map(|(v, rest)| {
            let a = (v.as_slice().as_ptr() as usize).wrapping_sub(base) as u128; let c = (rest.as_ptr() as usize).wrapping_sub(base) as u128;
            vec![v.as_slice().len() as u128, rest.len() as u128, a, c] }) })))));
    // 2: try_from_boxed: the box is the WHOLE input.  Guard: a fixed-size view reinterprets the box as
    // Box<[u8; N]> unchecked, so if the exact-size check is gone (probed once on a slice-backed view)
    // calling it with another length would be undefined behaviour IN THE HARNESS: report class 97.
    let would_be_ub = fixed && !boxed_exact_probe() && T::has_required_size(buf).map(|n| n != buf.len()).unwrap_or(false);
    if would_be_ub { out.push((2, 0, (97, vec![]))); } else {
    out.push((2, 0, cres(catch_unwind(AssertUnwindSafe(|| T::try_from_boxed(buf.to_vec().into_boxed_slice()).map(owned_lens))))));
    }
    // 3: to_boxed of the borrowed view
    out.push((3, 0, cres(catch_unwind(AssertUnwindSafe(|| T::try_from_slice(buf).map(|(v, _)| owned_lens(v.to_boxed())))))));
    // 4: copy_to_slice of the borrowed view into `d` bytes
    for &d in dsts {
        out.push((4, d as u64, cres(catch_unwind(AssertUnwindSafe(|| T::try_from_slice(buf).and_then(|(v, _)| { let mut dst = vec![0x5au8; d];
            v.copy_to_slice(&mut dst).map(|(w, rest)| vec![w.as_slice().len() as u128, rest.len() as u128, (w.as_slice() == v.as_slice()) as u128]) }))))));
    }
    out
}
fn ctor_case(k: K, buf: &[u8], n_hint: usize) -> Vec<CObs> {
    let dsts = [n_hint.saturating_sub(1), n_hint, n_hint + 5];
    let mut v = match k {
        K::Header => ctor_obs::<ScionHeaderView>(buf, &dsts, false), K::Std => ctor_obs::<StandardPathView>(buf, &dsts, false),
        K::OneHop => ctor_obs::<OneHopPathView>(buf, &dsts, true), K::Info => ctor_obs::<InfoFieldView>(buf, &dsts, true),
        K::Hop => ctor_obs::<HopFieldView>(buf, &dsts, true), K::Raw => ctor_obs::<ScionRawPacketView>(buf, &dsts, false),
        K::UdpPkt => ctor_obs::<ScionUdpPacketView>(buf, &dsts, false), K::ScmpPkt => ctor_obs::<ScionScmpPacketView>(buf, &dsts, false),
        K::Udp => ctor_obs::<UdpDatagramView>(buf, &dsts, false), K::Scmp => ctor_obs::<ScmpPayloadView>(buf, &dsts, false),
        K::Msg(1) => ctor_obs::<ScmpDestinationUnreachableMessageView>(buf, &dsts, false), K::Msg(2) => ctor_obs::<ScmpPacketTooBigMessageView>(buf, &dsts, false),
        K::Msg(4) => ctor_obs::<ScmpParameterProblemMessageView>(buf, &dsts, false), K::Msg(5) => ctor_obs::<ScmpExternalInterfaceDownMessageView>(buf, &dsts, false),
        K::Msg(6) => ctor_obs::<ScmpInternalConnectivityDownMessageView>(buf, &dsts, false), K::Msg(128) => ctor_obs::<ScmpEchoRequestMessageView>(buf, &dsts, false),
        K::Msg(129) => ctor_obs::<ScmpEchoReplyMessageView>(buf, &dsts, false), K::Msg(130) => ctor_obs::<ScmpTracerouteRequestMessageView>(buf, &dsts, false),
        K::Msg(131) => ctor_obs::<ScmpTracerouteReplyMessageView>(buf, &dsts, false), K::Msg(_) => ctor_obs::<ScmpUnknownMessageView>(buf, &dsts, false),
    };
    // owned packet conversions
    match k {
        K::Raw => {
            v.push((5, 0, cres(catch_unwind(AssertUnwindSafe(|| ScionRawPacketView::try_from_boxed(buf.to_vec().into_boxed_slice()).and_then(|b| b.try_into_udp()).map(owned_lens))))));
            v.push((6, 0, cres(catch_unwind(AssertUnwindSafe(|| ScionRawPacketView::try_from_boxed(buf.to_vec().into_boxed_slice()).and_then(|b| b.try_into_scmp()).map(owned_lens))))));
        }
        K::UdpPkt => v.push((7, 0, cres(catch_unwind(AssertUnwindSafe(|| ScionUdpPacketView::try_from_boxed(buf.to_vec().into_boxed_slice()).map(|b| owned_lens(b.into_raw()))))))),
        K::ScmpPkt => v.push((7, 0, cres(catch_unwind(AssertUnwindSafe(|| ScionScmpPacketView::try_from_boxed(buf.to_vec().into_boxed_slice()).map(|b| owned_lens(b.into_raw()))))))),
        _ => {}
    }
    v
}

// ---------------------------------------------------------------- view dispatch
#[derive(Clone, Copy, PartialEq, Debug)]
enum K { Header, Std, OneHop, Info, Hop, Raw, UdpPkt, ScmpPkt, Udp, Scmp, Msg(u16) }
impl K {
    fn code(self) -> u64 { match self { K::Header => 0, K::Std => 1, K::OneHop => 2, K::Info => 3, K::Hop => 4, K::Raw => 5, K::UdpPkt => 6, K::ScmpPkt => 7, K::Udp => 8, K::Scmp => 9, K::Msg(t) => 1000 + t as u64 } }
}
fn required(k: K, b: &[u8]) -> Result<usize, VE> {
    match k {
        K::Header => ScionHeaderView::has_required_size(b), K::Std => StandardPathView::has_required_size(b),
        K::OneHop => OneHopPathView::has_required_size(b), K::Info => InfoFieldView::has_required_size(b),
        K::Hop => HopFieldView::has_required_size(b), K::Raw => ScionRawPacketView::has_required_size(b),
        K::UdpPkt => ScionUdpPacketView::has_required_size(b), K::ScmpPkt => ScionScmpPacketView::has_required_size(b),
        K::Udp => UdpDatagramView::has_required_size(b), K::Scmp => ScmpPayloadView::has_required_size(b),
        K::Msg(1) => ScmpDestinationUnreachableMessageView::has_required_size(b), K::Msg(2) => ScmpPacketTooBigMessageView::has_required_size(b),
        K::Msg(4) => ScmpParameterProblemMessageView::has_required_size(b), K::Msg(5) => ScmpExternalInterfaceDownMessageView::has_required_size(b),
        K::Msg(6) => ScmpInternalConnectivityDownMessageView::has_required_size(b), K::Msg(128) => ScmpEchoRequestMessageView::has_required_size(b),
        K::Msg(129) => ScmpEchoReplyMessageView::has_required_size(b), K::Msg(130) => ScmpTracerouteRequestMessageView::has_required_size(b),
        K::Msg(131) => ScmpTracerouteReplyMessageView::has_required_size(b), K::Msg(_) => ScmpUnknownMessageView::has_required_size(b),
    }
}
fn typed_msg<'a>(t: u16, vb: &'a [u8]) -> ScmpMessageView<'a> {
    unsafe {
        match t {
            1 => ScmpDestinationUnreachableMessageView::from_slice_unchecked(vb).into(), 2 => ScmpPacketTooBigMessageView::from_slice_unchecked(vb).into(),
            4 => ScmpParameterProblemMessageView::from_slice_unchecked(vb).into(), 5 => ScmpExternalInterfaceDownMessageView::from_slice_unchecked(vb).into(),
            6 => ScmpInternalConnectivityDownMessageView::from_slice_unchecked(vb).into(), 128 => ScmpEchoRequestMessageView::from_slice_unchecked(vb).into(),
            129 => ScmpEchoReplyMessageView::from_slice_unchecked(vb).into(), 130 => ScmpTracerouteRequestMessageView::from_slice_unchecked(vb).into(),
            131 => ScmpTracerouteReplyMessageView::from_slice_unchecked(vb).into(), _ => ScmpUnknownMessageView::from_slice_unchecked(vb).into(),
        }
    }
}
/// run accessor `id` on the view over `vb` (vb = exactly the bytes the constructor reported:
/// `try_from_slice` does the same split)
fn run_acc(cx: &mut Ctx, k: K, id: u64, arg: u64, vb: &[u8]) -> AV {
    unsafe {
        match k {
            K::Header => acc_header(cx, id, arg, ScionHeaderView::from_slice_unchecked(vb)),
            K::Std => acc_std(cx, id, arg, StandardPathView::from_slice_unchecked(vb)),
            K::OneHop => acc_onehop(cx, id, OneHopPathView::from_slice_unchecked(vb)),
            K::Info => acc_info(id, InfoFieldView::from_slice_unchecked(vb)),
            K::Hop => acc_hop(id, HopFieldView::from_slice_unchecked(vb)),
            K::Udp => acc_udp(cx, id, UdpDatagramView::from_slice_unchecked(vb)),
            K::Scmp => acc_scmp(cx, id, ScmpPayloadView::from_slice_unchecked(vb)),
            K::Msg(t) => acc_msg(cx, id, typed_msg(t, vb)),
            K::Raw => {
                let v = ScionRawPacketView::from_slice_unchecked(vb);
                match id {
                    0 => { let h = v.header().as_slice(); cx.note(h); AV::L(vec![0, h.len() as u128]) }
                    1 => range(cx, vb, v.payload()),
                    2 => AV::N(v.src_scion_addr().is_ok() as u128), 3 => AV::N(v.dst_scion_addr().is_ok() as u128),
                    4 => conv(v.try_as_udp()), 5 => conv(v.try_as_scmp()),
                    1000.. => acc_header(cx, id - 1000, arg, v.header()),
                    _ => AV::None,
                }
            }
            K::UdpPkt => {
                let v = ScionUdpPacketView::from_slice_unchecked(vb);
                match id {
                    0 => { let h = v.header().as_slice(); cx.note(h); AV::L(vec![0, h.len() as u128]) }
                    1 => range(cx, vb, v.payload()),
                    2 => AV::N(v.src_scion_addr().is_ok() as u128), 3 => AV::N(v.dst_scion_addr().is_ok() as u128),
                    10 => range(cx, vb, v.udp().as_slice()),
                    50..=99 => acc_udp(cx, id - 50, v.udp()),
                    1000.. => acc_header(cx, id - 1000, arg, v.header()),
                    _ => AV::None,
                }
            }
            K::ScmpPkt => {
                let v = ScionScmpPacketView::from_slice_unchecked(vb);
                match id {
                    0 => { let h = v.header().as_slice(); cx.note(h); AV::L(vec![0, h.len() as u128]) }
                    1 => range(cx, vb, v.payload()),
                    2 => AV::N(v.src_scion_addr().is_ok() as u128), 3 => AV::N(v.dst_scion_addr().is_ok() as u128),
                    10 => range(cx, vb, v.scmp().as_slice()),
                    50..=99 => acc_scmp(cx, id - 50, v.scmp()),
                    1000.. => acc_header(cx, id - 1000, arg, v.header()),
                    _ => AV::None,
                }
            }
        }
    }
}
fn run_mut(cx: &mut Ctx, k: K, id: u64, arg: u64, val: u64, vb: &mut [u8]) {
    unsafe {
        match k {
            K::Header => mut_header(cx, id, arg, val, ScionHeaderView::from_mut_slice_unchecked(vb)),
            K::Std => mut_std(cx, id, arg, val, StandardPathView::from_mut_slice_unchecked(vb)),
            K::OneHop => mut_onehop(cx, id, val, OneHopPathView::from_mut_slice_unchecked(vb)),
            K::Info => mut_info(id, val, InfoFieldView::from_mut_slice_unchecked(vb)),
            K::Hop => mut_hop(id, val, HopFieldView::from_mut_slice_unchecked(vb)),
            K::Udp => mut_udp(cx, id, arg, val, UdpDatagramView::from_mut_slice_unchecked(vb)),
            K::Scmp => mut_scmp(cx, id, arg, val, ScmpPayloadView::from_mut_slice_unchecked(vb)),
            K::Msg(_) => {}
            K::Raw => { let v = ScionRawPacketView::from_mut_slice_unchecked(vb);
                match id { 1 => poke(cx, v.payload_mut(), arg, val), 1000.. => { let h = v.header_mut(); cx.note(h.as_slice()); mut_header(cx, id - 1000, arg, val, h) } _ => {} } }
            K::UdpPkt => { let v = ScionUdpPacketView::from_mut_slice_unchecked(vb);
                match id { 1000.. => { let h = v.header_mut(); cx.note(h.as_slice()); mut_header(cx, id - 1000, arg, val, h) } _ => {} } }
            K::ScmpPkt => { let v = ScionScmpPacketView::from_mut_slice_unchecked(vb);
                match id { 1000.. => { let h = v.header_mut(); cx.note(h.as_slice()); mut_header(cx, id - 1000, arg, val, h) } _ => {} } }
        }
    }
}
/// the two mutators that were safe fns before the C02 repairs (called through `unsafe` so that
/// the harness builds on both the unrepaired and the repaired tree)
#[allow(unused_unsafe)]
fn run_legacy(cx: &mut Ctx, k: K, which: u64, arg: u64, val: u64, vb: &mut [u8]) {
    unsafe {
        match (which, k) {
            (0, K::UdpPkt) => { let v = ScionUdpPacketView::from_mut_slice_unchecked(vb); let raw = unsafe { v.as_raw_mut() }; poke(cx, raw.payload_mut(), arg, val) }
            (1, K::Scmp) => { let v = ScmpPayloadView::from_mut_slice_unchecked(vb);
                if let ScmpMessageViewMut::Unknown(u) = v.message_mut() { unsafe { u.set_message_type(val as u8) } } }
            _ => {}
        }
    }
}

// ---------------------------------------------------------------- operations per kind
fn acc_list(k: K, rng: &mut Rng) -> Vec<(u64, u64)> {
    let idx = |rng: &mut Rng| *rng.pick(&[0u64, 0, 1, 2, 3, 5, 62, 63, 64, 188, 189, 200]);
    let std = |off: u64, rng: &mut Rng| { let mut v: Vec<(u64, u64)> = (0..=6).map(|i| (off + i, 0)).collect();
        for id in [7, 8, 15, 20, 21, 22, 30, 31, 32, 33, 34] { v.push((off + id, idx(rng))); v.push((off + id, idx(rng))); }
        for id in [9, 10, 11, 12, 13, 14, 16] { v.push((off + id, 0)); } v };
    let onehop = |off: u64| -> Vec<(u64, u64)> { [0, 1, 10, 11, 12, 20, 21, 22, 23, 24, 30, 31, 32, 33, 34].iter().map(|i| (off + i, 0)).collect() };
    let header = |off: u64, rng: &mut Rng| { let mut v: Vec<(u64, u64)> = (0..=17).map(|i| (off + i, 0)).collect(); v.extend(std(off + 100, rng)); v.extend(onehop(off + 200)); v };
    let udp = |off: u64| -> Vec<(u64, u64)> { (0..=4).map(|i| (off + i, 0)).collect() };
    let scmp = |off: u64| -> Vec<(u64, u64)> { let mut v: Vec<(u64, u64)> = (0..=4).map(|i| (off + i, 0)).collect(); v.extend((10..=18).map(|i| (off + i, 0))); v };
    match k {
        K::Header => header(0, rng), K::Std => std(0, rng), K::OneHop => onehop(0),
        K::Info => (0..3).map(|i| (i, 0)).collect(), K::Hop => (0..5).map(|i| (i, 0)).collect(),
        K::Udp => udp(0), K::Scmp => scmp(0), K::Msg(_) => (0..=8).map(|i| (i, 0)).collect(),
        K::Raw => { let mut v: Vec<(u64, u64)> = (0..=5).map(|i| (i, 0)).collect(); v.extend(header(1000, rng)); v }
        K::UdpPkt => { let mut v: Vec<(u64, u64)> = vec![(0, 0), (1, 0), (2, 0), (3, 0), (10, 0)]; v.extend(udp(50)); v.extend(header(1000, rng)); v }
        K::ScmpPkt => { let mut v: Vec<(u64, u64)> = vec![(0, 0), (1, 0), (2, 0), (3, 0), (10, 0)]; v.extend(scmp(50)); v.extend(header(1000, rng)); v }
    }
}
fn mut_ids(k: K) -> Vec<u64> {
    let std = |o: u64| -> Vec<u64> { [0, 1, 20, 21, 22, 30, 31, 32, 33, 34].iter().map(|i| o + i).collect() };
    let onehop = |o: u64| -> Vec<u64> { [10, 11, 12, 20, 21, 22, 23, 24, 30, 31, 32, 33, 34].iter().map(|i| o + i).collect() };
    let header = |o: u64| { let mut v: Vec<u64> = (0..=7).map(|i| o + i).collect(); v.extend(std(o + 100)); v.extend(onehop(o + 200)); v };
    match k {
        K::Header => header(0), K::Std => std(0), K::OneHop => onehop(0), K::Info => vec![0, 1, 2], K::Hop => vec![0, 1, 2, 3, 4],
        K::Udp => vec![0, 1, 2, 3, 4], K::Scmp => { let mut v = vec![0, 1]; v.extend(10..=16); v }, K::Msg(_) => vec![],
        K::Raw => { let mut v = vec![1]; v.extend(header(1000)); v }, K::UdpPkt | K::ScmpPkt => header(1000),
    }
}

enum Op { A(u64, u64, Option<AV>), M(u64, u64, u64, bool), L(u64, u64, u64, bool) }

struct CaseOut { kind: K, buf: Vec<u8>, res: (u64, Vec<u128>), ops: Vec<Op>, fin: Vec<u8>, abs: Vec<(u128, u128)>, ctors: Vec<CObs>, tag: String }

fn run_case(k: K, buf: &[u8], plan: &[PlanOp], tag: &str) -> CaseOut {
    let r = catch_unwind(AssertUnwindSafe(|| required(k, buf)));
    let mut out = CaseOut { kind: k, buf: buf.to_vec(), res: (99, vec![]), ops: vec![], fin: vec![], abs: vec![], ctors: vec![], tag: tag.into() };
    // every constructor family on the same input (also when the size function refuses it)
    out.ctors = ctor_case(k, buf, match &r { Ok(Ok(n)) => *n, _ => buf.len() });
    let n = match r {
        Err(_) => return out,
        Ok(Err(e)) => { out.res = (0, err_list(&e)); return out; }
        Ok(Ok(n)) => { out.res = (1, vec![n as u128]); n }
    };
    if n > buf.len() { return out; }   // the oracle flags it; do not touch memory
    let mut vb = buf[..n].to_vec();
    let mut cx = Ctx { base: vb.as_ptr() as usize, abs: vec![] };
    for p in plan {
        match *p {
            PlanOp::A(id, arg) => {
                let r = catch_unwind(AssertUnwindSafe(|| run_acc(&mut cx, k, id, arg, &vb)));
                out.ops.push(Op::A(id, arg, r.ok()));
            }
            PlanOp::M(id, arg, val) => {
                let r = catch_unwind(AssertUnwindSafe(|| run_mut(&mut cx, k, id, arg, val, &mut vb)));
                let p = r.is_err(); out.ops.push(Op::M(id, arg, val, p)); if p { break; }
            }
            PlanOp::L(w, arg, val) => {
                let r = catch_unwind(AssertUnwindSafe(|| run_legacy(&mut cx, k, w, arg, val, &mut vb)));
                let p = r.is_err(); out.ops.push(Op::L(w, arg, val, p)); if p { break; }
            }
        }
    }
    out.fin = vb.clone();
    out.abs = cx.abs; out.abs.sort(); out.abs.dedup();
    out
}
#[derive(Clone, Copy)]
enum PlanOp { A(u64, u64), M(u64, u64, u64), L(u64, u64, u64) }

// ---------------------------------------------------------------- buffer generation
#[derive(Clone)]
struct Spec { ver: u8, pt: u8, dt: u8, st: u8, segs: (u8, u8, u8), hl_delta: i32, nh: u8, pl: Vec<u8>, pl_delta: i32, curr: (u8, u8), fill: u8 }
fn hat_size(n: u8) -> usize { match n { 0 => 4, 3 => 16, 4 => 4, o => (((o & 3) + 1) * 4) as usize } }
fn build(s: &Spec) -> (Vec<u8>, Vec<usize>) {
    // returns bytes and the list of field boundaries
    let mut b = vec![0u8; 12];
    let mut marks = vec![0usize, 12];
    b[0] = s.ver << 4 | 0x0a; b[1] = 0xbc; b[2] = 0xde; b[3] = 0xf1; b[4] = s.nh;
    b[8] = s.pt; b[9] = (s.dt << 4) | (s.st & 0xf); b[10] = 0; b[11] = 0;
    for i in 0..16 { b.push(0x10 + i as u8); }
    for i in 0..hat_size(s.dt) { b.push(if s.dt == 4 && i >= 2 { 0 } else { 0xd0 + i as u8 }); }
    for i in 0..hat_size(s.st) { b.push(0x50 + i as u8); }
    marks.push(b.len());
    match s.pt {
        1 => {
            let (a, c, d) = s.segs;
            let meta: u32 = ((s.curr.0 as u32 & 3) << 30) | ((s.curr.1 as u32 & 63) << 24) | ((a as u32 & 63) << 12) | ((c as u32 & 63) << 6) | (d as u32 & 63);
            b.extend_from_slice(&meta.to_be_bytes());
            marks.push(b.len());
            let ni = (a > 0) as usize + (c > 0) as usize + (d > 0) as usize;
            for i in 0..ni { b.extend_from_slice(&[(i as u8) & 1, 0, 0x11, 0x22 + i as u8, 0x65, 0, 0, i as u8]); }
            marks.push(b.len());
            let nh = a as usize + c as usize + d as usize;
            for i in 0..nh { b.extend_from_slice(&[0, s.fill.wrapping_add(i as u8), 0, i as u8, 0, (i + 1) as u8, 1, 2, 3, 4, 5, i as u8]); }
        }
        2 => { b.extend_from_slice(&[1, 0, 0xaa, 0xbb, 0xff, 0xff, 0xff, s.fill]); for i in 0..2u8 { b.extend_from_slice(&[0, 63 + i, 0, i, 0, 7, 9, 9, 9, 9, 9, i]); } }
        0 => {}
        _ => { for i in 0..(s.fill as usize % 5) * 4 { b.push(i as u8); } }
    }
    let hdr = b.len();
    marks.push(hdr);
    let units = (hdr as i64 / 4 + s.hl_delta as i64).clamp(0, 255) as u8;
    b[5] = units;
    let pl = (s.pl.len() as i64 + s.pl_delta as i64).clamp(0, 65535) as u16;
    b[6..8].copy_from_slice(&pl.to_be_bytes());
    b.extend_from_slice(&s.pl);
    marks.push(hdr + 4); marks.push(hdr + 8); marks.push(hdr + 20); marks.push(hdr + 24); marks.push(hdr + 28);
    marks.push(b.len());
    (b, marks)
}
fn udp_payload(len_field: i32, data: usize, fill: u8) -> Vec<u8> {
    let mut p = vec![0x30, 0x39, 0x01, 0xbb, 0, 0, 0x12, 0x34];
    let l = if len_field == i32::MIN { (8 + data) as u16 } else { len_field.clamp(0, 65535) as u16 };
    p[4..6].copy_from_slice(&l.to_be_bytes());
    p.extend(std::iter::repeat(fill).take(data));
    p
}
fn scmp_payload(ty: u8, len: usize, inner: Option<Vec<u8>>) -> Vec<u8> {
    let mut p = vec![ty, 3, 0xab, 0xcd];
    for i in 4..len { p.push(i as u8); }
    p.truncate(len.max(0));
    if let Some(q) = inner { let h = match ty { 5 => 20, 6 => 28, _ => 8 }; if p.len() >= h { p.truncate(h); p.extend(q); } }
    p
}
const PTS: [u8; 6] = [0, 1, 2, 3, 4, 77];
const SEGV: [u8; 6] = [0, 1, 2, 31, 62, 63];
const SCMP_T: [u8; 12] = [1, 2, 4, 5, 6, 128, 129, 130, 131, 0, 3, 200];

fn random_spec(rng: &mut Rng) -> Spec {
    let pt = *rng.pick(&PTS);
    let nib = |rng: &mut Rng| if rng.chance(1, 2) { *rng.pick(&[0u8, 3, 4]) } else { rng.below(16) as u8 };
    let small = rng.chance(2, 3);
    let seg = |rng: &mut Rng| if small { *rng.pick(&[0u8, 1, 2, 3]) } else { *rng.pick(&SEGV) };
    let nh = *rng.pick(&[17u8, 17, 202, 202, 6, 0]);
    let pl = match nh {
        17 => { let d = *rng.pick(&[0usize, 1, 5, 40]); let lf = *rng.pick(&[i32::MIN, i32::MIN, 0, 7, 8, 9, 12, 65535]); let mut p = udp_payload(lf, d, 0x77); if rng.chance(1, 6) { p.truncate(rng.below(9) as usize); } p }
        202 => { let t = *rng.pick(&SCMP_T); let l = *rng.pick(&[0usize, 3, 4, 7, 8, 9, 19, 20, 21, 23, 24, 25, 27, 28, 29, 40]);
                 let inner = if rng.chance(1, 3) { let mut s2 = Spec { ver: 0, pt: *rng.pick(&[0u8, 1, 2]), dt: 0, st: 0, segs: (1, 0, 0), hl_delta: 0, nh: 17, pl: udp_payload(i32::MIN, 3, 1), pl_delta: 0, curr: (0, 0), fill: 1 };
                     if rng.chance(1, 4) { s2.nh = 6; } let (mut q, _) = build(&s2); if rng.chance(1, 3) { let n = rng.below(q.len() as u64 + 1) as usize; q.truncate(n); } Some(q) } else { None };
                 scmp_payload(t, l, inner) }
        _ => vec![9; rng.below(12) as usize],
    };
    Spec { ver: if rng.chance(1, 20) { rng.range(1, 15) as u8 } else { 0 }, pt, dt: nib(rng), st: nib(rng), segs: (seg(rng), seg(rng), seg(rng)),
        hl_delta: *rng.pick(&[0, 0, 0, 0, -1, 1]), nh, pl, pl_delta: *rng.pick(&[0, 0, 0, -1, 1, 30, -5]),
        curr: (rng.below(4) as u8, *rng.pick(&[0u8, 1, 2, 5, 62, 63])), fill: rng.below(256) as u8 }
}

fn emit(sh: &mut Shards, sum: &mut Summary, seen: &mut std::collections::HashSet<String>, c: CaseOut) {
    let ops = coq_list(c.ops.iter().map(|o| match o {
        Op::A(id, arg, Some(v)) => format!("OA {id} {arg} (OV {})", v.coq()),
        Op::A(id, arg, None) => format!("OA {id} {arg} OPanic"),
        Op::M(id, arg, val, p) => format!("OM {id} {arg} {val} {}", coq_bool(*p)),
        Op::L(w, arg, val, p) => format!("OL {w} {arg} {val} {}", coq_bool(*p)),
    }));
    let res = format!("({},{})", c.res.0, coq_list(c.res.1.iter().map(|x| x.to_string())));
    let abs = coq_list(c.abs.iter().map(|(a, b)| format!("({a},{b})")));
    let ctors = coq_list(c.ctors.iter().map(|(f, a, (cl, l))| format!("CO {f} {a} ({cl},{})", coq_list(l.iter().map(|x| x.to_string())))));
    let nctor_ok = c.ctors.iter().filter(|(_, _, (cl, _))| *cl == 1).count();
    sum.add("ctor_calls", c.ctors.len() as u64);
    sum.add("ctor_ok", nctor_ok as u64);
    if c.ctors.iter().any(|(f, _, (cl, _))| *f == 2 && *cl == 1) { sum.count("boxed.accepted"); }
    if c.ctors.iter().any(|(f, _, (cl, l))| *f == 2 && *cl == 0 && l == &vec![2u128, 6]) { sum.count("boxed.rejected_size_mismatch"); }
    let case = format!("mkVC {} {} {} {} {} {} {}", c.kind.code(), coq_rle(&c.buf), res, ops, coq_rle(&c.fin), abs, ctors);
    let npanic = c.ops.iter().filter(|o| matches!(o, Op::A(_, _, None) | Op::M(_, _, _, true) | Op::L(_, _, _, true))).count();
    let human = format!("{} kind={:?} len={} result=({},{:?}) ops={} panics={} hex={}", c.tag, c.kind, c.buf.len(), c.res.0, c.res.1, c.ops.len(), npanic,
        c.buf.iter().take(96).map(|x| format!("{x:02x}")).collect::<String>());
    sum.count(&format!("kind.{}", match c.kind { K::Msg(_) => "Msg".to_string(), k => format!("{k:?}") }));
    sum.count(&format!("result.{}", match c.res.0 { 1 => "ok".to_string(), 99 => "panic".to_string(), _ => format!("err{}_{}", c.res.1[0], c.res.1[1]) }));
    sum.add("ops", c.ops.len() as u64);
    sum.add("op_panics", npanic as u64);
    if seen.insert(case.clone()) && c.res.0 == 1 { sum.count("distinct_nontrivial"); }
    if sum.samples.len() < 3 && c.res.0 == 1 { sum.samples.push(human.clone()); }
    sum.index.push(human);
    sh.push(case);
}

fn kinds_for(buf_kind: u8) -> Vec<K> {
    match buf_kind { 0 => vec![K::Header, K::Raw, K::UdpPkt, K::ScmpPkt], _ => vec![] }
}

/// directed inputs for the constructor families: for every view kind a buffer of exactly the
/// required size, the same one byte short, and the same with 1 / 3 / 17 / 4099 trailing bytes
fn directed_ctor_inputs() -> Vec<(K, Vec<u8>, String)> {
    let mut bases: Vec<(K, Vec<u8>)> = vec![];
    for pt in [0u8, 1, 2] {
        let mk = |nh: u8, pl: Vec<u8>| Spec { ver: 0, pt, dt: 0, st: 3, segs: (2, 1, 0), hl_delta: 0, nh, pl, pl_delta: 0, curr: (0, 1), fill: 7 };
        let (b, m) = build(&mk(6, vec![9; 9]));
        if pt == 1 { bases.push((K::Header, b.clone())); bases.push((K::Std, b[m[2]..m[m.len() - 7]].to_vec())); }
        if pt == 2 { bases.push((K::OneHop, b[m[2]..m[m.len() - 7]].to_vec())); }
        bases.push((K::Raw, b));
        bases.push((K::UdpPkt, build(&mk(17, udp_payload(i32::MIN, 4, 7))).0));
        bases.push((K::ScmpPkt, build(&mk(202, scmp_payload(128, 12, None))).0));
    }
    bases.push((K::Info, vec![1, 0, 0x11, 0x22, 0x65, 0, 0, 1, 0xee, 0xee]));
    bases.push((K::Hop, vec![0, 63, 0, 1, 0, 2, 1, 2, 3, 4, 5, 6, 0xee, 0xee]));
    bases.push((K::Udp, udp_payload(i32::MIN, 5, 3)));
    for &t in &SCMP_T { bases.push((K::Scmp, scmp_payload(t, 30, None))); bases.push((K::Msg(t as u16), scmp_payload(t, 30, None))); }
    let mut out = vec![];
    for (k, cand) in bases {
        let n = match required(k, &cand) { Ok(n) if n <= cand.len() => n, _ => cand.len() };
        let exact = cand[..n].to_vec();
        out.push((k, exact[..n.saturating_sub(1)].to_vec(), "ctor:short1".to_string()));
        for extra in [0usize, 1, 3, 17, 4099] {
            let mut b = exact.clone(); b.extend(std::iter::repeat(0xaau8).take(extra));
            out.push((k, b, format!("ctor:exact+{extra}")));
        }
    }
    out
}

fn main() {
    silence_panics();
    let out = arg("--out").expect("--out dir");
    let n: usize = arg("--n").and_then(|s| s.parse().ok()).unwrap_or(400);
    let mode = arg("--mode").unwrap_or_else(|| "full".into());
    let mut rng = Rng::new(seed_from_env());
    let pre = "From Sci Require Import Wire.Cases_C02. Open Scope N_scope.";
    // 16 shards are evaluated in parallel: size the shards so that the quick tier is one round
    let per_shard = if mode == "sizes" { (n / 16).clamp(100, 400) } else { (n / 16).clamp(13, 25) };
    let mut sh = Shards::new(&out, pre, "vcase", "verdicts", per_shard);
    let mut sum = Summary::default();
    let mut seen = std::collections::HashSet::new();

    if mode == "sizes" {
        // size-determining fields: path type x nibble pairs x seg-length triples x header-length
        // consistency x truncation points at field boundaries +-1; sampled down to n buffers
        // (the full product has ~10^7 elements); construction results only
        let mut count = 0usize;
        for (k, b, tag) in directed_ctor_inputs() {
            emit(&mut sh, &mut sum, &mut seen, run_case(k, &b, &[], &tag));
            count += 1;
        }
        'outer: loop {
            for &pt in &PTS {
                let dt = rng.below(16) as u8; let st = rng.below(16) as u8;
                let segs = (*rng.pick(&SEGV), *rng.pick(&SEGV), *rng.pick(&SEGV));
                for &hd in &[0i32, -1, 1] {
                    let nh = *rng.pick(&[17u8, 202, 6]);
                    let pl = if nh == 17 { udp_payload(i32::MIN, 2, 5) } else { scmp_payload(*rng.pick(&SCMP_T), 30, None) };
                    let s = Spec { ver: 0, pt, dt, st, segs, hl_delta: hd, nh, pl, pl_delta: 0, curr: (0, 0), fill: rng.below(256) as u8 };
                    let (b, marks) = build(&s);
                    let m = *rng.pick(&marks);
                    for d in [-1i64, 0, 1] {
                        let cut = (m as i64 + d).clamp(0, b.len() as i64) as usize;
                        let k = *rng.pick(&[K::Header, K::Raw, K::Raw, K::UdpPkt, K::ScmpPkt]);
                        let c = run_case(k, &b[..cut], &[], "sizes");
                        emit(&mut sh, &mut sum, &mut seen, c);
                        count += 1;
                        if count >= n { break 'outer; }
                    }
                }
            }
        }
    } else {
        let mut count = 0usize;
        // directed replays of the two repaired findings first
        {
            let s = Spec { ver: 0, pt: 0, dt: 0, st: 0, segs: (0, 0, 0), hl_delta: 0, nh: 17, pl: udp_payload(i32::MIN, 4, 7), pl_delta: 0, curr: (0, 0), fill: 0 };
            let (b, _) = build(&s);
            let plan = [PlanOp::A(10, 0), PlanOp::L(0, 4, 0), PlanOp::L(0, 5, 0), PlanOp::A(10, 0)];
            emit(&mut sh, &mut sum, &mut seen, run_case(K::UdpPkt, &b, &plan, "replay:udp-as-raw-mut"));
            let p = scmp_payload(200, 8, None);
            let plan = [PlanOp::A(3, 0), PlanOp::L(1, 0, 130), PlanOp::A(3, 0), PlanOp::A(17, 0)];
            emit(&mut sh, &mut sum, &mut seen, run_case(K::Scmp, &p, &plan, "replay:scmp-unknown-set-type"));
            count += 2;
        }
        while count < n {
            let sel = rng.below(10);
            let (buf, marks, kinds): (Vec<u8>, Vec<usize>, Vec<K>) = match sel {
                0..=5 => { let s = random_spec(&mut rng); let (b, m) = build(&s); (b, m, kinds_for(0)) }
                6 => { // standalone path / field views
                    let s = random_spec(&mut rng); let (b, m) = build(&Spec { pt: if rng.chance(2, 3) { 1 } else { 2 }, ..s });
                    let start = m[2]; (b[start.min(b.len())..m[m.len() - 7].min(b.len())].to_vec(), vec![0, 4, 8, 12, 16, 28, 32], vec![K::Std, K::OneHop, K::Info, K::Hop]) }
                7 => { let d = *rng.pick(&[0usize, 1, 9]); let lf = *rng.pick(&[i32::MIN, 0, 7, 8, 9, 10, 65535]); (udp_payload(lf, d, 3), vec![0, 7, 8, 9], vec![K::Udp]) }
                _ => { let t = *rng.pick(&SCMP_T); let l = *rng.pick(&[3usize, 4, 7, 8, 9, 19, 20, 21, 23, 24, 25, 27, 28, 29, 44]);
                       let inner = if rng.chance(1, 3) { let (q, _) = build(&Spec { ver: 0, pt: 1, dt: 0, st: 3, segs: (2, 0, 0), hl_delta: 0, nh: 17, pl: udp_payload(i32::MIN, 2, 4), pl_delta: 0, curr: (0, 1), fill: 2 }); Some(q) } else { None };
                       let p = scmp_payload(t, l, inner);
                       (p, vec![0, 4, 8, 20, 24, 28], vec![K::Scmp, K::Msg(t as u16), K::Msg(*rng.pick(&SCMP_T) as u16)]) }
            };
            let cut = if rng.chance(1, 3) { let m = *rng.pick(&marks) as i64 + *rng.pick(&[-1i64, 0, 1]); m.clamp(0, buf.len() as i64) as usize } else { buf.len() };
            let b = &buf[..cut];
            let k = *rng.pick(&kinds);
            // plan: all accessors, then up to 4 mutators each followed by a sample of accessors
            let mut plan: Vec<PlanOp> = acc_list(k, &mut rng).into_iter().map(|(i, a)| PlanOp::A(i, a)).collect();
            let mids = mut_ids(k);
            if !mids.is_empty() {
                for _ in 0..rng.range(1, 4) {
                    let id = *rng.pick(&mids);
                    let arg = *rng.pick(&[0u64, 1, 2, 4, 5, 7, 63, 200]);
                    let val = *rng.pick(&[0u64, 1, 0xff, 0xffff, 0xffff_ffff, u64::MAX, 130, 7, 0x1234_5678_9abc_def0]);
                    plan.push(PlanOp::M(id, arg, val));
                    let al = acc_list(k, &mut rng);
                    for _ in 0..6 { let (i, a) = *rng.pick(&al); plan.push(PlanOp::A(i, a)); }
                }
                // all accessors again after the mutations
                plan.extend(acc_list(k, &mut rng).into_iter().map(|(i, a)| PlanOp::A(i, a)));
            }
            emit(&mut sh, &mut sum, &mut seen, run_case(k, b, &plan, "full"));
            count += 1;
        }
    }
    sh.flush();
    let distinct = *sum.dist.get("distinct_nontrivial").unwrap_or(&0) as usize;
    sum.write(&out, sh.total, distinct);
}
