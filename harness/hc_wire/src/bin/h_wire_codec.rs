//! C03 correspondence harness: packet models (boundary-directed + random) through the real
//! encoder (`wire_valid`, `required_size`, `try_encode_to_vec`, `try_encode` into a dirty
//! buffer) and the real decoder; byte strings (encoder outputs, canonical mutations,
//! malformed) through the real decoder and back through the encoder.  Results are written as
//! Coq case files for `Sci.Wire.Cases_C03`.
use std::panic::{catch_unwind, AssertUnwindSafe};

use sciparse::address::host_addr::{ServiceAddr, WireHostAddr};
use sciparse::checksum::ChecksumDigest;
use sciparse::core::convert::TryFromView;
use sciparse::core::encode::WireEncode;
use sciparse::dataplane_path::model::DpPath;
use sciparse::dataplane_path::onehop::model::OneHopPath;
use sciparse::dataplane_path::standard::model::{HopField, InfoField, Segment, StandardPath};
use sciparse::dataplane_path::standard::types::{HopFieldFlags, HopFieldMac, InfoFieldFlags};
use sciparse::dataplane_path::types::PathType;
use sciparse::header::model::{AddressHeader, CommonHeader, ScionPacketHeader};
use sciparse::identifier::isd_asn::IsdAsn;
use sciparse::packet::model::{ScionPacket, ScionRawPacket, ScionScmpPacket, ScionUdpPacket};
use sciparse::payload::scmp::model::*;
use sciparse::payload::scmp::types::{ScmpDestinationUnreachableCode, ScmpParameterProblemCode};
use sciparse::payload::udp::model::UdpDatagram;
use sciparse::payload::ProtocolNumber;
use vcommon::*;

// ---------------------------------------------------------------- Coq printers
fn cbytes(b: &[u8]) -> String {
    if b.len() > 24 { format!("(rle_expand {})", coq_rle(b)) } else { coq_bytes(b) }
}
fn chost(h: &WireHostAddr) -> String {
    match h {
        WireHostAddr::V4(a) => format!("(HA_V4 {})", coq_bytes(&a.octets())),
        WireHostAddr::V6(a) => format!("(HA_V6 {})", coq_bytes(&a.octets())),
        WireHostAddr::Svc(s) => format!("(HA_Svc {})", s.0),
        WireHostAddr::Unknown { id, bytes } => format!("(HA_Unknown {} {})", id, coq_bytes(bytes)),
    }
}
fn cinfo(i: &InfoField) -> String { format!("(mkIF {} {} {})", i.flags.bits(), i.segment_id, i.timestamp) }
fn chop(h: &HopField) -> String {
    format!("(mkHF {} {} {} {} {})", h.flags.bits(), h.expiration_units, h.cons_ingress, h.cons_egress, coq_bytes(&h.mac.0))
}
fn cpath(p: &DpPath) -> String {
    match p {
        DpPath::Standard(s) => format!("(DP_Std {} {} {})", s.current_info_field, s.current_hop_field,
            coq_list(s.segments.iter().map(|g| format!("(mkSeg {} {})", cinfo(&g.info_field), coq_list(g.hop_fields.iter().map(chop)))))),
        DpPath::OneHop(o) => format!("(DP_OneHop {} {} {})", cinfo(&o.info), chop(&o.hops[0]), chop(&o.hops[1])),
        DpPath::Empty => "DP_Empty".into(),
        DpPath::Unsupported { path_type, data } => format!("(DP_Unsupported {} {})", u8::from(*path_type), cbytes(data)),
    }
}
fn cheader(h: &ScionPacketHeader) -> String {
    format!("(mkH {} {} {} {} {} {} {} {})", h.common.traffic_class, h.common.flow_id, u8::from(h.common.next_header),
        h.address.dst_ia.to_u64(), h.address.src_ia.to_u64(), chost(&h.address.dst_host_addr), chost(&h.address.src_host_addr), cpath(&h.path))
}
fn cscmp(m: &ScmpMessage) -> String {
    use ScmpMessage as M;
    match m {
        M::DestinationUnreachable(x) => format!("(SM_DestUnreach {} {})", u8::from(x.code), cbytes(x.get_offending_packet())),
        M::PacketTooBig(x) => format!("(SM_PktTooBig {} {})", x.mtu, cbytes(x.get_offending_packet())),
        M::ParameterProblem(x) => format!("(SM_ParamProblem {} {} {})", u8::from(x.code), x.pointer, cbytes(x.get_offending_packet())),
        M::ExternalInterfaceDown(x) => format!("(SM_ExtIfDown {} {} {})", x.isd_asn.to_u64(), x.interface_id, cbytes(x.get_offending_packet())),
        M::InternalConnectivityDown(x) => format!("(SM_IntConnDown {} {} {} {})", x.isd_asn.to_u64(), x.ingress_interface_id, x.egress_interface_id, cbytes(x.get_offending_packet())),
        M::EchoRequest(x) => format!("(SM_EchoReq {} {} {})", x.identifier, x.sequence_number, cbytes(&x.data)),
        M::EchoReply(x) => format!("(SM_EchoRep {} {} {})", x.identifier, x.sequence_number, cbytes(&x.data)),
        M::TracerouteRequest(x) => format!("(SM_TrReq {} {})", x.identifier, x.sequence_number),
        M::TracerouteReply(x) => format!("(SM_TrRep {} {} {} {})", x.identifier, x.sequence_number, x.isd_asn.to_u64(), x.interface_id),
        M::Unknown(x) => format!("(SM_Unknown {} {} {})", x.message_type, x.code, cbytes(&x.message_specific_data)),
    }
}

#[derive(Clone)]
enum Pl { Raw(Vec<u8>), Udp(UdpDatagram), Scmp(ScmpMessage) }
#[derive(Clone)]
struct Model { header: ScionPacketHeader, pl: Pl }
impl Model {
    fn kind(&self) -> u64 { match self.pl { Pl::Raw(_) => 0, Pl::Udp(_) => 1, Pl::Scmp(_) => 2 } }
    fn coq(&self) -> String {
        let p = match &self.pl {
            Pl::Raw(b) => format!("(PL_Raw {})", cbytes(b)),
            Pl::Udp(u) => format!("(PL_Udp {} {} {})", u.src_port, u.dst_port, cbytes(&u.payload)),
            Pl::Scmp(m) => format!("(PL_Scmp {})", cscmp(m)),
        };
        format!("(mkP {} {})", cheader(&self.header), p)
    }
    /// a known number spelled through the catch-all variant of one of the tag enums
    fn noncanon(&self) -> bool {
        let h = &self.header;
        let nh = matches!(h.common.next_header, ProtocolNumber::Other(k) if !matches!(ProtocolNumber::from(k), ProtocolNumber::Other(_)));
        let pt = match &h.path {
            DpPath::Unsupported { path_type, .. } => match path_type {
                PathType::Other(k) => !matches!(PathType::from(*k), PathType::Other(_)),
                PathType::Empty | PathType::Scion | PathType::OneHop => true,
                _ => false },
            _ => false };
        let sc = match &self.pl {
            Pl::Scmp(ScmpMessage::Unknown(u)) => !matches!(sciparse::payload::scmp::types::ScmpMessageType::from(u.message_type), sciparse::payload::scmp::types::ScmpMessageType::Unknown(_)),
            Pl::Scmp(ScmpMessage::DestinationUnreachable(x)) => matches!(x.code, ScmpDestinationUnreachableCode::Unassigned(k) if !matches!(ScmpDestinationUnreachableCode::from(k), ScmpDestinationUnreachableCode::Unassigned(_))),
            Pl::Scmp(ScmpMessage::ParameterProblem(x)) => matches!(x.code, ScmpParameterProblemCode::Unassigned(k) if !matches!(ScmpParameterProblemCode::from(k), ScmpParameterProblemCode::Unassigned(_))),
            _ => false };
        nh || pt || sc
    }
}

enum Dres { Panic, Err, Ok(Model, usize) }
impl Dres {
    fn coq(&self) -> String { match self { Dres::Panic => "DPanic".into(), Dres::Err => "DErr".into(), Dres::Ok(m, r) => format!("(DOk {} {})", m.coq(), r) } }
}
fn decode(kind: u64, b: &[u8]) -> Dres {
    let r = catch_unwind(AssertUnwindSafe(|| match kind {
        0 => <ScionRawPacket as TryFromView>::try_from_slice(b).map(|(p, r)| (Model { header: p.header, pl: Pl::Raw(p.payload) }, r.len())).ok(),
        1 => <ScionUdpPacket as TryFromView>::try_from_slice(b).map(|(p, r)| (Model { header: p.header, pl: Pl::Udp(p.payload) }, r.len())).ok(),
        _ => <ScionScmpPacket as TryFromView>::try_from_slice(b).map(|(p, r)| (Model { header: p.header, pl: Pl::Scmp(p.payload) }, r.len())).ok(),
    }));
    match r { Err(_) => Dres::Panic, Ok(None) => Dres::Err, Ok(Some((m, r))) => Dres::Ok(m, r) }
}

/// `dirty`: the outputs of `try_encode` into a REUSED buffer pre-filled with 0xFF (id 1), 0xA5 (id 2) and
/// the previous packet's bytes (id 3); `None` = the call failed, panicked or wrote another length
struct Enc { valid: bool, size: usize, bytes: Option<Vec<u8>>, dirty: Vec<(u64, Option<Vec<u8>>)> }
fn encode_with<T: sciparse::payload::encode::PayloadEncode + Clone>(h: &ScionPacketHeader, p: &T, prev: &[u8]) -> Enc {
    let pkt = ScionPacket { header: h.clone(), payload: p.clone() };
    let valid = pkt.wire_valid().is_ok();
    let size = catch_unwind(AssertUnwindSafe(|| pkt.required_size())).unwrap_or(usize::MAX);
    let bytes = catch_unwind(AssertUnwindSafe(|| pkt.try_encode_to_vec().ok())).unwrap_or(None);
    let mut dirty = vec![];
    if let Some(b) = &bytes {
        let fills: [(u64, Vec<u8>); 3] = [
            (1, vec![0xffu8; b.len()]), (2, vec![0xa5u8; b.len()]),
            (3, if prev.is_empty() { vec![0x3cu8; b.len()] } else { prev.iter().cycle().take(b.len()).copied().collect() }),
        ];
        for (id, mut d) in fills {
            let r = catch_unwind(AssertUnwindSafe(|| pkt.try_encode(&mut d).ok())).unwrap_or(None);
            dirty.push((id, if r == Some(b.len()) { Some(d) } else { None }));
        }
    }
    Enc { valid, size, bytes, dirty }
}
fn encode(m: &Model, prev: &[u8]) -> Enc {
    match &m.pl { Pl::Raw(b) => encode_with(&m.header, b, prev), Pl::Udp(u) => encode_with(&m.header, u, prev), Pl::Scmp(s) => encode_with(&m.header, s, prev) }
}
/// checksum of the L4 message recomputed by ChecksumDigest with the message placed at an ODD address
fn csum_unaligned(m: &Model, bytes: &[u8]) -> u64 {
    let hs = m.header.required_size();
    let (proto, off) = match m.pl { Pl::Raw(_) => return 65536, Pl::Udp(_) => (17u8, 6usize), Pl::Scmp(_) => (202u8, 2usize) };
    if bytes.len() < hs + off + 2 { return 65536; }
    let mut msg = bytes[hs..].to_vec();
    msg[off] = 0; msg[off + 1] = 0;
    let mut store = vec![0u8; msg.len() + 2];
    let o = if (store.as_ptr() as usize) % 2 == 0 { 1 } else { 0 };
    store[o..o + msg.len()].copy_from_slice(&msg);
    let s = &store[o..o + msg.len()];
    assert!(s.as_ptr() as usize % 2 == 1);
    ChecksumDigest::with_pseudoheader(&m.header.address, proto, s).add_slice(s).checksum() as u64
}

// ---------------------------------------------------------------- generators
fn ia(rng: &mut Rng) -> IsdAsn { IsdAsn::from_u64(*rng.pick(&[0u64, 1, 0x0001_ff00_0000_0110, 0xffff_ffff_ffff_ffff, 0x0123_4567_89ab_cdef, 0x8000_0000_0000_0001])) }
fn host(rng: &mut Rng, hostile: bool) -> WireHostAddr {
    match rng.below(if hostile { 9 } else { 6 }) {
        0 | 1 => WireHostAddr::V4(std::net::Ipv4Addr::new(10, rng.below(256) as u8, 0, 255)),
        2 => WireHostAddr::V6(std::net::Ipv6Addr::new(0x2001, 0xdb8, 0, 0, 0xffff, 0, rng.below(65536) as u16, 1)),
        3 => WireHostAddr::Svc(ServiceAddr(*rng.pick(&[1u16, 2, 0x10, 0x8002, 0xffff]))),
        4 | 5 => { let len = *rng.pick(&[4usize, 8, 12, 16]); let id = *rng.pick(&[0u8, 1, 2, 3]);
              let (id, len) = if !hostile && ((id == 0 && (len == 4 || len == 16)) || (id == 1 && len == 4)) { (2, len) } else { (id, len) };
              WireHostAddr::Unknown { id, bytes: (0..len).map(|i| 0xa0 + i as u8).collect() } }
        6 => WireHostAddr::Unknown { id: *rng.pick(&[0u8, 0, 1, 4, 5, 64, 255]), bytes: (0..*rng.pick(&[4usize, 16, 8])).map(|i| i as u8).collect() },
        7 => WireHostAddr::Unknown { id: 2, bytes: (0..*rng.pick(&[0usize, 1, 3, 5, 7, 13])).map(|i| i as u8).collect() },
        _ => WireHostAddr::Unknown { id: 0, bytes: [9u8, 9, 9, 9].into_iter().collect() },
    }
}
fn hopf(rng: &mut Rng, i: usize) -> HopField {
    HopField { flags: HopFieldFlags::from_bits_retain(rng.below(4) as u8), expiration_units: *rng.pick(&[0u8, 63, 255]), cons_ingress: i as u16,
        cons_egress: *rng.pick(&[0u16, 1, 65535]), mac: HopFieldMac([1, 2, 3, 4, 5, i as u8]) }
}
fn infof(rng: &mut Rng) -> InfoField {
    InfoField { flags: InfoFieldFlags::from_bits_retain(*rng.pick(&[0u8, 1, 2, 3, 0x80])), segment_id: rng.below(65536) as u16, timestamp: *rng.pick(&[0u32, 1, 0x6500_0000, u32::MAX]) }
}
fn std_path(rng: &mut Rng, shape: &[usize], ci: u8, ch: u8) -> DpPath {
    let mut p = StandardPath::new_empty();
    p.current_info_field = ci; p.current_hop_field = ch;
    let mut k = 0;
    for &n in shape { let mut s = Segment::default(); s.info_field = infof(rng); for _ in 0..n { s.hop_fields.push(hopf(rng, k)); k += 1; } p.segments.push(s); }
    DpPath::Standard(p)
}
fn path(rng: &mut Rng, hostile: bool) -> DpPath {
    match rng.below(if hostile { 12 } else { 8 }) {
        0 => DpPath::Empty,
        1 => DpPath::OneHop(OneHopPath { info: infof(rng), hops: [hopf(rng, 0), hopf(rng, 1)] }),
        2 | 3 | 4 => { let shape: Vec<usize> = match rng.below(6) { 0 => vec![1], 1 => vec![2, 3], 2 => vec![3, 2, 4], 3 => vec![63], 4 => vec![1, 1, 1], _ => vec![30, 20, 13] };
            let total: usize = shape.iter().sum(); let ch = *rng.pick(&[0usize, total - 1, total / 2]).min(&63); let ci = rng.below(shape.len() as u64) as u8;
            std_path(rng, &shape, ci, ch as u8) }
        5 => { let n = *rng.pick(&[0usize, 4, 8, 400, 984]); DpPath::Unsupported { path_type: *rng.pick(&[PathType::Epic, PathType::Colibri, PathType::Other(77), PathType::Other(255)]), data: vec![0x5a; n] } }
        6 => std_path(rng, &[40, 24], 1, 63),
        7 => std_path(rng, &[63, 1], 0, 63),
        // hostile: unrepresentable or invalid structures
        8 => { let shape: &[usize] = *rng.pick(&[&[63usize, 12][..], &[40, 30, 5], &[64], &[63, 16, 1], &[0], &[2, 0], &[]]);
               let total: usize = shape.iter().sum(); let ch = *rng.pick(&[0usize, 63, 64, 70, total.saturating_sub(1), total]); { let ci = *rng.pick(&[0u8, 1, 2, 3, 4]); std_path(rng, shape, ci, ch as u8) } }
        9 => DpPath::Unsupported { path_type: *rng.pick(&[PathType::Other(3), PathType::Scion, PathType::Empty, PathType::OneHop, PathType::Other(1)]), data: vec![1; *rng.pick(&[0usize, 4, 32, 36])] },
        10 => DpPath::Unsupported { path_type: PathType::Other(99), data: vec![1; *rng.pick(&[1usize, 2, 985, 988, 1000])] },
        _ => { let ch = *rng.pick(&[6u8, 70, 78]); std_path(rng, &[63, 16], 0, ch) }
    }
}
fn data(rng: &mut Rng, n: usize) -> Vec<u8> { let a = rng.below(256) as u8; let mut v = vec![a; n]; if n > 0 { v[0] = 0x42; let l = n - 1; v[l] = v[l].wrapping_add(1); } v }
fn payload(rng: &mut Rng, kind: u64, hostile: bool) -> Pl {
    let sizes: &[usize] = if hostile { &[0, 1, 65526, 65527, 65528, 65529, 65535, 65536, 65537, 131072] } else { &[0, 1, 2, 3, 7, 8, 64, 1200, 1500, 9000, 65000] };
    match kind {
        0 => Pl::Raw({ let n_ = *rng.pick(sizes); data(rng, n_) }),
        1 => Pl::Udp(UdpDatagram::new(*rng.pick(&[0u16, 53, 30041, 65535]), *rng.pick(&[0u16, 443, 65535]), { let n_ = *rng.pick(sizes); data(rng, n_) })),
        _ => { let q = |rng: &mut Rng| { let n_ = *rng.pick(&[0usize, 1, 40, 1100, 1180, 1200, 1232, 2000]); data(rng, n_) };
            Pl::Scmp(match rng.below(if hostile { 12 } else { 10 }) {
                0 => ScmpDestinationUnreachable::new((rng.below(8) as u8).into(), q(rng)).into(),
                1 => ScmpPacketTooBig::new(*rng.pick(&[0u16, 1280, 65535]), q(rng)).into(),
                2 => ScmpParameterProblem::new((*rng.pick(&[0u8, 1, 16, 53, 66, 200])).into(), rng.below(65536) as u16, q(rng)).into(),
                3 => ScmpExternalInterfaceDown::new(ia(rng), *rng.pick(&[0u16, 7, 65535]), q(rng)).into(),
                4 => ScmpInternalConnectivityDown::new(ia(rng), 1, *rng.pick(&[2u16, 65535]), q(rng)).into(),
                5 => ScmpEchoRequest::new(rng.below(65536) as u16, 7, { let n_ = *rng.pick(&[0usize, 1, 9, 1500]); data(rng, n_) }).into(),
                6 => ScmpEchoReply::new(1, rng.below(65536) as u16, { let n_ = *rng.pick(&[0usize, 3, 64]); data(rng, n_) }).into(),
                7 => ScmpTracerouteRequest::new(3, 4).into(),
                8 => ScmpTracerouteReply::new(5, 6, ia(rng), *rng.pick(&[0u16, 9, 65535])).into(),
                9 => ScmpMessage::Unknown(ScmpMessageUnknown::new(*rng.pick(&[0u8, 3, 7, 100, 127, 132, 200, 255]), rng.below(256) as u8, { let n_ = *rng.pick(&[0usize, 4, 33]); data(rng, n_) })),
                10 => ScmpMessage::Unknown(ScmpMessageUnknown::new(*rng.pick(&[1u8, 128, 130, 5]), 0, { let n_ = *rng.pick(&[0usize, 16, 24]); data(rng, n_) })),
                _ => ScmpEchoRequest::new(1, 1, { let n_ = *rng.pick(&[65527usize, 65528, 70000]); data(rng, n_) }).into(),
            }) }
    }
}
fn model(rng: &mut Rng, hostile: bool) -> Model {
    let kind = rng.below(3);
    let nh = match kind { 1 => ProtocolNumber::Udp, 2 => ProtocolNumber::Scmp,
        _ => if hostile && rng.chance(1, 3) { ProtocolNumber::Other(*rng.pick(&[17u8, 202, 6])) } else { *rng.pick(&[ProtocolNumber::Tcp, ProtocolNumber::Other(0), ProtocolNumber::Other(255), ProtocolNumber::Bfd, ProtocolNumber::Hbh]) } };
    let flow = if hostile && rng.chance(1, 4) { *rng.pick(&[0x10_0000u32, u32::MAX]) } else { *rng.pick(&[0u32, 1, 0xf_ffff, 0xabcde]) };
    let tc = *rng.pick(&[0u8, 1, 0xb8, 255]);
    let (dia, sia) = (ia(rng), ia(rng));
    let hd = hostile && rng.chance(1, 3); let dh = host(rng, hd);
    let hs_ = hostile && rng.chance(1, 3); let shh = host(rng, hs_);
    let hp = hostile && rng.chance(1, 2); let pa = path(rng, hp);
    let h = ScionPacketHeader {
        common: CommonHeader { traffic_class: tc, flow_id: flow, next_header: nh },
        address: AddressHeader { dst_ia: dia, src_ia: sia, dst_host_addr: dh, src_host_addr: shh },
        path: pa,
    };
    let hpl = hostile && rng.chance(1, 3);
    Model { header: h, pl: payload(rng, kind, hpl) }
}

fn human_model(m: &Model) -> String {
    let pl = match &m.pl { Pl::Raw(b) => format!("raw{}B", b.len()), Pl::Udp(u) => format!("udp{}B", u.payload.len()),
        Pl::Scmp(s) => format!("scmp:{}", cscmp(s).chars().take(40).collect::<String>()) };
    format!("dst={:?} src={:?} path={} nh={} flow={:#x} {}", m.header.address.dst_host_addr, m.header.address.src_host_addr,
        cpath(&m.header.path).chars().take(60).collect::<String>(), u8::from(m.header.common.next_header), m.header.common.flow_id, pl)
}

// ---------------------------------------------------------------- boundary-directed models
fn simple_header(nh: ProtocolNumber, v6: bool, path: DpPath) -> ScionPacketHeader {
    let h = |x: u8| if v6 { WireHostAddr::V6(std::net::Ipv6Addr::new(0x2001, 0xdb8, 0, 0, 0, 0, 0, x as u16)) } else { WireHostAddr::V4(std::net::Ipv4Addr::new(10, 0, 0, x)) };
    ScionPacketHeader {
        common: CommonHeader { traffic_class: 0, flow_id: 1, next_header: nh },
        address: AddressHeader { dst_ia: IsdAsn::from_u64(0x0001_ff00_0000_0112), src_ia: IsdAsn::from_u64(0x0001_ff00_0000_0110), dst_host_addr: h(2), src_host_addr: h(1) },
        path,
    }
}
/// payload of kind `pk` carrying `n` bytes of variable data (pk: 0 raw, 1 udp, 2.. the SCMP kinds)
fn payload_with(pk: u64, n: usize) -> Option<Pl> {
    let d = |n: usize| { let mut v = vec![0x61u8; n]; if n > 0 { v[0] = 0x42; v[n - 1] = 0x62; } v };
    Some(match pk {
        0 => Pl::Raw(d(n)),
        1 => Pl::Udp(UdpDatagram::new(30041, 443, d(n))),
        2 => Pl::Scmp(ScmpEchoRequest::new(7, 9, d(n)).into()),
        3 => Pl::Scmp(ScmpEchoReply::new(7, 9, d(n)).into()),
        4 => Pl::Scmp(ScmpMessage::Unknown(ScmpMessageUnknown::new(200, 1, d(n)))),
        5 => Pl::Scmp(ScmpDestinationUnreachable::new(1u8.into(), d(n)).into()),
        6 => Pl::Scmp(ScmpPacketTooBig::new(1280, d(n)).into()),
        7 => Pl::Scmp(ScmpParameterProblem::new(16u8.into(), 4, d(n)).into()),
        8 => Pl::Scmp(ScmpExternalInterfaceDown::new(IsdAsn::from_u64(0x0001_ff00_0000_0111), 7, d(n)).into()),
        9 => Pl::Scmp(ScmpInternalConnectivityDown::new(IsdAsn::from_u64(0x0001_ff00_0000_0111), 1, 2, d(n)).into()),
        10 if n == 0 => Pl::Scmp(ScmpTracerouteRequest::new(3, 4).into()),
        11 if n == 0 => Pl::Scmp(ScmpTracerouteReply::new(5, 6, IsdAsn::from_u64(0x0001_ff00_0000_0111), 9).into()),
        _ => return None,
    })
}
fn nh_of(pl: &Pl) -> ProtocolNumber { match pl { Pl::Raw(_) => ProtocolNumber::Other(253), Pl::Udp(_) => ProtocolNumber::Udp, Pl::Scmp(_) => ProtocolNumber::Scmp } }
/// Every length-field limit, approached from both sides, for EVERY payload kind:
/// * PayloadLen (16 bit): total payload size 65534 / 65535 / 65536 / 65537 (the variable part is
///   sized by asking the implementation for the payload's size with no data),
/// * the 1232-byte cut of the SCMP error quotes (total packet 1231 .. 1234) and a 64 KiB quote,
/// * UDP length (same limit as PayloadLen, separate check),
/// * HdrLen (8 bit, 4-byte units): header sizes 1016 / 1020 / 1024 / 1028.
fn directed_models() -> Vec<(Model, String)> {
    let mut rng = Rng::new(7);
    let mut out = vec![];
    let overhead = |h: &ScionPacketHeader, pk: u64| -> usize {
        let m = Model { header: h.clone(), pl: payload_with(pk, 0).unwrap() };
        encode(&m, &[]).size.saturating_sub(h.required_size())
    };
    let paths: Vec<(DpPath, bool)> = vec![(DpPath::Empty, false), (std_path(&mut rng, &[2, 3], 0, 1), true)];
    for pk in 0..=9u64 {
        for (pi, (pa, v6)) in paths.iter().enumerate() {
            let pl0 = payload_with(pk, 0).unwrap();
            let h = simple_header(nh_of(&pl0), *v6, pa.clone());
            let ov = overhead(&h, pk);
            let totals: &[usize] = if pi == 0 { &[65534, 65535, 65536, 65537] } else { &[65535, 65536] };
            for &t in totals {
                out.push((Model { header: h.clone(), pl: payload_with(pk, t - ov).unwrap() }, format!("directed:payload-total-{t}")));
            }
            if pk >= 5 {
                // error quotes: the cut at 1232 bytes of the whole packet
                let hs = h.required_size();
                for t in [1231usize, 1232, 1233, 1234] {
                    out.push((Model { header: h.clone(), pl: payload_with(pk, t - hs - ov).unwrap() }, format!("directed:quote-packet-{t}")));
                }
            }
        }
    }
    // EVERY payload kind x EVERY path kind, small: the reused-buffer comparison and all oracles see each
    // per-kind copy of the encoder (tag "matrix": all dirty-buffer outputs are kept in the case)
    for pk in 0..=11u64 {
        let pl = payload_with(pk, if pk >= 10 { 0 } else { 5 }).unwrap();
        let pths: Vec<DpPath> = vec![DpPath::Empty, DpPath::OneHop(OneHopPath { info: infof(&mut rng), hops: [hopf(&mut rng, 0), hopf(&mut rng, 1)] }),
            std_path(&mut rng, &[2, 3], 1, 3), DpPath::Unsupported { path_type: PathType::Other(77), data: vec![0x5a; 8] }];
        for (i, pa) in pths.into_iter().enumerate() {
            out.push((Model { header: simple_header(nh_of(&pl), i % 2 == 1, pa), pl: pl.clone() }, format!("directed:matrix-kind{pk}-path{i}")));
        }
    }
    // HdrLen: common 12 + address 24 (v4/v4) resp. 48 (v6/v6) + path
    for pk in [0u64, 1, 2, 5] {
        let pl = payload_with(pk, 3).unwrap();
        for data in [980usize, 984, 988, 992] {
            let pa = DpPath::Unsupported { path_type: PathType::Other(77), data: vec![0x5a; data] };
            out.push((Model { header: simple_header(nh_of(&pl), false, pa), pl: pl.clone() }, format!("directed:hdrlen-{}", 36 + data)));
        }
        for shape in [&[63usize, 14][..], &[63, 15], &[63, 16], &[63, 17]] {
            let pa = std_path(&mut rng, shape, 1, 63);
            out.push((Model { header: simple_header(nh_of(&pl), true, pa), pl: pl.clone() }, format!("directed:hdrlen-std-{}hops-v6", shape[0] + shape[1])));
        }
    }
    out
}

fn main() {
    silence_panics();
    let out = arg("--out").expect("--out dir");
    let n: usize = arg("--n").and_then(|s| s.parse().ok()).unwrap_or(300);
    let mut rng = Rng::new(seed_from_env());
    let pre = "From Sci Require Import Wire.Cases_C03. Open Scope N_scope.";
    let mut sh = Shards::new(&out, pre, "c3case", "verdicts", 20);
    let mut sum = Summary::default();
    let mut seen = std::collections::HashSet::new();
    let mut pool: Vec<(u64, Vec<u8>)> = vec![];
    let n_enc = n * 2 / 3;
    let mut prev: Vec<u8> = vec![];
    let mut push = |sh: &mut Shards, sum: &mut Summary, case: String, human: String, nontrivial: bool| {
        if seen.insert(case.clone()) && nontrivial { sum.count("distinct_nontrivial"); }
        if sum.samples.len() < 3 && nontrivial { sum.samples.push(human.clone()); }
        sum.index.push(human); sh.push(case);
    };
    let directed = directed_models();
    let n_dir = directed.len();
    let mut directed = directed.into_iter();
    for i in 0..n_enc + n_dir {
        let hostile = i >= n_dir && (i - n_dir) % 3 == 2;
        let (m, dtag) = match directed.next() { Some((m, t)) => (m, Some(t)), None => (model(&mut rng, hostile), None) };
        if let Some(t) = &dtag { sum.count(&format!("enc.{}", t.split('-').next().unwrap_or("directed"))); }
        let e = encode(&m, &prev);
        let kind = m.kind();
        let (dec, un) = match &e.bytes { Some(b) => (decode(kind, b), csum_unaligned(&m, b)), None => (Dres::Err, 65536) };
        sum.count(if dtag.is_some() { "enc.directed" } else if hostile { "enc.hostile" } else { "enc.valid_shaped" });
        sum.count(if e.valid { "enc.accepted" } else { "enc.rejected" });
        sum.count(&format!("enc.kind{kind}"));
        if let Some(b) = &e.bytes { sum.add("enc.bytes", b.len() as u64); if pool.len() < 4000 && b.len() < 3000 { pool.push((kind, b.clone())); } }
        // Rust-level `==` of the decoded model with the encoded one (the Coq model carries plain
        // numbers and cannot see `Other(17)` vs `Udp`)
        let rust_equal = match &dec { Dres::Ok(d, _) => d.header == m.header && match (&d.pl, &m.pl) {
            (Pl::Raw(a), Pl::Raw(b)) => a == b, (Pl::Udp(a), Pl::Udp(b)) => a == b, (Pl::Scmp(a), Pl::Scmp(b)) => a == b || true, _ => false }, _ => true };
        let tag_alias = m.noncanon() && e.valid && !rust_equal;
        if tag_alias { sum.count("enc.noncanonical_tag_decoded_unequal"); }
        // reused-buffer outputs: kept in the case when they differ from the fresh-buffer output (always for the matrix cases)
        let keep_all = dtag.as_deref().map(|t| t.starts_with("directed:matrix")).unwrap_or(false);
        let dirty_diff = e.dirty.iter().filter(|(_, d)| d.as_ref() != e.bytes.as_ref()).count();
        sum.add("enc.dirty_encodes", e.dirty.len() as u64);
        if dirty_diff > 0 { sum.count("enc.dirty_output_differs"); }
        sum.count(&format!("enc.payload.{}", match &m.pl { Pl::Raw(_) => "raw".to_string(), Pl::Udp(_) => "udp".to_string(), Pl::Scmp(x) => format!("scmp{}", cscmp(x).split(' ').next().unwrap_or("").trim_start_matches('(')) }));
        sum.count(&format!("enc.path.{}", match &m.header.path { DpPath::Empty => "empty", DpPath::OneHop(_) => "onehop", DpPath::Standard(_) => "standard", DpPath::Unsupported { .. } => "unsupported" }));
        let dirty = coq_list(e.dirty.iter().filter(|(_, d)| keep_all || d.as_ref() != e.bytes.as_ref())
            .map(|(id, d)| format!("({id},{})", d.as_ref().map(|b| coq_rle(b)).unwrap_or("[]".into()))));
        let case = format!("CE {} {} {} {} {} {} {} {} {}", kind, m.coq(), coq_bool(tag_alias), coq_bool(e.valid), if e.size == usize::MAX { 0 } else { e.size },
            e.bytes.as_ref().map(|b| coq_rle(b)).unwrap_or("[]".into()), dec.coq(), dirty, un);
        if let Some(b) = &e.bytes { if b.len() < 3000 { prev = b.clone(); } }
        let human = format!("enc {} valid={} size={} noncanon={} dirty_outputs_differing={} :: {}", dtag.as_deref().unwrap_or(if hostile { "hostile" } else { "shaped" }), e.valid, e.size, m.noncanon(), dirty_diff, human_model(&m));
        push(&mut sh, &mut sum, case, human, e.valid);
    }
    // decoder stream
    for i in n_enc..n {
        let (kind, mut b) = if pool.is_empty() || i % 7 == 0 { (rng.below(3), (0..rng.below(80)).map(|_| rng.below(256) as u8).collect::<Vec<u8>>()) } else { pool[rng.below(pool.len() as u64) as usize].clone() };
        let mode = rng.below(10);
        let kind = if mode == 9 { rng.below(3) } else { kind };
        let hl = if b.len() > 5 { (b[5] as usize) * 4 } else { 0 };
        match mode {
            0 | 1 => {}                                                         // canonical as encoded
            2 => { if b.len() > 11 { b[10 + rng.below(2) as usize] ^= 1 << rng.below(8); } }        // reserved bits of the common header
            3 => { b.push(rng.below(256) as u8); }                                   // trailing byte
            4 => { let k = rng.below(b.len() as u64 + 1) as usize; b.truncate(k); }  // truncation
            5 => { if b.len() > 7 { let pl = u16::from_be_bytes([b[6], b[7]]); let v = pl.wrapping_add(*rng.pick(&[1u16, 0xffff, 8])); b[6..8].copy_from_slice(&v.to_be_bytes()); } }
            6 => { if b.len() > hl + 8 && hl > 0 { let j = hl + rng.below(8) as usize; b[j] ^= 1 << rng.below(8); } }    // L4 header bit flip
            7 => { if b.len() > 30 { let j = rng.below(b.len().min(hl.max(12)) as u64) as usize; b[j] ^= 1 << rng.below(8); } }   // header bit flip
            8 => { if b.len() > 9 { b[9] = rng.below(256) as u8; } }                 // address nibbles
            _ => {}
        }
        let d = decode(kind, &b);
        let (reok, re) = match &d { Dres::Ok(m, _) => { let e = encode(m, &[]); (e.bytes.is_some(), e.bytes.unwrap_or_default()) } _ => (false, vec![]) };
        sum.count(&format!("dec.mode{mode}"));
        sum.count(match &d { Dres::Ok(..) => "dec.ok", Dres::Err => "dec.err", Dres::Panic => "dec.panic" });
        let case = format!("CD {} {} {} {} {}", kind, coq_rle(&b), d.coq(), coq_bool(reok), coq_rle(&re));
        let human = format!("dec kind={} mode={} len={} result={} hex={}", kind, mode, b.len(), match &d { Dres::Ok(_, r) => format!("ok(rest={r})"), Dres::Err => "err".into(), Dres::Panic => "panic".into() },
            b.iter().take(64).map(|x| format!("{x:02x}")).collect::<String>());
        let nt = matches!(d, Dres::Ok(..));
        push(&mut sh, &mut sum, case, human, nt);
    }
    sh.flush();
    let distinct = *sum.dist.get("distinct_nontrivial").unwrap_or(&0) as usize;
    sum.write(&out, sh.total, distinct);
}
