//! C08 correspondence harness: drives the SNAP tunnel gateway's handling of one decrypted
//! inbound datagram (the `Forwarded` arm of `TunnelGateway::start_server`) through the
//! `verif-hooks` entry point of snap-dataplane -- real `inbound_datagram_check`, real
//! `Dispatcher::try_dispatch`, real private `TunnelGateway::create_scmp_error` into a real pool
//! buffer -- and writes datagram, peer address and observed outcome as Coq case files.
use sciparse::{
    address::addr::ScionAddr,
    core::encode::WireEncode,
    dataplane_path::{model::DpPath, standard::model::StandardPath},
    identifier::isd_asn::IsdAsn,
    packet::{model::ScionRawPacket, view::ScionPacketView},
    payload::ProtocolNumber,
    util::ToValue,
};
use snap_dataplane::{dispatcher::Dispatcher, tunnel_gateway::gateway::verif_hooks as hooks};
use std::net::{IpAddr, Ipv4Addr, Ipv6Addr};
use std::panic::AssertUnwindSafe;
use std::sync::Mutex;
use vcommon::*;

/// records what the gateway hands to the dispatcher
#[derive(Default)]
struct Rec { got: Mutex<Vec<Vec<u8>>> }
impl Dispatcher for Rec {
    fn try_dispatch(&self, packet: &ScionPacketView) {
        use sciparse::core::view::View;
        self.got.lock().unwrap().push(packet.as_slice().to_vec());
    }
}

#[derive(Clone)]
struct Case { kind: &'static str, note: String, local: IpAddr, from: IpAddr, dgram: Vec<u8> }

struct Obs { class: u64, err: u64, bytes: Vec<u8>, n_dispatch: usize }

fn run_impl(pool: &Pool, c: &Case) -> Obs {
    let rec = Rec::default();
    let r = std::panic::catch_unwind(AssertUnwindSafe(|| {
        hooks::inbound(&rec, pool, &c.dgram, c.from, c.local.into())
    }));
    let got = rec.got.lock().map(|g| g.clone()).unwrap_or_default();
    let code = |e: hooks::CheckError| match e {
        hooks::CheckError::MalformedPacket => 1,
        hooks::CheckError::InvalidSourceAddress => 2,
        hooks::CheckError::InvalidPathType => 3,
    };
    match r {
        Err(_) => Obs { class: 9, err: 0, bytes: vec![], n_dispatch: got.len() },
        Ok(hooks::InboundOutcome::Dispatched) => {
            Obs { class: 0, err: 0, bytes: got.first().cloned().unwrap_or_default(), n_dispatch: got.len() }
        }
        Ok(hooks::InboundOutcome::Reply { error, bytes, .. }) => Obs { class: 1, err: code(error), bytes, n_dispatch: got.len() },
        Ok(hooks::InboundOutcome::Suppressed { error }) => Obs { class: 3, err: code(error), bytes: vec![], n_dispatch: got.len() },
        Ok(hooks::InboundOutcome::ReplyEncodeError { error, .. }) => Obs { class: 2, err: code(error), bytes: vec![], n_dispatch: got.len() },
    }
}
type Pool = ana_gotatun::packet::PacketBufPool<{ hooks::PACKET_BUF_SIZE }>;

// ---------------------------------------------------------------------------------------
// packet construction (by hand: the harness must be able to produce every nibble / path type)

fn host_len(nib: u8) -> usize { 4 * ((nib & 3) as usize + 1) }

#[derive(Clone)]
struct Pkt {
    version: u8, next_hdr: u8, path_type: u8, dst_nib: u8, src_nib: u8,
    dst_host: Vec<u8>, src_host: Vec<u8>, path: Vec<u8>, payload: Vec<u8>,
    hdr_len_units: Option<u8>, payload_len: Option<u16>,
}
impl Pkt {
    fn new(src_nib: u8, src_host: Vec<u8>, path_type: u8, path: Vec<u8>, payload: Vec<u8>) -> Self {
        Pkt { version: 0, next_hdr: 17, path_type, dst_nib: 0, src_nib, dst_host: vec![10, 9, 8, 7],
              src_host, path, payload, hdr_len_units: None, payload_len: None }
    }
    fn bytes(&self) -> Vec<u8> {
        let hl = 12 + 16 + self.dst_host.len() + self.src_host.len() + self.path.len();
        let mut v = Vec::with_capacity(hl + self.payload.len());
        v.push(self.version << 4); v.extend_from_slice(&[0, 0, 1]);
        v.push(self.next_hdr);
        v.push(self.hdr_len_units.unwrap_or((hl / 4) as u8));
        v.extend_from_slice(&self.payload_len.unwrap_or(self.payload.len() as u16).to_be_bytes());
        v.push(self.path_type);
        v.push((self.dst_nib << 4) | (self.src_nib & 15));
        v.extend_from_slice(&[0, 0]);
        v.extend_from_slice(&[0, 1, 0xff, 0, 0, 0, 1, 0x12]);   // dst 1-ff00:0:112
        v.extend_from_slice(&[0, 1, 0xff, 0, 0, 0, 1, 0x10]);   // src 1-ff00:0:110
        v.extend_from_slice(&self.dst_host);
        v.extend_from_slice(&self.src_host);
        v.extend_from_slice(&self.path);
        v.extend_from_slice(&self.payload);
        v
    }
}

/// standard path bytes with the given segment lengths (contents arbitrary but deterministic)
fn std_path(rng: &mut Rng, s: [u8; 3]) -> Vec<u8> {
    let meta: u32 = ((s[0] as u32 & 63) << 12) | ((s[1] as u32 & 63) << 6) | (s[2] as u32 & 63);
    let mut v = meta.to_be_bytes().to_vec();
    let ninf = s.iter().filter(|x| **x > 0).count();
    let nhop: usize = s.iter().map(|x| *x as usize).sum();
    let fill = rng.below(256) as u8;
    for i in 0..ninf { v.extend_from_slice(&[i as u8 & 1, 0, fill, fill, 0x60, 0, 0, i as u8]); }
    for i in 0..nhop { v.extend_from_slice(&[0, 63, 0, i as u8, 0, i as u8 + 1, fill, 1, 2, 3, 4, 5]); }
    v
}
fn path_of(rng: &mut Rng, pt: u8) -> Vec<u8> {
    match pt {
        0 => vec![],
        1 => { let s = *rng.pick(&[[1u8, 0, 0], [2, 0, 0], [2, 2, 0], [3, 2, 1], [1, 1, 1], [5, 0, 0]]); std_path(rng, s) }
        2 => vec![7; 32],                       // one-hop path: 8 + 12 + 12
        _ => vec![pt; 4 * rng.below(6) as usize],
    }
}

fn v4(rng: &mut Rng) -> [u8; 4] { let x = rng.next(); [10, (x >> 8) as u8, (x >> 16) as u8, 1 + (x % 250) as u8] }
fn v6(rng: &mut Rng) -> [u8; 16] {
    let mut a = [0u8; 16]; a[0] = 0x20; a[1] = 0x01; a[2] = 0x0d; a[3] = 0xb8;
    let x = rng.next().to_be_bytes(); a[8..16].copy_from_slice(&x); a
}
fn mapped(a: [u8; 4]) -> [u8; 16] { let mut m = [0u8; 16]; m[10] = 0xff; m[11] = 0xff; m[12..16].copy_from_slice(&a); m }
fn ip4(a: [u8; 4]) -> IpAddr { IpAddr::V4(Ipv4Addr::from(a)) }
fn ip6(a: [u8; 16]) -> IpAddr { IpAddr::V6(Ipv6Addr::from(a)) }
fn local_of(rng: &mut Rng) -> IpAddr {
    if rng.chance(1, 3) { ip6(v6(rng)) } else { ip4([192, 168, rng.below(256) as u8, 1]) }
}
fn payload_of(rng: &mut Rng, n: usize) -> Vec<u8> {
    // runs of 32 equal bytes: compact as a Coq literal, still position dependent
    let t = rng.below(200) as u8;
    (0..n).map(|i| t.wrapping_add((i / 32) as u8)).collect()
}

// ---------------------------------------------------------------------------------------
// generators

/// valid packets of every source address kind x path type x peer address kind
fn gen_matrix(rng: &mut Rng, out: &mut Vec<Case>) {
    let src_kinds = ["v4", "v6", "mapped", "svc", "unk4", "unk8", "unk12", "unk16"];
    let peers = ["v4", "v6", "mapped"];
    for sk in src_kinds {
        for pt in [0u8, 1, 2, 3, 4, 5, 200] {
            for pk in peers {
                for matching in [true, false] {
                    let a4 = v4(rng); let a6 = v6(rng);
                    let (peer, peer_bytes): (IpAddr, Vec<u8>) = match pk {
                        "v4" => (ip4(a4), a4.to_vec()), "v6" => (ip6(a6), a6.to_vec()),
                        _ => (ip6(mapped(a4)), mapped(a4).to_vec()),
                    };
                    // source host bytes: as close to the peer address as the kind allows
                    let near = |n: usize| -> Vec<u8> {
                        let mut b = if n == 4 { if pk == "v6" { a6[12..].to_vec() } else { a4.to_vec() } }
                                    else if n == 16 { peer_bytes.clone().into_iter().chain(std::iter::repeat(0)).take(16).collect::<Vec<u8>>() }
                                    else { peer_bytes.iter().cloned().cycle().take(n).collect() };
                        if n == 16 && pk == "v4" { b = mapped(a4).to_vec(); }
                        if !matching { let k = b.len() - 1; b[k] ^= 1; }
                        b
                    };
                    let (nib, host) = match sk {
                        "v4" => (0u8, near(4)), "v6" => (3, near(16)),
                        "mapped" => (3, { let mut m = mapped(a4).to_vec(); if !matching { m[15] ^= 1; } m }),
                        "svc" => (4, near(4)), "unk4" => (8, near(4)), "unk8" => (1, near(8)),
                        "unk12" => (2, near(12)), _ => (7, near(16)),
                    };
                    let p = Pkt::new(nib, host, pt, path_of(rng, pt), payload_of(rng, 20));
                    out.push(Case { kind: "matrix", note: format!("src={sk} pt={pt} peer={pk} match={matching}"),
                                    local: local_of(rng), from: peer, dgram: p.bytes() });
                }
            }
        }
    }
}

/// all 256 values of the address type/length byte, the source host bytes equal to the peer's
fn gen_nibbles(rng: &mut Rng, out: &mut Vec<Case>) {
    for b9 in 0u16..256 {
        let (dn, sn) = ((b9 >> 4) as u8, (b9 & 15) as u8);
        let a4 = v4(rng); let a6 = v6(rng);
        let n = host_len(sn);
        let peer = if n == 16 { ip6(a6) } else { ip4(a4) };
        let host: Vec<u8> = if n == 16 { a6.to_vec() } else { a4.iter().cloned().cycle().take(n).collect() };
        let mut p = Pkt::new(sn, host, (b9 % 2) as u8, vec![], payload_of(rng, 8));
        p.path = path_of(rng, p.path_type);
        p.dst_nib = dn; p.dst_host = vec![9; host_len(dn)];
        out.push(Case { kind: "nibble", note: format!("addr byte {b9:#04x}"), local: local_of(rng), from: peer, dgram: p.bytes() });
    }
}

/// all path types
fn gen_path_types(rng: &mut Rng, out: &mut Vec<Case>, step: usize) {
    for pt in (0u16..256).step_by(step) {
        let a4 = v4(rng);
        let p = Pkt::new(0, a4.to_vec(), pt as u8, path_of(rng, pt as u8), payload_of(rng, 8));
        out.push(Case { kind: "pathtype", note: format!("pt={pt}"), local: local_of(rng), from: ip4(a4), dgram: p.bytes() });
    }
}

fn valid_base(rng: &mut Rng) -> (Pkt, IpAddr) {
    let pt = rng.below(2) as u8;
    if rng.chance(1, 2) { let a = v4(rng); (Pkt::new(0, a.to_vec(), pt, path_of(rng, pt), payload_of(rng, 24)), ip4(a)) }
    else { let a = v6(rng); (Pkt::new(3, a.to_vec(), pt, path_of(rng, pt), payload_of(rng, 24)), ip6(a)) }
}

/// truncation points of a valid packet
fn gen_truncations(rng: &mut Rng, out: &mut Vec<Case>, all: bool) {
    let (p, peer) = valid_base(rng);
    let b = p.bytes();
    let hl = b.len() - p.payload.len();
    for k in 0..=b.len() {
        // quick tier: every cut inside the header region of interest, sampled elsewhere
        if !all && !(k <= 14 || (k + 3 >= 28 && k <= hl + 2) || k % 7 == 0 || k + 1 >= b.len()) { continue; }
        out.push(Case { kind: "truncate", note: format!("cut at {k} of {} (hdr {hl})", b.len()), local: local_of(rng), from: peer, dgram: b[..k].to_vec() });
    }
}

/// header-length / payload-length / version fields perturbed
fn gen_perturbed(rng: &mut Rng, out: &mut Vec<Case>) {
    for _ in 0..2 {
        let (p, peer) = valid_base(rng);
        let hl = (p.bytes().len() - p.payload.len()) as i32 / 4;
        for d in [-8i32, -2, -1, 1, 2, 3, 8, 40] {
            let mut q = p.clone(); q.hdr_len_units = Some((hl + d).clamp(0, 255) as u8);
            out.push(Case { kind: "hdrlen", note: format!("hdr_len {hl}{d:+} units"), local: local_of(rng), from: peer, dgram: q.bytes() });
        }
        for v in [0u8, 255] {
            let mut q = p.clone(); q.hdr_len_units = Some(v);
            out.push(Case { kind: "hdrlen", note: format!("hdr_len={v}"), local: local_of(rng), from: peer, dgram: q.bytes() });
        }
        for pl in [0u16, 1, 23, 25, 1000, 65535] {
            let mut q = p.clone(); q.payload_len = Some(pl);
            out.push(Case { kind: "paylen", note: format!("payload_len={pl} actual=24"), local: local_of(rng), from: peer, dgram: q.bytes() });
        }
        for ver in 1u8..16 {
            let mut q = p.clone(); q.version = ver;
            out.push(Case { kind: "version", note: format!("version={ver}"), local: local_of(rng), from: peer, dgram: q.bytes() });
        }
        // trailing garbage after the announced payload
        let mut b = p.bytes(); b.extend_from_slice(&[0xEE; 13]);
        out.push(Case { kind: "paylen", note: "13 trailing bytes".into(), local: local_of(rng), from: peer, dgram: b });
    }
    // inconsistent / extreme segment lengths
    for s in [[0u8, 0, 0], [0, 1, 0], [0, 0, 2], [63, 0, 0], [63, 63, 63], [1, 0, 1], [20, 20, 20]] {
        let a = v4(rng);
        let p = Pkt::new(0, a.to_vec(), 1, std_path(rng, s), payload_of(rng, 8));
        out.push(Case { kind: "seglen", note: format!("segs={s:?}"), local: local_of(rng), from: ip4(a), dgram: p.bytes() });
        // announce more hops than present
        let mut q = Pkt::new(0, a.to_vec(), 1, std_path(rng, [1, 0, 0]), vec![]);
        q.path[1] = s[0] << 4; q.path[2] = s[1]; q.path[3] = s[2];
        out.push(Case { kind: "seglen", note: format!("meta rewritten to {s:?}"), local: local_of(rng), from: ip4(a), dgram: q.bytes() });
    }
}

/// large datagrams up to the buffer size (accepted and rejected): reply truncation to 1232
fn gen_large(rng: &mut Rng, out: &mut Vec<Case>) {
    for n in [1100usize, 1187, 1188, 1189, 1195, 1196, 1197, 1231, 1232, 1233, 4000, 9216 - 60, 9216] {
        for accept in [true, false] {
            let (mut p, peer) = valid_base(rng);
            let hl = p.bytes().len() - p.payload.len();
            let want = n.saturating_sub(hl);
            p.payload = payload_of(rng, want);
            if !accept { if rng.chance(1, 2) { p.path_type = 2 + p.path_type; } else { let k = p.src_host.len() - 1; p.src_host[k] ^= 0x80; } }
            let mut b = p.bytes(); b.truncate(9216);
            out.push(Case { kind: "large", note: format!("{} B accept={accept}", b.len()), local: local_of(rng), from: peer, dgram: b });
        }
    }
    for n in [1300usize, 9216] {
        let b: Vec<u8> = (0..n).map(|_| rng.next() as u8).collect();
        out.push(Case { kind: "large", note: format!("{n} random bytes"), local: local_of(rng), from: ip4(v4(rng)), dgram: b });
    }
}

/// inbound SCMP messages (an SCMP error must not be answered with an SCMP error)
fn gen_scmp(rng: &mut Rng, out: &mut Vec<Case>) {
    for ty in [0u8, 1, 2, 4, 5, 6, 100, 127, 128, 129, 130, 131, 200, 255] {
        for variant in 0..5 {
            let a = v4(rng);
            let mut payload = vec![ty, 0, 0, 0, 0, 0, 0, 0]; payload.extend_from_slice(&payload_of(rng, 12));
            let mut p = Pkt::new(0, a.to_vec(), 0, vec![], payload);
            p.next_hdr = 202;
            let mut from = ip4(a);
            let what = match variant {
                0 => "own source (accepted)",
                1 => { from = ip4([a[0], a[1], a[2], a[3] ^ 1]); "wrong source" }
                2 => { p.path_type = 2; p.path = vec![0; 32]; "one-hop path" }
                3 => { from = ip4([a[0], a[1], a[2], a[3] ^ 1]); p.payload_len = Some(0); "wrong source, payload_len 0" }
                _ => { from = ip4([a[0], a[1], a[2], a[3] ^ 1]); p.next_hdr = 17; "wrong source, next header UDP" }
            };
            out.push(Case { kind: "scmp", note: format!("SCMP type {ty}: {what}"), local: local_of(rng), from, dgram: p.bytes() });
        }
    }
    // header only (no SCMP byte present), and a malformed datagram that looks like an SCMP error
    let a = v4(rng);
    let mut p = Pkt::new(0, a.to_vec(), 0, vec![], vec![]); p.next_hdr = 202; p.payload_len = Some(8);
    out.push(Case { kind: "scmp", note: "SCMP next header, empty payload, wrong source".into(), local: local_of(rng), from: ip4([a[0], a[1], a[2], a[3] ^ 1]), dgram: p.bytes() });
    let mut p = Pkt::new(0, a.to_vec(), 0, vec![], vec![1, 0, 0, 0, 0, 0, 0, 0]); p.next_hdr = 202; p.version = 3;
    out.push(Case { kind: "scmp", note: "SCMP error inside a malformed (version 3) packet".into(), local: local_of(rng), from: ip4(a), dgram: p.bytes() });
}

/// packets produced by the implementation's own encoder
fn gen_sdk(rng: &mut Rng, out: &mut Vec<Case>) {
    let ia: IsdAsn = "1-ff00:0:110".parse().unwrap();
    for i in 0..6 {
        let a4 = v4(rng); let a6 = v6(rng);
        let (src, peer) = if i % 2 == 0 { (ip4(a4), ip4(a4)) } else { (ip6(a6), ip6(a6)) };
        let path = if i % 3 == 0 { DpPath::Empty } else { DpPath::Standard(StandardPath::arbitrary_value(i as u128)) };
        let pkt = ScionRawPacket::new(ScionAddr::new(ia, src.into()), ScionAddr::new(ia, ip4([10, 0, 0, 1]).into()), path,
                                      ProtocolNumber::Udp, b"my SCION packet".to_vec());
        let Ok(b) = pkt.try_encode_to_vec() else { continue };
        let from = if i >= 4 { ip4([10, 0, 0, 99]) } else { peer };
        out.push(Case { kind: "sdk", note: format!("ScionRawPacket #{i}"), local: local_of(rng), from, dgram: b });
    }
}

/// random byte strings and random mutations of valid packets
fn gen_random(rng: &mut Rng, out: &mut Vec<Case>, n: usize) {
    for i in 0..n {
        if i % 3 == 0 {
            let len = if rng.chance(1, 10) { rng.below(300) } else { rng.below(64) } as usize;
            let mut b: Vec<u8> = (0..len).map(|_| rng.next() as u8).collect();
            if len > 0 && rng.chance(3, 4) { b[0] &= 0x0f; }       // version 0 most of the time
            if len > 8 && rng.chance(1, 2) { b[8] = rng.below(3) as u8; }
            let from = if rng.chance(1, 2) { ip4(v4(rng)) } else { ip6(v6(rng)) };
            out.push(Case { kind: "random", note: format!("{len} random bytes"), local: local_of(rng), from, dgram: b });
        } else {
            let (p, peer) = valid_base(rng);
            let mut b = p.bytes();
            let hl = b.len() - p.payload.len();
            let k = 1 + rng.below(3);
            let mut what = vec![];
            for _ in 0..k {
                let pos = if rng.chance(2, 3) { *rng.pick(&[0usize, 5, 5, 8, 9, 9, 9]) } else { rng.below(hl as u64) as usize };
                let bit = 1u8 << rng.below(8);
                b[pos] ^= bit; what.push(format!("{pos}^{bit:#x}"));
            }
            // the peer may also be the other family / the mapped form
            let from = match (rng.below(6), peer) {
                (0, IpAddr::V4(a)) => ip6(mapped(a.octets())),
                (1, IpAddr::V6(a)) => { let o = a.octets(); ip4([o[12], o[13], o[14], o[15]]) }
                _ => peer,
            };
            out.push(Case { kind: "mutated", note: format!("flips {}", what.join(",")), local: local_of(rng), from, dgram: b });
        }
    }
}

// ---------------------------------------------------------------------------------------


// ---------------------------------------------------------------------------------------
// end-to-end: the REAL gateway (TunnelGateway::start_server on a real UDP socket, real
// WireGuard handshake and data packets from a real client tunnel).  Ties the verif-hooks
// wrapper (a copy of the Forwarded arm) to the receive loop itself: the same case format, so
// the model is compared with what the running gateway did.
mod e2e {
    use super::*;
    use ana_gotatun::{noise::{Tunn, TunnResult, rate_limiter::RateLimiter}, packet::{Packet, WgKind}, x25519};
    use scion_sdk_observability::metrics::registry::MetricsRegistry;
    use snap_dataplane::tunnel_gateway::{NoopTunnelGatewayObserver, dispatcher::TunnelGatewayDispatcher,
        gateway::TunnelGateway, metrics::TunnelGatewayDispatcherMetrics};
    use snap_tun::server::SnapTunAuthorization;
    use std::{net::{SocketAddr, UdpSocket}, sync::Arc, time::{Duration, Instant}};

    struct Authz;
    impl SnapTunAuthorization for Authz {
        type SessionData = ();
        fn is_authorized(&self, _now: Instant, _identity: &[u8; 32]) -> Option<Arc<()>> { Some(Arc::new(())) }
    }
    struct ArcRec(Arc<Rec>);
    impl Dispatcher for ArcRec { fn try_dispatch(&self, p: &ScionPacketView) { self.0.try_dispatch(p) } }

    fn wg_bytes(k: WgKind) -> Packet {
        match k { WgKind::HandshakeInit(p) => p.into_bytes(), WgKind::HandshakeResp(p) => p.into_bytes(),
                  WgKind::CookieReply(p) => p.into_bytes(), WgKind::Data(p) => p.into_bytes() }
    }

    pub struct Gw {
        pub local: IpAddr, pub from: IpAddr,
        rec: Arc<Rec>, sock: UdpSocket, client: Tunn, server: SocketAddr,
        _rt: tokio::runtime::Runtime, cancel: tokio_util::sync::CancellationToken,
        /// keeps the gateway's outbound queue open (the loop ends when its sender is dropped)
        _disp: TunnelGatewayDispatcher,
    }

    /// `bind`: server bind address; `client_bind`/`connect`: client side
    pub fn start(bind: &str, client_bind: &str, connect_ip: &str) -> Option<Gw> {
        let rt = tokio::runtime::Builder::new_multi_thread().worker_threads(2).enable_all().build().ok()?;
        let socket = rt.block_on(async { tokio::net::UdpSocket::bind(bind).await }).ok()?;
        let srv_addr = socket.local_addr().ok()?;
        let static_server = x25519::StaticSecret::from([2u8; 32]);
        let server_public = x25519::PublicKey::from(&static_server);
        let (_disp, rx) = TunnelGatewayDispatcher::new(TunnelGatewayDispatcherMetrics::new(&MetricsRegistry::new()));
        let rec = Arc::new(Rec::default());
        let cancel = tokio_util::sync::CancellationToken::new();
        let c2 = cancel.clone();
        let rec2 = rec.clone();
        rt.spawn(async move {
            let gw = TunnelGateway::new(socket, static_server, Arc::new(Authz), Arc::new(ArcRec(rec2)),
                                        Arc::new(NoopTunnelGatewayObserver), rx);
            gw.start_server(c2).await;
        });
        let sock = UdpSocket::bind(client_bind).ok()?;
        sock.set_read_timeout(Some(Duration::from_millis(5))).ok()?;
        let server: SocketAddr = format!("{}:{}", connect_ip, srv_addr.port()).parse().ok()?;
        let rl = Arc::new(RateLimiter::new(&server_public, 1000));
        let client = Tunn::new(x25519::StaticSecret::from([7u8; 32]), server_public, None, None, 0, rl, server);
        let from_ip = sock.local_addr().ok()?.ip();
        // what the server sees as the peer: a v4 client of a dual-stack socket is v4-mapped
        let from = match (srv_addr.ip(), from_ip) {
            (IpAddr::V6(_), IpAddr::V4(a)) => IpAddr::V6(a.to_ipv6_mapped()),
            (_, x) => x,
        };
        Some(Gw { local: srv_addr.ip(), from, rec, sock, client, server, _rt: rt, cancel, _disp })
    }

    impl Gw {
        fn send(&self, k: WgKind) { let b = wg_bytes(k); let _ = self.sock.send_to(&b[..], self.server); }
        /// one incoming UDP packet, decrypted; Some(plaintext) for a data packet
        fn poll(&mut self) -> Option<Vec<u8>> {
            let mut buf = vec![0u8; 16384];
            let (n, _) = self.sock.recv_from(&mut buf).ok()?;
            let dbg = std::env::var("VERIF_E2E_DEBUG").is_ok();
            if dbg { eprintln!("e2e: udp in {n} bytes type {}", buf[0]); }
            let wg = Packet::copy_from(&buf[..n]).try_into_wg().ok()?;
            let r = self.client.handle_incoming_packet(wg);
            if dbg { eprintln!("e2e: tunn result {:?}", match &r { TunnResult::Done => "Done".to_string(), TunnResult::Err(e) => format!("Err {e:?}"), TunnResult::WriteToNetwork(_) => "ToNetwork".into(), TunnResult::WriteToTunnel(p) => format!("ToTunnel {}", p.len()) }); }
            match r {
                TunnResult::WriteToTunnel(p) => Some(p[..].to_vec()),
                TunnResult::WriteToNetwork(k) => { self.send(k); None }
                _ => None,
            }
        }
        pub fn handshake(&mut self) -> bool {
            // a zero-length packet = keep-alive: starts the handshake without tunnelling a datagram
            let Some(k) = self.client.handle_outgoing_packet(Packet::copy_from(&[][..])) else { return false };
            self.send(k);
            let t0 = Instant::now();
            while t0.elapsed() < Duration::from_secs(5) {
                let _ = self.poll();
                let q: Vec<WgKind> = self.client.get_queued_packets().collect();
                if !q.is_empty() { for k in q { self.send(k); } return true; }
            }
            false
        }
        /// Sends one datagram through the tunnel, then a PROBE datagram (3 bytes, always answered
        /// with a reply quoting it).  The gateway handles tunnel packets in order and queues its
        /// replies in order, so everything observed before the probe's reply is the effect of the
        /// datagram: no timing assumption, and a second effect cannot be missed.
        pub fn run(&mut self, dgram: &[u8]) -> Obs {
            const PROBE: [u8; 3] = [0xEE, 0x5A, 0xC3];
            self.rec.got.lock().unwrap().clear();
            let Some(k) = self.client.handle_outgoing_packet(Packet::copy_from(dgram)) else {
                return Obs { class: 8, err: 0, bytes: vec![], n_dispatch: 0 } };
            self.send(k);
            let Some(k) = self.client.handle_outgoing_packet(Packet::copy_from(&PROBE[..])) else {
                return Obs { class: 8, err: 0, bytes: vec![], n_dispatch: 0 } };
            self.send(k);
            let mut replies: Vec<Vec<u8>> = vec![];
            let t0 = Instant::now();
            let mut synced = false;
            while t0.elapsed() < Duration::from_secs(30) {
                if let Some(p) = self.poll() {
                    if p.len() > 3 && p[p.len() - 3..] == PROBE && p.len() == 4 * p[5] as usize + 8 + 3 { synced = true; break; }
                    replies.push(p);
                }
            }
            // the gateway stopped answering: it panicked or hangs on this datagram
            if !synced { return Obs { class: 9, err: 0, bytes: vec![], n_dispatch: 0 }; }
            let got = self.rec.got.lock().unwrap().clone();
            match (got.len(), replies.len()) {
                (1, 0) => Obs { class: 0, err: 0, bytes: got[0].clone(), n_dispatch: 1 },
                (0, 1) => Obs { class: 1, err: 0, bytes: replies.remove(0), n_dispatch: 0 },
                (0, 0) => Obs { class: 2, err: 0, bytes: vec![], n_dispatch: 0 },
                (n, _) => Obs { class: 9, err: 0, bytes: vec![], n_dispatch: n.max(2) },
            }
        }
    }
    impl Drop for Gw { fn drop(&mut self) { self.cancel.cancel(); } }
}

/// datagrams for the end-to-end run: the peer address is fixed by the sockets
fn gen_e2e(rng: &mut Rng, from: IpAddr, extra: usize) -> Vec<(String, Vec<u8>)> {
    let mut v: Vec<(String, Vec<u8>)> = vec![];
    let (nib, host): (u8, Vec<u8>) = match from { IpAddr::V4(a) => (0, a.octets().to_vec()), IpAddr::V6(a) => (3, a.octets().to_vec()) };
    let mut other = host.clone(); let k = other.len() - 1; other[k] ^= 1;
    for pt in [0u8, 1] {
        v.push((format!("own source pt={pt}"), Pkt::new(nib, host.clone(), pt, path_of(rng, pt), payload_of(rng, 30)).bytes()));
        v.push((format!("other source pt={pt}"), Pkt::new(nib, other.clone(), pt, path_of(rng, pt), payload_of(rng, 30)).bytes()));
    }
    // the other family carrying the same host as far as it can
    match from {
        IpAddr::V4(a) => v.push(("mapped form of the peer as IPv6 source".into(), Pkt::new(3, mapped(a.octets()).to_vec(), 0, vec![], payload_of(rng, 8)).bytes())),
        IpAddr::V6(a) => { let o = a.octets(); v.push(("last four octets as IPv4 source".into(), Pkt::new(0, o[12..].to_vec(), 0, vec![], payload_of(rng, 8)).bytes())) }
    }
    for (sn, what) in [(4u8, "service"), (8, "unknown-4"), (7, "unknown-16"), (1, "unknown-8")] {
        let h: Vec<u8> = host.iter().cloned().cycle().take(host_len(sn)).collect();
        v.push((format!("{what} source type with the peer's bytes"), Pkt::new(sn, h, 0, vec![], payload_of(rng, 8)).bytes()));
    }
    for pt in [2u8, 3, 4, 77] { v.push((format!("own source pt={pt}"), Pkt::new(nib, host.clone(), pt, path_of(rng, pt), payload_of(rng, 8)).bytes())); }
    let base = Pkt::new(nib, host.clone(), 1, std_path(rng, [2, 1, 0]), payload_of(rng, 40));
    let b = base.bytes(); let hl = b.len() - 40;
    for cut in [1usize, 5, 11, 12, 27, 28, hl - 1, hl, hl + 7] { v.push((format!("cut at {cut} (hdr {hl})"), b[..cut].to_vec())); }
    for d in [-1i32, 1] { let mut q = base.clone(); q.hdr_len_units = Some(((hl / 4) as i32 + d) as u8); v.push((format!("hdr_len {d:+}"), q.bytes())); }
    let mut q = base.clone(); q.version = 1; v.push(("version 1".into(), q.bytes()));
    let mut q = base.clone(); q.payload_len = Some(10); v.push(("payload_len 10 < 40".into(), q.bytes()));
    for n in [1196usize, 1300, 3000, 8000] {
        let mut q = base.clone(); q.payload = payload_of(rng, n - hl); v.push((format!("valid {n} B"), q.bytes()));
        let mut q = base.clone(); q.payload = payload_of(rng, n - hl); q.src_host = other.clone(); v.push((format!("spoofed {n} B"), q.bytes()));
    }
    for ty in [1u8, 4, 128] {
        let mut q = Pkt::new(nib, other.clone(), 0, vec![], vec![ty, 0, 0, 0, 0, 0, 0, 0]); q.next_hdr = 202;
        v.push((format!("SCMP type {ty} from a spoofed source"), q.bytes()));
    }
    for n in [1usize, 40, 2000] { v.push((format!("{n} random bytes"), (0..n).map(|_| rng.next() as u8).collect())); }
    // random bit flips in the header of a packet that would be accepted
    for _ in 0..extra {
        let pt = rng.below(2) as u8;
        let p = Pkt::new(nib, host.clone(), pt, path_of(rng, pt), payload_of(rng, 16));
        let mut b = p.bytes(); let hl = b.len() - 16;
        let mut what = vec![];
        for _ in 0..(1 + rng.below(2)) {
            let pos = if rng.chance(1, 2) { *rng.pick(&[0usize, 4, 5, 6, 7, 8, 9]) } else { rng.below(hl as u64) as usize };
            let bit = 1u8 << rng.below(8); b[pos] ^= bit; what.push(format!("{pos}^{bit:#x}"));
        }
        if b.len() != 3 { v.push((format!("flips {}", what.join(",")), b)); }
    }
    v
}

fn run_e2e(rng: &mut Rng, cases: &mut Vec<(Case, Obs)>, sum: &mut Summary, extra: usize) {
    for (name, bind, cbind, connect) in [("v4", "127.0.0.1:0", "127.0.0.1:0", "127.0.0.1"), ("v6", "[::1]:0", "[::1]:0", "::1"),
                                         ("dual", "[::]:0", "127.0.0.1:0", "127.0.0.1")] {
        let Some(mut gw) = e2e::start(bind, cbind, connect) else { sum.count(&format!("e2e.{name}.unavailable")); continue };
        if !gw.handshake() { sum.count(&format!("e2e.{name}.no_handshake")); continue; }
        for (note, dgram) in gen_e2e(rng, gw.from, extra) {
            let o = gw.run(&dgram);
            if o.class == 8 { sum.count(&format!("e2e.{name}.not_synchronised")); continue; }
            sum.count(&format!("e2e.{name}.cases"));
            cases.push((Case { kind: "e2e", note: format!("[{name}] {note}"), local: gw.local, from: gw.from, dgram }, o));
        }
    }
}

fn coq_ip(a: &IpAddr) -> String {
    match a { IpAddr::V4(x) => format!("(IPv4 {})", coq_bytes(&x.octets())), IpAddr::V6(x) => format!("(IPv6 {})", coq_bytes(&x.octets())) }
}
/// runs of >= 6 equal bytes as `R n b`, everything else as literal chunks
fn coq_segs(b: &[u8]) -> String {
    let mut segs: Vec<String> = vec![]; let mut lit: Vec<u8> = vec![];
    for (n, x) in rle(b) {
        if n >= 6 { if !lit.is_empty() { segs.push(format!("B {}", coq_bytes(&lit))); lit.clear(); } segs.push(format!("R {n} {x}")); }
        else { for _ in 0..n { lit.push(x); } }
    }
    if !lit.is_empty() { segs.push(format!("B {}", coq_bytes(&lit))); }
    coq_list(segs)
}

/// RFC 1071 checksum of the SCMP message of a reply, pseudo-header included (0 = valid)
fn reply_checksum_residue(r: &[u8]) -> Option<u16> {
    if r.len() < 12 { return None; }
    let hl = 4 * r[5] as usize;
    if r.len() < hl + 8 { return None; }
    let mut data = r[12..hl].to_vec();
    data.extend_from_slice(&((r.len() - hl) as u32).to_be_bytes());
    data.extend_from_slice(&[0, 0, 0, r[4]]);
    data.extend_from_slice(&r[hl..]);
    if data.len() % 2 == 1 { data.push(0); }
    let mut s: u32 = 0;
    for w in data.chunks(2) { s += ((w[0] as u32) << 8) | w[1] as u32; }
    while s > 0xffff { s = (s >> 16) + (s & 0xffff); }
    Some(!(s as u16))
}

fn main() {
    if std::env::var("VERIF_E2E_DEBUG").is_ok() {
        let _ = tracing_subscriber::fmt().with_env_filter("debug").with_writer(std::io::stderr).try_init();
    }
    silence_panics();
    let out = arg("--out").expect("--out dir");
    let n: usize = arg("--n").and_then(|s| s.parse().ok()).unwrap_or(300);
    let thorough = std::env::var("VERIF_TIER").map(|t| t == "thorough").unwrap_or(false);
    let seed = seed_from_env();
    let mut rng = Rng::new(seed);
    let mut cases: Vec<Case> = vec![];
    gen_matrix(&mut rng, &mut cases);
    gen_nibbles(&mut rng, &mut cases);
    gen_path_types(&mut rng, &mut cases, if thorough { 1 } else { 3 });
    for _ in 0..(if thorough { 12 } else { 2 }) { gen_truncations(&mut rng, &mut cases, thorough); }
    gen_perturbed(&mut rng, &mut cases);
    gen_large(&mut rng, &mut cases);
    gen_scmp(&mut rng, &mut cases);
    gen_sdk(&mut rng, &mut cases);
    gen_random(&mut rng, &mut cases, n);

    // ONE pool buffer, reused for every reply: a byte of the reply that the encoder does not
    // write would show up as stale content of the previous reply
    let pool = hooks::new_pool(1);
    let pre = "From Sci Require Import Ingress.Cases. Open Scope N_scope.";
    let mut sh = Shards::new(&out, pre, "icase", "verdicts", 120);
    let mut sum = Summary::default();
    let mut seen = std::collections::HashSet::new();
    let mut observed: Vec<(Case, Obs)> = cases.iter().map(|c| (c.clone(), run_impl(&pool, c))).collect();
    if arg("--no-e2e").is_none() { run_e2e(&mut rng, &mut observed, &mut sum, if thorough { 400 } else { 40 }); }
    for (c, o) in &observed {
        sum.count(&format!("kind.{}", c.kind));
        sum.count(&format!("class.{}", ["dispatch", "reply", "encode_error", "suppressed", "", "", "", "", "", "panic"][o.class as usize]));
        sum.count(&format!("check_error.{}", o.err));
        sum.count(&format!("peer.{}", match c.from { IpAddr::V4(_) => "v4", IpAddr::V6(a) => if a.to_ipv4_mapped().is_some() { "mapped" } else { "v6" } }));
        sum.count(&format!("size.{}", match c.dgram.len() { 0..=11 => "0-11", 12..=63 => "12-63", 64..=255 => "64-255", 256..=1232 => "256-1232", _ => "1233-9216" }));
        if o.n_dispatch > 1 || (o.class != 0 && o.n_dispatch != 0) { sum.count("ANOMALY.dispatch_count"); }
        if o.class == 1 {
            sum.count(if o.bytes.len() <= 1232 { "reply.le_1232" } else { "reply.GT_1232" });
            if o.bytes.len() == 1232 { sum.count("reply.eq_1232"); }
            match reply_checksum_residue(&o.bytes) { Some(0) => sum.count("reply.checksum_valid"), _ => sum.count("reply.checksum_invalid") }
        }
        // a rejected datagram must not have been dispatched, a dispatched one not answered:
        // encode a violation of that as class 9 so that the Coq side flags it
        let class = if o.n_dispatch > 1 || (o.class != 0 && o.n_dispatch != 0) { 9 } else { o.class };
        let err = if c.kind == "e2e" { 255 } else { o.err };
        let case = format!("mkI {} {} {} {} {} {}", coq_ip(&c.local), coq_ip(&c.from), coq_segs(&c.dgram), class, err, coq_segs(&o.bytes));
        let human = format!("kind={} {} peer={} local={} len={} -> class={} err={} out_len={} dgram={}", c.kind, c.note, c.from, c.local,
                            c.dgram.len(), class, o.err, o.bytes.len(),
                            if c.dgram.len() <= 120 { format!("{:02x?}", c.dgram) } else { format!("{:02x?}...", &c.dgram[..120]) });
        if seen.insert((c.dgram.clone(), c.from)) && c.dgram.len() >= 12 { sum.count("distinct_nontrivial"); }
        if sum.samples.len() < 3 { sum.samples.push(human.clone()); }
        sum.index.push(human);
        sh.push(case);
    }
    sh.flush();
    let distinct = *sum.dist.get("distinct_nontrivial").unwrap_or(&0) as usize;
    sum.write(&out, sh.total, distinct);
}
