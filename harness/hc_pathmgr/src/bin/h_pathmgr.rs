//! C05/C06/C07 correspondence harness: drives one real `PathSet` (with its manager and issue
//! manager) through the verif-hooks probe along generated event histories and writes the
//! histories with the observation after every event as Coq case files.
//!
//!   h_pathmgr --out DIR --n N [--prop C05|C06|C07]
use std::net::{IpAddr, Ipv4Addr};
use std::panic::AssertUnwindSafe;
use std::str::FromStr;
use std::sync::Arc;
use std::time::{Duration, SystemTime};

use futures::FutureExt;
use scion_sdk_utils::backoff::BackoffConfig;
use scion_stack::path::manager::verif_hooks::*;
use scion_stack::path::policy::PathPolicy;
use sciparse::{
    address::ip_addr::ScionIpAddr,
    dataplane_path::view::ScionDpPathView,
    identifier::{asn::Asn, isd::Isd, isd_asn::IsdAsn},
    path::{ScionPath, fingerprint::data_plane::DpPathFingerprint, policy::{Policy, acl::AclPolicy, hop_pattern::HopPatternPolicy}},
    util::test_builder::TestPathBuilder,
};
use vcommon::*;

const SRC: ScionIpAddr = ScionIpAddr::new(IsdAsn::new(Isd(1), Asn(1)), IpAddr::V4(Ipv4Addr::LOCALHOST));
const DST: ScionIpAddr = ScionIpAddr::new(IsdAsn::new(Isd(2), Asn(1)), IpAddr::V4(Ipv4Addr::new(127, 0, 0, 2)));
const NS: u64 = 1_000_000_000;
const T0: u64 = 100_000; // seconds

fn at(ns: u64) -> SystemTime { SystemTime::UNIX_EPOCH + Duration::from_nanos(ns) }
fn ns_of(t: SystemTime) -> u64 { t.duration_since(SystemTime::UNIX_EPOCH).map(|d| d.as_nanos() as u64).unwrap_or(0) }
fn ia(asn: u64) -> IsdAsn { IsdAsn::new(Isd(1), Asn(asn)) }
// compact Coq literals (15-digit numerals are slow to parse): see Cases.v [rt], [sc], [ms], [ia]
fn tm(ns: u64) -> String {
    if ns < T0 * NS { return ns.to_string(); }
    let r = ns - T0 * NS;
    format!("(rt {} {})", r / NS, r % NS)
}
fn dur(ns: u64) -> String {
    if ns % NS == 0 { format!("(sc {})", ns / NS) } else if ns % 1_000_000 == 0 { format!("(ms {})", ns / 1_000_000) } else { ns.to_string() }
}
fn iac(i: IsdAsn) -> String { format!("(ia {} {})", i.isd().0, i.asn().0) }

// ---------------------------------------------------------------- universe
/// routes: (first egress, transit hops (asn, ingress, egress), last ingress)
const ROUTES: &[(u16, &[(u32, u16, u16)], u16)] = &[
    (1, &[(10, 2, 3)], 4),
    (5, &[(20, 6, 7)], 8),
    (1, &[(10, 2, 9), (30, 10, 11)], 12),
    (5, &[(20, 6, 7), (40, 13, 14)], 15),
    (16, &[], 17),
    (18, &[(10, 19, 3)], 4),
];

fn build_route(route: usize, ts: u32, exp: u8, meta: bool) -> ScionPath {
    let (first_eg, hops, last_in) = ROUTES[route];
    let mut b = TestPathBuilder::new(SRC.into(), DST.into()).using_info_timestamp(ts).with_hop_expiry(exp).up();
    b = b.add_hop(0, first_eg);
    for &(asn, i, e) in hops { b = b.with_asn(asn).add_hop(i, e); }
    b = b.add_hop(last_in, 0);
    let ctx = b.build(ts);
    if meta { ctx.path() } else {
        ScionPath::new(SRC.isd_asn(), DST.isd_asn(), ctx.data_plane_path.try_encode_to_owned_view().unwrap(), None, None)
    }
}
/// a path of `route` expiring exactly at `expiry` (seconds)
fn path_expiring(route: usize, expiry: u64, meta: bool) -> ScionPath {
    let probe = build_route(route, 1_000_000, 0, meta).expiration().unwrap() as i64 - 1_000_000;
    let ts = (expiry as i64 - probe).max(1) as u32;
    let p = build_route(route, ts, 0, meta);
    assert!(ts == 1 || p.expiration().unwrap() as u64 == expiry, "expiry {} wanted {}", p.expiration().unwrap(), expiry);
    p
}

#[derive(Clone)]
struct UPath { route: usize, path: ScionPath, meta: bool }
#[derive(Clone)]
struct Universe { paths: Vec<UPath> }
impl Universe {
    fn id_of(&self, p: &ScionPath) -> Option<usize> { self.paths.iter().position(|u| &u.path == p) }
    fn coq(&self) -> String {
        coq_list(self.paths.iter().enumerate().map(|(id, u)| {
            let p = &u.path;
            let ifs = p.metadata().and_then(|m| m.interfaces.as_ref()).map(|v| coq_list(v.iter().map(|i| format!("({},{})", iac(i.interface.isd_asn), i.interface.id))));
            let hops = match p.dp_path() { ScionDpPathView::Standard(s) => s.hop_field_count() as u64, ScionDpPathView::Unsupported { .. } => 50, _ => 0 };
            let pi = |o: Option<sciparse::path::metadata::path_interface::PathInterface>| coq_opt(o.map(|i| format!("({},{})", iac(i.isd_asn), i.id)));
            format!("mkPath {} {} {} {} {} {} {} {} {}", id, u.route, iac(p.src_ia()), iac(p.dst_ia()),
                coq_opt(p.expiration().map(|e| e.to_string())), coq_opt(ifs), pi(p.first_egress_interface()), pi(p.last_ingress_interface()), hops)
        }))
    }
}

// ---------------------------------------------------------------- policies
struct TablePolicy(Vec<(DpPathFingerprint, Option<u32>)>); // allowed (fingerprint, expiry) pairs
impl PathPolicy for TablePolicy {
    fn predicate(&self, p: &ScionPath) -> bool { self.0.contains(&(p.fingerprint(), p.expiration())) }
}
enum Pol { None, Table(Vec<bool>), Acl(String), AclAndTable(String, Vec<bool>), Hops(String) }
fn hop_policy(s: &str) -> Policy { Policy::new(None, Some(HopPatternPolicy::parse(s).unwrap_or_else(|_| panic!("hop pattern {s}")))) }
impl Pol {
    fn describe(&self) -> String {
        match self { Pol::None => "nopolicy".into(), Pol::Table(t) => format!("table{:?}", t.iter().map(|b| *b as u8).collect::<Vec<_>>()),
            Pol::Acl(s) => format!("acl[{s}]"), Pol::AclAndTable(s, _) => format!("acl[{s}]+table"), Pol::Hops(s) => format!("hops[{s}]") }
    }
    fn table_policy(u: &Universe, t: &[bool]) -> TablePolicy {
        TablePolicy(u.paths.iter().zip(t).filter(|(_, b)| **b).map(|(p, _)| (p.path.fingerprint(), p.path.expiration())).collect())
    }
    fn objects(&self, u: &Universe) -> Vec<Arc<dyn PathPolicy>> {
        match self {
            Pol::None => vec![],
            Pol::Table(t) => vec![Arc::new(Self::table_policy(u, t))],
            Pol::Acl(s) => vec![Arc::new(AclPolicy::from_str(s).unwrap())],
            Pol::AclAndTable(s, t) => vec![Arc::new(AclPolicy::from_str(s).unwrap()), Arc::new(Self::table_policy(u, t))],
            Pol::Hops(s) => vec![Arc::new(hop_policy(s))],
        }
    }
    /// the policy evaluated directly on every universe path, outside the manager
    fn table(&self, u: &Universe) -> Vec<Option<bool>> {
        use sciparse::path::policy::PathPolicy as SP;
        u.paths.iter().enumerate().map(|(i, p)| match self {
            Pol::None => Some(true),
            Pol::Table(t) => Some(t[i]),
            Pol::Acl(s) => AclPolicy::from_str(s).unwrap().path_allowed(&p.path).ok(),
            Pol::AclAndTable(s, t) => AclPolicy::from_str(s).unwrap().path_allowed(&p.path).ok().map(|b| b && t[i]),
            Pol::Hops(s) => hop_policy(s).path_allowed(&p.path).ok(),
        }).collect()
    }
}

// ---------------------------------------------------------------- config
#[derive(Clone, Copy)]
struct Cfg { pc: ProbeConfig, f_num: u64, f_den: u64 }
fn secs(s: u64) -> Duration { Duration::from_secs(s) }
fn f32_ns(x: f32) -> u64 { (x as f64 * 1e9).round() as u64 }
/// exact rational value of an f32
fn f32_q(x: f32) -> String {
    let v = x as f64; let mut den: u64 = 1; let mut num = v;
    while num.fract() != 0.0 && den < (1u64 << 60) { num *= 2.0; den *= 2; }
    format!("(Qmake ({}) {})", num as i64, den)
}
impl Cfg {
    fn coq(&self) -> String {
        let c = &self.pc;
        format!("(mkCfg {} {} {} {} {} {} {} {} {} {} {} {} {} {} {})", iac(SRC.isd_asn()), iac(DST.isd_asn()),
            c.max_cached_paths_per_pair, dur(c.refetch_interval.as_nanos() as u64), dur(c.min_refetch_delay.as_nanos() as u64), dur(c.min_expiry_threshold.as_nanos() as u64),
            dur(c.max_idle_period.as_nanos() as u64), dur(f32_ns(c.fetch_failure_backoff.minimum_delay_secs)), dur(f32_ns(c.fetch_failure_backoff.maximum_delay_secs)),
            self.f_num, self.f_den, dur(f32_ns(c.fetch_failure_backoff.jitter_secs)), c.issue_cache_size, dur(c.issue_deduplication_window.as_nanos() as u64),
            f32_q(c.path_swap_score_threshold))
    }
    fn describe(&self) -> String {
        let c = &self.pc;
        format!("cfg(max={},refetch={}s,mind={}s,thr={}s,idle={}s,bo={}/{}x{}/{}+{},isz={},dedup={}s,swap={})", c.max_cached_paths_per_pair,
            c.refetch_interval.as_secs(), c.min_refetch_delay.as_secs(), c.min_expiry_threshold.as_secs(), c.max_idle_period.as_secs(),
            c.fetch_failure_backoff.minimum_delay_secs, c.fetch_failure_backoff.maximum_delay_secs, self.f_num, self.f_den,
            c.fetch_failure_backoff.jitter_secs, c.issue_cache_size, c.issue_deduplication_window.as_secs(), c.path_swap_score_threshold)
    }
}
fn cfg_default() -> Cfg { Cfg { pc: ProbeConfig::production_default(), f_num: 3, f_den: 2 } }
fn cfg_small() -> Cfg {
    Cfg { pc: ProbeConfig { max_cached_paths_per_pair: 3, refetch_interval: secs(100), min_refetch_delay: secs(2), min_expiry_threshold: secs(5),
        max_idle_period: secs(30), fetch_failure_backoff: BackoffConfig { minimum_delay_secs: 1.0, maximum_delay_secs: 10.0, factor: 2.0, jitter_secs: 0.0 },
        issue_cache_size: 3, issue_broadcast_size: 64, issue_deduplication_window: secs(10), path_swap_score_threshold: 0.1 }, f_num: 2, f_den: 1 }
}
fn gen_cfg(rng: &mut Rng) -> Cfg {
    if rng.chance(1, 16) {
        // rejected by the validator (or on its boundary)
        let mut c = cfg_small();
        match rng.below(3) {
            0 => c.pc.min_refetch_delay = c.pc.refetch_interval + secs(rng.below(2)),
            1 => { c.pc.min_expiry_threshold = secs(4); c.pc.min_refetch_delay = secs(4 + rng.below(2)); }
            _ => { c.pc.refetch_interval = secs(1); c.pc.min_refetch_delay = secs(2); c.pc.min_expiry_threshold = secs(1); }
        }
        return c;
    }
    match rng.below(6) {
        0 => cfg_default(),
        1 => cfg_small(),
        _ => {
            // around the validator's boundary: min_delay <= refetch, min_delay <= threshold
            let mind = *rng.pick(&[0u64, 1, 2, 10, 60]);
            let thr = mind + *rng.pick(&[0u64, 0, 1, 5, 240]);
            let refetch = mind + *rng.pick(&[0u64, 1, 50, 1740]);
            let (factor, f_num, f_den) = *rng.pick(&[(1.5f32, 3u64, 2u64), (2.0, 2, 1), (1.0, 1, 1), (1.25, 5, 4)]);
            let bo_min = *rng.pick(&[0.5f32, 1.0, 4.0, 60.0]);
            let bo_max = bo_min * *rng.pick(&[1.0f32, 2.0, 5.0, 64.0]);
            Cfg { pc: ProbeConfig { max_cached_paths_per_pair: *rng.pick(&[0usize, 1, 2, 3, 5, 50]), refetch_interval: secs(refetch), min_refetch_delay: secs(mind),
                min_expiry_threshold: secs(thr), max_idle_period: secs(*rng.pick(&[5u64, 30, 120, 100000, 100000, 100000])),
                fetch_failure_backoff: BackoffConfig { minimum_delay_secs: bo_min, maximum_delay_secs: bo_max, factor, jitter_secs: *rng.pick(&[0.0f32, 0.0, 0.5, 5.0]) },
                issue_cache_size: *rng.pick(&[0usize, 1, 2, 3, 100]), issue_broadcast_size: 64, issue_deduplication_window: secs(*rng.pick(&[0u64, 1, 10])),
                path_swap_score_threshold: *rng.pick(&[0.5f32, 0.1, 0.0, 0.25, 1.5]) }, f_num, f_den }
        }
    }
}

// ---------------------------------------------------------------- events
#[derive(Clone, Debug)]
enum Ev {
    Tick { now: u64, ans: Option<Vec<usize>> },
    Report { now: u64, issue: HookIssue },
    Deliver { now: u64 },
    Direct { now: u64, issue: HookIssue, pen: f32 },
    Send { now: u64 },
    SendWait { now: u64 },
}
fn issue_coq(i: &HookIssue) -> String {
    match *i {
        HookIssue::InterfaceDown { isd_asn, interface_id } => format!("(IInterfaceDown {} {})", iac(isd_asn), interface_id),
        HookIssue::ConnectivityDown { isd_asn, ingress, egress } => format!("(IConnectivityDown {} {} {})", iac(isd_asn), ingress, egress),
        HookIssue::FirstHopUnreachable { isd_asn, interface_id } => format!("(IFirstHop {} {})", iac(isd_asn), interface_id),
    }
}
fn issue_human(i: &HookIssue) -> String {
    match *i {
        HookIssue::InterfaceDown { isd_asn, interface_id } => format!("ifdown({isd_asn}#{interface_id})"),
        HookIssue::ConnectivityDown { isd_asn, ingress, egress } => format!("conndown({isd_asn}#{ingress}>{egress})"),
        HookIssue::FirstHopUnreachable { isd_asn, interface_id } => format!("firsthop({isd_asn}#{interface_id})"),
    }
}
impl Ev {
    fn now(&self) -> u64 { match self { Ev::Tick { now, .. } | Ev::Report { now, .. } | Ev::Deliver { now } | Ev::Direct { now, .. } | Ev::Send { now } | Ev::SendWait { now } => *now } }
    fn coq(&self) -> String {
        match self {
            Ev::Tick { now, ans } => format!("CTick {} {}", tm(*now), coq_opt(ans.as_ref().map(|v| coq_list(v.iter().map(|x| x.to_string()))))),
            Ev::Report { now, issue } => format!("CReport {} {}", tm(*now), issue_coq(issue)),
            Ev::Deliver { now } => format!("CDeliver {}", tm(*now)),
            Ev::Direct { now, issue, pen } => format!("CDirect {} {} {}", tm(*now), issue_coq(issue), f32_q(*pen)),
            Ev::Send { now } => format!("CSend {}", tm(*now)),
            Ev::SendWait { now } => format!("CSendWait {}", tm(*now)),
        }
    }
    fn human(&self) -> String {
        let t = |n: &u64| { let d = *n as i128 - (T0 * NS) as i128; format!("t0+{}.{:03}s", d / NS as i128, (d % NS as i128) / 1_000_000) };
        match self {
            Ev::Tick { now, ans } => format!("tick@{}:{}", t(now), match ans { None => "ERR".into(), Some(v) => format!("{v:?}") }),
            Ev::Report { now, issue } => format!("report@{}:{}", t(now), issue_human(issue)),
            Ev::Deliver { now } => format!("deliver@{}", t(now)),
            Ev::Direct { now, issue, pen } => format!("direct@{}:{}:{}", t(now), issue_human(issue), pen),
            Ev::Send { now } => format!("send@{}", t(now)),
            Ev::SendWait { now } => format!("sendwait@{}", t(now)),
        }
    }
}

#[derive(Clone, Default)]
struct Obs { out: u64, arg: u64, cached: Vec<usize>, totals: Vec<i64>, active: Option<usize>, next_refetch: u64, next_idle: u64,
    failed: u64, used: bool, ic: usize, fifo: usize, chan: usize, err: u8, init: bool }
impl Obs {
    fn coq(&self) -> String {
        format!("mkObs {} {} {} {} {} {} {} {} {} {} {} {} {} {}", self.out, self.arg, coq_list(self.cached.iter().map(|x| x.to_string())),
            coq_list(self.totals.iter().map(|x| format!("({x})%Z"))), coq_opt(self.active.map(|x| x.to_string())), tm(self.next_refetch), tm(self.next_idle),
            self.failed, coq_bool(self.used), self.ic, self.fifo, self.chan, self.err, coq_bool(self.init))
    }
}

struct Runner { probe: PathSetProbe, u: Universe, dead: bool, unknown_path: bool }
impl Runner {
    fn observe(&self, now: u64, out: u64, arg: u64) -> Obs {
        let p = &self.probe;
        let cached = p.cached(at(now));
        let (ic, fifo, _) = p.issue_sizes();
        Obs { out, arg, cached: cached.iter().map(|c| self.u.id_of(&c.path).unwrap_or(9999)).collect(),
            totals: cached.iter().map(|c| (c.total as f64 * 1e6).round() as i64).collect(),
            active: p.active().map(|a| self.u.id_of(&a.0).unwrap_or(9999)), next_refetch: ns_of(p.next_refetch()), next_idle: ns_of(p.next_idle_check()),
            failed: p.failed_attempts() as u64, used: p.was_used(), ic, fifo, chan: p.pending_issues(), err: p.current_error_class(), init: p.initialized() }
    }
    async fn exec(&mut self, e: &Ev) -> Obs {
        let now = e.now();
        let r: Result<(u64, u64), ()> = match e {
            Ev::Tick { ans, .. } => {
                self.probe.clear_answers();
                self.probe.push_answer(match ans { None => FetchAnswer::Error("lookup failed".into()),
                    Some(ids) => FetchAnswer::Paths(ids.iter().map(|i| self.u.paths[*i].path.clone()).collect()) });
                let r = AssertUnwindSafe(self.probe.maintain(at(now))).catch_unwind().await;
                r.map(|o| if o.exit.is_some() { (2, 0) } else if o.fetched { (1, 0) } else { (0, 0) }).map_err(|_| ())
            }
            Ev::Report { issue, .. } => std::panic::catch_unwind(AssertUnwindSafe(|| if self.probe.report_issue(at(now), *issue) { (3, 0) } else { (4, 0) })).map_err(|_| ()),
            Ev::Deliver { .. } => std::panic::catch_unwind(AssertUnwindSafe(|| if self.probe.deliver_pending(at(now)) { (5, 0) } else { (6, 0) })).map_err(|_| ()),
            Ev::Direct { issue, pen, .. } => std::panic::catch_unwind(AssertUnwindSafe(|| if self.probe.handle_issue(at(now), *issue, *pen) { (5, 0) } else { (0, 0) })).map_err(|_| ()),
            Ev::Send { .. } => {
                let u = &self.u; let probe = &self.probe;
                std::panic::catch_unwind(AssertUnwindSafe(|| match probe.cached_path(at(now)) { Some(p) => (7, u.id_of(&p).unwrap_or(9999) as u64), None => (8, 0) })).map_err(|_| ())
            }
            Ev::SendWait { .. } => {
                let r = AssertUnwindSafe(self.probe.path(at(now))).catch_unwind().await;
                r.map(|x| match x { PathResult::Path(p) => (7, self.u.id_of(&p).unwrap_or(9999) as u64), PathResult::NoPathsFound => (9, 1), PathResult::Failed(_) => (9, 2) }).map_err(|_| ())
            }
        };
        match r {
            Err(()) => { self.dead = true; Obs { out: 99, ..Default::default() } }
            Ok((out, arg)) => {
                if out == 2 { self.dead = true; }
                let o = self.observe(now, out, arg);
                if o.cached.contains(&9999) || o.active == Some(9999) || arg == 9999 { self.unknown_path = true; }
                o
            }
        }
    }
}

// ---------------------------------------------------------------- cases
struct Case { cfg: Cfg, u: Universe, pol: Pol, evs: Vec<(Ev, Obs)>, kind: String, rejected: bool }

const ISSUE_POOL: &[HookIssue] = &[
    HookIssue::InterfaceDown { isd_asn: IsdAsn::new(Isd(1), Asn(10)), interface_id: 3 },
    HookIssue::InterfaceDown { isd_asn: IsdAsn::new(Isd(1), Asn(20)), interface_id: 7 },
    HookIssue::InterfaceDown { isd_asn: IsdAsn::new(Isd(1), Asn(10)), interface_id: 2 },   // an ingress interface
    HookIssue::InterfaceDown { isd_asn: IsdAsn::new(Isd(1), Asn(1)), interface_id: 1 },    // source AS egress
    HookIssue::InterfaceDown { isd_asn: IsdAsn::new(Isd(2), Asn(1)), interface_id: 4 },    // destination ingress
    HookIssue::ConnectivityDown { isd_asn: IsdAsn::new(Isd(1), Asn(10)), ingress: 2, egress: 3 },
    HookIssue::ConnectivityDown { isd_asn: IsdAsn::new(Isd(1), Asn(10)), ingress: 19, egress: 3 },
    HookIssue::ConnectivityDown { isd_asn: IsdAsn::new(Isd(1), Asn(30)), ingress: 10, egress: 11 },
    HookIssue::FirstHopUnreachable { isd_asn: IsdAsn::new(Isd(1), Asn(1)), interface_id: 1 },
    HookIssue::FirstHopUnreachable { isd_asn: IsdAsn::new(Isd(1), Asn(1)), interface_id: 5 },
    HookIssue::FirstHopUnreachable { isd_asn: IsdAsn::new(Isd(1), Asn(7)), interface_id: 5 }, // other source AS: does not apply
    HookIssue::InterfaceDown { isd_asn: IsdAsn::new(Isd(1), Asn(40)), interface_id: 14 },
    HookIssue::InterfaceDown { isd_asn: IsdAsn::new(Isd(1), Asn(99)), interface_id: 1 },  // on no path
];

/// issues so that no universe path is matched by more than two of them (the order in which
/// `apply_cached_issues` walks its HashMap is then irrelevant)
fn pick_issues(rng: &mut Rng, u: &Universe, k: usize) -> Vec<HookIssue> {
    let mut pool: Vec<HookIssue> = ISSUE_POOL.to_vec();
    rng.shuffle(&mut pool);
    let mut out: Vec<HookIssue> = vec![];
    for i in pool {
        if out.len() >= k { break; }
        let mut cand = out.clone(); cand.push(i);
        if u.paths.iter().all(|p| cand.iter().filter(|j| j.matches_path(&p.path) == Some(true)).count() <= 2) { out = cand; }
    }
    out
}

fn gen_universe(rng: &mut Rng, cfg: &Cfg, n_routes: usize) -> Universe {
    let mut routes: Vec<usize> = (0..ROUTES.len()).collect();
    rng.shuffle(&mut routes);
    routes.truncate(n_routes);
    let c = &cfg.pc;
    let thr = c.min_expiry_threshold.as_secs(); let mind = c.min_refetch_delay.as_secs(); let rf = c.refetch_interval.as_secs();
    let mut paths = vec![];
    for &r in &routes {
        let nver = 1 + rng.below(3) as usize;
        for v in 0..nver {
            let off: i64 = match rng.below(16) {
                0 => thr as i64 - 1, 1 => thr as i64, 2 => thr as i64 + 1, 3 => (thr + mind) as i64 + 1, 4 => (thr + rf) as i64 + 1,
                5 => -10, 6 => 1, 7 => (thr + 2 * rf + 50) as i64, 8 => (thr + mind / 2 + 3) as i64,
                9 | 10 => (thr + rf / 2 + 7) as i64, 11 => (2 * thr + 90) as i64,
                _ => (3 * rf + thr + 1000) as i64,
            } + v as i64 * (rf as i64 + rng.range(1, 400) as i64);   // later versions: refreshed by the control plane
            let meta = !rng.chance(1, 8);
            let cand = UPath { route: r, path: path_expiring(r, (T0 as i64 + off) as u64, meta), meta };
            // path objects must be pairwise different (they are identified by equality)
            if !paths.iter().any(|q: &UPath| q.path == cand.path) { paths.push(cand); }
        }
    }
    Universe { paths }
}

fn gen_pol(rng: &mut Rng, u: &Universe) -> Pol {
    let n = u.paths.len();
    match rng.below(10) {
        8 | 9 => Pol::Hops(rng.pick(&["0* 1-10 0*", "0 0 0", "0*", "1-1 0* 2-1", "0 1-20 0+", "0 0"]).to_string()),
        0 => Pol::None,
        1 | 2 | 3 => Pol::Table((0..n).map(|_| rng.chance(2, 3)).collect()),
        4 => Pol::Table(vec![false; n]),
        5 => Pol::Acl(rng.pick(&["- 1-10 +", "- 1-20 +", "+ 1-10 + 1-1 + 2-1 -", "- 1-30 - 1-40 +", "+"]).to_string()),
        6 => Pol::Acl(rng.pick(&["- 1-10#2,3 +", "- 1-1#0,5 +", "- 2-1 +", "-"]).to_string()),
        _ => Pol::AclAndTable("- 1-20 +".into(), (0..n).map(|_| rng.chance(3, 4)).collect()),
    }
}

async fn run_case(cfg: Cfg, u: Universe, pol: Pol, kind: String, mut script: impl FnMut(&mut Rng, &Runner, u64, usize) -> Option<Ev>, rng: &mut Rng, max_len: usize) -> Option<Case> {
    let probe = match PathSetProbe::new(SRC.isd_asn(), DST.isd_asn(), cfg.pc, pol.objects(&u), at(T0 * NS)) {
        Ok(p) => p,
        // rejected by MultiPathManagerConfig::validate: the case records just that
        Err(_) => return Some(Case { cfg, u, pol, evs: vec![], kind: format!("{kind}-rejected"), rejected: true }),
    };
    let mut r = Runner { probe, u: u.clone(), dead: false, unknown_path: false };
    let mut evs = vec![];
    let mut now = T0 * NS;
    for k in 0..max_len {
        if r.dead { break; }
        let Some(e) = script(rng, &r, now, k) else { break };
        now = e.now();
        let o = r.exec(&e).await;
        evs.push((e, o));
    }
    assert!(!r.unknown_path, "a cached/handed-out path is not in the universe");
    Some(Case { cfg, u, pol, evs, kind, rejected: false })
}

/// clock advance candidates (ns), straddling every threshold of the configuration and state
fn deltas(r: &Runner, cfg: &Cfg, now: u64) -> Vec<u64> {
    let c = &cfg.pc;
    let mut ds: Vec<u64> = vec![c.min_refetch_delay.as_nanos() as u64, c.min_expiry_threshold.as_nanos() as u64, c.refetch_interval.as_nanos() as u64,
        c.max_idle_period.as_nanos() as u64, c.issue_deduplication_window.as_nanos() as u64, f32_ns(c.fetch_failure_backoff.minimum_delay_secs),
        f32_ns(c.fetch_failure_backoff.maximum_delay_secs), 30 * NS, 90 * NS, 300 * NS, 900 * NS];
    for p in &r.u.paths {
        let e = p.path.expiration().unwrap() as u64 * NS;
        if e > now { ds.push(e - now); if e - now > c.min_expiry_threshold.as_nanos() as u64 { ds.push(e - now - c.min_expiry_threshold.as_nanos() as u64); } }
    }
    let nr = ns_of(r.probe.next_refetch()); if nr > now { ds.push(nr - now); }
    let ni = ns_of(r.probe.next_idle_check()); if ni > now { ds.push(ni - now); }
    let mut out = vec![0, NS];
    for d in ds { out.push(d.saturating_sub(NS)); out.push(d); out.push(d + NS); if d % NS != 0 { out.push(d + 1); out.push(d - 1); } }
    out
}

fn gen_answer(rng: &mut Rng, u: &Universe) -> Option<Vec<usize>> {
    match rng.below(10) {
        0 => None,
        1 => Some(vec![]),
        _ => {
            let mut ids: Vec<usize> = (0..u.paths.len()).filter(|_| rng.chance(3, 5)).collect();
            // usually one version per route
            if !rng.chance(1, 5) { let mut seen = vec![]; ids.retain(|i| { let r = u.paths[*i].route; if seen.contains(&r) { false } else { seen.push(r); true } }); }
            rng.shuffle(&mut ids);
            Some(ids)
        }
    }
}

struct Weights { tick: u64, due: u64, report: u64, deliver: u64, direct: u64, send: u64, sendwait: u64 }
fn weights(prop: &str) -> Weights {
    match prop {
        "C06" => Weights { tick: 3, due: 4, report: 3, deliver: 1, direct: 0, send: 3, sendwait: 1 },
        "C07" => Weights { tick: 2, due: 2, report: 5, deliver: 1, direct: 2, send: 2, sendwait: 1 },
        _ => Weights { tick: 3, due: 4, report: 1, deliver: 1, direct: 0, send: 3, sendwait: 2 },
    }
}

async fn gen_random(rng: &mut Rng, prop: &str, len: usize) -> Option<Case> {
    let cfg = gen_cfg(rng);
    let u = gen_universe(rng, &cfg, 4);
    let pol = gen_pol(rng, &u);
    let issues = pick_issues(rng, &u, 4);
    let w = weights(prop);
    let burst_issues = issues.clone();
    let bursty = prop == "C07";
    let tot = w.tick + w.due + w.report + w.deliver + w.direct + w.send + w.sendwait;
    let script = move |rng: &mut Rng, r: &Runner, now: u64, k: usize| -> Option<Ev> {
        if k == 0 { return Some(Ev::Tick { now, ans: gen_answer(rng, &r.u) }); }
        let mut ds = deltas(r, &cfg, now);
        // mostly moderate advances (at most two refetch intervals), so that histories stay alive
        if rng.chance(2, 3) { let lim = 2 * cfg.pc.refetch_interval.as_nanos() as u64 + 2 * NS; ds.retain(|d| *d <= lim); }
        let adv = if rng.chance(1, 3) { 0 } else { *rng.pick(&ds) };
        let t = now + adv;
        let mut x = rng.below(tot);
        if x < w.tick { return Some(Ev::Tick { now: t, ans: gen_answer(rng, &r.u) }); } x -= w.tick;
        if x < w.due {
            // the worker's tick: exactly when due (or a little late)
            let due = ns_of(r.probe.next_refetch()).min(ns_of(r.probe.next_idle_check())).max(now);
            let late = if rng.chance(1, 4) { *rng.pick(&[1u64, NS, 3 * NS]) } else { 0 };
            return Some(Ev::Tick { now: due + late, ans: gen_answer(rng, &r.u) });
        } x -= w.due;
        if x < w.report {
            let issue = if issues.is_empty() { ISSUE_POOL[0] } else { *rng.pick(&issues) };
            // mostly deliver right away (next event), sometimes leave it pending
            return Some(Ev::Report { now: t, issue });
        } x -= w.report;
        if x < w.deliver { return Some(Ev::Deliver { now: t }); } x -= w.deliver;
        if x < w.direct {
            let issue = if issues.is_empty() { ISSUE_POOL[0] } else { *rng.pick(&issues) };
            return Some(Ev::Direct { now: t, issue, pen: *rng.pick(&[-1.0f32, -0.4, -0.25, -2.0, 0.5]) });
        } x -= w.direct;
        if x < w.send { return Some(Ev::Send { now: t }); }
        if r.probe.initialized() { Some(Ev::SendWait { now: t }) } else { Some(Ev::Send { now: t }) }
    };
    // a report is followed by its delivery 3 times out of 4
    let mut pending_deliver = false;
    let mut script = script;
    // with a zero deduplication window two reports of one issue never carry the same timestamp
    // (assumption of issue_memory_bounded: accepted re-reports have strictly later timestamps)
    let zero_window = cfg.pc.issue_deduplication_window.is_zero();
    let mut last_report: Vec<(HookIssue, u64)> = vec![];
    // C07: 2-3 reports (same and different kinds) queue up before the worker handles the first
    let mut burst = 0usize;
    let wrapped = move |rng: &mut Rng, r: &Runner, now: u64, k: usize| -> Option<Ev> {
        if pending_deliver && bursty && burst == 0 && !burst_issues.is_empty() && rng.chance(1, 3) { burst = 1 + rng.below(2) as usize; }
        let mut e = if burst > 0 {
            burst -= 1;
            Ev::Report { now, issue: *rng.pick(&burst_issues) }
        } else {
            if pending_deliver { pending_deliver = false; if rng.chance(3, 4) { return Some(Ev::Deliver { now }); } }
            script(rng, r, now, k)?
        };
        if let Ev::Report { now: t, issue } = &mut e {
            pending_deliver = true;
            if zero_window {
                if let Some((_, last)) = last_report.iter().find(|(i, _)| i == issue) { if *t <= *last { *t = *last + 1; } }
                last_report.retain(|(i, _)| i != issue);
                last_report.push((*issue, *t));
            }
        }
        Some(e)
    };
    run_case(cfg, u, pol, format!("random-{prop}"), wrapped, rng, len).await
}

/// the finite alphabet of the exhaustive enumeration: 4 routes, one version each
const ALPHABET: usize = 10;
async fn gen_exhaustive(rng: &mut Rng, index: u64, len: usize) -> Option<Case> {
    let cfg = cfg_small();
    let mk = |r: usize, off: u64| UPath { route: r, path: path_expiring(r, T0 + off, true), meta: true };
    // expiries: one short (inside the threshold soon), one medium, two long
    let u = Universe { paths: vec![mk(0, 40), mk(1, 1000), mk(2, 12), mk(4, 1000)] };
    let pol = match index % 3 { 0 => Pol::None, 1 => Pol::Table(vec![true, false, true, true]), _ => Pol::Acl("- 1-30 +".into()) };
    let mut letters = vec![]; let mut x = index / 3;
    for _ in 0..len { letters.push((x % ALPHABET as u64) as usize); x /= ALPHABET as u64; }
    let i0 = HookIssue::InterfaceDown { isd_asn: ia(10), interface_id: 3 };
    let i1 = HookIssue::FirstHopUnreachable { isd_asn: ia(1), interface_id: 5 };
    let mut queue: Vec<Ev> = vec![];
    let script = move |_rng: &mut Rng, r: &Runner, now: u64, k: usize| -> Option<Ev> {
        if let Some(e) = queue.pop() { return Some(Ev::with_now(e, now)); }
        let _ = k;
        let l = *letters.get(0)?; letters.remove(0);
        let due = ns_of(r.probe.next_refetch()).min(ns_of(r.probe.next_idle_check())).max(now);
        Some(match l {
            0 => Ev::Tick { now: due, ans: Some(vec![0, 1, 2, 3]) },
            1 => Ev::Tick { now: due, ans: Some(vec![1, 0]) },
            2 => Ev::Tick { now: due, ans: Some(vec![3, 2]) },
            3 => Ev::Tick { now: due, ans: Some(vec![]) },
            4 => Ev::Tick { now: due, ans: None },
            5 => Ev::Tick { now: now + 5 * NS, ans: Some(vec![2, 1]) },
            6 => Ev::Send { now },
            7 => { queue.push(Ev::Deliver { now }); Ev::Report { now, issue: i0 } }
            8 => { queue.push(Ev::Deliver { now }); Ev::Report { now, issue: i1 } }
            _ => Ev::Send { now: now + 31 * NS },
        })
    };
    let _ = rng;
    run_case(cfg, u, pol, format!("exhaustive-{index}"), script, &mut Rng::new(index), 2 * len + 2).await
}
impl Ev {
    fn with_now(e: Ev, now: u64) -> Ev {
        match e { Ev::Deliver { .. } => Ev::Deliver { now }, other => other }
    }
}

/// directed histories: the boundaries found while reading the code
async fn gen_directed(k: usize) -> Option<Case> {
    let mut rng = Rng::new(k as u64);
    let s = NS;
    let fixed = |evs: Vec<Ev>| { let mut evs = evs; evs.reverse(); move |_: &mut Rng, _: &Runner, _: u64, _: usize| evs.pop() };
    let t = |sec: u64| (T0 + sec) * s;
    let one = |r: usize, off: u64| UPath { route: r, path: path_expiring(r, T0 + off, true), meta: true };
    match k {
        // the active path expires between two maintenance ticks (lookups fail, backoff grows)
        0 => {
            let mut cfg = cfg_default(); cfg.pc.fetch_failure_backoff.jitter_secs = 0.0;
            let u = Universe { paths: vec![one(0, 301)] };
            let evs = vec![Ev::Tick { now: t(0), ans: Some(vec![0]) }, Ev::Send { now: t(1) }, Ev::Tick { now: t(60), ans: None }, Ev::Send { now: t(61) },
                Ev::Tick { now: t(150), ans: None }, Ev::Send { now: t(151) }, Ev::Tick { now: t(285), ans: None }, Ev::Send { now: t(300) },
                Ev::Send { now: t(301) }, Ev::SendWait { now: t(302) }, Ev::Send { now: t(400) }, Ev::Tick { now: t(405), ans: None }, Ev::Send { now: t(406) }];
            run_case(cfg, u, Pol::None, "directed-expired-handout".into(), fixed(evs), &mut rng, 99).await
        }
        // remaining lifetime at a tick below min_refetch_delay: same path offered again
        1 => {
            let cfg = cfg_default();
            let u = Universe { paths: vec![one(0, 330)] };
            let mut evs = vec![Ev::Tick { now: t(0), ans: Some(vec![0]) }];
            for i in 1..=6u64 { evs.push(Ev::Send { now: t(60 * i - 1) }); evs.push(Ev::Tick { now: t(60 * i), ans: Some(vec![0]) }); }
            evs.push(Ev::Send { now: t(329) }); evs.push(Ev::Send { now: t(330) }); evs.push(Ev::Send { now: t(345) }); evs.push(Ev::SendWait { now: t(359) });
            run_case(cfg, u, Pol::None, "directed-expiry-before-next-tick".into(), fixed(evs), &mut rng, 99).await
        }
        // a lookup refreshes the only cached path with an already expired version
        2 => {
            let cfg = cfg_default();
            let u = Universe { paths: vec![one(0, 3700), UPath { route: 0, path: path_expiring(0, T0 - 4000, true), meta: true }] };
            let evs = vec![Ev::Tick { now: t(0), ans: Some(vec![0]) }, Ev::Send { now: t(1) }, Ev::Tick { now: t(1800), ans: Some(vec![1]) },
                Ev::Send { now: t(1801) }, Ev::SendWait { now: t(1802) }, Ev::Tick { now: t(1860), ans: Some(vec![0]) }, Ev::Send { now: t(1861) }];
            run_case(cfg, u, Pol::None, "directed-refresh-with-expired".into(), fixed(evs), &mut rng, 99).await
        }
        // one issue reported again and again outside the dedup window; then distinct issues
        3 => {
            let mut cfg = cfg_small(); cfg.pc.issue_cache_size = 4;
            let u = Universe { paths: vec![one(0, 5000), one(1, 5000)] };
            let mut evs = vec![Ev::Tick { now: t(0), ans: Some(vec![0, 1]) }];
            for i in 0..12u64 { evs.push(Ev::Report { now: t(11 * i), issue: ISSUE_POOL[0] }); evs.push(Ev::Deliver { now: t(11 * i) }); evs.push(Ev::Send { now: t(11 * i) }); }
            for i in 0..8u16 { evs.push(Ev::Report { now: t(140 + i as u64), issue: HookIssue::InterfaceDown { isd_asn: ia(77), interface_id: 100 + i } }); evs.push(Ev::Deliver { now: t(140 + i as u64) }); }
            run_case(cfg, u, Pol::None, "directed-issue-fifo".into(), fixed(evs), &mut rng, 99).await
        }
        // the alternative carries a recent penalty of its own: swap threshold vs clamped scores
        4 => {
            let cfg = cfg_default();
            let u = Universe { paths: vec![one(0, 20000), one(1, 20000)] };
            let evs = vec![Ev::Tick { now: t(0), ans: Some(vec![0, 1]) }, Ev::Send { now: t(0) },
                Ev::Report { now: t(1), issue: ISSUE_POOL[1] }, Ev::Deliver { now: t(1) }, Ev::Send { now: t(2) },
                Ev::Report { now: t(31), issue: ISSUE_POOL[0] }, Ev::Deliver { now: t(31) }, Ev::Send { now: t(31) },
                Ev::Send { now: t(100) }];
            run_case(cfg, u, Pol::None, "directed-hysteresis".into(), fixed(evs), &mut rng, 99).await
        }
        // the failed interface is used as ingress (transit AS and destination AS)
        5 => {
            let cfg = cfg_default();
            let u = Universe { paths: vec![one(0, 20000), one(1, 20000)] };
            let evs = vec![Ev::Tick { now: t(0), ans: Some(vec![0, 1]) }, Ev::Send { now: t(0) },
                Ev::Report { now: t(1), issue: ISSUE_POOL[2] }, Ev::Deliver { now: t(1) }, Ev::Send { now: t(1) },
                Ev::Report { now: t(2), issue: ISSUE_POOL[4] }, Ev::Deliver { now: t(2) }, Ev::Send { now: t(2) }];
            run_case(cfg, u, Pol::Table(vec![true, true]), "directed-ingress".into(), fixed(evs), &mut rng, 99).await
        }
        // clean failover and recovery
        6 => {
            let cfg = cfg_default();
            let u = Universe { paths: vec![one(0, 20000), one(1, 20000), one(2, 20000)] };
            let evs = vec![Ev::Tick { now: t(0), ans: Some(vec![0, 1, 2]) }, Ev::Send { now: t(0) },
                Ev::Report { now: t(5), issue: ISSUE_POOL[0] }, Ev::Deliver { now: t(5) }, Ev::Send { now: t(5) },
                Ev::Report { now: t(6), issue: ISSUE_POOL[1] }, Ev::Deliver { now: t(6) }, Ev::Send { now: t(6) },
                Ev::Send { now: t(100) }, Ev::Tick { now: t(125), ans: Some(vec![0, 1, 2]) }, Ev::Send { now: t(900) },
                Ev::Tick { now: t(1800), ans: Some(vec![0, 1, 2]) }, Ev::Send { now: t(1801) }];
            run_case(cfg, u, Pol::None, "directed-failover".into(), fixed(evs), &mut rng, 99).await
        }
        // issue cached before the path is first fetched
        7 => {
            let cfg = cfg_default();
            let u = Universe { paths: vec![one(0, 20000), one(1, 20000)] };
            let evs = vec![Ev::Report { now: t(0), issue: ISSUE_POOL[0] }, Ev::Report { now: t(0), issue: ISSUE_POOL[8] }, Ev::Tick { now: t(3), ans: Some(vec![0, 1]) }, Ev::Send { now: t(3) },
                Ev::Deliver { now: t(4) }, Ev::Send { now: t(4) }];
            run_case(cfg, u, Pol::None, "directed-issue-before-fetch".into(), fixed(evs), &mut rng, 99).await
        }
        // all paths filtered / no metadata under an ACL
        8 => {
            let cfg = cfg_small();
            let u = Universe { paths: vec![one(0, 900), UPath { route: 1, path: path_expiring(1, T0 + 900, false), meta: false }, one(2, 900)] };
            let evs = vec![Ev::Tick { now: t(0), ans: Some(vec![0, 1, 2]) }, Ev::Send { now: t(0) }, Ev::SendWait { now: t(1) },
                Ev::Tick { now: t(2), ans: Some(vec![1]) }, Ev::Send { now: t(2) }, Ev::Tick { now: t(4), ans: Some(vec![1, 0]) }, Ev::SendWait { now: t(4) }];
            run_case(cfg, u, Pol::Acl("- 1-10 +".into()), "directed-acl-nometadata".into(), fixed(evs), &mut rng, 99).await
        }
        // max_cached = 0 and 1: the active path is kept beyond the target count
        9 => {
            let mut cfg = cfg_small(); cfg.pc.max_cached_paths_per_pair = 0;
            let u = Universe { paths: vec![one(0, 900), one(1, 900), one(4, 900)] };
            let evs = vec![Ev::Tick { now: t(0), ans: Some(vec![0, 1]) }, Ev::Send { now: t(0) }, Ev::Tick { now: t(2), ans: Some(vec![2, 1, 0]) }, Ev::Send { now: t(2) }];
            run_case(cfg, u, Pol::None, "directed-max-cached-0".into(), fixed(evs), &mut rng, 99).await
        }
        // idle exit
        10 => {
            let cfg = cfg_small();
            let u = Universe { paths: vec![one(0, 900)] };
            let evs = vec![Ev::Tick { now: t(0), ans: Some(vec![0]) }, Ev::Send { now: t(1) }, Ev::Tick { now: t(30), ans: Some(vec![0]) }, Ev::Tick { now: t(60), ans: Some(vec![0]) }];
            run_case(cfg, u, Pol::None, "directed-idle-exit".into(), fixed(evs), &mut rng, 99).await
        }
        // backoff ceiling above the expiry threshold: the slot's path expires between two failing ticks
        11 => {
            let mut cfg = cfg_default();
            cfg.pc.min_expiry_threshold = secs(60); cfg.pc.fetch_failure_backoff.jitter_secs = 0.0; cfg.pc.max_idle_period = secs(100000);
            let u = Universe { paths: vec![one(4, 500), one(0, 600), one(2, 9000)] };
            let evs = vec![Ev::Tick { now: t(0), ans: Some(vec![0, 1, 2]) }, Ev::Send { now: t(1) }, Ev::Tick { now: t(440), ans: None }, Ev::Send { now: t(441) },
                Ev::Tick { now: t(530), ans: None }, Ev::Send { now: t(599) }, Ev::Send { now: t(601) }, Ev::SendWait { now: t(664) },
                Ev::Tick { now: t(665), ans: None }, Ev::Send { now: t(666) }];
            run_case(cfg, u, Pol::None, "directed-backoff-outlasts-threshold".into(), fixed(evs), &mut rng, 99).await
        }
        // a batch of reports hitting the path in use is handled in one worker step: first-hop send
        // failure + interface down (2 hits, 2 cached paths), the other path is clean
        12 => {
            let mut cfg = cfg_default(); cfg.pc.max_idle_period = secs(100000);
            let u = Universe { paths: vec![one(0, 20000), one(1, 20000)] };
            let act = |o: u64| -> (HookIssue, HookIssue) { let _ = o; (ISSUE_POOL[8], ISSUE_POOL[0]) };
            let (i1, i2) = act(0);
            // whichever path is taken into use (equal scores), hit it twice: routes 0 and 1 have first egress 1 / 5
            let evs = vec![Ev::Tick { now: t(0), ans: Some(vec![0, 1]) }, Ev::Send { now: t(0) },
                Ev::Report { now: t(5), issue: i1 }, Ev::Report { now: t(5), issue: i2 },
                Ev::Report { now: t(5), issue: ISSUE_POOL[9] }, Ev::Report { now: t(5), issue: ISSUE_POOL[1] },
                Ev::Deliver { now: t(5) }, Ev::Send { now: t(5) }, Ev::Send { now: t(200) }];
            run_case(cfg, u, Pol::None, "directed-batch-both".into(), fixed(evs), &mut rng, 99).await
        }
        13 => {
            let mut cfg = cfg_default(); cfg.pc.max_idle_period = secs(100000);
            // route 4 (2 hop fields) outranks route 0: it is the path in use; it is hit by a first-hop
            // failure and an interface-down of the destination... only the first-hop report matches
            let u = Universe { paths: vec![one(0, 20000), one(2, 20000), one(3, 20000)] };
            let evs = vec![Ev::Tick { now: t(0), ans: Some(vec![0, 1, 2]) }, Ev::Send { now: t(0) },
                Ev::Report { now: t(5), issue: ISSUE_POOL[8] }, Ev::Report { now: t(5), issue: ISSUE_POOL[0] },
                Ev::Report { now: t(6), issue: ISSUE_POOL[5] },
                Ev::Deliver { now: t(6) }, Ev::Send { now: t(6) }, Ev::Send { now: t(100) }];
            run_case(cfg, u, Pol::None, "directed-batch-failover".into(), fixed(evs), &mut rng, 99).await
        }
        // an interface failed many half-lives ago; a lookup now brings a NEW path over it and a longer
        // clean one: the new path enters with a decayed (vanished) penalty and is preferred
        14 => {
            let mut cfg = cfg_default(); cfg.pc.max_idle_period = secs(100000);
            let u = Universe { paths: vec![one(3, 20000), one(0, 20000), one(2, 20000)] };
            let evs = vec![Ev::Tick { now: t(0), ans: Some(vec![0]) }, Ev::Send { now: t(0) },
                Ev::Report { now: t(1000), issue: ISSUE_POOL[0] }, Ev::Deliver { now: t(1000) },
                Ev::Report { now: t(1000), issue: ISSUE_POOL[8] }, Ev::Deliver { now: t(1000) },
                Ev::Tick { now: t(1800), ans: Some(vec![0, 1, 2]) }, Ev::Send { now: t(1800) },
                // and shortly after a report: the penalty is still there
                Ev::Report { now: t(1900), issue: ISSUE_POOL[11] }, Ev::Deliver { now: t(1900) },
                Ev::Tick { now: t(3600), ans: Some(vec![0, 1, 2]) }];
            run_case(cfg, u, Pol::None, "directed-decayed-issue-new-path".into(), fixed(evs), &mut rng, 99).await
        }
        // the same with the lookup only 20 s after the report: the new path enters with most of the penalty
        15 => {
            let mut cfg = cfg_default(); cfg.pc.max_idle_period = secs(100000); cfg.pc.min_expiry_threshold = secs(60); cfg.pc.refetch_interval = secs(100);
            let u = Universe { paths: vec![one(3, 20000), one(0, 20000)] };
            let evs = vec![Ev::Tick { now: t(0), ans: Some(vec![0]) }, Ev::Send { now: t(0) },
                Ev::Report { now: t(80), issue: ISSUE_POOL[0] }, Ev::Deliver { now: t(80) },
                Ev::Tick { now: t(100), ans: Some(vec![0, 1]) }, Ev::Send { now: t(100) },
                Ev::Tick { now: t(500), ans: Some(vec![0, 1]) }, Ev::Send { now: t(500) }];
            run_case(cfg, u, Pol::None, "directed-fresh-issue-new-path".into(), fixed(evs), &mut rng, 99).await
        }
        // batches in which only the FIRST / only the LAST report hits the path in use
        16 | 17 => {
            let mut cfg = cfg_default(); cfg.pc.max_idle_period = secs(100000);
            let u = Universe { paths: vec![one(0, 20000), one(3, 20000)] };
            let hit = ISSUE_POOL[0]; let miss = ISSUE_POOL[12]; let miss2 = HookIssue::InterfaceDown { isd_asn: ia(98), interface_id: 2 };
            let batch = if k == 16 { vec![hit, miss, miss2] } else { vec![miss, miss2, hit] };
            let mut evs = vec![Ev::Tick { now: t(0), ans: Some(vec![0, 1]) }, Ev::Send { now: t(0) }];
            for i in batch { evs.push(Ev::Report { now: t(7), issue: i }); }
            evs.push(Ev::Deliver { now: t(7) }); evs.push(Ev::Send { now: t(7) }); evs.push(Ev::Send { now: t(60) });
            run_case(cfg, u, Pol::None, format!("directed-batch-{}", if k == 16 { "first-hits" } else { "last-hits" }), fixed(evs), &mut rng, 99).await
        }
        // a fresh interface-down report, then a refetch that brings more new paths than free slots
        // (max_cached_paths_per_pair = 2): two shorter paths over the failed interface and, LAST in the
        // answer, a longer one avoiding it.  18: the path in use is near expiry at that lookup, so the
        // slot has to move; 19: the issue is known before the very first lookup
        18 | 19 => {
            let mut cfg = cfg_default(); cfg.pc.max_idle_period = secs(100000); cfg.pc.max_cached_paths_per_pair = 2;
            let u = Universe { paths: vec![one(3, 400), one(0, 20000), one(5, 20000), one(2, 20000)] };
            let evs = if k == 18 {
                vec![Ev::Tick { now: t(0), ans: Some(vec![0]) }, Ev::Send { now: t(0) },
                    Ev::Report { now: t(90), issue: ISSUE_POOL[0] }, Ev::Deliver { now: t(90) },
                    Ev::Tick { now: t(100), ans: Some(vec![1, 2, 3]) }, Ev::Send { now: t(100) }, Ev::Send { now: t(130) },
                    Ev::Tick { now: t(160), ans: Some(vec![2, 1, 3]) }, Ev::Send { now: t(160) }]
            } else {
                vec![Ev::Report { now: t(0), issue: ISSUE_POOL[0] }, Ev::Tick { now: t(3), ans: Some(vec![1, 2, 3]) }, Ev::Send { now: t(3) },
                    Ev::Deliver { now: t(4) }, Ev::Send { now: t(4) }, Ev::Tick { now: t(63), ans: Some(vec![2, 1, 3]) }, Ev::Send { now: t(63) }]
            };
            run_case(cfg, u, Pol::None, format!("directed-fresh-issue-full-cache-{}", k - 18), fixed(evs), &mut rng, 99).await
        }
        _ => None,
    }
}
const N_DIRECTED: usize = 20;

fn emit(c: &Case, shards: &mut Shards, sum: &mut Summary, seen: &mut std::collections::HashSet<String>) {
    let evs = coq_list(c.evs.iter().map(|(e, o)| format!("({}, {})", e.coq(), o.coq())));
    let tbl = coq_list(c.pol.table(&c.u).iter().map(|o| coq_opt(o.map(|b| coq_bool(b).to_string()))));
    // t0 = 0 marks a configuration the validator rejected
    let text = format!("mkCase {} {} {} {} {}", c.cfg.coq(), if c.rejected { "0".to_string() } else { tm(T0 * NS) }, c.u.coq(), tbl, evs);
    let human = format!("{} {} {} universe={:?} {}", c.kind, c.cfg.describe(), c.pol.describe(),
        c.u.paths.iter().map(|p| format!("r{}{}exp+{}", p.route, if p.meta { "" } else { "nometa" }, p.path.expiration().unwrap() as i64 - T0 as i64)).collect::<Vec<_>>(),
        c.evs.iter().map(|(e, o)| format!("{}=>{}{}", e.human(), o.out, if o.out == 7 || o.out == 9 { format!("({})", o.arg) } else { String::new() })).collect::<Vec<_>>().join(" "));
    sum.count(&format!("kind.{}", c.kind.split('-').next().unwrap_or("?")));
    sum.add("events", c.evs.len() as u64);
    for (e, o) in &c.evs {
        sum.count(match e { Ev::Tick { .. } => "ev.tick", Ev::Report { .. } => "ev.report", Ev::Deliver { .. } => "ev.deliver", Ev::Direct { .. } => "ev.direct", Ev::Send { .. } => "ev.send", Ev::SendWait { .. } => "ev.sendwait" });
        sum.count(&format!("out.{}", o.out));
    }
    sum.count(&format!("policy.{}", match c.pol { Pol::None => "none", Pol::Table(_) => "table", Pol::Acl(_) => "acl", Pol::AclAndTable(..) => "acl+table", Pol::Hops(_) => "hop-pattern" }));
    if sum.samples.len() < 3 { sum.samples.push(human.clone()); }
    sum.index.push(human);
    seen.insert(text.clone());
    shards.push(text);
}

/// `--mode match`: IssueKind::target_type + IssueMarkerTarget::matches_path on single paths
fn main_match(out: &str, n: usize) {
    let mut rng = Rng::new(seed_from_env() ^ 0x77);
    let mut shards = Shards::new(out, "From Sci Require Import PathMgr.Cases. Open Scope N_scope.", "mcase", "verdicts_match", 150);
    let mut sum = Summary::default();
    let mut seen = std::collections::HashSet::new();
    let mut paths: Vec<UPath> = vec![];
    for r in 0..ROUTES.len() { for meta in [true, false] { paths.push(UPath { route: r, path: path_expiring(r, T0 + 1000, meta), meta }); } }
    let mut issues: Vec<HookIssue> = ISSUE_POOL.to_vec();
    // every interface of every route as interface-down; every transit with right and wrong ingress
    for (first_eg, hops, last_in) in ROUTES {
        issues.push(HookIssue::InterfaceDown { isd_asn: SRC.isd_asn(), interface_id: *first_eg });
        issues.push(HookIssue::FirstHopUnreachable { isd_asn: SRC.isd_asn(), interface_id: *first_eg });
        issues.push(HookIssue::InterfaceDown { isd_asn: DST.isd_asn(), interface_id: *last_in });
        for (asn, i, e) in hops.iter() {
            let a = ia(*asn as u64);
            issues.push(HookIssue::InterfaceDown { isd_asn: a, interface_id: *i });
            issues.push(HookIssue::InterfaceDown { isd_asn: a, interface_id: *e });
            issues.push(HookIssue::ConnectivityDown { isd_asn: a, ingress: *i, egress: *e });
            issues.push(HookIssue::ConnectivityDown { isd_asn: a, ingress: *e, egress: *i });
            issues.push(HookIssue::ConnectivityDown { isd_asn: a, ingress: *i + 1, egress: *e });
            issues.push(HookIssue::ConnectivityDown { isd_asn: SRC.isd_asn(), ingress: *i, egress: *first_eg });
        }
    }
    let mut pairs: Vec<(usize, usize)> = vec![];
    for i in 0..issues.len() { for p in 0..paths.len() { pairs.push((i, p)); } }
    rng.shuffle(&mut pairs);
    let u = Universe { paths: paths.clone() };
    let lits = u.coq();
    // one literal per path: split the printed list
    let plit: Vec<String> = { let inner = &lits[1..lits.len() - 1]; inner.split("; mkPath ").enumerate().map(|(k, x)| if k == 0 { x.to_string() } else { format!("mkPath {x}") }).collect() };
    for (i, p) in pairs.into_iter().take(n) {
        let obs = issues[i].matches_path(&paths[p].path);
        let text = format!("mkM {} ({}) {}", issue_coq(&issues[i]), plit[p], coq_opt(obs.map(|b| coq_bool(b).to_string())));
        let human = format!("match {} on r{}{} => {:?}", issue_human(&issues[i]), paths[p].route, if paths[p].meta { "" } else { "nometa" }, obs);
        sum.count(match obs { Some(true) => "matched", Some(false) => "unmatched", None => "notarget" });
        if sum.samples.len() < 3 { sum.samples.push(human.clone()); }
        sum.index.push(human);
        seen.insert(text.clone());
        shards.push(text);
    }
    shards.flush();
    sum.write(out, shards.total, seen.len());
}

fn main() {
    silence_panics();
    let out = arg("--out").expect("--out");
    let n: usize = arg("--n").and_then(|s| s.parse().ok()).unwrap_or(200);
    if arg("--mode").as_deref() == Some("match") { return main_match(&out, n); }
    let prop = arg("--prop").unwrap_or_else(|| "C05".into());
    let verdict_fn = match prop.as_str() { "C06" => "verdicts06", "C07" => "verdicts07", _ => "verdicts05" };
    let thorough = std::env::var("VERIF_TIER").map(|t| t == "thorough").unwrap_or(false);
    let mut rng = Rng::new(seed_from_env() ^ (prop.as_bytes()[2] as u64) << 32);
    let mut shards = Shards::new(&out, "From Sci Require Import PathMgr.Cases. Open Scope N_scope.", "pcase", verdict_fn, if thorough { 120 } else { 30 });
    let mut sum = Summary::default();
    let mut seen = std::collections::HashSet::new();
    let rt = tokio::runtime::Builder::new_current_thread().enable_all().build().unwrap();
    rt.block_on(async {
        for k in 0..N_DIRECTED { if let Some(c) = gen_directed(k).await { emit(&c, &mut shards, &mut sum, &mut seen); } }
        let rest = n.saturating_sub(shards.total);
        let n_exh = rest * 2 / 5;
        if thorough {
            // every history of length 3 over the alphabet, under each of the three policies
            let space3 = 3 * (ALPHABET as u64).pow(3);
            for idx in 0..space3 { if let Some(c) = gen_exhaustive(&mut rng, idx, 3).await { emit(&c, &mut shards, &mut sum, &mut seen); } }
        }
        let exh_len = if thorough { 5 } else { 4 };
        let space = 3 * (ALPHABET as u64).pow(exh_len as u32);
        for _ in 0..n_exh { let idx = rng.below(space); let len = 1 + (rng.below(exh_len as u64) as usize);
            if let Some(c) = gen_exhaustive(&mut rng, idx, len.max(2)).await { emit(&c, &mut shards, &mut sum, &mut seen); } }
        while shards.total < n {
            let len = match rng.below(4) { 0 => 60, 1 => 30, _ => 12 };
            if let Some(c) = gen_random(&mut rng, &prop, len).await { emit(&c, &mut shards, &mut sum, &mut seen); }
        }
    });
    shards.flush();
    sum.write(&out, shards.total, seen.len());
}
