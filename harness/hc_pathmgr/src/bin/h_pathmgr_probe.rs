//! Scratch replay of the predicted C06/C07 defects on the real code (through the hook).
use std::sync::Arc;
use std::time::{Duration, SystemTime};

use scion_stack::path::manager::verif_hooks::*;
use scion_stack::path::policy::PathPolicy;
use sciparse::{
    address::ip_addr::ScionIpAddr,
    identifier::{asn::Asn, isd::Isd, isd_asn::IsdAsn},
    path::ScionPath,
    util::test_builder::TestPathBuilder,
};
use std::net::{IpAddr, Ipv4Addr};

const SRC: ScionIpAddr = ScionIpAddr::new(IsdAsn::new(Isd(1), Asn(1)), IpAddr::V4(Ipv4Addr::LOCALHOST));
const DST: ScionIpAddr = ScionIpAddr::new(IsdAsn::new(Isd(2), Asn(1)), IpAddr::V4(Ipv4Addr::new(127, 0, 0, 2)));

fn t(s: u64) -> SystemTime { SystemTime::UNIX_EPOCH + Duration::from_secs(s) }

/// hops: (asn, ingress, egress) for the transit ASes
fn mkpath(first_eg: u16, hops: &[(u32, u16, u16)], last_in: u16, ts: u32, exp: u8) -> ScionPath {
    let mut b = TestPathBuilder::new(SRC.into(), DST.into()).using_info_timestamp(ts).with_hop_expiry(exp).up();
    b = b.add_hop(0, first_eg);
    for &(asn, i, e) in hops { b = b.with_asn(asn).add_hop(i, e); }
    b = b.add_hop(last_in, 0);
    b.build(ts).path()
}

struct Table(Vec<sciparse::path::fingerprint::data_plane::DpPathFingerprint>);
impl PathPolicy for Table {
    fn predicate(&self, p: &ScionPath) -> bool { self.0.contains(&p.fingerprint()) }
}

fn main() {
    let rt = tokio::runtime::Builder::new_current_thread().enable_all().build().unwrap();
    rt.block_on(async {
        let p = mkpath(1, &[(10, 2, 3)], 4, 1000, 0);
        println!("path exp={:?} fp={} ifs={:?}", p.expiration(), p.fingerprint(),
            p.metadata().and_then(|m| m.interfaces.as_ref()).map(|v| v.iter().map(|i| (i.interface.isd_asn.to_u64(), i.interface.id)).collect::<Vec<_>>()));
        println!("first={:?} last={:?}", p.first_egress_interface(), p.last_ingress_interface());

        // ---- C06 (1): expired active path handed out
        let cfg = ProbeConfig::production_default();
        println!("cfg {:?}", cfg);
        let t0 = 100_000u64;
        // expiry = ts + (exp+1)*337.5 ; choose ts so that expiry = t0 + 301
        let p = mkpath(1, &[(10, 2, 3)], 4, (t0 + 301 - 337) as u32, 0);
        println!("expiry {:?} (t0+{})", p.expiration(), p.expiration().unwrap() as u64 - t0);
        let e = p.expiration().unwrap() as u64;
        let mut pr = PathSetProbe::new(SRC.isd_asn(), DST.isd_asn(), cfg, vec![], t(t0)).unwrap();
        pr.push_answer(FetchAnswer::Paths(vec![p.clone()]));
        let o = pr.maintain(t(t0)).await;
        println!("t0: {:?} active={:?} next_refetch=+{:?}", o, pr.active().map(|a| a.1.to_string()), pr.next_refetch().duration_since(t(t0)));
        let mut now = t0;
        for _ in 0..6 {
            let nm = pr.next_maintain(t(now));
            now += nm.as_secs() + 1;
            let _ = pr.cached_path(t(now - 1)); // keep it used
            pr.push_answer(FetchAnswer::Error("down".into()));
            let o = pr.maintain(t(now)).await;
            println!("t0+{}: {:?} active={:?} failed={} next_refetch=+{:?} (expiry at t0+{})", now - t0, o,
                pr.active().map(|a| a.1.to_string()), pr.failed_attempts(), pr.next_refetch().duration_since(t(now)), e - t0);
            let nr = pr.next_refetch().duration_since(SystemTime::UNIX_EPOCH).unwrap().as_secs();
            if nr > e + 2 && now < e {
                let at = e + 1;
                let r = std::panic::catch_unwind(std::panic::AssertUnwindSafe(|| pr.cached_path(t(at))));
                match r {
                    Ok(Some(p)) => println!("  cached_path(t0+{}) handed out path with expiry t0+{} => EXPIRED HANDED OUT", at - t0, p.expiration().unwrap() as u64 - t0),
                    Ok(None) => println!("  cached_path: None"),
                    Err(_) => println!("  cached_path panicked (debug_assert)"),
                }
                break;
            }
        }

        // ---- C06 (3): refreshed path already expired, cache becomes empty -> expect() panic
        let mut pr = PathSetProbe::new(SRC.isd_asn(), DST.isd_asn(), cfg, vec![], t(t0)).unwrap();
        let good = mkpath(1, &[(10, 2, 3)], 4, t0 as u32, 10);
        let stale = mkpath(1, &[(10, 2, 3)], 4, (t0 - 5000) as u32, 0);
        println!("good exp t0+{}, stale exp t0-{}", good.expiration().unwrap() as u64 - t0, t0 - stale.expiration().unwrap() as u64);
        pr.push_answer(FetchAnswer::Paths(vec![good]));
        pr.maintain(t(t0)).await;
        let _ = pr.cached_path(t(t0));
        pr.push_answer(FetchAnswer::Paths(vec![stale]));
        let nr = pr.next_refetch();
        let r = futures::FutureExt::catch_unwind(std::panic::AssertUnwindSafe(pr.maintain(nr))).await;
        println!("refresh-with-expired: {:?}", r.map_err(|_| "PANIC"));

        // ---- C06 (2): issue FIFO growth
        let mut cfg2 = cfg; cfg2.issue_cache_size = 4;
        let mut pr = PathSetProbe::new(SRC.isd_asn(), DST.isd_asn(), cfg2, vec![], t(t0)).unwrap();
        let iss = HookIssue::InterfaceDown { isd_asn: IsdAsn::new(Isd(1), Asn(10)), interface_id: 3 };
        for k in 0..50u64 { pr.report_issue(t(t0 + 11 * k), iss); pr.deliver_pending(t(t0 + 11 * k)); }
        println!("same issue x50 outside dedup window: (cache, fifo, max) = {:?}", pr.issue_sizes());
        // stale head: map exceeds max
        for k in 0..10u16 {
            let i2 = HookIssue::InterfaceDown { isd_asn: IsdAsn::new(Isd(1), Asn(10)), interface_id: 100 + k };
            pr.report_issue(t(t0 + 1000 + k as u64), i2); pr.deliver_pending(t(t0 + 1000));
            println!("  distinct issue {}: sizes {:?}", k, pr.issue_sizes());
        }

        // ---- C07: hysteresis boundary and ingress boundary
        let mut pr = PathSetProbe::new(SRC.isd_asn(), DST.isd_asn(), cfg, vec![], t(t0)).unwrap();
        let a = mkpath(1, &[(10, 2, 3)], 4, t0 as u32, 100);
        let b = mkpath(5, &[(20, 6, 7)], 8, t0 as u32, 100);
        pr.push_answer(FetchAnswer::Paths(vec![a.clone(), b.clone()]));
        pr.maintain(t(t0)).await;
        let act0 = pr.active().unwrap().1;
        let (act, oth) = if act0 == a.fingerprint() { (&a, &b) } else { (&b, &a) };
        println!("active is {}", if act0 == a.fingerprint() { "a" } else { "b" });
        // the alternative got an interface-down a moment ago
        let oth_if = if act0 == a.fingerprint() { (20u64, 7u16) } else { (10, 3) };
        let act_if = if act0 == a.fingerprint() { (10u64, 3u16) } else { (20, 7) };
        pr.report_issue(t(t0 + 1), HookIssue::InterfaceDown { isd_asn: IsdAsn::new(Isd(1), Asn(oth_if.0)), interface_id: oth_if.1 });
        pr.deliver_pending(t(t0 + 1));
        println!("after issue on alternative: {:?}", pr.cached(t(t0 + 1)).iter().map(|c| (c.path.fingerprint().to_string(), c.reliability, c.total)).collect::<Vec<_>>());
        pr.report_issue(t(t0 + 31), HookIssue::InterfaceDown { isd_asn: IsdAsn::new(Isd(1), Asn(act_if.0)), interface_id: act_if.1 });
        pr.deliver_pending(t(t0 + 31));
        println!("after issue on active (30 s later): {:?}", pr.cached(t(t0 + 31)).iter().map(|c| (c.path.fingerprint().to_string(), c.reliability, c.total)).collect::<Vec<_>>());
        let now_act = pr.active().unwrap().1;
        println!("active {} ; matches failed interface: {:?}; alternative valid avoids it: {:?}",
            if now_act == act.fingerprint() { "KEPT" } else { "switched" },
            HookIssue::InterfaceDown { isd_asn: IsdAsn::new(Isd(1), Asn(act_if.0)), interface_id: act_if.1 }.matches_path(act),
            HookIssue::InterfaceDown { isd_asn: IsdAsn::new(Isd(1), Asn(act_if.0)), interface_id: act_if.1 }.matches_path(oth));
        // ingress boundary
        let i_in = HookIssue::InterfaceDown { isd_asn: IsdAsn::new(Isd(1), Asn(10)), interface_id: 2 };
        println!("InterfaceDown(AS10, if 2 = ingress of a): matches a = {:?}", i_in.matches_path(&a));
        let i_last = HookIssue::InterfaceDown { isd_asn: DST.isd_asn(), interface_id: 4 };
        println!("InterfaceDown(dst AS, if 4 = last ingress of a): matches a = {:?}", i_last.matches_path(&a));
        let _ = Arc::new(Table(vec![]));
    });
}
