//! Shared helpers for the correspondence harness: one PRNG (every random choice derives
//! from VERIF_SEED), Coq literal printers, sharded case-file writer, JSON summary.
use std::fmt::Write as _;
use std::io::Write as _;

pub struct Rng(pub u64);
impl Rng {
    pub fn new(seed: u64) -> Self { Rng(seed ^ 0x9E37_79B9_7F4A_7C15) }
    pub fn next(&mut self) -> u64 {
        self.0 = self.0.wrapping_add(0x9E37_79B9_7F4A_7C15);
        let mut z = self.0;
        z = (z ^ (z >> 30)).wrapping_mul(0xBF58_476D_1CE4_E5B9);
        z = (z ^ (z >> 27)).wrapping_mul(0x94D0_49BB_1331_11EB);
        z ^ (z >> 31)
    }
    /// uniform in 0..n (n > 0)
    pub fn below(&mut self, n: u64) -> u64 { self.next() % n }
    pub fn range(&mut self, lo: u64, hi_incl: u64) -> u64 { lo + self.below(hi_incl - lo + 1) }
    pub fn chance(&mut self, num: u64, den: u64) -> bool { self.below(den) < num }
    pub fn pick<'a, T>(&mut self, xs: &'a [T]) -> &'a T { &xs[self.below(xs.len() as u64) as usize] }
    pub fn shuffle<T>(&mut self, xs: &mut [T]) {
        for i in (1..xs.len()).rev() { let j = self.below(i as u64 + 1) as usize; xs.swap(i, j); }
    }
}

pub fn seed_from_env() -> u64 {
    std::env::var("VERIF_SEED").ok().and_then(|s| s.parse().ok()).unwrap_or(1)
}

/// `[a; b; c]` from already formatted items
pub fn coq_list<I: IntoIterator<Item = String>>(items: I) -> String {
    let v: Vec<String> = items.into_iter().collect();
    format!("[{}]", v.join("; "))
}
pub fn coq_bytes(b: &[u8]) -> String { coq_list(b.iter().map(|x| x.to_string())) }
pub fn coq_opt(o: Option<String>) -> String {
    match o { Some(s) => format!("(Some {s})"), None => "None".into() }
}
pub fn coq_bool(b: bool) -> &'static str { if b { "true" } else { "false" } }
/// Coq string literal of an arbitrary byte string as `list N` (no escaping issues)
pub fn coq_str_bytes(s: &[u8]) -> String { coq_bytes(s) }

/// run-length encoding `[(count, byte); ...]`
pub fn rle(b: &[u8]) -> Vec<(u64, u8)> {
    let mut out: Vec<(u64, u8)> = Vec::new();
    for &x in b {
        match out.last_mut() { Some((n, y)) if *y == x => *n += 1, _ => out.push((1, x)) }
    }
    out
}
pub fn coq_rle(b: &[u8]) -> String {
    coq_list(rle(b).into_iter().map(|(n, x)| format!("({n},{x})")))
}

/// Writes cases into shard files `<dir>/cases_<k>.v`; each shard is a self-contained Coq
/// file: `preamble`, `Definition cases : list <ty> := [...]`, `Eval vm_compute in (<verdict_fn> cases).`
pub struct Shards {
    dir: String,
    preamble: String,
    case_ty: String,
    verdict_fn: String,
    per_shard: usize,
    cur: Vec<String>,
    n_shards: usize,
    pub total: usize,
}
impl Shards {
    pub fn new(dir: &str, preamble: &str, case_ty: &str, verdict_fn: &str, per_shard: usize) -> Self {
        std::fs::create_dir_all(dir).unwrap();
        for e in std::fs::read_dir(dir).unwrap().flatten() {
            let p = e.path();
            if p.file_name().and_then(|s| s.to_str()).map(|s| s.starts_with("cases_")).unwrap_or(false) {
                let _ = std::fs::remove_file(p);
            }
        }
        Shards { dir: dir.into(), preamble: preamble.into(), case_ty: case_ty.into(),
                 verdict_fn: verdict_fn.into(), per_shard, cur: vec![], n_shards: 0, total: 0 }
    }
    pub fn push(&mut self, case: String) {
        self.cur.push(case);
        self.total += 1;
        if self.cur.len() >= self.per_shard { self.flush(); }
    }
    pub fn flush(&mut self) {
        if self.cur.is_empty() { return; }
        let path = format!("{}/cases_{:03}.v", self.dir, self.n_shards);
        let mut f = std::io::BufWriter::new(std::fs::File::create(path).unwrap());
        writeln!(f, "{}", self.preamble).unwrap();
        writeln!(f, "Definition cases : list {} := [", self.case_ty).unwrap();
        let n = self.cur.len();
        for (i, c) in self.cur.iter().enumerate() {
            writeln!(f, "  {}{}", c, if i + 1 < n { ";" } else { "" }).unwrap();
        }
        writeln!(f, "].").unwrap();
        writeln!(f, "Eval vm_compute in ({} cases).", self.verdict_fn).unwrap();
        self.n_shards += 1;
        self.cur.clear();
    }
}

/// minimal JSON string escaping
pub fn jstr(s: &str) -> String {
    let mut o = String::from("\"");
    for c in s.chars() {
        match c {
            '"' => o.push_str("\\\""), '\\' => o.push_str("\\\\"), '\n' => o.push_str("\\n"),
            '\r' => o.push_str("\\r"), '\t' => o.push_str("\\t"),
            c if (c as u32) < 0x20 => { let _ = write!(o, "\\u{:04x}", c as u32); }
            c => o.push(c),
        }
    }
    o.push('"');
    o
}

/// Summary written next to the shards: case count, distribution counters, samples, and one
/// line per case (`index`) describing the input in human-readable form for replays.
#[derive(Default)]
pub struct Summary {
    pub dist: std::collections::BTreeMap<String, u64>,
    pub samples: Vec<String>,
    pub index: Vec<String>,
}
impl Summary {
    pub fn count(&mut self, k: &str) { *self.dist.entry(k.to_string()).or_insert(0) += 1; }
    pub fn add(&mut self, k: &str, n: u64) { *self.dist.entry(k.to_string()).or_insert(0) += n; }
    pub fn write(&self, dir: &str, total: usize, distinct: usize) {
        let mut s = String::new();
        let _ = write!(s, "{{\"total\":{total},\"distinct\":{distinct},\"dist\":{{");
        let d: Vec<String> = self.dist.iter().map(|(k, v)| format!("{}:{}", jstr(k), v)).collect();
        s.push_str(&d.join(","));
        s.push_str("},\"samples\":[");
        s.push_str(&self.samples.iter().map(|x| jstr(x)).collect::<Vec<_>>().join(","));
        s.push_str("],\"index\":[");
        s.push_str(&self.index.iter().map(|x| jstr(x)).collect::<Vec<_>>().join(","));
        s.push_str("]}");
        std::fs::write(format!("{dir}/summary.json"), s).unwrap();
    }
}

pub fn arg(name: &str) -> Option<String> {
    let a: Vec<String> = std::env::args().collect();
    a.iter().position(|x| x == name).and_then(|i| a.get(i + 1).cloned())
}

/// run `f`, turning a panic into `None` (panic message suppressed)
pub fn catch<T>(f: impl FnOnce() -> T + std::panic::UnwindSafe) -> Option<T> {
    std::panic::catch_unwind(f).ok()
}
pub fn silence_panics() { std::panic::set_hook(Box::new(|_| {})); }
