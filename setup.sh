#!/bin/sh
# Builds the framework from files on disk only (offline): generated Coq tables, the Coq
# development, and the Rust correspondence harness against /repo's working tree.
set -e
cd "$(dirname "$0")"
export CARGO_NET_OFFLINE=true
mkdir -p .cache evidence replays
python3 tools/gen.py
./coq/mkproject.sh
(cd coq && timeout 3000 make -j16 >/dev/null 2>.make.err || { tail -30 .make.err; echo "setup: coq build failed (checks will report it)"; })
(cd harness && cp -n /repo/Cargo.lock Cargo.lock 2>/dev/null; timeout 3000 cargo build --offline --workspace 2>&1 | tail -3)
echo setup done
