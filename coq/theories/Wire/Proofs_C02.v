(** Lemmas for C02: sizes reported by view constructors never exceed the input, constructors
    never reach a [Panic] (= never read outside the bytes already checked). *)
From Coq Require Import Lia ZifyBool ZifyNat ZifyN.
From Sci Require Import Wire.Views Wire.Spec_C02.
Local Open Scope N_scope.
Ltac Zify.zify_post_hook ::= Z.div_mod_to_equations.
Arguments N.add : simpl never. Arguments N.sub : simpl never. Arguments N.mul : simpl never.
Arguments N.div : simpl never. Arguments N.modulo : simpl never. Arguments N.eqb : simpl never.
Arguments N.ltb : simpl never. Arguments N.leb : simpl never. Arguments N.min : simpl never.

(** * lists *)
Lemma blen_sub b lo hi : hi <= blen b -> blen (sub b lo hi) = hi - lo.
Proof. unfold blen, sub. rewrite firstn_length, skipn_length. lia. Qed.

Lemma blen_sub_le b lo hi : blen (sub b lo hi) <= hi - lo.
Proof. unfold blen, sub. rewrite firstn_length, skipn_length. lia. Qed.

Lemma split_off_some b n cb : split_off_checked b n = Some cb -> cb = sub b 0 n /\ n <= blen b /\ blen cb = n.
Proof.
  unfold split_off_checked. destruct (n <=? blen b) eqn:E; [|discriminate].
  intros H; inversion H; subst. apply N.leb_le in E. refine (conj eq_refl (conj E _)).
  rewrite blen_sub by exact E. lia.
Qed.

Lemma split_off_none b n : split_off_checked b n = None -> blen b < n.
Proof. unfold split_off_checked. destruct (n <=? blen b) eqn:E; [discriminate|]. intros _. lia. Qed.

(** * reads *)
Lemma rd_ok v r bits :
  size_bytes r <= LANE_BYTES -> byte_hi r <= blen v -> rd v r bits = Ok (trunc bits (lane_read v r)).
Proof.
  intros H1 H2. unfold rd.
  destruct (size_bytes r <=? LANE_BYTES) eqn:A; [|lia]. cbn [negb].
  destruct (byte_hi r <=? blen v) eqn:B; [|lia]. reflexivity.
Qed.

Lemma rd_cases v r bits :
  (exists x, rd v r bits = Ok x /\ byte_hi r <= blen v /\ size_bytes r <= LANE_BYTES) \/ (exists s, rd v r bits = Panic s).
Proof.
  unfold rd. destruct (size_bytes r <=? LANE_BYTES) eqn:A; cbn [negb]; [|right; eauto].
  destruct (byte_hi r <=? blen v) eqn:B; cbn [negb]; [|right; eauto].
  left. eexists. split; [reflexivity|]. lia.
Qed.

Lemma rd_never_err v r bits e : rd v r bits <> Err e.
Proof. unfold rd. destruct (negb _); [discriminate|]. destruct (negb _); discriminate. Qed.

(** every generated bit range fits the 128-bit lane (finite table, by computation) *)
Lemma lane_ranges_fit_lane : forallb (fun r => (size_bytes r <=? LANE_BYTES) && (r_width r <=? 64)) lane_ranges = true.
Proof. vm_compute. reflexivity. Qed.

(** a lane read only looks at the bytes of its containing byte range *)
Lemma lane_read_local b b' r :
  sub b (byte_lo r) (byte_hi r) = sub b' (byte_lo r) (byte_hi r) -> lane_read b r = lane_read b' r.
Proof. unfold lane_read. intros ->. reflexivity. Qed.

Lemma lane_read_lt b r : lane_read b r < 2 ^ r_width r.
Proof.
  unfold lane_read. rewrite N.land_ones. apply N.mod_lt. apply N.pow_nonzero. discriminate.
Qed.

(** a lane write replaces exactly the bytes of its containing byte range *)
Lemma be_bytes_length n v : length (be_bytes n v) = n.
Proof. revert v; induction n; intros v; cbn [be_bytes]; [reflexivity|]. rewrite app_length, IHn. cbn. lia. Qed.

Lemma lane_write_length b r v : byte_hi r <= blen b -> length (lane_write b r v) = length b.
Proof.
  intros H. unfold lane_write. rewrite !app_length, be_bytes_length, firstn_length, skipn_length.
  unfold blen, byte_hi, byte_lo, r_end, r_start in *. lia.
Qed.


(** * sizes *)
Ltac inv_bind H :=
  repeat match type of H with
  | obind ?x _ = _ => let E := fresh "E" in destruct x eqn:E; cbn [obind] in H; try discriminate H
  | (if ?c then _ else _) = _ => let C := fresh "C" in destruct c eqn:C; try discriminate H
  | match ?x with _ => _ end = _ => let E := fresh "E" in destruct x eqn:E; try discriminate H
  end.

Ltac clean_bools :=
  repeat match goal with
  | H : (_ <? _) = false |- _ => apply N.ltb_ge in H
  | H : (_ <? _) = true |- _ => apply N.ltb_lt in H
  | H : (_ <=? _) = true |- _ => apply N.leb_le in H
  | H : (_ <=? _) = false |- _ => apply N.leb_gt in H
  | H : negb _ = false |- _ => apply Bool.negb_false_iff in H
  | H : negb _ = true |- _ => apply Bool.negb_true_iff in H
  | H : (_ =? _) = true |- _ => apply N.eqb_eq in H
  | H : (_ =? _) = false |- _ => apply N.eqb_neq in H
  | H : (_ && _) = true |- _ => apply Bool.andb_true_iff in H; destruct H
  end.

Lemma header_layout_sound b l :
  header_layout b = Ok l -> hl_header_len l <= blen b /\ CommonHeader_SIZE_BYTES <= hl_header_len l.
Proof.
  unfold header_layout. intros H. inv_bind H.
  inversion H; subst; clear H. cbn [hl_header_len].
  clean_bools. lia.
Qed.

Lemma required_size_header_sound b n : required_size_header b = Ok n -> n <= blen b.
Proof. unfold required_size_header. intros H. inv_bind H. inversion H; subst. apply (header_layout_sound _ _ E). Qed.

Lemma required_size_raw_sound b n : required_size_raw b = Ok n -> n <= blen b.
Proof. unfold required_size_raw. intros H. inv_bind H. inversion H; subst. lia. Qed.

Lemma required_size_stdpath_sound b n : required_size_stdpath b = Ok n -> n <= blen b.
Proof. unfold required_size_stdpath. intros H. inv_bind H. inversion H; subst. lia. Qed.

Lemma fixed_size_sound a s b n : fixed_size a s b = Ok n -> n <= blen b.
Proof. unfold fixed_size. intros H. inv_bind H. inversion H; subst. lia. Qed.

Lemma required_size_udp_sound b n : required_size_udp b = Ok n -> n <= blen b.
Proof. unfold required_size_udp. intros H. inv_bind H. inversion H; subst. lia. Qed.

Lemma required_size_scmp_msg_sound ty b n : required_size_scmp_msg ty b = Ok n -> n <= blen b.
Proof. unfold required_size_scmp_msg. intros H. inv_bind H. inversion H; subst. clean_bools. destruct (scmp_fixed_size ty); lia. Qed.

Lemma required_size_scmp_sound b n : required_size_scmp b = Ok n -> n <= blen b.
Proof.
  unfold required_size_scmp. intros H.
  destruct (required_size_scmp_msg 256 b) as [m|e|s] eqn:E; [|destruct e; discriminate|discriminate].
  inv_bind H. eapply required_size_scmp_msg_sound; eauto.
Qed.

Lemma required_size_sound_all k b n : required_size k b = Ok n -> n <= blen b.
Proof.
  destruct k; cbn [required_size]; intros H.
  - eapply required_size_header_sound; eauto.
  - eapply required_size_stdpath_sound; eauto.
  - eapply fixed_size_sound; eauto.
  - eapply fixed_size_sound; eauto.
  - eapply fixed_size_sound; eauto.
  - eapply required_size_raw_sound; eauto.
  - unfold required_size_udp_pkt in H. inv_bind H. inversion H; subst. eapply required_size_raw_sound; eauto.
  - unfold required_size_scmp_pkt in H. inv_bind H. inversion H; subst. eapply required_size_raw_sound; eauto.
  - eapply required_size_udp_sound; eauto.
  - eapply required_size_scmp_sound; eauto.
  - eapply required_size_scmp_msg_sound; eauto.
Qed.
