(** Lemmas for C02: sizes reported by view constructors never exceed the input, constructors
    never reach a [Panic] (= never read outside the bytes already checked). *)
From Coq Require Import Lia ZifyBool ZifyNat ZifyN.
From Sci Require Import Wire.Views Wire.Spec_C02.
Local Open Scope N_scope.
Ltac Zify.zify_post_hook ::= Z.div_mod_to_equations.
Arguments N.add : simpl never. Arguments N.sub : simpl never. Arguments N.mul : simpl never.
Arguments N.div : simpl never. Arguments N.modulo : simpl never. Arguments N.eqb : simpl never.
Arguments N.ltb : simpl never. Arguments N.leb : simpl never. Arguments N.min : simpl never.

(** * lists *)
Lemma blen_sub b lo hi : hi <= blen b -> blen (sub b lo hi) = hi - lo.
Proof. unfold blen, sub. rewrite firstn_length, skipn_length. lia. Qed.

Lemma blen_sub_le b lo hi : blen (sub b lo hi) <= hi - lo.
Proof. unfold blen, sub. rewrite firstn_length, skipn_length. lia. Qed.

Lemma split_off_some b n cb : split_off_checked b n = Some cb -> cb = sub b 0 n /\ n <= blen b /\ blen cb = n.
Proof.
  unfold split_off_checked. destruct (n <=? blen b) eqn:E; [|discriminate].
  intros H; inversion H; subst. apply N.leb_le in E. refine (conj eq_refl (conj E _)).
  rewrite blen_sub by exact E. lia.
Qed.

Lemma split_off_none b n : split_off_checked b n = None -> blen b < n.
Proof. unfold split_off_checked. destruct (n <=? blen b) eqn:E; [discriminate|]. intros _. lia. Qed.

(** * reads *)
Lemma rd_ok v r bits :
  size_bytes r <= LANE_BYTES -> byte_hi r <= blen v -> rd v r bits = Ok (trunc bits (lane_read v r)).
Proof.
  intros H1 H2. unfold rd.
  destruct (size_bytes r <=? LANE_BYTES) eqn:A; [|lia]. cbn [negb].
  destruct (byte_hi r <=? blen v) eqn:B; [|lia]. reflexivity.
Qed.

Lemma rd_cases v r bits :
  (exists x, rd v r bits = Ok x /\ byte_hi r <= blen v /\ size_bytes r <= LANE_BYTES) \/ (exists s, rd v r bits = Panic s).
Proof.
  unfold rd. destruct (size_bytes r <=? LANE_BYTES) eqn:A; cbn [negb]; [|right; eauto].
  destruct (byte_hi r <=? blen v) eqn:B; cbn [negb]; [|right; eauto].
  left. eexists. split; [reflexivity|]. lia.
Qed.

Lemma rd_never_err v r bits e : rd v r bits <> Err e.
Proof. unfold rd. destruct (negb _); [discriminate|]. destruct (negb _); discriminate. Qed.

(** every generated bit range fits the 128-bit lane (finite table, by computation) *)
Lemma lane_ranges_fit_lane : forallb (fun r => (size_bytes r <=? LANE_BYTES) && (r_width r <=? 64)) lane_ranges = true.
Proof. vm_compute. reflexivity. Qed.

(** a lane read only looks at the bytes of its containing byte range *)
Lemma lane_read_local b b' r :
  sub b (byte_lo r) (byte_hi r) = sub b' (byte_lo r) (byte_hi r) -> lane_read b r = lane_read b' r.
Proof. unfold lane_read. intros ->. reflexivity. Qed.

Lemma lane_read_lt b r : lane_read b r < 2 ^ r_width r.
Proof.
  unfold lane_read. rewrite N.land_ones. apply N.mod_lt. apply N.pow_nonzero. discriminate.
Qed.

(** a lane write replaces exactly the bytes of its containing byte range *)
Lemma be_bytes_length n v : length (be_bytes n v) = n.
Proof. revert v; induction n; intros v; cbn [be_bytes]; [reflexivity|]. rewrite app_length, IHn. cbn. lia. Qed.

Lemma lane_write_length b r v : byte_hi r <= blen b -> length (lane_write b r v) = length b.
Proof.
  intros H. unfold lane_write. rewrite !app_length, be_bytes_length, firstn_length, skipn_length.
  unfold blen, byte_hi, byte_lo, r_end, r_start in *. lia.
Qed.


(** * sizes *)
Ltac inv_bind H :=
  repeat match type of H with
  | obind ?x _ = _ => let E := fresh "E" in destruct x eqn:E; cbn [obind] in H; try discriminate H
  | (if ?c then _ else _) = _ => let C := fresh "C" in destruct c eqn:C; try discriminate H
  | match ?x with _ => _ end = _ => let E := fresh "E" in destruct x eqn:E; try discriminate H
  end.

Ltac clean_bools :=
  repeat match goal with
  | H : (_ <? _) = false |- _ => apply N.ltb_ge in H
  | H : (_ <? _) = true |- _ => apply N.ltb_lt in H
  | H : (_ <=? _) = true |- _ => apply N.leb_le in H
  | H : (_ <=? _) = false |- _ => apply N.leb_gt in H
  | H : negb _ = false |- _ => apply Bool.negb_false_iff in H
  | H : negb _ = true |- _ => apply Bool.negb_true_iff in H
  | H : (_ =? _) = true |- _ => apply N.eqb_eq in H
  | H : (_ =? _) = false |- _ => apply N.eqb_neq in H
  | H : (_ && _) = true |- _ => apply Bool.andb_true_iff in H; destruct H
  end.

Lemma header_layout_sound b l :
  header_layout b = Ok l -> hl_header_len l <= blen b /\ CommonHeader_SIZE_BYTES <= hl_header_len l.
Proof.
  unfold header_layout. intros H. inv_bind H.
  inversion H; subst; clear H. cbn [hl_header_len].
  clean_bools. lia.
Qed.

Lemma required_size_header_sound b n : required_size_header b = Ok n -> n <= blen b.
Proof. unfold required_size_header. intros H. inv_bind H. inversion H; subst. apply (header_layout_sound _ _ E). Qed.

Lemma required_size_raw_sound b n : required_size_raw b = Ok n -> n <= blen b.
Proof. unfold required_size_raw. intros H. inv_bind H. inversion H; subst. lia. Qed.

Lemma required_size_stdpath_sound b n : required_size_stdpath b = Ok n -> n <= blen b.
Proof. unfold required_size_stdpath. intros H. inv_bind H. inversion H; subst. lia. Qed.

Lemma fixed_size_sound a s b n : fixed_size a s b = Ok n -> n <= blen b.
Proof. unfold fixed_size. intros H. inv_bind H. inversion H; subst. lia. Qed.

Lemma required_size_udp_sound b n : required_size_udp b = Ok n -> n <= blen b.
Proof. unfold required_size_udp. intros H. inv_bind H. inversion H; subst. lia. Qed.

Lemma required_size_scmp_msg_sound ty b n : required_size_scmp_msg ty b = Ok n -> n <= blen b.
Proof. unfold required_size_scmp_msg. intros H. inv_bind H. inversion H; subst. clean_bools. destruct (scmp_fixed_size ty); lia. Qed.

Lemma required_size_scmp_sound b n : required_size_scmp b = Ok n -> n <= blen b.
Proof.
  unfold required_size_scmp. intros H.
  destruct (required_size_scmp_msg 256 b) as [m|e|s] eqn:E; [|destruct e; discriminate|discriminate].
  inv_bind H. eapply required_size_scmp_msg_sound; eauto.
Qed.

Lemma required_size_sound_all k b n : required_size k b = Ok n -> n <= blen b.
Proof.
  destruct k; cbn [required_size]; intros H.
  - eapply required_size_header_sound; eauto.
  - eapply required_size_stdpath_sound; eauto.
  - eapply fixed_size_sound; eauto.
  - eapply fixed_size_sound; eauto.
  - eapply fixed_size_sound; eauto.
  - eapply required_size_raw_sound; eauto.
  - unfold required_size_udp_pkt in H. inv_bind H. inversion H; subst. eapply required_size_raw_sound; eauto.
  - unfold required_size_scmp_pkt in H. inv_bind H. inversion H; subst. eapply required_size_raw_sound; eauto.
  - eapply required_size_udp_sound; eauto.
  - eapply required_size_scmp_sound; eauto.
  - eapply required_size_scmp_msg_sound; eauto.
Qed.

(** * constructors never reach a Panic: every read happens inside bytes already checked *)
Lemma index_range_ok v lo hi : lo <= hi -> hi <= blen v -> index_range v lo hi = Ok (sub v lo hi).
Proof.
  intros H1 H2. unfold index_range. destruct (lo <=? hi) eqn:A; [|lia]. destruct (hi <=? blen v) eqn:B; [|lia]. reflexivity.
Qed.
Lemma get_unchecked_ok v lo hi : lo <= hi -> hi <= blen v -> get_unchecked v lo hi = Ok (sub v lo hi).
Proof.
  intros H1 H2. unfold get_unchecked. destruct (lo <=? hi) eqn:A; [|lia]. destruct (hi <=? blen v) eqn:B; [|lia]. reflexivity.
Qed.

Ltac closed_le := apply N.leb_le; vm_compute; reflexivity.
Ltac rd_side :=
  first [ closed_le
        | match goal with H : blen ?v = _ |- _ <= blen ?v => rewrite H; closed_le end ].
Ltac finish_np :=
  repeat match goal with
  | |- is_panic (if ?c then _ else _) = false => destruct c
  | |- is_panic (obind (if ?c then _ else _) _) = false => destruct c
  | |- is_panic (obind (Ok _) _) = false => cbn [obind]
  | |- is_panic (obind (Err _) _) = false => reflexivity
  end; try reflexivity.

Lemma header_layout_np b : is_panic (header_layout b) = false.
Proof.
  unfold header_layout.
  destruct (split_off_checked b CommonHeader_SIZE_BYTES) as [cb|] eqn:S; [|reflexivity].
  apply split_off_some in S. destruct S as (_ & Hb & Hc).
  rewrite (rd_ok cb CommonHeader_VERSION_RNG) by rd_side. cbn [obind].
  destruct (negb _); [reflexivity|].
  rewrite (rd_ok cb CommonHeader_PATH_TYPE_RNG) by rd_side. cbn [obind].
  rewrite (rd_ok cb CommonHeader_SRC_ADDR_INFO_RNG) by rd_side. cbn [obind].
  rewrite (rd_ok cb CommonHeader_DST_ADDR_INFO_RNG) by rd_side. cbn [obind].
  rewrite (rd_ok cb CommonHeader_HEADER_LEN_RNG) by rd_side. cbn [obind].
  rewrite (rd_ok cb CommonHeader_PAYLOAD_LEN_RNG) by rd_side. cbn [obind].
  match goal with |- is_panic (if blen b <? ?a then _ else _) = false => destruct (blen b <? a) eqn:C; [reflexivity|] end.
  apply N.ltb_ge in C.
  match goal with |- is_panic (obind (if ?c then _ else _) _) = false => destruct c end.
  - rewrite index_range_ok by lia. cbn [obind].
    match goal with |- context [split_off_checked ?r ?n] => destruct (split_off_checked r n) as [mb|] eqn:S2 end; [|reflexivity].
    apply split_off_some in S2. destruct S2 as (_ & _ & Hm).
    rewrite (rd_ok mb StdPathMeta_SEG0_LEN_RNG) by rd_side. cbn [obind].
    rewrite (rd_ok mb StdPathMeta_SEG1_LEN_RNG) by rd_side. cbn [obind].
    rewrite (rd_ok mb StdPathMeta_SEG2_LEN_RNG) by rd_side. cbn [obind].
    finish_np.
  - finish_np.
Qed.

Lemma is_panic_bind_ok {A B} (x : res A) (f : A -> B) : is_panic (obind x (fun a => Ok (f a))) = is_panic x.
Proof. destruct x; reflexivity. Qed.

Lemma required_size_stdpath_np b : is_panic (required_size_stdpath b) = false.
Proof.
  unfold required_size_stdpath.
  destruct (split_off_checked b StdPathMeta_SIZE_BYTES) as [mb|] eqn:S; [|reflexivity].
  apply split_off_some in S. destruct S as (_ & _ & Hm).
  rewrite (rd_ok mb StdPathMeta_SEG0_LEN_RNG) by rd_side. cbn [obind].
  rewrite (rd_ok mb StdPathMeta_SEG1_LEN_RNG) by rd_side. cbn [obind].
  rewrite (rd_ok mb StdPathMeta_SEG2_LEN_RNG) by rd_side. cbn [obind].
  finish_np.
Qed.

Lemma required_size_udp_np b : is_panic (required_size_udp b) = false.
Proof.
  unfold required_size_udp. destruct (blen b <? UdpDatagram_HEADER_SIZE_BYTES) eqn:C; [reflexivity|].
  apply N.ltb_ge in C. unfold UdpDatagram_HEADER_SIZE_BYTES in C.
  rewrite (rd_ok b UdpDatagram_LENGTH_RNG) by (first [closed_le | (change (byte_hi UdpDatagram_LENGTH_RNG) with 6; lia)]).
  cbn [obind]. finish_np.
Qed.

Lemma required_size_scmp_msg_np ty b : is_panic (required_size_scmp_msg ty b) = false.
Proof. unfold required_size_scmp_msg. finish_np. Qed.

Lemma required_size_scmp_np b : is_panic (required_size_scmp b) = false.
Proof.
  unfold required_size_scmp.
  destruct (required_size_scmp_msg 256 b) as [n|e|s] eqn:E.
  - unfold required_size_scmp_msg in E.
    destruct (blen b <? scmp_header_size 256) eqn:C; [discriminate|]. apply N.ltb_ge in C.
    change (scmp_header_size 256) with 8 in C. change (scmp_fixed_size 256) with false in E. inversion E; subst n.
    rewrite get_unchecked_ok by lia. cbn [obind].
    rewrite (rd_ok _ ScmpUnknownMessage_TYPE_RNG).
    + cbn [obind]. apply required_size_scmp_msg_np.
    + closed_le.
    + rewrite blen_sub by lia. change (byte_hi ScmpUnknownMessage_TYPE_RNG) with 1. lia.
  - destruct e; reflexivity.
  - pose proof (required_size_scmp_msg_np 256 b) as H. rewrite E in H. discriminate.
Qed.

(** reading a field of the first [n] bytes = reading it from the whole buffer *)
Lemma sub_sub_prefix b n lo hi : hi <= n -> sub (sub b 0 n) lo hi = sub b lo hi.
Proof.
  intros H. unfold sub. rewrite N.sub_0_r. cbn [skipn N.to_nat].
  replace (N.to_nat 0) with 0%nat by reflexivity. cbn [skipn].
  rewrite skipn_firstn_comm, firstn_firstn. f_equal. lia.
Qed.

Lemma rd_prefix b n r bits : byte_hi r <= n -> n <= blen b -> rd (sub b 0 n) r bits = rd b r bits.
Proof.
  intros H1 H2. unfold rd. destruct (negb (size_bytes r <=? LANE_BYTES)); [reflexivity|].
  rewrite blen_sub by exact H2. rewrite N.sub_0_r.
  destruct (byte_hi r <=? n) eqn:A; [|lia]. destruct (byte_hi r <=? blen b) eqn:B; [|lia].
  cbn [negb]. f_equal. f_equal. apply lane_read_local. apply sub_sub_prefix. exact H1.
Qed.

(** the payload accessor on a buffer whose header layout was accepted *)
Lemma header_layout_fields b l :
  header_layout b = Ok l ->
  rd b CommonHeader_HEADER_LEN_RNG 8 = Ok (hl_header_len l / 4) /\ hl_header_len l mod 4 = 0
  /\ rd b CommonHeader_PAYLOAD_LEN_RNG 16 = Ok (hl_payload_len l).
Proof.
  unfold header_layout. intros H.
  destruct (split_off_checked b CommonHeader_SIZE_BYTES) as [cb|] eqn:S; [|discriminate].
  apply split_off_some in S. destruct S as (-> & Hb & Hc).
  inv_bind H. inversion H; subst; clear H. cbn [hl_header_len hl_payload_len].
  repeat match goal with
  | E : rd (sub b 0 _) _ _ = _ |- _ => rewrite rd_prefix in E by (first [exact Hb | closed_le])
  end.
  repeat match goal with
  | E : rd b CommonHeader_HEADER_LEN_RNG 8 = Ok _ |- _ => rewrite E; clear E
  | E : rd b CommonHeader_PAYLOAD_LEN_RNG 16 = Ok _ |- _ => rewrite E; clear E
  end.
  refine (conj _ (conj _ eq_refl)); [f_equal|]; lia.
Qed.

Lemma pkt_payload_range_ok b l :
  header_layout b = Ok l ->
  pkt_payload_range b = Ok (hl_header_len l, hl_header_len l + N.min (hl_payload_len l) (blen b - hl_header_len l)).
Proof.
  intros H. destruct (header_layout_fields b l H) as (Eh & Hm & Ep).
  destruct (header_layout_sound b l H) as [Hle H12].
  unfold pkt_payload_range. rewrite Eh. cbn [obind].
  replace (hl_header_len l / 4 * 4) with (hl_header_len l) by lia.
  rewrite get_unchecked_ok by lia. cbn [obind].
  rewrite rd_prefix by (first [exact Hle | (change (byte_hi CommonHeader_PAYLOAD_LEN_RNG) with 8; unfold CommonHeader_SIZE_BYTES in H12; lia)]).
  rewrite Ep. cbn [obind].
  rewrite get_unchecked_ok by lia. reflexivity.
Qed.

Lemma required_size_np k b : is_panic (required_size k b) = false.
Proof.
  destruct k; cbn [required_size].
  - unfold required_size_header. rewrite is_panic_bind_ok. apply header_layout_np.
  - apply required_size_stdpath_np.
  - unfold required_size_onehop, fixed_size. finish_np.
  - unfold required_size_info, fixed_size. finish_np.
  - unfold required_size_hop, fixed_size. finish_np.
  - unfold required_size_raw. rewrite is_panic_bind_ok. apply header_layout_np.
  - unfold required_size_udp_pkt, required_size_raw.
    destruct (header_layout b) as [l|e|s] eqn:E; cbn [obind]; [|reflexivity|pose proof (header_layout_np b) as H; rewrite E in H; discriminate].
    unfold pkt_payload. rewrite (pkt_payload_range_ok b l E). cbn [obind fst snd].
    pose proof (required_size_udp_np (sub b (hl_header_len l) (hl_header_len l + N.min (hl_payload_len l) (blen b - hl_header_len l)))) as P.
    destruct (required_size_udp _); [reflexivity|reflexivity|discriminate].
  - unfold required_size_scmp_pkt, required_size_raw.
    destruct (header_layout b) as [l|e|s] eqn:E; cbn [obind]; [|reflexivity|pose proof (header_layout_np b) as H; rewrite E in H; discriminate].
    unfold pkt_payload. rewrite (pkt_payload_range_ok b l E). cbn [obind fst snd].
    pose proof (required_size_scmp_np (sub b (hl_header_len l) (hl_header_len l + N.min (hl_payload_len l) (blen b - hl_header_len l)))) as P.
    destruct (required_size_scmp _); [reflexivity|reflexivity|discriminate].
  - apply required_size_udp_np.
  - apply required_size_scmp_np.
  - apply required_size_scmp_msg_np.
Qed.

Lemma try_from_slice_np k b : is_panic (try_from_slice k b) = false.
Proof.
  unfold try_from_slice. pose proof (required_size_np k b) as P.
  destruct (required_size k b) as [n|e|s] eqn:E; cbn [obind]; [|reflexivity|discriminate].
  pose proof (required_size_sound_all k b n E) as L.
  destruct (blen b <? n) eqn:C; [lia|reflexivity].
Qed.

(** * fixed-offset accessors stay inside the view *)
Definition min_size (k : vkind) : N :=
  match k with
  | KHeader => 28 | KStdPath => 4 | KInfo => 8 | KHop => 12 | KUdp => 8 | KScmp => 8 | KOneHop => 32
  | KScmpMsg ty => scmp_header_size ty
  | _ => 28
  end.

Lemma addr_hdr_size_ge s d : 16 <= addr_hdr_size s d.
Proof. unfold addr_hdr_size, AddressHeader_FIXED_SIZE_BITS. lia. Qed.

Lemma header_layout_min b l : header_layout b = Ok l -> 28 <= hl_header_len l.
Proof.
  unfold header_layout. intros H. inv_bind H. inversion H; subst; clear H. cbn [hl_header_len]. clean_bools.
  match goal with Q : _ = ?x * 4 |- _ <= ?x * 4 => rewrite <- Q end.
  match goal with |- _ <= _ + addr_hdr_size ?s ?d + _ => pose proof (addr_hdr_size_ge s d) end.
  unfold CommonHeader_SIZE_BYTES. lia.
Qed.

Lemma required_size_min k b n : required_size k b = Ok n -> min_size k <= n.
Proof.
  destruct k; cbn [required_size min_size]; intros H.
  - unfold required_size_header in H. inv_bind H. inversion H; subst. eapply header_layout_min; eauto.
  - unfold required_size_stdpath in H. inv_bind H. inversion H; subst. unfold StdPathMeta_SIZE_BYTES. lia.
  - unfold required_size_onehop, fixed_size in H. inv_bind H. inversion H; subst. vm_compute. discriminate.
  - unfold required_size_info, fixed_size in H. inv_bind H. inversion H; subst. vm_compute. discriminate.
  - unfold required_size_hop, fixed_size in H. inv_bind H. inversion H; subst. vm_compute. discriminate.
  - unfold required_size_raw in H. inv_bind H. inversion H; subst.
    pose proof (header_layout_min _ _ E). pose proof (header_layout_sound _ _ E). lia.
  - unfold required_size_udp_pkt in H. destruct (required_size_raw b) as [m|e|s] eqn:R; cbn [obind] in H; try discriminate H.
    inv_bind H. inversion H; subst n.
    unfold required_size_raw in R. destruct (header_layout b) as [l|e|s] eqn:HL; cbn [obind] in R; try discriminate R.
    inversion R; subst m.
    pose proof (header_layout_min _ _ HL). pose proof (header_layout_sound _ _ HL). lia.
  - unfold required_size_scmp_pkt in H. destruct (required_size_raw b) as [m|e|s] eqn:R; cbn [obind] in H; try discriminate H.
    inv_bind H. inversion H; subst n.
    unfold required_size_raw in R. destruct (header_layout b) as [l|e|s] eqn:HL; cbn [obind] in R; try discriminate R.
    inversion R; subst m.
    pose proof (header_layout_min _ _ HL). pose proof (header_layout_sound _ _ HL). lia.
  - unfold required_size_udp in H. inv_bind H. inversion H; subst. clean_bools. unfold UdpDatagram_HEADER_SIZE_BYTES in *. lia.
  - unfold required_size_scmp in H.
    destruct (required_size_scmp_msg 256 b) as [m|e|s] eqn:E; [|destruct e; discriminate|discriminate].
    unfold required_size_scmp_msg in E. inv_bind E. inversion E; subst. clean_bools.
    change (scmp_header_size 256) with 8 in *. change (scmp_fixed_size 256) with false in *. cbn iota in *.
    inv_bind H. unfold required_size_scmp_msg in H. inv_bind H. inversion H; subst. clean_bools.
    destruct (scmp_fixed_size a0) eqn:F; [|lia].
    unfold scmp_fixed_size in F. apply Bool.orb_true_iff in F. destruct F as [F|F]; apply N.eqb_eq in F; subst a0; vm_compute; discriminate.
  - unfold required_size_scmp_msg in H. inv_bind H. inversion H; subst. clean_bools. destruct (scmp_fixed_size ty); lia.
Qed.

(** the accessors that read one bit range at a fixed offset: (view kind, accessor id, range, bits) *)
Definition fixed_accessors : list (vkind * N * rng * N) :=
  [ (KHeader, 0, CommonHeader_VERSION_RNG, 8); (KHeader, 1, CommonHeader_TRAFFIC_CLASS_RNG, 8);
    (KHeader, 2, CommonHeader_FLOW_ID_RNG, 32); (KHeader, 3, CommonHeader_NEXT_HEADER_RNG, 8);
    (KHeader, 4, CommonHeader_PAYLOAD_LEN_RNG, 16); (KHeader, 6, CommonHeader_PATH_TYPE_RNG, 8);
    (KHeader, 7, CommonHeader_DST_ADDR_INFO_RNG, 8); (KHeader, 8, CommonHeader_SRC_ADDR_INFO_RNG, 8);
    (KHeader, 9, rshift AddressHeader_DST_ISD_RNG CommonHeader_SIZE_BYTES, 16);
    (KHeader, 10, rshift AddressHeader_DST_AS_RNG CommonHeader_SIZE_BYTES, 64);
    (KHeader, 11, rshift AddressHeader_SRC_ISD_RNG CommonHeader_SIZE_BYTES, 16);
    (KHeader, 12, rshift AddressHeader_SRC_AS_RNG CommonHeader_SIZE_BYTES, 64);
    (KHeader, 13, rshift AddressHeader_DST_IA_RNG CommonHeader_SIZE_BYTES, 64);
    (KHeader, 14, rshift AddressHeader_SRC_IA_RNG CommonHeader_SIZE_BYTES, 64);
    (KStdPath, 0, StdPathMeta_CURR_INFO_FIELD_RNG, 8); (KStdPath, 1, StdPathMeta_CURR_HOP_FIELD_RNG, 8);
    (KStdPath, 2, StdPathMeta_SEG0_LEN_RNG, 8); (KStdPath, 3, StdPathMeta_SEG1_LEN_RNG, 8); (KStdPath, 4, StdPathMeta_SEG2_LEN_RNG, 8);
    (KInfo, 0, InfoField_FLAGS_RNG, 8); (KInfo, 1, InfoField_SEGMENT_ID_RNG, 16); (KInfo, 2, InfoField_TIMESTAMP_RNG, 32);
    (KHop, 0, HopField_FLAGS_RNG, 8); (KHop, 1, HopField_EXP_TIME_RNG, 8); (KHop, 2, HopField_CONS_INGRESS_RNG, 16);
    (KHop, 3, HopField_CONS_EGRESS_RNG, 16);
    (KUdp, 0, UdpDatagram_SRC_PORT_RNG, 16); (KUdp, 1, UdpDatagram_DST_PORT_RNG, 16); (KUdp, 2, UdpDatagram_LENGTH_RNG, 16);
    (KUdp, 3, UdpDatagram_CHECKSUM_RNG, 16);
    (KScmp, 0, ScmpUnknownMessage_TYPE_RNG, 8); (KScmp, 1, ScmpUnknownMessage_CODE_RNG, 8); (KScmp, 2, ScmpUnknownMessage_CHECKSUM_RNG, 16) ].

Lemma fixed_accessors_fit :
  forallb (fun '(k, _, r, _) => (size_bytes r <=? LANE_BYTES) && (byte_hi r <=? min_size k)) fixed_accessors = true.
Proof. vm_compute. reflexivity. Qed.

Lemma fixed_accessors_are_reads k id r bits arg v :
  In (k, id, r, bits) fixed_accessors -> run_acc k id arg v = vn (rd v r bits).
Proof.
  unfold fixed_accessors. intros H.
  repeat (destruct H as [H|H]; [inversion H; subst; reflexivity|]). destruct H.
Qed.

Lemma fixed_accessor_in_bounds k id r bits arg b n :
  In (k, id, r, bits) fixed_accessors -> required_size k b = Ok n -> is_panic (run_acc k id arg (sub b 0 n)) = false.
Proof.
  intros Hin Hs. rewrite (fixed_accessors_are_reads k id r bits arg _ Hin).
  pose proof fixed_accessors_fit as F. rewrite forallb_forall in F. specialize (F _ Hin). cbn beta iota in F.
  apply Bool.andb_true_iff in F. destruct F as [F1 F2]. apply N.leb_le in F1. apply N.leb_le in F2.
  pose proof (required_size_min k b n Hs) as M. pose proof (required_size_sound_all k b n Hs) as L.
  unfold vn. rewrite rd_ok; [reflexivity|exact F1|]. rewrite blen_sub by exact L. lia.
Qed.

(** the typed SCMP message views: every header field of the view's own type *)
Lemma scmp_fields_fit :
  forallb (fun ty => forallb (fun '(r, _) => (size_bytes r <=? LANE_BYTES) && (byte_hi r <=? scmp_header_size ty)) (scmp_fields ty))
          (256 :: scmp_type_known) = true.
Proof. vm_compute. reflexivity. Qed.

(** * safe mutators never change the extent of the view *)
Lemma wr_length v r val v' : wr v r val = Ok v' -> length v' = length v.
Proof.
  unfold wr. destruct (negb (size_bytes r <=? LANE_BYTES)); [discriminate|].
  destruct (byte_hi r <=? blen v) eqn:B; cbn [negb]; [|discriminate].
  intros H; inversion H; subst. apply lane_write_length. apply N.leb_le. exact B.
Qed.

Lemma splice_length v lo x : (N.to_nat lo + length x <= length v)%nat -> length (splice v lo x) = length v.
Proof. intros H. unfold splice. rewrite !app_length, firstn_length, skipn_length. lia. Qed.

Lemma get_unchecked_some v lo hi x : get_unchecked v lo hi = Ok x -> x = sub v lo hi /\ lo <= hi /\ hi <= blen v.
Proof.
  unfold get_unchecked. destruct ((lo <=? hi) && (hi <=? blen v)) eqn:C; [|discriminate].
  intros H; inversion H; subst. apply Bool.andb_true_iff in C. destruct C as [A B].
  apply N.leb_le in A. apply N.leb_le in B. auto.
Qed.

Lemma sub_length v lo hi : lo <= hi -> hi <= blen v -> length (sub v lo hi) = N.to_nat (hi - lo).
Proof. intros H1 H2. unfold sub, blen in *. rewrite firstn_length, skipn_length. lia. Qed.

Lemma in_sub_length v r f v' :
  (forall x y, f x = Ok y -> length y = length x) -> in_sub v r f = Ok v' -> length v' = length v.
Proof.
  intros Hf H. unfold in_sub in H. inv_bind H. inversion H; subst; clear H.
  apply get_unchecked_some in E. destruct E as (-> & H1 & H2).
  apply Hf in E0. rewrite sub_length in E0 by assumption.
  apply splice_length. unfold blen in *. lia.
Qed.

Lemma poke_length v r arg val v' : snd r <= blen v -> poke v r arg val = Ok v' -> length v' = length v.
Proof.
  intros Hr. unfold poke. destruct (fst r + arg <? snd r) eqn:C; intros H; inversion H; subst; [|reflexivity].
  apply N.ltb_lt in C. apply splice_length. cbn [length]. unfold blen in *. lia.
Qed.

Ltac split_id H :=
  repeat match type of H with
  | context [match ?x with _ => _ end] => is_var x; destruct x
  end.

Lemma mut_info_length id val v v' : mut_info id val v = Ok v' -> length v' = length v.
Proof.
  unfold mut_info. intros H. split_id H; first [eapply wr_length; eassumption | (inversion H; reflexivity)].
Qed.

Lemma mut_hop_length id val v v' : mut_hop id val v = Ok v' -> length v' = length v.
Proof.
  unfold mut_hop. intros H. split_id H;
    first [ eapply wr_length; eassumption | (inversion H; reflexivity) | idtac ].
  inv_bind H. inversion H; subst. apply get_unchecked_some in E. destruct E as (_ & _ & E).
  apply splice_length. cbn [length]. unfold blen in E.
  change (byte_hi HopField_MAC_RNG) with 12 in E. change (N.to_nat (byte_lo HopField_MAC_RNG)) with 6%nat. lia.
Qed.

Lemma mut_stdpath_length id arg val v v' : mut_stdpath id arg val v = Ok v' -> length v' = length v.
Proof.
  unfold mut_stdpath. intros H. split_id H;
    try solve [eapply wr_length; eassumption];
    repeat match type of H with (if ?c then _ else _) = _ => destruct c end;
    try solve [inversion H; reflexivity];
    inv_bind H; try solve [inversion H; reflexivity];
    (eapply in_sub_length; [|eassumption]); intros x y Hxy; first [eapply mut_info_length; eassumption | eapply mut_hop_length; eassumption].
Qed.

Lemma mut_onehop_length id val v v' : mut_onehop id val v = Ok v' -> length v' = length v.
Proof.
  unfold mut_onehop. intros H.
  repeat match type of H with (if ?c then _ else _) = _ => destruct c end;
    try solve [inversion H; reflexivity];
    inv_bind H; (eapply in_sub_length; [|eassumption]); intros x y Hxy;
    first [eapply mut_info_length; eassumption | eapply mut_hop_length; eassumption].
Qed.

Lemma mut_header_length id arg val v v' : mut_header id arg val v = Ok v' -> length v' = length v.
Proof.
  unfold mut_header. intros H. split_id H;
    try solve [eapply wr_length; eassumption];
    repeat match type of H with (if ?c then _ else _) = _ => destruct c end;
    try solve [inversion H; reflexivity];
    inv_bind H;
    repeat match type of H with (if ?c then _ else _) = _ => destruct c end;
    try solve [inversion H; reflexivity];
    (eapply in_sub_length; [|eassumption]); intros x y Hxy;
    first [eapply mut_stdpath_length; eassumption | eapply mut_onehop_length; eassumption].
Qed.

Lemma index_range_some v lo hi x : index_range v lo hi = Ok x -> lo <= hi /\ hi <= blen v.
Proof.
  unfold index_range. destruct ((lo <=? hi) && (hi <=? blen v)) eqn:C; [|discriminate].
  intros _. apply Bool.andb_true_iff in C. destruct C as [A B]. apply N.leb_le in A. apply N.leb_le in B. auto.
Qed.

Lemma udp_payload_range_bound v r : udp_payload_range v = Ok r -> snd r <= blen v.
Proof. unfold udp_payload_range. intros H. inv_bind H. inversion H; subst. cbn [snd]. lia. Qed.
Lemma scmp_tail_range_bound ty v r : scmp_tail_range ty v = Ok r -> snd r <= blen v.
Proof. unfold scmp_tail_range. intros H. inv_bind H. inversion H; subst. cbn [snd]. apply index_range_some in E. lia. Qed.
Lemma pkt_payload_range_bound v r : pkt_payload_range v = Ok r -> snd r <= blen v.
Proof.
  unfold pkt_payload_range. intros H. inv_bind H. inversion H; subst. cbn [snd].
  match goal with E : get_unchecked v _ (_ + _) = Ok _ |- _ => apply get_unchecked_some in E; lia end.
Qed.

Lemma mut_udp_length id arg val v v' : mut_udp id arg val v = Ok v' -> length v' = length v.
Proof.
  unfold mut_udp. intros H. split_id H;
    try solve [eapply wr_length; eassumption]; try solve [inversion H; reflexivity].
  inv_bind H. eapply poke_length; [|eassumption]. eapply udp_payload_range_bound; eassumption.
Qed.

Lemma mut_scmp_msg_length ty id arg val v v' : mut_scmp_msg ty id arg val v = Ok v' -> length v' = length v.
Proof.
  unfold mut_scmp_msg. intros H. split_id H;
    try solve [eapply wr_length; eassumption]; try solve [inversion H; reflexivity].
  all: try solve [destruct (scmp_fixed_size ty); [inversion H; reflexivity|];
                  inv_bind H; eapply poke_length; [|eassumption]; eapply scmp_tail_range_bound; eassumption].
  all: match type of H with match ?o with _ => _ end = _ => destruct o as [[r bits]|] end;
       [eapply wr_length; eassumption|inversion H; reflexivity].
Qed.

Lemma mut_scmp_length id arg val v v' : mut_scmp id arg val v = Ok v' -> length v' = length v.
Proof.
  unfold mut_scmp. intros H. split_id H;
    try solve [eapply wr_length; eassumption]; try solve [inversion H; reflexivity].
  all: repeat match type of H with (if ?c then _ else _) = _ => destruct c end; try solve [inversion H; reflexivity].
  all: inv_bind H; eapply mut_scmp_msg_length; eassumption.
Qed.

Lemma mut_pkt_length k id arg val v v' : mut_pkt k id arg val v = Ok v' -> length v' = length v.
Proof.
  unfold mut_pkt. intros H. split_id H.
  all: repeat match type of H with (if ?c then _ else _) = _ => destruct c end; try solve [inversion H; reflexivity].
  all: try solve [inv_bind H; eapply poke_length; [|eassumption]; eapply pkt_payload_range_bound; eassumption].
  all: inv_bind H; (eapply in_sub_length; [|eassumption]); intros x y Hxy; eapply mut_header_length; eassumption.
Qed.

Lemma run_mut_length k id arg val v v' : run_mut k id arg val v = Ok v' -> length v' = length v.
Proof.
  destruct k; cbn [run_mut]; intros H.
  - eapply mut_header_length; eauto.
  - eapply mut_stdpath_length; eauto.
  - eapply mut_onehop_length; eauto.
  - eapply mut_info_length; eauto.
  - eapply mut_hop_length; eauto.
  - eapply mut_pkt_length; eauto.
  - eapply mut_pkt_length; eauto.
  - eapply mut_pkt_length; eauto.
  - eapply mut_udp_length; eauto.
  - eapply mut_scmp_length; eauto.
  - eapply mut_scmp_msg_length; eauto.
Qed.

(** arbitrary sequences of safe mutators *)
Fixpoint run_muts (k : vkind) (ms : list (N * N * N)) (v : bytes) : res bytes :=
  match ms with
  | [] => Ok v
  | (id, arg, val) :: r => v1 <- run_mut k id arg val v ;; run_muts k r v1
  end.
Lemma run_muts_length k ms : forall v v', run_muts k ms v = Ok v' -> length v' = length v.
Proof.
  induction ms as [|[[id arg] val] r IH]; intros v v' H; cbn [run_muts] in H.
  - inversion H; reflexivity.
  - inv_bind H. apply IH in H. apply run_mut_length in E. congruence.
Qed.
