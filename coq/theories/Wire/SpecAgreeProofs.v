(** The independent literal-offset reader of [Spec_C03] and the model of the implementation's
    view accessors read the same values from EVERY byte string, layer by layer.  Key lemma
    [rd_window]: a bit-range read through the 128-bit lane equals shifting and masking the
    big-endian value of ANY byte-aligned window that contains the range -- which is how the
    specification reads fields ([be b offset length], div, mod). *)
From Coq Require Import Lia ZifyBool ZifyNat ZifyN.
From Sci Require Import Wire.Codec Wire.Spec_C03 Wire.BitFieldProofs.
Local Open Scope N_scope.
Ltac closed_le := apply N.leb_le; vm_compute; reflexivity.
Ltac Zify.zify_post_hook ::= Z.div_mod_to_equations.
Arguments N.add : simpl never. Arguments N.sub : simpl never. Arguments N.mul : simpl never.
Arguments N.div : simpl never. Arguments N.modulo : simpl never. Arguments N.pow : simpl never.
Arguments N.shiftr : simpl never. Arguments N.land : simpl never. Arguments N.ltb : simpl never.
Arguments N.leb : simpl never. Arguments N.eqb : simpl never.

Lemma firstn_sum_split {A} (a b : nat) (l : list A) : firstn (a + b) l = firstn a l ++ firstn b (skipn a l).
Proof.
  revert l; induction a as [|a IH]; intros l; cbn [Nat.add firstn skipn app]; [reflexivity|].
  destruct l; [rewrite firstn_nil; reflexivity|]. cbn [app]. f_equal. apply IH.
Qed.

Lemma sl_sub (v : bytes) o k : sl v o k = sub v o (o + k).
Proof. unfold sl, sub. f_equal. lia. Qed.

Lemma be_lt v o k : bytes_ok v = true -> o + k <= blen v -> be v o k < 256 ^ k.
Proof.
  intros Hok H. unfold be. rewrite sl_sub.
  assert (L : N.of_nat (length (sub v o (o + k))) = k) by (unfold sub, blen in *; rewrite firstn_length, skipn_length; lia).
  rewrite <- L at 2. apply be_val_lt. unfold sub. apply bytes_ok_firstn, bytes_ok_skipn, Hok.
Qed.

Lemma be_split v o k1 k2 : bytes_ok v = true -> o + k1 + k2 <= blen v ->
  be v o (k1 + k2) = be v o k1 * 256 ^ k2 + be v (o + k1) k2.
Proof.
  intros Hok H. unfold be. rewrite !sl_sub.
  assert (E : sub v o (o + (k1 + k2)) = sub v o (o + k1) ++ sub v (o + k1) (o + k1 + k2)).
  { unfold sub, blen in *.
    replace (o + (k1 + k2) - o) with (k1 + k2) by lia. replace (o + k1 - o) with k1 by lia.
    replace (o + k1 + k2 - (o + k1)) with k2 by lia. rewrite N2Nat.inj_add.
    rewrite firstn_sum_split. f_equal. rewrite skipn_skipn'. f_equal. f_equal. lia. }
  rewrite E, be_val_app. f_equal. f_equal. f_equal.
  unfold sub, blen in *. rewrite firstn_length, skipn_length. lia.
Qed.

Lemma rd_window v r bits o k :
  bytes_ok v = true -> o + k <= blen v -> 8 * o <= r_start r -> r_end r <= 8 * (o + k) ->
  size_bytes r <= LANE_BYTES -> r_width r <= bits ->
  rd v r bits = Ok ((be v o k / 2 ^ (8 * (o + k) - r_end r)) mod 2 ^ r_width r).
Proof.
  intros Hok Hlen Hs He Hsz Hb.
  assert (Hhi : byte_hi r <= blen v) by (unfold byte_hi; lia).
  unfold rd. destruct (size_bytes r <=? LANE_BYTES) eqn:A; [|apply N.leb_gt in A; lia]. cbn [negb].
  destruct (byte_hi r <=? blen v) eqn:B; [|apply N.leb_gt in B; lia]. cbn [negb]. f_equal.
  rewrite (lane_read_is_bf_get v r Hok Hhi). unfold bf_get.
  unfold be. rewrite sl_sub. rewrite be_val_sub by (first [exact Hok|lia]).
  rewrite !pow256. replace (o + k - o) with k by lia.
  rewrite field_of_mod by (unfold r_end, r_width, r_start in *; lia).
  rewrite N.div_div by (apply N.pow_nonzero; discriminate). rewrite <- N.pow_add_r.
  replace (8 * (blen v - (o + k)) + (8 * (o + k) - r_end r)) with (8 * blen v - r_end r) by lia.
  unfold trunc. apply N.mod_small.
  eapply N.lt_le_trans; [apply N.mod_lt; apply N.pow_nonzero; discriminate|].
  apply N.pow_le_mono_r; [discriminate|exact Hb].
Qed.

(* byte-aligned special case *)
Lemma rd_bytes v o k bits : bytes_ok v = true -> o + k <= blen v -> 0 < k -> k <= 8 -> 8 * k <= bits ->
  rd v (8 * o, 8 * k) bits = Ok (be v o k).
Proof.
  intros Hok Hl Hk0 Hk Hb.
  rewrite (rd_window v (8 * o, 8 * k) bits o k Hok Hl);
    unfold size_bytes, byte_lo, byte_hi, r_end, r_start, r_width, LANE_BYTES; cbn [fst snd]; try lia.
  replace (8 * (o + k) - (8 * o + 8 * k)) with 0 by lia. rewrite N.pow_0_r, N.div_1_r.
  f_equal. apply N.mod_small. rewrite <- pow256. apply be_lt; assumption.
Qed.

(** * info field, hop field, UDP header: byte-aligned fields *)
Lemma spec_info_agrees v : bytes_ok v = true -> InfoField_SIZE_BYTES <= blen v ->
  if_flags v = Ok (be v 0 1) /\ if_segment_id v = Ok (be v 2 2) /\ if_timestamp v = Ok (be v 4 4)
  /\ rd v InfoField_RSV_RNG 8 = Ok (be v 1 1).
Proof.
  intros Hok Hl. unfold InfoField_SIZE_BYTES in Hl. unfold if_flags, if_segment_id, if_timestamp.
  change InfoField_FLAGS_RNG with (8 * 0, 8 * 1). change InfoField_SEGMENT_ID_RNG with (8 * 2, 8 * 2).
  change InfoField_TIMESTAMP_RNG with (8 * 4, 8 * 4). change InfoField_RSV_RNG with (8 * 1, 8 * 1).
  repeat split; apply rd_bytes; try assumption; lia.
Qed.

Lemma spec_hop_agrees v : bytes_ok v = true -> HopField_SIZE_BYTES <= blen v ->
  hf_flags v = Ok (be v 0 1) /\ hf_exp_time v = Ok (be v 1 1) /\ hf_cons_ingress v = Ok (be v 2 2)
  /\ hf_cons_egress v = Ok (be v 4 2) /\ hf_mac v = Ok (sl v 6 6).
Proof.
  intros Hok Hl. unfold HopField_SIZE_BYTES in Hl. unfold hf_flags, hf_exp_time, hf_cons_ingress, hf_cons_egress, hf_mac.
  change HopField_FLAGS_RNG with (8 * 0, 8 * 1). change HopField_EXP_TIME_RNG with (8 * 1, 8 * 1).
  change HopField_CONS_INGRESS_RNG with (8 * 2, 8 * 2). change HopField_CONS_EGRESS_RNG with (8 * 4, 8 * 2).
  repeat split; try (apply rd_bytes; try assumption; lia).
  change (byte_lo HopField_MAC_RNG) with 6. change (byte_hi HopField_MAC_RNG) with 12.
  unfold get_unchecked. destruct ((6 <=? 12) && (12 <=? blen v)) eqn:C.
  - rewrite sl_sub. reflexivity.
  - apply Bool.andb_false_iff in C. destruct C as [C|C]; [discriminate|apply N.leb_gt in C; lia].
Qed.

Lemma spec_udp_agrees v : bytes_ok v = true -> UdpDatagram_HEADER_SIZE_BYTES <= blen v ->
  udp_src_port v = Ok (be v 0 2) /\ udp_dst_port v = Ok (be v 2 2) /\ udp_length v = Ok (be v 4 2) /\ udp_checksum v = Ok (be v 6 2).
Proof.
  intros Hok Hl. unfold UdpDatagram_HEADER_SIZE_BYTES in Hl. unfold udp_src_port, udp_dst_port, udp_length, udp_checksum.
  change UdpDatagram_SRC_PORT_RNG with (8 * 0, 8 * 2). change UdpDatagram_DST_PORT_RNG with (8 * 2, 8 * 2).
  change UdpDatagram_LENGTH_RNG with (8 * 4, 8 * 2). change UdpDatagram_CHECKSUM_RNG with (8 * 6, 8 * 2).
  repeat split; apply rd_bytes; try assumption; lia.
Qed.

(** * common header: bit fields *)
Lemma spec_common_agrees b : bytes_ok b = true -> CommonHeader_SIZE_BYTES <= blen b ->
  let b0 := be b 0 1 in let b1 := be b 1 1 in
  hv_version b = Ok (b0 / 16)
  /\ hv_traffic_class b = Ok ((b0 mod 16) * 16 + b1 / 16)
  /\ hv_flow_id b = Ok ((b1 mod 16) * 65536 + be b 2 2)
  /\ hv_next_header b = Ok (be b 4 1)
  /\ hv_header_len b = Ok (be b 5 1 * 4)
  /\ hv_payload_len b = Ok (be b 6 2)
  /\ hv_path_type b = Ok (be b 8 1)
  /\ hv_dst_addr_type b = Ok (be b 9 1 / 16)
  /\ hv_src_addr_type b = Ok (be b 9 1 mod 16)
  /\ rd b CommonHeader_RSV_RNG 16 = Ok (be b 10 2).
Proof.
  intros Hok Hl b0 b1. unfold CommonHeader_SIZE_BYTES in Hl.
  assert (L0 : b0 < 256) by (apply (be_lt b 0 1 Hok); lia).
  assert (L1 : b1 < 256) by (apply (be_lt b 1 1 Hok); lia).
  assert (L9 : be b 9 1 < 256) by (apply (be_lt b 9 1 Hok); lia).
  assert (L22 : be b 2 2 < 65536) by (apply (be_lt b 2 2 Hok); lia).
  unfold hv_version, hv_traffic_class, hv_flow_id, hv_next_header, hv_header_len, hv_payload_len, hv_path_type,
    hv_dst_addr_type, hv_src_addr_type.
  refine (conj _ (conj _ (conj _ (conj _ (conj _ (conj _ (conj _ (conj _ (conj _ _))))))))).
  - rewrite (rd_window b CommonHeader_VERSION_RNG 8 0 1 Hok) by (first [lia|closed_le|(vm_compute; discriminate)]).
    change (2 ^ (8 * (0 + 1) - r_end CommonHeader_VERSION_RNG)) with 16. change (2 ^ r_width CommonHeader_VERSION_RNG) with 16.
    fold b0. f_equal. lia.
  - rewrite (rd_window b CommonHeader_TRAFFIC_CLASS_RNG 8 0 2 Hok) by (first [lia|closed_le|(vm_compute; discriminate)]).
    change (2 ^ (8 * (0 + 2) - r_end CommonHeader_TRAFFIC_CLASS_RNG)) with 16. change (2 ^ r_width CommonHeader_TRAFFIC_CLASS_RNG) with 256.
    change (be b 0 2) with (be b 0 (1 + 1)). rewrite (be_split b 0 1 1 Hok) by lia. change (256 ^ 1) with 256. change (0 + 1) with 1. fold b0 b1. f_equal. lia.
  - rewrite (rd_window b CommonHeader_FLOW_ID_RNG 32 1 3 Hok) by (first [lia|closed_le|(vm_compute; discriminate)]).
    change (2 ^ (8 * (1 + 3) - r_end CommonHeader_FLOW_ID_RNG)) with 1. change (2 ^ r_width CommonHeader_FLOW_ID_RNG) with 1048576.
    change (be b 1 3) with (be b 1 (1 + 2)). rewrite (be_split b 1 1 2 Hok) by lia. change (256 ^ 2) with 65536. change (1 + 1) with 2. fold b1. f_equal. lia.
  - change CommonHeader_NEXT_HEADER_RNG with (8 * 4, 8 * 1). apply rd_bytes; try assumption; lia.
  - change CommonHeader_HEADER_LEN_RNG with (8 * 5, 8 * 1). rewrite rd_bytes by (try assumption; lia). reflexivity.
  - change CommonHeader_PAYLOAD_LEN_RNG with (8 * 6, 8 * 2). apply rd_bytes; try assumption; lia.
  - change CommonHeader_PATH_TYPE_RNG with (8 * 8, 8 * 1). apply rd_bytes; try assumption; lia.
  - rewrite (rd_window b CommonHeader_DST_ADDR_INFO_RNG 8 9 1 Hok) by (first [lia|closed_le|(vm_compute; discriminate)]).
    change (2 ^ (8 * (9 + 1) - r_end CommonHeader_DST_ADDR_INFO_RNG)) with 16. change (2 ^ r_width CommonHeader_DST_ADDR_INFO_RNG) with 16.
    f_equal. lia.
  - rewrite (rd_window b CommonHeader_SRC_ADDR_INFO_RNG 8 9 1 Hok) by (first [lia|closed_le|(vm_compute; discriminate)]).
    change (2 ^ (8 * (9 + 1) - r_end CommonHeader_SRC_ADDR_INFO_RNG)) with 1. change (2 ^ r_width CommonHeader_SRC_ADDR_INFO_RNG) with 16.
    f_equal. lia.
  - change CommonHeader_RSV_RNG with (8 * 10, 8 * 2). apply rd_bytes; try assumption; lia.
Qed.

(** * standard path meta header *)
Lemma spec_meta_agrees p : bytes_ok p = true -> StdPathMeta_SIZE_BYTES <= blen p ->
  let m := be p 0 4 in
  sp_curr_info p = Ok (m / 2 ^ 30) /\ sp_curr_hop p = Ok ((m / 2 ^ 24) mod 64)
  /\ rd p StdPathMeta_RSV_RNG 8 = Ok ((m / 2 ^ 18) mod 64)
  /\ sp_seg0 p = Ok ((m / 2 ^ 12) mod 64) /\ sp_seg1 p = Ok ((m / 2 ^ 6) mod 64) /\ sp_seg2 p = Ok (m mod 64).
Proof.
  intros Hok Hl m. unfold StdPathMeta_SIZE_BYTES in Hl.
  assert (Lm : m < 4294967296) by (apply (be_lt p 0 4 Hok); lia).
  unfold sp_curr_info, sp_curr_hop, sp_seg0, sp_seg1, sp_seg2.
  refine (conj _ (conj _ (conj _ (conj _ (conj _ _))))).
  - rewrite (rd_window p StdPathMeta_CURR_INFO_FIELD_RNG 8 0 4 Hok) by (first [lia|closed_le|(vm_compute; discriminate)]).
    change (8 * (0 + 4) - r_end StdPathMeta_CURR_INFO_FIELD_RNG) with 30. change (2 ^ r_width StdPathMeta_CURR_INFO_FIELD_RNG) with 4.
    fold m. f_equal. change (2 ^ 30) with 1073741824 in *. lia.
  - rewrite (rd_window p StdPathMeta_CURR_HOP_FIELD_RNG 8 0 4 Hok) by (first [lia|closed_le|(vm_compute; discriminate)]). reflexivity.
  - rewrite (rd_window p StdPathMeta_RSV_RNG 8 0 4 Hok) by (first [lia|closed_le|(vm_compute; discriminate)]). reflexivity.
  - rewrite (rd_window p StdPathMeta_SEG0_LEN_RNG 8 0 4 Hok) by (first [lia|closed_le|(vm_compute; discriminate)]). reflexivity.
  - rewrite (rd_window p StdPathMeta_SEG1_LEN_RNG 8 0 4 Hok) by (first [lia|closed_le|(vm_compute; discriminate)]). reflexivity.
  - rewrite (rd_window p StdPathMeta_SEG2_LEN_RNG 8 0 4 Hok) by (first [lia|closed_le|(vm_compute; discriminate)]).
    change (2 ^ (8 * (0 + 4) - r_end StdPathMeta_SEG2_LEN_RNG)) with 1. rewrite N.div_1_r. reflexivity.
Qed.
