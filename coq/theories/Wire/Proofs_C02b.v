(** C02, second part: safe mutators do not change what the constructor computes
    (re-validation gives the same size), and variable-offset accessors stay inside the view. *)
From Coq Require Import Lia ZifyBool ZifyNat ZifyN.
From Sci Require Import Wire.Views Wire.Spec_C02 Wire.Proofs_C02 Wire.BitFieldProofs.
Local Open Scope N_scope.
Ltac Zify.zify_post_hook ::= Z.div_mod_to_equations.
Arguments N.add : simpl never. Arguments N.sub : simpl never. Arguments N.mul : simpl never.
Arguments N.div : simpl never. Arguments N.modulo : simpl never. Arguments N.eqb : simpl never.
Arguments N.ltb : simpl never. Arguments N.leb : simpl never. Arguments N.min : simpl never.
Arguments N.pow : simpl never.

Lemma blen_length (a b : bytes) : length a = length b -> blen a = blen b.
Proof. unfold blen. intros ->. reflexivity. Qed.

(** * kinds whose constructor only looks at the length *)
Definition length_only (k : vkind) : bool :=
  match k with KInfo | KHop | KOneHop | KScmpMsg _ => true | _ => false end.

Lemma required_size_length_only k v v' : length_only k = true -> length v' = length v -> required_size k v' = required_size k v.
Proof.
  intros Hk Hl. apply blen_length in Hl.
  destruct k; try discriminate Hk; cbn [required_size];
    unfold required_size_onehop, required_size_info, required_size_hop, fixed_size, required_size_scmp_msg; rewrite Hl; reflexivity.
Qed.

(** * a write that does not touch the bits a reader looks at *)
Lemma rd_after_wr v r val v' r2 bits : bytes_ok v = true ->
  wr v r val = Ok v' -> rng_disjoint r r2 = true -> rd v' r2 bits = rd v r2 bits.
Proof.
  intros Hok Hw Hd. unfold wr in Hw.
  destruct (negb (size_bytes r <=? LANE_BYTES)); [discriminate|].
  destruct (byte_hi r <=? blen v) eqn:B; cbn [negb] in Hw; [|discriminate]. inversion Hw; subst v'; clear Hw.
  apply N.leb_le in B. unfold rd. rewrite (lane_write_blen v r val B).
  destruct (negb (size_bytes r2 <=? LANE_BYTES)); [reflexivity|].
  destruct (byte_hi r2 <=? blen v) eqn:B2; cbn [negb]; [|reflexivity].
  apply N.leb_le in B2. rewrite read_write_disjoint_lemma by assumption. reflexivity.
Qed.

Lemma wr_bytes_ok v r val v' : bytes_ok v = true -> wr v r val = Ok v' -> bytes_ok v' = true /\ blen v' = blen v.
Proof.
  intros Hok Hw. unfold wr in Hw.
  destruct (negb (size_bytes r <=? LANE_BYTES)); [discriminate|].
  destruct (byte_hi r <=? blen v) eqn:B; cbn [negb] in Hw; [|discriminate]. inversion Hw; subst v'; clear Hw.
  apply N.leb_le in B. destruct (lane_write_value v r val Hok B) as (_ & _ & _ & _ & _ & O & L). split; assumption.
Qed.

(** reads of the standard path meta header through the 4-byte prefix *)
Lemma rd_prefix4 v r bits : byte_hi r <= 4 -> 4 <= blen v -> rd (sub v 0 4) r bits = rd v r bits.
Proof. intros. apply rd_prefix; assumption. Qed.

Lemma required_size_stdpath_reads v :
  required_size_stdpath v =
  if blen v <? StdPathMeta_SIZE_BYTES then Err (BufTooSmall AT_STDMETA StdPathMeta_SIZE_BYTES (blen v)) else
  s0 <- rd v StdPathMeta_SEG0_LEN_RNG 8 ;; s1 <- rd v StdPathMeta_SEG1_LEN_RNG 8 ;; s2 <- rd v StdPathMeta_SEG2_LEN_RNG 8 ;;
  let required := StdPathMeta_SIZE_BYTES + std_data_size s0 s1 s2 in
  if blen v <? required then Err (BufTooSmall AT_STDDATA required (blen v)) else Ok required.
Proof.
  unfold required_size_stdpath, split_off_checked.
  destruct (StdPathMeta_SIZE_BYTES <=? blen v) eqn:C.
  - apply N.leb_le in C. destruct (blen v <? StdPathMeta_SIZE_BYTES) eqn:C2; [apply N.ltb_lt in C2; lia|].
    unfold StdPathMeta_SIZE_BYTES in *. rewrite !rd_prefix4 by (first [closed_le|assumption]). reflexivity.
  - apply N.leb_gt in C. destruct (blen v <? StdPathMeta_SIZE_BYTES) eqn:C2; [reflexivity|apply N.ltb_ge in C2; lia].
Qed.

(** a mutation that keeps the length and the three segment-length reads keeps the size *)
Lemma required_size_stdpath_same v v' :
  blen v' = blen v ->
  rd v' StdPathMeta_SEG0_LEN_RNG 8 = rd v StdPathMeta_SEG0_LEN_RNG 8 ->
  rd v' StdPathMeta_SEG1_LEN_RNG 8 = rd v StdPathMeta_SEG1_LEN_RNG 8 ->
  rd v' StdPathMeta_SEG2_LEN_RNG 8 = rd v StdPathMeta_SEG2_LEN_RNG 8 ->
  required_size_stdpath v' = required_size_stdpath v.
Proof. intros L E0 E1 E2. rewrite !required_size_stdpath_reads, L, E0, E1, E2. reflexivity. Qed.

(** writing into a sub-slice that starts at or after byte [lo] leaves reads below [lo] alone *)
Lemma splice_read_below (v : bytes) lo (x : bytes) r bits : byte_hi r <= lo -> (N.to_nat lo + length x <= length v)%nat ->
  rd (splice v lo x) r bits = rd v r bits.
Proof.
  intros H1 H2. unfold rd.
  assert (L : blen (splice v lo x) = blen v) by (apply blen_length, splice_length; exact H2).
  rewrite L. destruct (negb (size_bytes r <=? LANE_BYTES)); [reflexivity|].
  destruct (negb (byte_hi r <=? blen v)); [reflexivity|].
  f_equal. f_equal. apply lane_read_local_eq. unfold splice.
  rewrite sub_below by (unfold blen; rewrite firstn_length; lia).
  unfold sub. rewrite skipn_firstn_comm, firstn_firstn. f_equal.
  assert (byte_lo r <= byte_hi r) by (unfold byte_lo, byte_hi, r_end, r_start; lia). lia.
Qed.

Lemma in_sub_read_below v p f v' r bits :
  (forall x y, f x = Ok y -> length y = length x) ->
  in_sub v p f = Ok v' -> byte_hi r <= fst p -> rd v' r bits = rd v r bits.
Proof.
  intros Hf H Hr. unfold in_sub in H. inv_bind H. inversion H; subst; clear H.
  apply get_unchecked_some in E. destruct E as (-> & H1 & H2).
  apply Hf in E0. rewrite sub_length in E0 by assumption.
  apply splice_read_below; [exact Hr|]. unfold blen in *. lia.
Qed.

(** StandardPathView: every safe mutator keeps the size the constructor computes *)
Lemma mut_stdpath_preserves id arg val v v' : bytes_ok v = true ->
  mut_stdpath id arg val v = Ok v' -> required_size_stdpath v' = required_size_stdpath v.
Proof.
  intros Hok H. pose proof (mut_stdpath_length _ _ _ _ _ H) as L. apply blen_length in L.
  unfold mut_stdpath in H.
  assert (Disj : forall r, (r = StdPathMeta_CURR_INFO_FIELD_RNG \/ r = StdPathMeta_CURR_HOP_FIELD_RNG) -> wr v r val = Ok v' ->
                 required_size_stdpath v' = required_size_stdpath v).
  { intros r Hr Hw. apply required_size_stdpath_same; [exact L| | |];
      (eapply rd_after_wr; [exact Hok|exact Hw|]); destruct Hr as [-> | ->]; vm_compute; reflexivity. }
  split_id H; try solve [eapply Disj; [|exact H]; tauto].
  all: repeat match type of H with (if ?c then _ else _) = _ => destruct c end; try solve [inversion H; reflexivity].
  all: inv_bind H; try solve [inversion H; reflexivity].
  all: match goal with
       | E : sp_info_field_range _ _ = Ok (Some ?p) |- _ =>
         assert (4 <= fst p) by (unfold sp_info_field_range in E; inv_bind E; inversion E; subst; cbn [fst];
                                 unfold info_field_byte_range, rshift, byte_lo, r_start, InfoField_TOTAL_RNG, InfoField_SIZE_BYTES, StdPathMeta_SIZE_BYTES; cbn [fst snd]; lia)
       | E : sp_hop_field_range _ _ = Ok (Some ?p) |- _ =>
         assert (4 <= fst p) by (unfold sp_hop_field_range in E; inv_bind E; inversion E; subst; cbn [fst];
                                 unfold hop_field_byte_range, rshift, byte_lo, r_start, HopField_TOTAL_RNG, HopField_SIZE_BYTES, StdPathMeta_SIZE_BYTES; cbn [fst snd]; lia)
       end.
  all: apply required_size_stdpath_same; [exact L| | |];
       (eapply in_sub_read_below; [|exact H|]; [intros x y Hxy; first [eapply mut_info_length; eassumption|eapply mut_hop_length; eassumption]|]);
       match goal with |- byte_hi ?r <= _ => assert (byte_hi r <= 4) by closed_le; lia end.
Qed.

(** * the header layout in terms of reads on the whole buffer *)
Lemma rshift_bytes r a : byte_lo (rshift r a) = byte_lo r + a /\ byte_hi (rshift r a) = byte_hi r + a
  /\ r_end (rshift r a) = r_end r + 8 * a /\ r_width (rshift r a) = r_width r /\ size_bytes (rshift r a) = size_bytes r.
Proof. unfold size_bytes, rshift, byte_lo, byte_hi, r_end, r_start, r_width. cbn [fst snd]. repeat split; lia. Qed.

Lemma sub_sub_suffix (v : bytes) a lo hi : hi + a <= blen v -> sub (sub v a (blen v)) lo hi = sub v (lo + a) (hi + a).
Proof.
  intros H. unfold sub, blen in *. rewrite skipn_firstn_comm, firstn_firstn, skipn_skipn'.
  f_equal; [lia|]. f_equal. lia.
Qed.

Lemma rd_suffix v a r bits : byte_hi r + a <= blen v -> rd (sub v a (blen v)) r bits = rd v (rshift r a) bits.
Proof.
  intros H. destruct (rshift_bytes r a) as (E1 & E2 & E3 & E4 & E5).
  unfold rd. rewrite E5, E2. rewrite blen_sub by lia.
  destruct (negb (size_bytes r <=? LANE_BYTES)); [reflexivity|].
  destruct (byte_hi r <=? blen v - a) eqn:C1; destruct (byte_hi r + a <=? blen v) eqn:C2; cbn [negb];
    try reflexivity; try (apply N.leb_le in C1; apply N.leb_gt in C2; lia); try (apply N.leb_gt in C1; apply N.leb_le in C2; lia).
  f_equal. f_equal. unfold lane_read. rewrite E1, E2, E3, E4.
  rewrite sub_sub_suffix by exact H.
  replace ((byte_hi r + a) * 8 - (r_end r + 8 * a)) with (byte_hi r * 8 - r_end r) by lia. reflexivity.
Qed.

Definition HL (v : bytes) : res hdr_layout :=
  let len := blen v in
  if len <? CommonHeader_SIZE_BYTES then Err (BufTooSmall AT_COMMON CommonHeader_SIZE_BYTES len) else
  ver <- rd v CommonHeader_VERSION_RNG 8 ;;
  if negb (ver =? 0) then Err (VOther E_VERSION) else
  pt <- rd v CommonHeader_PATH_TYPE_RNG 8 ;;
  src_nib <- rd v CommonHeader_SRC_ADDR_INFO_RNG 8 ;;
  dst_nib <- rd v CommonHeader_DST_ADDR_INFO_RNG 8 ;;
  let src_len := hat_size src_nib in
  let dst_len := hat_size dst_nib in
  hl_units <- rd v CommonHeader_HEADER_LEN_RNG 8 ;;
  let total := hl_units * 4 in
  payload <- rd v CommonHeader_PAYLOAD_LEN_RNG 16 ;;
  let addr_end := CommonHeader_SIZE_BYTES + addr_hdr_size src_len dst_len in
  if len <? addr_end then Err (BufTooSmall AT_ADDR addr_end len) else
  path <-
    (if pt =? PT_SCION then
       if len - addr_end <? StdPathMeta_SIZE_BYTES then Err (BufTooSmall AT_PATHMETA StdPathMeta_SIZE_BYTES (len - addr_end)) else
       s0 <- rd v (rshift StdPathMeta_SEG0_LEN_RNG addr_end) 8 ;;
       s1 <- rd v (rshift StdPathMeta_SEG1_LEN_RNG addr_end) 8 ;;
       s2 <- rd v (rshift StdPathMeta_SEG2_LEN_RNG addr_end) 8 ;;
       Ok (PL_Std s0 s1 s2)
     else if pt =? PT_ONEHOP then Ok PL_OneHop
     else if pt =? PT_EMPTY then Ok PL_Empty
     else if total <? addr_end then Err (BufTooSmall AT_PATH (addr_end * 8) (total * 8))
     else Ok (PL_Unknown pt (addr_end * 8) (total * 8))) ;;
  let calc := CommonHeader_SIZE_BYTES + addr_hdr_size src_len dst_len + path_layout_size path in
  if len <? calc then Err (BufTooSmall AT_TOTAL calc len) else
  if negb (calc =? total) then Err (VOther E_HDRLEN) else
  Ok (mkHL src_len dst_len path total payload).

Lemma header_layout_HL v : header_layout v = HL v.
Proof.
  unfold header_layout, HL, split_off_checked.
  destruct (CommonHeader_SIZE_BYTES <=? blen v) eqn:C;
    destruct (blen v <? CommonHeader_SIZE_BYTES) eqn:C2; try reflexivity;
    try (apply N.leb_le in C; apply N.ltb_lt in C2; lia); try (apply N.leb_gt in C; apply N.ltb_ge in C2; lia).
  apply N.leb_le in C.
  rewrite !(rd_prefix v CommonHeader_SIZE_BYTES) by (first [closed_le|exact C]).
  repeat match goal with
  | |- obind ?x _ = obind ?x _ => destruct x; cbn [obind]; try reflexivity
  | |- (if ?c then _ else _) = (if ?c then _ else _) => destruct c eqn:?; try reflexivity
  end.
  (* standard path: the meta header is read from the suffix *)
  match goal with H : (blen v <? ?a) = false |- _ => apply N.ltb_ge in H; rename H into Ha end.
  rewrite index_range_ok by lia. cbn [obind].
  unfold split_off_checked. rewrite blen_sub by lia.
  match goal with |- context [StdPathMeta_SIZE_BYTES <=? blen v - ?a] =>
    destruct (StdPathMeta_SIZE_BYTES <=? blen v - a) eqn:D; destruct (blen v - a <? StdPathMeta_SIZE_BYTES) eqn:D2;
      try reflexivity; try (apply N.leb_le in D; apply N.ltb_lt in D2; lia); try (apply N.leb_gt in D; apply N.ltb_ge in D2; lia)
  end.
  apply N.leb_le in D. unfold StdPathMeta_SIZE_BYTES in D.
  rewrite !rd_prefix by (first [closed_le|(rewrite blen_sub by lia; exact D)]).
  rewrite !rd_suffix by (first [(change (byte_hi StdPathMeta_SEG0_LEN_RNG) with 3; lia)|(change (byte_hi StdPathMeta_SEG1_LEN_RNG) with 4; lia)|(change (byte_hi StdPathMeta_SEG2_LEN_RNG) with 4; lia)]).
  reflexivity.
Qed.

Lemma HL_same v v' :
  blen v' = blen v ->
  (forall r, In r [CommonHeader_VERSION_RNG; CommonHeader_PATH_TYPE_RNG; CommonHeader_SRC_ADDR_INFO_RNG;
                   CommonHeader_DST_ADDR_INFO_RNG; CommonHeader_HEADER_LEN_RNG; CommonHeader_PAYLOAD_LEN_RNG] ->
             forall bits, rd v' r bits = rd v r bits) ->
  (forall a r, 28 <= a -> In r [StdPathMeta_SEG0_LEN_RNG; StdPathMeta_SEG1_LEN_RNG; StdPathMeta_SEG2_LEN_RNG] ->
               rd v' (rshift r a) 8 = rd v (rshift r a) 8) ->
  HL v' = HL v.
Proof.
  intros L Hc Hs. unfold HL. rewrite L.
  rewrite !Hc by (cbn [In]; tauto).
  repeat match goal with
  | |- obind ?x _ = obind ?x _ => destruct x; cbn [obind]; try reflexivity
  | |- (if ?c then _ else _) = (if ?c then _ else _) => destruct c eqn:?; try reflexivity
  end.
  match goal with |- context [addr_hdr_size ?s ?d] => pose proof (addr_hdr_size_ge s d) as G end.
  rewrite !Hs by (first [unfold CommonHeader_SIZE_BYTES; lia|cbn [In]; tauto]). reflexivity.
Qed.

(* a write entirely inside the first 28 bytes, away from the size fields *)
Definition header_scalar_ok (r : rng) : bool :=
  (r_end r <=? 224) &&
  forallb (rng_disjoint r) [CommonHeader_VERSION_RNG; CommonHeader_PATH_TYPE_RNG; CommonHeader_SRC_ADDR_INFO_RNG;
                            CommonHeader_DST_ADDR_INFO_RNG; CommonHeader_HEADER_LEN_RNG; CommonHeader_PAYLOAD_LEN_RNG].

Lemma wr_header_scalar_preserves v r val v' : bytes_ok v = true -> header_scalar_ok r = true ->
  wr v r val = Ok v' -> header_layout v' = header_layout v.
Proof.
  intros Hok Hr Hw. rewrite !header_layout_HL.
  destruct (wr_bytes_ok v r val v' Hok Hw) as [_ L].
  unfold header_scalar_ok in Hr. apply Bool.andb_true_iff in Hr. destruct Hr as [He Hd]. apply N.leb_le in He.
  rewrite forallb_forall in Hd.
  apply HL_same; [exact L| |].
  - intros r2 Hin bits. eapply rd_after_wr; [exact Hok|exact Hw|]. apply Hd. exact Hin.
  - intros a r2 Ha Hin. eapply rd_after_wr; [exact Hok|exact Hw|].
    unfold rng_disjoint. apply Bool.orb_true_iff. left. apply N.leb_le.
    unfold rshift, r_start. cbn [fst].
    cbn [In] in Hin. destruct Hin as [<-|[<-|[<-|[]]]]; cbn [fst]; lia.
Qed.

Lemma header_safe_scalar_ranges :
  forallb header_scalar_ok
    [CommonHeader_TRAFFIC_CLASS_RNG; CommonHeader_FLOW_ID_RNG; CommonHeader_NEXT_HEADER_RNG;
     rshift AddressHeader_SRC_ISD_RNG CommonHeader_SIZE_BYTES; rshift AddressHeader_SRC_AS_RNG CommonHeader_SIZE_BYTES;
     rshift AddressHeader_DST_ISD_RNG CommonHeader_SIZE_BYTES; rshift AddressHeader_DST_AS_RNG CommonHeader_SIZE_BYTES] = true.
Proof. vm_compute. reflexivity. Qed.

(** ScionHeaderView: the seven scalar setters other than set_version keep the whole layout *)
Lemma mut_header_scalar_preserves id arg val v v' : bytes_ok v = true -> 1 <= id <= 7 ->
  mut_header id arg val v = Ok v' -> header_layout v' = header_layout v.
Proof.
  intros Hok Hid H. pose proof header_safe_scalar_ranges as T. cbn [forallb] in T.
  repeat (apply Bool.andb_true_iff in T; let X := fresh "T" in destruct T as [X T]).
  unfold mut_header in H.
  assert (C : id = 1 \/ id = 2 \/ id = 3 \/ id = 4 \/ id = 5 \/ id = 6 \/ id = 7) by lia.
  destruct C as [->|[->|[->|[->|[->|[->| ->]]]]]]; cbn iota in H;
    (eapply wr_header_scalar_preserves; [exact Hok| |exact H]); assumption.
Qed.

(** * UDP datagram view *)
Lemma required_size_udp_same v v' : blen v' = blen v -> rd v' UdpDatagram_LENGTH_RNG 16 = rd v UdpDatagram_LENGTH_RNG 16 ->
  required_size_udp v' = required_size_udp v.
Proof. intros L E. unfold required_size_udp. rewrite L, E. reflexivity. Qed.

Lemma poke_read_below v p arg val v' r bits : snd p <= blen v -> byte_hi r <= fst p ->
  poke v p arg val = Ok v' -> rd v' r bits = rd v r bits.
Proof.
  intros Hp Hr H. unfold poke in H. destruct (fst p + arg <? snd p) eqn:C; inversion H; subst; [|reflexivity].
  apply N.ltb_lt in C. apply splice_read_below; [lia|]. cbn [length]. unfold blen in *. lia.
Qed.

(** every safe setter of the datagram view except set_length (id 2), which rewrites the one
    field the constructor reads -- by design: the view's extent is the slice it was given *)
Lemma mut_udp_preserves id arg val v v' : bytes_ok v = true -> id <> 2 ->
  mut_udp id arg val v = Ok v' -> required_size_udp v' = required_size_udp v.
Proof.
  intros Hok Hid H. pose proof (mut_udp_length _ _ _ _ _ H) as L. apply blen_length in L.
  apply required_size_udp_same; [exact L|].
  unfold mut_udp in H. split_id H; try (exfalso; apply Hid; reflexivity);
    try solve [eapply rd_after_wr; [exact Hok|exact H|vm_compute; reflexivity]];
    try solve [inversion H; reflexivity].
  inv_bind H. pose proof (udp_payload_range_bound _ _ E) as B.
  unfold udp_payload_range in E. inv_bind E. inversion E; subst.
  eapply poke_read_below; [exact B| |exact H]. cbn [fst]. closed_le.
Qed.

Lemma sub_full' (b : bytes) : sub b 0 (blen b) = b.
Proof. unfold sub, blen. rewrite N.sub_0_r, Nat2N.id. cbn [N.to_nat skipn]. apply firstn_all. Qed.

(** * SCMP payload view *)
Lemma required_size_scmp_same v v' : blen v' = blen v -> rd v' ScmpUnknownMessage_TYPE_RNG 8 = rd v ScmpUnknownMessage_TYPE_RNG 8 ->
  required_size_scmp v' = required_size_scmp v.
Proof.
  intros L E. unfold required_size_scmp, required_size_scmp_msg. rewrite L.
  assert (F : scmp_fixed_size 256 = false) by (vm_compute; reflexivity). rewrite F.
  destruct (blen v <? scmp_header_size 256); [reflexivity|]. cbn iota.
  unfold get_unchecked. rewrite L. rewrite N.leb_refl.
  assert (Z : (0 <=? blen v) = true) by (apply N.leb_le; lia). rewrite Z. cbn [andb obind].
  rewrite <- L at 1. rewrite (sub_full' v'). rewrite (sub_full' v). rewrite E.
  destruct (rd v ScmpUnknownMessage_TYPE_RNG 8); cbn [obind]; try reflexivity; try (rewrite L; reflexivity).
Qed.

Lemma scmp_fields_disjoint_type ty r bits : In (r, bits) (scmp_fields ty) -> rng_disjoint r ScmpUnknownMessage_TYPE_RNG = true.
Proof.
  unfold scmp_fields.
  repeat match goal with |- In _ (if ?c then _ else _) -> _ => destruct c end;
    cbn [In]; intros H; repeat (destruct H as [H|H]; [inversion H; subst; vm_compute; reflexivity|]); destruct H.
Qed.

Lemma mut_scmp_msg_type_read ty id arg val v v' : bytes_ok v = true -> ScmpUnknownMessage_HEADER_SIZE_BYTES <= blen v ->
  mut_scmp_msg ty id arg val v = Ok v' -> rd v' ScmpUnknownMessage_TYPE_RNG 8 = rd v ScmpUnknownMessage_TYPE_RNG 8.
Proof.
  intros Hok H8 H. unfold mut_scmp_msg in H. split_id H;
    try solve [eapply rd_after_wr; [exact Hok|exact H|vm_compute; reflexivity]];
    try solve [inversion H; reflexivity].
  all: try solve [destruct (scmp_fixed_size ty); [inversion H; reflexivity|];
                  inv_bind H; pose proof (scmp_tail_range_bound _ _ _ E) as B;
                  unfold scmp_tail_range in E; inv_bind E; inversion E; subst;
                  eapply poke_read_below; [exact B| |exact H]; cbn [fst];
                  unfold byte_lo, r_start; cbn [fst];
                  assert (8 <= scmp_header_size ty) by (unfold scmp_header_size; repeat match goal with |- context [if ?c then _ else _] => destruct c end; vm_compute; discriminate);
                  change (byte_hi ScmpUnknownMessage_TYPE_RNG) with 1; lia].
  all: match type of H with match ?o with _ => _ end = _ => destruct o as [[r bits]|] eqn:En end;
       [|inversion H; reflexivity].
  all: apply nth_error_In in En; eapply rd_after_wr; [exact Hok|exact H|eapply scmp_fields_disjoint_type; exact En].
Qed.

Lemma mut_scmp_preserves id arg val v v' : bytes_ok v = true -> ScmpUnknownMessage_HEADER_SIZE_BYTES <= blen v ->
  mut_scmp id arg val v = Ok v' -> required_size_scmp v' = required_size_scmp v.
Proof.
  intros Hok H8 H. pose proof (mut_scmp_length _ _ _ _ _ H) as L. apply blen_length in L.
  apply required_size_scmp_same; [exact L|].
  unfold mut_scmp in H. split_id H;
    try solve [eapply rd_after_wr; [exact Hok|exact H|vm_compute; reflexivity]];
    try solve [inversion H; reflexivity].
  all: repeat match type of H with (if ?c then _ else _) = _ => destruct c end; try solve [inversion H; reflexivity].
  all: inv_bind H; eapply mut_scmp_msg_type_read; eassumption.
Qed.

(** * summary: operations covered by the layout-preservation theorem *)
Definition layout_preserving_op (k : vkind) (id : N) : bool :=
  match k with
  | KInfo | KHop | KOneHop | KScmpMsg _ | KStdPath | KScmp => true
  | KUdp => negb (id =? 2)                         (* all but UdpDatagramView::set_length *)
  | KHeader => (1 <=? id) && (id <=? 7)            (* the scalar setters but set_version *)
  | _ => false
  end.

Lemma run_mut_preserves_required_size k id arg val v v' :
  layout_preserving_op k id = true -> bytes_ok v = true -> required_size k v = Ok (blen v) ->
  run_mut k id arg val v = Ok v' -> required_size k v' = required_size k v.
Proof.
  intros Hop Hok Hv H.
  destruct k; cbn [layout_preserving_op] in Hop; try discriminate Hop; cbn [run_mut required_size] in *.
  - apply Bool.andb_true_iff in Hop. destruct Hop as [H1 H7]. apply N.leb_le in H1. apply N.leb_le in H7.
    unfold required_size_header. rewrite (mut_header_scalar_preserves id arg val v v' Hok (conj H1 H7) H). reflexivity.
  - eapply mut_stdpath_preserves; eassumption.
  - apply (required_size_length_only KOneHop); [reflexivity|]. eapply mut_onehop_length; eassumption.
  - apply (required_size_length_only KInfo); [reflexivity|]. eapply mut_info_length; eassumption.
  - apply (required_size_length_only KHop); [reflexivity|]. eapply mut_hop_length; eassumption.
  - eapply mut_udp_preserves; [exact Hok| |exact H]. apply Bool.negb_true_iff in Hop. apply N.eqb_neq in Hop. exact Hop.
  - eapply mut_scmp_preserves; [exact Hok| |exact H].
    pose proof (required_size_min KScmp v _ Hv) as M. cbn [min_size] in M. unfold ScmpUnknownMessage_HEADER_SIZE_BYTES. exact M.
  - apply (required_size_length_only (KScmpMsg ty)); [reflexivity|]. eapply mut_scmp_msg_length; eassumption.
Qed.

(** * safe mutators keep byte strings byte strings *)
Lemma wr_ok v r val v' : bytes_ok v = true -> wr v r val = Ok v' -> bytes_ok v' = true.
Proof. intros Hok H. eapply wr_bytes_ok; eassumption. Qed.

Lemma splice_ok v lo x : bytes_ok v = true -> bytes_ok x = true -> bytes_ok (splice v lo x) = true.
Proof.
  intros Hv Hx. unfold splice. rewrite !bytes_ok_app, Hx, bytes_ok_firstn, bytes_ok_skipn by exact Hv. reflexivity.
Qed.

Lemma in_sub_ok v p f v' : bytes_ok v = true ->
  (forall x y, bytes_ok x = true -> f x = Ok y -> bytes_ok y = true) -> in_sub v p f = Ok v' -> bytes_ok v' = true.
Proof.
  intros Hok Hf H. unfold in_sub in H. inv_bind H. inversion H; subst; clear H.
  apply get_unchecked_some in E. destruct E as (-> & _ & _).
  apply splice_ok; [exact Hok|]. eapply Hf; [|exact E0]. unfold sub. apply bytes_ok_firstn, bytes_ok_skipn, Hok.
Qed.

Lemma poke_ok v p arg val v' : bytes_ok v = true -> poke v p arg val = Ok v' -> bytes_ok v' = true.
Proof.
  intros Hok H. unfold poke in H. destruct (fst p + arg <? snd p); inversion H; subst; [|exact Hok].
  apply splice_ok; [exact Hok|]. cbn [bytes_ok forallb]. unfold byte_ok, trunc. change (2 ^ 8) with 256.
  rewrite Bool.andb_true_r. apply N.ltb_lt. apply N.mod_lt. discriminate.
Qed.

Lemma mut_info_ok id val v v' : bytes_ok v = true -> mut_info id val v = Ok v' -> bytes_ok v' = true.
Proof.
  unfold mut_info. intros Hok H. split_id H; try solve [eapply wr_ok; eassumption]; inversion H; subst; exact Hok.
Qed.
Lemma mut_hop_ok id val v v' : bytes_ok v = true -> mut_hop id val v = Ok v' -> bytes_ok v' = true.
Proof.
  unfold mut_hop. intros Hok H. split_id H; try solve [eapply wr_ok; eassumption]; try solve [inversion H; subst; exact Hok].
  inv_bind H. inversion H; subst. apply splice_ok; [exact Hok|]. exact (bytes_ok_be_bytes 6 val).
Qed.
Lemma mut_stdpath_ok id arg val v v' : bytes_ok v = true -> mut_stdpath id arg val v = Ok v' -> bytes_ok v' = true.
Proof.
  unfold mut_stdpath. intros Hok H. split_id H; try solve [eapply wr_ok; eassumption].
  all: repeat match type of H with (if ?c then _ else _) = _ => destruct c end; try solve [inversion H; subst; exact Hok].
  all: inv_bind H; try solve [inversion H; subst; exact Hok].
  all: (eapply in_sub_ok; [exact Hok| |exact H]); intros x y Hx Hxy; first [eapply mut_info_ok; eassumption|eapply mut_hop_ok; eassumption].
Qed.
Lemma mut_onehop_ok id val v v' : bytes_ok v = true -> mut_onehop id val v = Ok v' -> bytes_ok v' = true.
Proof.
  unfold mut_onehop. intros Hok H.
  repeat match type of H with (if ?c then _ else _) = _ => destruct c end; try solve [inversion H; subst; exact Hok].
  all: inv_bind H; (eapply in_sub_ok; [exact Hok| |exact H]); intros x y Hx Hxy; first [eapply mut_info_ok; eassumption|eapply mut_hop_ok; eassumption].
Qed.
Lemma mut_udp_ok id arg val v v' : bytes_ok v = true -> mut_udp id arg val v = Ok v' -> bytes_ok v' = true.
Proof.
  unfold mut_udp. intros Hok H. split_id H; try solve [eapply wr_ok; eassumption]; try solve [inversion H; subst; exact Hok].
  inv_bind H. eapply poke_ok; eassumption.
Qed.
Lemma mut_scmp_msg_ok ty id arg val v v' : bytes_ok v = true -> mut_scmp_msg ty id arg val v = Ok v' -> bytes_ok v' = true.
Proof.
  unfold mut_scmp_msg. intros Hok H. split_id H; try solve [eapply wr_ok; eassumption]; try solve [inversion H; subst; exact Hok].
  all: try solve [destruct (scmp_fixed_size ty); [inversion H; subst; exact Hok|]; inv_bind H; eapply poke_ok; eassumption].
  all: match type of H with match ?o with _ => _ end = _ => destruct o as [[r bits]|] end;
       [eapply wr_ok; eassumption|inversion H; subst; exact Hok].
Qed.
Lemma mut_scmp_ok id arg val v v' : bytes_ok v = true -> mut_scmp id arg val v = Ok v' -> bytes_ok v' = true.
Proof.
  unfold mut_scmp. intros Hok H. split_id H; try solve [eapply wr_ok; eassumption]; try solve [inversion H; subst; exact Hok].
  all: repeat match type of H with (if ?c then _ else _) = _ => destruct c end; try solve [inversion H; subst; exact Hok].
  all: inv_bind H; eapply mut_scmp_msg_ok; eassumption.
Qed.
Lemma mut_header_scalar_ok id arg val v v' : bytes_ok v = true -> 1 <= id <= 7 -> mut_header id arg val v = Ok v' -> bytes_ok v' = true.
Proof.
  intros Hok Hid H. unfold mut_header in H.
  assert (C : id = 1 \/ id = 2 \/ id = 3 \/ id = 4 \/ id = 5 \/ id = 6 \/ id = 7) by lia.
  destruct C as [->|[->|[->|[->|[->|[->| ->]]]]]]; cbn iota in H; eapply wr_ok; eassumption.
Qed.

Lemma run_mut_ok k id arg val v v' :
  layout_preserving_op k id = true -> bytes_ok v = true -> run_mut k id arg val v = Ok v' -> bytes_ok v' = true.
Proof.
  intros Hop Hok H.
  destruct k; cbn [layout_preserving_op] in Hop; try discriminate Hop; cbn [run_mut] in H.
  - apply Bool.andb_true_iff in Hop. destruct Hop as [H1 H7]. apply N.leb_le in H1. apply N.leb_le in H7.
    eapply mut_header_scalar_ok; [exact Hok|split; eassumption|exact H].
  - eapply mut_stdpath_ok; eassumption.
  - eapply mut_onehop_ok; eassumption.
  - eapply mut_info_ok; eassumption.
  - eapply mut_hop_ok; eassumption.
  - eapply mut_udp_ok; eassumption.
  - eapply mut_scmp_ok; eassumption.
  - eapply mut_scmp_msg_ok; eassumption.
Qed.

(** sequences: after ANY sequence of covered safe mutators the view re-validates with the same size *)
Lemma run_muts_preserve k ms : forall v v',
  forallb (fun m => layout_preserving_op k (fst (fst m))) ms = true ->
  bytes_ok v = true -> required_size k v = Ok (blen v) -> run_muts k ms v = Ok v' ->
  required_size k v' = Ok (blen v') /\ blen v' = blen v /\ bytes_ok v' = true.
Proof.
  induction ms as [|[[id arg] val] r IH]; intros v v' Hall Hok Hv H; cbn [run_muts] in H.
  - inversion H; subst. auto.
  - cbn [forallb fst] in Hall. apply Bool.andb_true_iff in Hall. destruct Hall as [Hop Hall].
    inv_bind H.
    pose proof (run_mut_preserves_required_size k id arg val v a Hop Hok Hv E) as P.
    pose proof (run_mut_length k id arg val v a E) as L. apply blen_length in L.
    pose proof (run_mut_ok k id arg val v a Hop Hok E) as O.
    assert (Hva : required_size k a = Ok (blen a)) by (rewrite P, L; exact Hv).
    destruct (IH a v' Hall O Hva H) as (R1 & R2 & R3). refine (conj R1 (conj _ R3)). lia.
Qed.
