(** SCMP messages: decode (encode m) = canon m (the quote of an error message cut to the
    1232-byte budget), for all ten kinds. *)
From Coq Require Import Lia ZifyBool ZifyNat ZifyN.
From Sci Require Import Wire.Codec Wire.Spec_C03 Wire.BitFieldProofs Wire.Proofs_C03 Wire.RoundTripProofs Wire.ChecksumProofs
  Wire.ChecksumVerify Wire.LengthProofs Wire.EncodeLengthProofs Wire.AddrRoundTrip Wire.HeaderRoundTrip Wire.StdPathRoundTrip.
Local Open Scope N_scope.
Ltac Zify.zify_post_hook ::= Z.div_mod_to_equations.
Arguments N.add : simpl never. Arguments N.sub : simpl never. Arguments N.mul : simpl never.
Arguments N.div : simpl never. Arguments N.modulo : simpl never. Arguments N.pow : simpl never.
Arguments N.ltb : simpl never. Arguments N.leb : simpl never. Arguments N.eqb : simpl never. Arguments N.min : simpl never.
Ltac closed_le := apply N.leb_le; vm_compute; reflexivity.

Lemma lane_write_sub_above b r v lo2 hi2 : byte_hi r <= blen b -> byte_hi r <= lo2 ->
  sub (lane_write b r v) lo2 hi2 = sub b lo2 hi2.
Proof.
  intros Hb H. destruct (lane_write_shape b r v Hb) as (x & Lx & ->).
  assert (Hlo : byte_lo r <= byte_hi r) by (unfold byte_lo, byte_hi, r_end, r_start; lia).
  assert (Lp : blen (firstn (N.to_nat (byte_lo r)) b) = byte_lo r) by (unfold blen in *; rewrite firstn_length; lia).
  assert (Lxx : blen x = byte_hi r - byte_lo r) by (unfold blen; lia).
  rewrite sub_above by (rewrite Lp, Lxx; lia). rewrite Lp, Lxx.
  unfold sub. rewrite skipn_skipn'. f_equal; [lia|]. f_equal. lia.
Qed.

Lemma firstn_min_len {A} (l : list A) k : firstn (Nat.min (length l) k) l = firstn k l.
Proof.
  destruct (Nat.le_ge_cases (length l) k) as [H|H].
  - rewrite Nat.min_l by exact H. rewrite firstn_all. symmetry. apply firstn_all2. exact H.
  - rewrite Nat.min_r by exact H. reflexivity.
Qed.

Section Scmp.
Variable h : pkt_hdr.
Variable m : scmp_msg.
Variable hs : N.
Variables alh al : bool.
Hypothesis Wm : scmp_wf m = true.
Hypothesis Vm : payload_wire_valid (PL_Scmp m) = true.

Let ty := scmp_type_of m.
Let hdr := scmp_header_size ty.
Let n := scmp_size m hs.
Let body := encode_scmp_body m hs (zeros n).
Let c := l4_checksum h PROTO_SCMP (sub body 0 n) alh al.
Let final := w ScmpMessage_CHECKSUM_RNG c body.

Lemma scmp_final_is : encode_payload h (PL_Scmp m) hs alh al (zeros n) = final.
Proof. reflexivity. Qed.

Lemma scmp_hdr_facts : hdr <= n /\ 8 <= hdr /\ (forall x, In x (scmp_hdr_fields m) -> byte_hi (fst x) <= hdr)
  /\ (match m with SM_Unknown _ _ _ => hdr = 8 /\ scmp_fixed_size ty = false /\ scmp_is_known ty = false | _ => scmp_is_known ty = true end).
Proof.
  unfold hdr, ty, n. destruct m; cbn [payload_wire_valid scmp_type_of] in *; cbn [scmp_type_of scmp_size scmp_hdr_fields];
    try (refine (conj _ (conj _ (conj _ eq_refl)));
         [ first [ (unfold scmp_error_size; cbn [scmp_type_of]; lia) | (vm_compute; discriminate) | (unfold scmp_header_size; cbn; lia) | idtac ]
         | vm_compute; discriminate
         | intros x Hx; cbn [In] in Hx; repeat (destruct Hx as [Hx|Hx]; [subst x; closed_le|]); destruct Hx ]).
  - change (scmp_header_size SCMP_T_EchoRequest) with 8. unfold ScmpEchoRequest_HEADER_SIZE_BYTES. lia.
  - change (scmp_header_size SCMP_T_EchoReply) with 8. unfold ScmpEchoReply_HEADER_SIZE_BYTES. lia.
  - apply Bool.negb_true_iff in Vm. destruct (scmp_header_size_unknown _ Vm) as [E8 Ef]. rewrite E8.
    refine (conj _ (conj _ (conj _ (conj eq_refl (conj Ef Vm))))); [unfold ScmpUnknownMessage_HEADER_SIZE_BYTES; lia|lia|].
    intros x Hx. cbn [In] in Hx. repeat (destruct Hx as [Hx|Hx]; [subst x; closed_le|]). destruct Hx.
Qed.

Lemma scmp_b2_blen :
  blen (match m with
        | SM_Unknown _ _ _ => put (byte_hi ScmpUnknownMessage_CHECKSUM_RNG) (zeros (hdr - byte_hi ScmpUnknownMessage_CHECKSUM_RNG))
                                (fold_left (fun b f => w (fst f) (snd f) b) (scmp_hdr_fields m) (w ScmpMessage_TYPE_RNG ty (zeros n)))
        | _ => fold_left (fun b f => w (fst f) (snd f) b) (scmp_hdr_fields m) (w ScmpMessage_TYPE_RNG ty (zeros n))
        end) = n.
Proof.
  destruct scmp_hdr_facts as (Hn & H8 & Hf & Hu). destruct (zeros_ok n) as [_ Zlen].
  change (fold_left (fun b f => w (fst f) (snd f) b) (scmp_hdr_fields m) (w ScmpMessage_TYPE_RNG ty (zeros n)))
    with (apply_writes ((ScmpMessage_TYPE_RNG, ty) :: scmp_hdr_fields m) (zeros n)).
  assert (L1 : blen (apply_writes ((ScmpMessage_TYPE_RNG, ty) :: scmp_hdr_fields m) (zeros n)) = n).
  { rewrite apply_writes_blen; [exact Zlen|]. intros x [<-|Hx]; rewrite Zlen.
    - cbn [fst]. change (byte_hi ScmpMessage_TYPE_RNG) with 1. (eapply N.le_trans; [|exact Hn]); (eapply N.le_trans; [|exact H8]); closed_le.
    - eapply N.le_trans; [exact (Hf x Hx)|exact Hn]. }
  destruct m; try exact L1.
  destruct Hu as (Hu8 & _ & _). destruct (zeros_ok (hdr - byte_hi ScmpUnknownMessage_CHECKSUM_RNG)) as [_ Zl].
  rewrite put_blen; [exact L1|]. rewrite Zl, L1, Hu8. change (byte_hi ScmpUnknownMessage_CHECKSUM_RNG) with 4.
  eapply N.le_trans; [|exact Hn]. rewrite Hu8. closed_le.
Qed.

(** the encoded message: size, acceptance, field reads, tail *)
Lemma scmp_final_facts :
  bytes_ok final = true /\ blen final = n
  /\ (forall r v bits, In (r, v) ((ScmpMessage_TYPE_RNG, ty) :: scmp_hdr_fields m) ->
        rng_disjoint ScmpMessage_CHECKSUM_RNG r = true -> size_bytes r <= LANE_BYTES -> v < 2 ^ r_width r -> r_width r <= bits ->
        rd final r bits = Ok v)
  /\ sub final hdr n = (if scmp_fixed_size ty then sub final hdr n else firstn (N.to_nat (n - hdr)) (scmp_quote m)).
Proof.
  destruct scmp_hdr_facts as (Hn & H8 & Hf & Hu).
  destruct (zeros_ok n) as [Zok Zlen].
  destruct (scmp_body_props m hs (zeros n) Wm Vm Zok Zlen) as [Okb Zc]. fold body in Okb, Zc.
  destruct (scmp_body_blen m hs (zeros n) Vm Zlen) as [Lb B4]. fold body in Lb. rewrite Zlen in Lb, B4.
  assert (Hc4 : byte_hi ScmpMessage_CHECKSUM_RNG <= blen body) by (rewrite Lb; change (byte_hi ScmpMessage_CHECKSUM_RNG) with 4; lia).
  destruct (lane_write_value body ScmpMessage_CHECKSUM_RNG c Okb Hc4) as (_ & _ & _ & _ & _ & Okf & Lf).
  change (lane_write body ScmpMessage_CHECKSUM_RNG c) with final in Okf, Lf. rewrite Lb in Lf.
  refine (conj Okf (conj Lf (conj _ _))).
  - (* field reads *)
    intros r v bits Hin Hdis Hsz Hv Hbits.
    assert (Hr : byte_hi r <= hdr).
    { destruct Hin as [E|Hin]; [inversion E; subst r; change (byte_hi ScmpMessage_TYPE_RNG) with 1; lia|apply (Hf (r, v) Hin)]. }
    unfold rd. rewrite Lf.
    destruct (size_bytes r <=? LANE_BYTES) eqn:A; [|apply N.leb_gt in A; lia]. cbn [negb].
    destruct (byte_hi r <=? n) eqn:B; [|apply N.leb_gt in B; lia]. cbn [negb]. f_equal.
    unfold final, w. rewrite read_write_disjoint_lemma; [|exact Okb|exact Hc4|rewrite Lb; lia|exact Hdis].
    (* through the puts of [encode_scmp_body] *)
    unfold body, encode_scmp_body. fold ty hdr n.
    change (fold_left (fun b f => w (fst f) (snd f) b) (scmp_hdr_fields m) (w ScmpMessage_TYPE_RNG ty (zeros n)))
      with (apply_writes ((ScmpMessage_TYPE_RNG, ty) :: scmp_hdr_fields m) (zeros n)).
    destruct (scmp_writes_disjoint m) as [Hd _]. fold ty in Hd.
    assert (Hhi : forall x, In x ((ScmpMessage_TYPE_RNG, ty) :: scmp_hdr_fields m) -> byte_hi (fst x) <= blen (zeros n)).
    { intros x [<-|Hx]; [cbn [fst]; rewrite Zlen; change (byte_hi ScmpMessage_TYPE_RNG) with 1; (eapply N.le_trans; [|exact Hn]); (eapply N.le_trans; [|exact H8]); closed_le|].
      specialize (Hf x Hx). rewrite Zlen. eapply N.le_trans; [exact Hf|exact Hn]. }
    destruct (apply_writes_spec _ (zeros n) Zok Hhi Hd) as (Ok1 & Len1 & Rd & _).
    pose proof (Rd (r, v) Hin) as R. cbn [fst snd] in R. rewrite N.mod_small in R by exact Hv.
    set (b1 := apply_writes ((ScmpMessage_TYPE_RNG, ty) :: scmp_hdr_fields m) (zeros n)) in *.
    rewrite Zlen in Len1.
    assert (Rb2 : forall b2, b2 = match m with SM_Unknown _ _ _ => put (byte_hi ScmpUnknownMessage_CHECKSUM_RNG) (zeros (hdr - byte_hi ScmpUnknownMessage_CHECKSUM_RNG)) b1 | _ => b1 end ->
                  lane_read b2 r = v /\ blen b2 = n).
    { intros b2 ->. destruct m; try (split; [exact R|exact Len1]).
      destruct Hu as (Hu8 & _ & _). destruct (zeros_ok (hdr - byte_hi ScmpUnknownMessage_CHECKSUM_RNG)) as [_ Zl].
      split.
      - rewrite put_read_below; [exact R| |rewrite Len1; change (byte_hi ScmpUnknownMessage_CHECKSUM_RNG) with 4; lia].
        cbn [In scmp_hdr_fields] in Hin. destruct Hin as [E|[E|[E|[]]]]; inversion E; subst r; closed_le.
      - rewrite put_blen; [exact Len1|]. rewrite Zl, Len1, Hu8. change (byte_hi ScmpUnknownMessage_CHECKSUM_RNG) with 4. lia. }
    destruct (Rb2 _ eq_refl) as [R2 L2].
    assert (Tv : trunc bits v = v).
    { apply trunc_id. eapply N.lt_le_trans; [exact Hv|]. apply N.pow_le_mono_r; [discriminate|exact Hbits]. }
    destruct (scmp_fixed_size ty); [rewrite R2; exact Tv|].
    rewrite put_read_below; [rewrite R2; exact Tv|exact Hr|rewrite L2; exact Hn].
  - (* tail *)
    destruct (scmp_fixed_size ty) eqn:Fx; [reflexivity|].
    unfold final, w. rewrite lane_write_sub_above by (first [exact Hc4|(change (byte_hi ScmpMessage_CHECKSUM_RNG) with 4; lia)]).
    unfold body, encode_scmp_body. fold ty hdr n. rewrite Fx.
    set (b2 := match m with SM_Unknown _ _ _ => _ | _ => _ end).
    assert (L2 : blen b2 = n) by (exact scmp_b2_blen).
    set (q := firstn (N.to_nat (n - hdr)) (scmp_quote m)).
    assert (Lq : blen q = n - hdr).
    { unfold q, blen. rewrite firstn_length.
      assert (n - hdr <= blen (scmp_quote m)).
      { unfold n, hdr, ty. destruct m; cbn [scmp_size scmp_quote scmp_type_of] in *; unfold scmp_error_size; cbn [scmp_type_of];
          try (unfold scmp_fixed_size in Fx; cbn in Fx; discriminate Fx); try lia.
        - change (scmp_header_size SCMP_T_EchoRequest) with 8. unfold ScmpEchoRequest_HEADER_SIZE_BYTES. lia.
        - change (scmp_header_size SCMP_T_EchoReply) with 8. unfold ScmpEchoReply_HEADER_SIZE_BYTES. lia.
        - destruct Hu as (Hu8 & _ & _). unfold hdr, ty in Hu8. cbn [scmp_type_of] in Hu8. rewrite Hu8. unfold ScmpUnknownMessage_HEADER_SIZE_BYTES. lia. }
      unfold blen in *. lia. }
    assert (En : hdr + blen q = n) by (rewrite Lq; clear - Hn; lia).
    rewrite <- En. apply put_sub_exact. rewrite L2, <- En. apply N.le_refl.
Qed.
End Scmp.

Ltac eval_closed_eqb :=
  repeat match goal with
  | |- context [N.eqb ?a ?b] =>
    let v := eval vm_compute in (N.eqb a b) in
    match v with true => change (N.eqb a b) with true | false => change (N.eqb a b) with false end
  end.

Lemma scmp_tail_eval ty (v : bytes) : scmp_header_size ty <= blen v ->
  scmp_tail_range ty v = Ok (scmp_header_size ty, blen v).
Proof.
  intros H. unfold scmp_tail_range.
  assert (E : byte_lo (scmp_header_size ty * 8, (blen v - scmp_header_size ty) * 8) = scmp_header_size ty
              /\ byte_hi (scmp_header_size ty * 8, (blen v - scmp_header_size ty) * 8) = blen v).
  { unfold byte_lo, byte_hi, r_end, r_start. cbn [fst snd]. split; lia. }
  destruct E as [-> ->]. unfold index_range.
  destruct ((scmp_header_size ty <=? blen v) && (blen v <=? blen v)) eqn:C; [reflexivity|].
  apply Bool.andb_false_iff in C. destruct C as [C|C]; apply N.leb_gt in C; lia.
Qed.

Lemma canon_cut (q : bytes) hdr hs :
  firstn (N.to_nat (scmp_error_size hdr (blen q) hs - hdr)) q = firstn (N.to_nat ((1232 - hs) - hdr)) q.
Proof.
  unfold scmp_error_size, SCMP_BUDGET, SCMP_ERROR_MAX_PACKET_SIZE.
  replace (N.to_nat (hdr + N.min (blen q) (1232 - hs - hdr) - hdr)) with (Nat.min (length q) (N.to_nat (1232 - hs - hdr))) by (unfold blen; lia).
  apply firstn_min_len.
Qed.

(** decode (encode m) = canon m; the encoded message is accepted with exactly its size *)
Lemma scmp_roundtrip h m hs alh al : scmp_wf m = true -> payload_wire_valid (PL_Scmp m) = true ->
  let final := encode_payload h (PL_Scmp m) hs alh al (zeros (scmp_size m hs)) in
  required_size_scmp final = Ok (blen final) /\ blen final = scmp_size m hs
  /\ decode_scmp final = Ok (PL_Scmp (canon_scmp m hs)).
Proof.
  intros W V final.
  destruct (scmp_hdr_facts h m hs alh al W V) as (Hn & H8 & Hf & Hu).
  destruct (scmp_final_facts h m hs alh al W V) as (Okf & Lf & RF & Tl).
  rewrite <- (scmp_final_is h m hs alh al) in Okf, Lf, RF, Tl. fold final in Okf, Lf, RF, Tl.
  set (ty := scmp_type_of m) in *. set (hdr := scmp_header_size ty) in *. set (n := scmp_size m hs) in *.
  assert (Ty256 : ty < 256).
  { unfold ty. destruct m; cbn [scmp_type_of]; try (vm_compute; reflexivity).
    cbn [scmp_wf] in W. apply Bool.andb_true_iff in W. destruct W as [W _]. apply Bool.andb_true_iff in W. destruct W as [W _].
    apply N.ltb_lt in W. exact W. }
  assert (Rty : scmp_type final = Ok ty).
  { unfold scmp_type. change ScmpUnknownMessage_TYPE_RNG with ScmpMessage_TYPE_RNG.
    apply RF; [left; reflexivity|vm_compute; reflexivity|closed_le|change (2 ^ r_width ScmpMessage_TYPE_RNG) with 256; exact Ty256|closed_le]. }
  assert (Etail : scmp_tail_range ty final = Ok (hdr, n)).
  { rewrite scmp_tail_eval by (rewrite Lf; exact Hn). rewrite Lf. reflexivity. }
  refine (conj _ (conj Lf _)).
  - (* accepted *)
    unfold required_size_scmp, required_size_scmp_msg at 1. rewrite Lf.
    change (scmp_header_size 256) with 8. change (scmp_fixed_size 256) with false. cbn iota.
    destruct (n <? 8) eqn:C; [apply N.ltb_lt in C; lia|].
    rewrite get_unchecked_ok' by (rewrite Lf; split; lia). cbn [obind]. rewrite <- Lf at 1. rewrite sub_full.
    fold (scmp_type final). rewrite Rty. cbn [obind].
    unfold required_size_scmp_msg. rewrite Lf. fold hdr.
    destruct (n <? hdr) eqn:C2; [apply N.ltb_lt in C2; lia|]. f_equal.
    destruct (scmp_fixed_size ty) eqn:Fx; [|reflexivity].
    unfold n, hdr, ty in *. destruct m; cbn [scmp_type_of scmp_size] in *; try (vm_compute in Fx; discriminate Fx); try reflexivity.
    destruct Hu as (_ & Hu & _). cbn [scmp_type_of] in Hu. rewrite Hu in Fx. discriminate.
  - (* decoded *)
    unfold decode_scmp. rewrite Rty. cbn [obind]. rewrite Etail. cbn [obind fst snd].
    unfold scmp_code. 
    destruct m as [cd q|mtu q|cd ptr q|ia ifid q|ia ing eg q|id sq d|id sq d|id sq|id sq ia ifid|t cd d];
      cbn [scmp_wf] in W; repeat (apply Bool.andb_true_iff in W; let X := fresh "W" in destruct W as [W X]);
      repeat match goal with X : (_ <? _) = true |- _ => apply N.ltb_lt in X end;
      unfold ty in *; cbn [scmp_type_of canon_scmp scmp_quote scmp_hdr_fields] in *.
    all: try (eval_closed_eqb; cbn iota).
    + (* destination unreachable *)
      change ScmpUnknownMessage_CODE_RNG with ScmpDestinationUnreachable_CODE_RNG.
      rewrite (RF ScmpDestinationUnreachable_CODE_RNG cd 8 ltac:(cbn [In]; tauto) ltac:(vm_compute; reflexivity) ltac:(closed_le) ltac:(change (2 ^ r_width ScmpDestinationUnreachable_CODE_RNG) with 256; assumption) ltac:(closed_le)).
      cbn [obind]. rewrite Tl. change (scmp_fixed_size SCMP_T_DestinationUnreachable) with false. cbn iota.
      unfold n, hdr. cbn [scmp_size scmp_type_of]. rewrite canon_cut. reflexivity.
    + rewrite (RF ScmpPacketTooBig_MTU_RNG mtu 16 ltac:(cbn [In]; tauto) ltac:(vm_compute; reflexivity) ltac:(closed_le) ltac:(change (2 ^ r_width ScmpPacketTooBig_MTU_RNG) with 65536; assumption) ltac:(closed_le)).
      cbn [obind]. rewrite Tl. change (scmp_fixed_size SCMP_T_PacketTooBig) with false. cbn iota.
      unfold n, hdr. cbn [scmp_size scmp_type_of]. rewrite canon_cut. reflexivity.
    + change ScmpUnknownMessage_CODE_RNG with ScmpParameterProblem_CODE_RNG.
      rewrite (RF ScmpParameterProblem_CODE_RNG cd 8 ltac:(cbn [In]; tauto) ltac:(vm_compute; reflexivity) ltac:(closed_le) ltac:(change (2 ^ r_width ScmpParameterProblem_CODE_RNG) with 256; assumption) ltac:(closed_le)).
      cbn [obind].
      rewrite (RF ScmpParameterProblem_POINTER_RNG ptr 16 ltac:(cbn [In]; tauto) ltac:(vm_compute; reflexivity) ltac:(closed_le) ltac:(change (2 ^ r_width ScmpParameterProblem_POINTER_RNG) with 65536; assumption) ltac:(closed_le)).
      cbn [obind]. rewrite Tl. change (scmp_fixed_size SCMP_T_ParameterProblem) with false. cbn iota.
      unfold n, hdr. cbn [scmp_size scmp_type_of]. rewrite canon_cut. reflexivity.
    + rewrite (RF ScmpExternalInterfaceDown_ISD_AS_RNG ia 64 ltac:(cbn [In]; tauto) ltac:(vm_compute; reflexivity) ltac:(closed_le) ltac:(change (r_width ScmpExternalInterfaceDown_ISD_AS_RNG) with 64; assumption) ltac:(closed_le)).
      cbn [obind].
      rewrite (RF ScmpExternalInterfaceDown_INTERFACE_ID_RNG ifid 64 ltac:(cbn [In]; tauto) ltac:(vm_compute; reflexivity) ltac:(closed_le) ltac:(change (2 ^ r_width ScmpExternalInterfaceDown_INTERFACE_ID_RNG) with 18446744073709551616; lia) ltac:(closed_le)).
      cbn [obind]. rewrite Tl. change (scmp_fixed_size SCMP_T_ExternalInterfaceDown) with false. cbn iota.
      rewrite (trunc_id 16 ifid) by (change (2 ^ 16) with 65536; assumption).
      unfold n, hdr. cbn [scmp_size scmp_type_of]. rewrite canon_cut. reflexivity.
    + rewrite (RF ScmpInternalConnectivityDown_ISD_AS_RNG ia 64 ltac:(cbn [In]; tauto) ltac:(vm_compute; reflexivity) ltac:(closed_le) ltac:(change (r_width ScmpInternalConnectivityDown_ISD_AS_RNG) with 64; assumption) ltac:(closed_le)).
      cbn [obind].
      rewrite (RF ScmpInternalConnectivityDown_INGRESS_INTERFACE_ID_RNG ing 64 ltac:(cbn [In]; tauto) ltac:(vm_compute; reflexivity) ltac:(closed_le) ltac:(change (2 ^ r_width ScmpInternalConnectivityDown_INGRESS_INTERFACE_ID_RNG) with 18446744073709551616; lia) ltac:(closed_le)).
      cbn [obind].
      rewrite (RF ScmpInternalConnectivityDown_EGRESS_INTERFACE_ID_RNG eg 64 ltac:(cbn [In]; tauto) ltac:(vm_compute; reflexivity) ltac:(closed_le) ltac:(change (2 ^ r_width ScmpInternalConnectivityDown_EGRESS_INTERFACE_ID_RNG) with 18446744073709551616; lia) ltac:(closed_le)).
      cbn [obind]. rewrite Tl. change (scmp_fixed_size SCMP_T_InternalConnectivityDown) with false. cbn iota.
      rewrite (trunc_id 16 ing), (trunc_id 16 eg) by (change (2 ^ 16) with 65536; assumption).
      unfold n, hdr. cbn [scmp_size scmp_type_of]. rewrite canon_cut. reflexivity.
    + rewrite (RF ScmpEchoRequest_IDENTIFIER_RNG id 16 ltac:(cbn [In]; tauto) ltac:(vm_compute; reflexivity) ltac:(closed_le) ltac:(change (2 ^ r_width ScmpEchoRequest_IDENTIFIER_RNG) with 65536; assumption) ltac:(closed_le)).
      cbn [obind].
      rewrite (RF ScmpEchoRequest_SEQUENCE_NUMBER_RNG sq 16 ltac:(cbn [In]; tauto) ltac:(vm_compute; reflexivity) ltac:(closed_le) ltac:(change (2 ^ r_width ScmpEchoRequest_SEQUENCE_NUMBER_RNG) with 65536; assumption) ltac:(closed_le)).
      cbn [obind]. rewrite Tl. change (scmp_fixed_size SCMP_T_EchoRequest) with false. cbn iota.
      unfold n, hdr. cbn [scmp_size scmp_type_of]. change (scmp_header_size SCMP_T_EchoRequest) with 8. unfold ScmpEchoRequest_HEADER_SIZE_BYTES.
      replace (N.to_nat (blen d + 8 - 8)) with (length d) by (unfold blen; lia). rewrite firstn_all. reflexivity.
    + rewrite (RF ScmpEchoReply_IDENTIFIER_RNG id 16 ltac:(cbn [In]; tauto) ltac:(vm_compute; reflexivity) ltac:(closed_le) ltac:(change (2 ^ r_width ScmpEchoReply_IDENTIFIER_RNG) with 65536; assumption) ltac:(closed_le)).
      cbn [obind].
      rewrite (RF ScmpEchoReply_SEQUENCE_NUMBER_RNG sq 16 ltac:(cbn [In]; tauto) ltac:(vm_compute; reflexivity) ltac:(closed_le) ltac:(change (2 ^ r_width ScmpEchoReply_SEQUENCE_NUMBER_RNG) with 65536; assumption) ltac:(closed_le)).
      cbn [obind]. rewrite Tl. change (scmp_fixed_size SCMP_T_EchoReply) with false. cbn iota.
      unfold n, hdr. cbn [scmp_size scmp_type_of]. change (scmp_header_size SCMP_T_EchoReply) with 8. unfold ScmpEchoReply_HEADER_SIZE_BYTES.
      replace (N.to_nat (blen d + 8 - 8)) with (length d) by (unfold blen; lia). rewrite firstn_all. reflexivity.
    + rewrite (RF ScmpTracerouteRequest_IDENTIFIER_RNG id 16 ltac:(cbn [In]; tauto) ltac:(vm_compute; reflexivity) ltac:(closed_le) ltac:(change (2 ^ r_width ScmpTracerouteRequest_IDENTIFIER_RNG) with 65536; assumption) ltac:(closed_le)).
      cbn [obind].
      rewrite (RF ScmpTracerouteRequest_SEQUENCE_NUMBER_RNG sq 16 ltac:(cbn [In]; tauto) ltac:(vm_compute; reflexivity) ltac:(closed_le) ltac:(change (2 ^ r_width ScmpTracerouteRequest_SEQUENCE_NUMBER_RNG) with 65536; assumption) ltac:(closed_le)).
      reflexivity.
    + rewrite (RF ScmpTracerouteReply_IDENTIFIER_RNG id 16 ltac:(cbn [In]; tauto) ltac:(vm_compute; reflexivity) ltac:(closed_le) ltac:(change (2 ^ r_width ScmpTracerouteReply_IDENTIFIER_RNG) with 65536; assumption) ltac:(closed_le)).
      cbn [obind].
      rewrite (RF ScmpTracerouteReply_SEQUENCE_NUMBER_RNG sq 16 ltac:(cbn [In]; tauto) ltac:(vm_compute; reflexivity) ltac:(closed_le) ltac:(change (2 ^ r_width ScmpTracerouteReply_SEQUENCE_NUMBER_RNG) with 65536; assumption) ltac:(closed_le)).
      cbn [obind].
      rewrite (RF ScmpTracerouteReply_ISD_AS_RNG ia 64 ltac:(cbn [In]; tauto) ltac:(vm_compute; reflexivity) ltac:(closed_le) ltac:(change (r_width ScmpTracerouteReply_ISD_AS_RNG) with 64; assumption) ltac:(closed_le)).
      cbn [obind].
      rewrite (RF ScmpTracerouteReply_INTERFACE_ID_RNG ifid 64 ltac:(cbn [In]; tauto) ltac:(vm_compute; reflexivity) ltac:(closed_le) ltac:(change (2 ^ r_width ScmpTracerouteReply_INTERFACE_ID_RNG) with 18446744073709551616; lia) ltac:(closed_le)).
      cbn [obind]. rewrite (trunc_id 16 ifid) by (change (2 ^ 16) with 65536; assumption). reflexivity.
    + (* unknown type *)
      destruct Hu as (Hu8 & Hfx & Hk). cbn [scmp_type_of] in Hk, Hfx.
      unfold scmp_is_known, scmp_type_known in Hk. cbn [existsb] in Hk.
      repeat (apply Bool.orb_false_iff in Hk; let X := fresh "K" in destruct Hk as [X Hk]).
      unfold SCMP_T_DestinationUnreachable, SCMP_T_PacketTooBig, SCMP_T_ParameterProblem, SCMP_T_ExternalInterfaceDown,
        SCMP_T_InternalConnectivityDown, SCMP_T_EchoRequest, SCMP_T_EchoReply, SCMP_T_TracerouteRequest, SCMP_T_TracerouteReply.
      rewrite K, K0, K1, K2, K3, K4, K5, K6, K7. cbn iota.
      rewrite (RF ScmpUnknownMessage_CODE_RNG cd 8 ltac:(cbn [In]; tauto) ltac:(vm_compute; reflexivity) ltac:(closed_le) ltac:(change (2 ^ r_width ScmpUnknownMessage_CODE_RNG) with 256; assumption) ltac:(closed_le)).
      cbn [obind]. rewrite Tl. rewrite Hfx.
      unfold n, hdr. cbn [scmp_size scmp_type_of]. cbn [scmp_type_of] in Hu8. unfold hdr in Hu8. rewrite Hu8. unfold ScmpUnknownMessage_HEADER_SIZE_BYTES.
      replace (N.to_nat (blen d + 8 - 8)) with (length d) by (unfold blen; lia). rewrite firstn_all. reflexivity.
Qed.
