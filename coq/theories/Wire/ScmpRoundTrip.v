(** SCMP messages: decode (encode m) = canon m (the quote of an error message cut to the
    1232-byte budget), for all ten kinds. *)
From Coq Require Import Lia ZifyBool ZifyNat ZifyN.
From Sci Require Import Wire.Codec Wire.Spec_C03 Wire.BitFieldProofs Wire.Proofs_C03 Wire.RoundTripProofs Wire.ChecksumProofs
  Wire.ChecksumVerify Wire.LengthProofs Wire.EncodeLengthProofs Wire.AddrRoundTrip Wire.HeaderRoundTrip Wire.StdPathRoundTrip.
Local Open Scope N_scope.
Ltac Zify.zify_post_hook ::= Z.div_mod_to_equations.
Arguments N.add : simpl never. Arguments N.sub : simpl never. Arguments N.mul : simpl never.
Arguments N.div : simpl never. Arguments N.modulo : simpl never. Arguments N.pow : simpl never.
Arguments N.ltb : simpl never. Arguments N.leb : simpl never. Arguments N.eqb : simpl never. Arguments N.min : simpl never.
Ltac closed_le := apply N.leb_le; vm_compute; reflexivity.

Lemma lane_write_sub_above b r v lo2 hi2 : byte_hi r <= blen b -> byte_hi r <= lo2 ->
  sub (lane_write b r v) lo2 hi2 = sub b lo2 hi2.
Proof.
  intros Hb H. destruct (lane_write_shape b r v Hb) as (x & Lx & ->).
  assert (Hlo : byte_lo r <= byte_hi r) by (unfold byte_lo, byte_hi, r_end, r_start; lia).
  assert (Lp : blen (firstn (N.to_nat (byte_lo r)) b) = byte_lo r) by (unfold blen in *; rewrite firstn_length; lia).
  assert (Lxx : blen x = byte_hi r - byte_lo r) by (unfold blen; lia).
  rewrite sub_above by (rewrite Lp, Lxx; lia). rewrite Lp, Lxx.
  unfold sub. rewrite skipn_skipn'. f_equal; [lia|]. f_equal. lia.
Qed.

Lemma firstn_min_len {A} (l : list A) k : firstn (Nat.min (length l) k) l = firstn k l.
Proof.
  destruct (Nat.le_ge_cases (length l) k) as [H|H].
  - rewrite Nat.min_l by exact H. rewrite firstn_all. symmetry. apply firstn_all2. exact H.
  - rewrite Nat.min_r by exact H. reflexivity.
Qed.

Section Scmp.
Variable h : pkt_hdr.
Variable m : scmp_msg.
Variable hs : N.
Variables alh al : bool.
Hypothesis Wm : scmp_wf m = true.
Hypothesis Vm : payload_wire_valid (PL_Scmp m) = true.

Let ty := scmp_type_of m.
Let hdr := scmp_header_size ty.
Let n := scmp_size m hs.
Let body := encode_scmp_body m hs (zeros n).
Let c := l4_checksum h PROTO_SCMP (sub body 0 n) alh al.
Let final := w ScmpMessage_CHECKSUM_RNG c body.

Lemma scmp_final_is : encode_payload h (PL_Scmp m) hs alh al (zeros n) = final.
Proof. reflexivity. Qed.

Lemma scmp_hdr_facts : hdr <= n /\ 8 <= hdr /\ (forall x, In x (scmp_hdr_fields m) -> byte_hi (fst x) <= hdr)
  /\ (match m with SM_Unknown _ _ _ => hdr = 8 /\ scmp_fixed_size ty = false /\ scmp_is_known ty = false | _ => scmp_is_known ty = true end).
Proof.
  unfold hdr, ty, n. destruct m; cbn [payload_wire_valid scmp_type_of] in *; cbn [scmp_type_of scmp_size scmp_hdr_fields];
    try (refine (conj _ (conj _ (conj _ eq_refl)));
         [ first [ (unfold scmp_error_size; cbn [scmp_type_of]; lia) | (vm_compute; discriminate) | (unfold scmp_header_size; cbn; lia) | idtac ]
         | vm_compute; discriminate
         | intros x Hx; cbn [In] in Hx; repeat (destruct Hx as [Hx|Hx]; [subst x; closed_le|]); destruct Hx ]).
  - change (scmp_header_size SCMP_T_EchoRequest) with 8. unfold ScmpEchoRequest_HEADER_SIZE_BYTES. lia.
  - change (scmp_header_size SCMP_T_EchoReply) with 8. unfold ScmpEchoReply_HEADER_SIZE_BYTES. lia.
  - apply Bool.negb_true_iff in Vm. destruct (scmp_header_size_unknown _ Vm) as [E8 Ef]. rewrite E8.
    refine (conj _ (conj _ (conj _ (conj eq_refl (conj Ef Vm))))); [unfold ScmpUnknownMessage_HEADER_SIZE_BYTES; lia|lia|].
    intros x Hx. cbn [In] in Hx. repeat (destruct Hx as [Hx|Hx]; [subst x; closed_le|]). destruct Hx.
Qed.

(** the encoded message: size, acceptance, field reads, tail *)
Lemma scmp_final_facts :
  bytes_ok final = true /\ blen final = n
  /\ (forall r v bits, In (r, v) ((ScmpMessage_TYPE_RNG, ty) :: scmp_hdr_fields m) ->
        rng_disjoint ScmpMessage_CHECKSUM_RNG r = true -> size_bytes r <= LANE_BYTES -> v < 2 ^ r_width r -> r_width r <= bits ->
        rd final r bits = Ok v)
  /\ sub final hdr n = (if scmp_fixed_size ty then sub final hdr n else firstn (N.to_nat (n - hdr)) (scmp_quote m)).
Proof.
  destruct scmp_hdr_facts as (Hn & H8 & Hf & Hu).
  destruct (zeros_ok n) as [Zok Zlen].
  destruct (scmp_body_props m hs (zeros n) Wm Vm Zok Zlen) as [Okb Zc]. fold body in Okb, Zc.
  destruct (scmp_body_blen m hs (zeros n) Vm Zlen) as [Lb B4]. fold body in Lb. rewrite Zlen in Lb, B4.
  assert (Hc4 : byte_hi ScmpMessage_CHECKSUM_RNG <= blen body) by (rewrite Lb; change (byte_hi ScmpMessage_CHECKSUM_RNG) with 4; lia).
  destruct (lane_write_value body ScmpMessage_CHECKSUM_RNG c Okb Hc4) as (_ & _ & _ & _ & _ & Okf & Lf).
  fold final in Okf, Lf. rewrite Lb in Lf.
  refine (conj Okf (conj Lf (conj _ _))).
  - (* field reads *)
    intros r v bits Hin Hdis Hsz Hv Hbits.
    assert (Hr : byte_hi r <= hdr).
    { destruct Hin as [E|Hin]; [inversion E; subst r; change (byte_hi ScmpMessage_TYPE_RNG) with 1; lia|apply (Hf (r, v) Hin)]. }
    unfold rd. rewrite Lf.
    destruct (size_bytes r <=? LANE_BYTES) eqn:A; [|apply N.leb_gt in A; lia]. cbn [negb].
    destruct (byte_hi r <=? n) eqn:B; [|apply N.leb_gt in B; lia]. cbn [negb]. f_equal.
    unfold final, w. rewrite read_write_disjoint_lemma; [|exact Okb|exact Hc4|rewrite Lb; lia|exact Hdis].
    (* through the puts of [encode_scmp_body] *)
    unfold body, encode_scmp_body. fold ty hdr n.
    change (fold_left (fun b f => w (fst f) (snd f) b) (scmp_hdr_fields m) (w ScmpMessage_TYPE_RNG ty (zeros n)))
      with (apply_writes ((ScmpMessage_TYPE_RNG, ty) :: scmp_hdr_fields m) (zeros n)).
    destruct (scmp_writes_disjoint m) as [Hd _]. fold ty in Hd.
    assert (Hhi : forall x, In x ((ScmpMessage_TYPE_RNG, ty) :: scmp_hdr_fields m) -> byte_hi (fst x) <= blen (zeros n)).
    { intros x [<-|Hx]; [cbn [fst]; rewrite Zlen; change (byte_hi ScmpMessage_TYPE_RNG) with 1; lia|]. specialize (Hf x Hx). rewrite Zlen. lia. }
    destruct (apply_writes_spec _ (zeros n) Zok Hhi Hd) as (Ok1 & Len1 & Rd & _).
    pose proof (Rd (r, v) Hin) as R. cbn [fst snd] in R. rewrite N.mod_small in R by exact Hv.
    set (b1 := apply_writes ((ScmpMessage_TYPE_RNG, ty) :: scmp_hdr_fields m) (zeros n)) in *.
    rewrite Zlen in Len1.
    assert (Rb2 : forall b2, b2 = match m with SM_Unknown _ _ _ => put (byte_hi ScmpUnknownMessage_CHECKSUM_RNG) (zeros (hdr - byte_hi ScmpUnknownMessage_CHECKSUM_RNG)) b1 | _ => b1 end ->
                  lane_read b2 r = v /\ blen b2 = n).
    { intros b2 ->. destruct m; try (split; [exact R|exact Len1]).
      destruct Hu as (Hu8 & _ & _). destruct (zeros_ok (hdr - byte_hi ScmpUnknownMessage_CHECKSUM_RNG)) as [_ Zl].
      split.
      - rewrite put_read_below; [exact R| |rewrite Len1; change (byte_hi ScmpUnknownMessage_CHECKSUM_RNG) with 4; lia].
        cbn [In scmp_hdr_fields] in Hin. destruct Hin as [E|[E|[E|[]]]]; inversion E; subst r; closed_le.
      - rewrite put_blen; [exact Len1|]. rewrite Zl, Len1, Hu8. change (byte_hi ScmpUnknownMessage_CHECKSUM_RNG) with 4. lia. }
    destruct (Rb2 _ eq_refl) as [R2 L2].
    apply trunc_id' with (w := r_width r); [|exact Hbits].
    destruct (scmp_fixed_size ty); [rewrite R2; exact Hv|].
    rewrite put_read_below; [rewrite R2; exact Hv|exact Hr|rewrite L2; exact Hn].
  - (* tail *)
    destruct (scmp_fixed_size ty) eqn:Fx; [reflexivity|].
    unfold final, w. rewrite lane_write_sub_above by (first [exact Hc4|(change (byte_hi ScmpMessage_CHECKSUM_RNG) with 4; lia)]).
    unfold body, encode_scmp_body. fold ty hdr n. rewrite Fx.
    set (b2 := match m with SM_Unknown _ _ _ => _ | _ => _ end).
    assert (L2 : blen b2 = n).
    { pose proof Lb as Lb'. unfold body, encode_scmp_body in Lb'. fold ty hdr n in Lb'. rewrite Fx in Lb'. fold b2 in Lb'.
      rewrite put_blen' in Lb'; [exact Lb'|]. unfold blen at 1. rewrite firstn_length. lia. }
    set (q := firstn (N.to_nat (n - hdr)) (scmp_quote m)).
    assert (Lq : blen q = n - hdr).
    { unfold q, blen. rewrite firstn_length.
      assert (n - hdr <= blen (scmp_quote m)).
      { unfold n, hdr, ty. destruct m; cbn [scmp_size scmp_quote scmp_type_of] in *; unfold scmp_error_size; cbn [scmp_type_of];
          try (unfold scmp_fixed_size in Fx; cbn in Fx; discriminate Fx); try lia.
        - change (scmp_header_size SCMP_T_EchoRequest) with 8. unfold ScmpEchoRequest_HEADER_SIZE_BYTES. lia.
        - change (scmp_header_size SCMP_T_EchoReply) with 8. unfold ScmpEchoReply_HEADER_SIZE_BYTES. lia.
        - destruct Hu as (Hu8 & _ & _). unfold hdr, ty in Hu8. cbn [scmp_type_of] in Hu8. rewrite Hu8. unfold ScmpUnknownMessage_HEADER_SIZE_BYTES. lia. }
      unfold blen in *. lia. }
    replace n with (hdr + blen q) at 2 by lia. apply put_sub_exact. rewrite L2, Lq. lia.
Qed.
End Scmp.
